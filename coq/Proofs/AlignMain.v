(* The theorems of property C06 about Model/Align.v, T := R. *)
From GM Require Import Model.Restraints.
From GM Require Import Proofs.RTac Model.Aux Proofs.AuxR Model.Transform Model.Chi2 Model.MC Proofs.MCR
  Proofs.TransformComb Proofs.TransformR Model.Align Proofs.AlignBase Proofs.AlignR.
From GM Require Proofs.MC.
Import ListNotations.
Local Open Scope R_scope.

(* ------------------------------------------------------------------ vocabulary of the statements *)
(* the vector of `start.move_to(end.geometric_center)` *)
Definition displacement (start end_ : amol R) : V3 R := vsub (vmean (am_pos end_)) (vmean (am_pos start)).

(* the molecule the optimiser moves: start when it has fewer atoms, else end (ties: end) *)
Definition mobile_of {A} (start end_ : amol R) (x_start x_end : A) : A :=
  if (am_len start <? am_len end_)%nat then x_start else x_end.

(* same atoms in the same order with the same names, same residues, same bonds; only positions may differ *)
Definition same_labels (m m' : amol R) : Prop :=
  am_names m' = am_names m /\ am_resnames m' = am_resnames m /\ am_sizes m' = am_sizes m /\
  am_adj m' = am_adj m /\ length (am_pos m') = length (am_pos m).

(* every bonded pair of the graph has in q the distance it has in p *)
Definition bonded_dists_kept (adj : list (list nat)) (p q : posR) : Prop :=
  length q = length p /\
  forall i j nb, nth_error adj i = Some nb -> In j nb ->
    exists a b a' b', nth_error p i = Some a /\ nth_error p j = Some b /\
                      nth_error q i = Some a' /\ nth_error q j = Some b' /\ vdist a' b' = vdist a b.

Lemma same_labels_refl m : same_labels m m.
Proof. repeat split. Qed.

Lemma set_positions_labels (m m' : amol R) ps : set_positions m ps = Ok m' -> same_labels m m'.
Proof.
  intros E. destruct (set_positions_spec _ _ _ E) as (H0 & H1 & H2 & H3 & H4 & H5 & H6).
  repeat split; auto. unfold am_pos. rewrite !map_length. exact H6.
Qed.

Lemma same_labels_trans m1 m2 m3 : same_labels m1 m2 -> same_labels m2 m3 -> same_labels m1 m3.
Proof. intros (A1 & A2 & A3 & A4 & A5) (B1 & B2 & B3 & B4 & B5). repeat split; congruence. Qed.

Lemma am_pos_length (m : amol R) : length (am_pos m) = am_len m.
Proof. unfold am_pos, am_len. apply map_length. Qed.

(* ------------------------------------------------------------------ the shape of every successful run *)
Section Run.
Variables (sf : nat) (start end_ : amol R) (restr : option (list (Z * Z))) (deform : option (list Z))
          (ign autog : bool) (s : stream R (pdraw R (adraw R))) (fuel : nat) (r : align_result R).
Hypothesis Hrun : align_with cos sin sf start end_ restr deform ign autog s fuel = Ok r.

(* start1 = start after move_to; then either nothing else happens, or the optimiser's result is written to the
   mobile molecule and the other one is left as it is *)
Lemma run_shape :
  exists start1,
    set_positions start (translate (am_pos start) (displacement start end_)) = Ok start1 /\
    am_len start1 = am_len start /\
    ((ar_start r = start1 /\ ar_end r = end_ /\ ar_args r = None /\ ar_trace r = []) \/
     exists oc final,
       ar_args r = Some (oc_args oc) /\
       run_opt cos sin oc s fuel = (ar_trace r, Ok final) /\
       ma_mobile (oc_args oc) = am_pos (mobile_of start end_ start1 end_) /\
       bonds_distance (ma_mobile (oc_args oc)) (am_adj (mobile_of start end_ start1 end_)) = Ok (ma_table (oc_args oc)) /\
       mapM kind_of (eff_deform start end_ deform) = Ok (oc_sim oc) /\
       ma_steps (oc_args oc) = (sf * length (ma_mobile (oc_args oc)))%nat /\
       mobile_of start end_
         (set_positions start1 final = Ok (ar_start r) /\ ar_end r = end_)
         (set_positions end_ final = Ok (ar_end r) /\ ar_start r = start1)).
Proof.
  destruct (align_with_inv _ _ _ _ _ _ _ _ _ _ _ _ Hrun) as (start1 & o & Ep & Ho).
  destruct (align_prep_facts _ _ _ _ _ _ _ _ _ Ep) as [Hs1 _ Hcall].
  destruct (set_positions_spec _ _ _ Hs1) as (_ & _ & _ & _ & _ & _ & Hlen1).
  exists start1. split; [exact Hs1|]. split; [exact Hlen1|].
  destruct o as [oc|].
  - right. destruct Ho as (tr & final & Er & Hw).
    destruct (Hcall oc eq_refl) as (Hm & Htb & Hst & Hsim & _).
    unfold mobile_of. rewrite <- Hlen1.
    destruct (am_len start1 <? am_len end_)%nat eqn:Esw.
    + destruct Hw as (s2 & Es2 & ->). exists oc, final. cbn [ar_args ar_trace ar_start ar_end]. repeat split; auto.
    + destruct Hw as (e2 & Ee2 & ->). exists oc, final. cbn [ar_args ar_trace ar_start ar_end]. repeat split; auto.
  - left. subst r. repeat split.
Qed.

(* ------------------------------------------------------------------ C06_fixed_only_translated *)
Lemma fixed_only_translated :
  ((am_len start < am_len end_)%nat -> ar_end r = end_) /\
  ((am_len end_ <= am_len start)%nat ->
     set_positions start (translate (am_pos start) (displacement start end_)) = Ok (ar_start r) /\
     am_pos (ar_start r) = map (fun p => vadd p (displacement start end_)) (am_pos start)).
Proof.
  destruct run_shape as (start1 & Hs1 & Hlen1 & [(A & B & _)|(oc & final & _ & _ & _ & _ & _ & _ & Hw)]).
  - split; [intros _; exact B|]. intros _. subst start1. split; [exact Hs1|].
    destruct (set_positions_spec _ _ _ Hs1) as (_ & Hp & _). exact Hp.
  - unfold mobile_of in Hw. split.
    + intros Hlt. apply Nat.ltb_lt in Hlt. rewrite Hlt in Hw. apply Hw.
    + intros Hle. apply Nat.ltb_ge in Hle. rewrite Hle in Hw. destruct Hw as [_ ->]. split; [exact Hs1|].
      destruct (set_positions_spec _ _ _ Hs1) as (_ & Hp & _). exact Hp.
Qed.

(* ------------------------------------------------------------------ C06_order_names *)
Lemma order_names : same_labels start (ar_start r) /\ same_labels end_ (ar_end r).
Proof.
  destruct run_shape as (start1 & Hs1 & Hlen1 & [(A & B & _)|(oc & final & _ & _ & _ & _ & _ & _ & Hw)]).
  - rewrite A, B. split; [eapply set_positions_labels; eauto|apply same_labels_refl].
  - pose proof (set_positions_labels _ _ _ Hs1) as L1. unfold mobile_of in Hw.
    destruct (am_len start <? am_len end_)%nat.
    + destruct Hw as [Hs2 ->]. split; [|apply same_labels_refl].
      eapply same_labels_trans; [exact L1|eapply set_positions_labels; eauto].
    + destruct Hw as [He2 ->]. split; [exact L1|eapply set_positions_labels; eauto].
Qed.

(* ------------------------------------------------------------------ the mobile molecule *)
Let mobile_in := mobile_of start end_ start end_.
Let mobile_out := mobile_of start end_ (ar_start r) (ar_end r).

(* the mobile molecule as the optimiser receives it has the pairwise distances of the caller's *)
Lemma mobile1_dists start1 :
  set_positions start (translate (am_pos start) (displacement start end_)) = Ok start1 ->
  dists_kept (am_pos mobile_in) (am_pos (mobile_of start end_ start1 end_)).
Proof.
  intros Hs1. unfold mobile_in, mobile_of. destruct (am_len start <? am_len end_)%nat; [|apply dists_kept_refl].
  destruct (set_positions_spec _ _ _ Hs1) as (_ & -> & _).
  unfold translate. apply dists_kept_map; [apply isometry_translate|apply dists_kept_refl].
Qed.

Lemma mobile_out_pos start1 final :
  mobile_of start end_
    (set_positions start1 final = Ok (ar_start r) /\ ar_end r = end_)
    (set_positions end_ final = Ok (ar_end r) /\ ar_start r = start1) ->
  am_pos mobile_out = final.
Proof.
  unfold mobile_out, mobile_of. destruct (am_len start <? am_len end_)%nat; intros [E _];
    destruct (set_positions_spec _ _ _ E) as (_ & Hp & _); exact Hp.
Qed.

(* ------------------------------------------------------------------ C06_rigid_when_no_atom_moves *)
Lemma rigid_when_no_atom_moves :
  ~ In 2%Z (eff_deform start end_ deform) -> dists_kept (am_pos mobile_in) (am_pos mobile_out).
Proof.
  intros Hno.
  destruct run_shape as (start1 & Hs1 & Hlen1 & [(A & B & _)|(oc & final & _ & Er & Hm & _ & Hsim & _ & Hw)]).
  - pose proof (mobile1_dists start1 Hs1) as Hd. unfold mobile_out. rewrite A, B. exact Hd.
  - rewrite (mobile_out_pos _ _ Hw).
    assert (Hno' : ~ In 2%nat (oc_sim oc)).
    { intros Hin. apply (mapM_In _ _ _ Hsim) in Hin. destruct Hin as (z & Hz & Hk).
      apply kind_of_2 in Hk. subst z. contradiction. }
    unfold run_opt in Er.
    eapply (run_invariant _ _ _ _ _ _ _ _ _ _ _ (dists_kept (am_pos mobile_in)) Er).
    + intros kind p c c' Hin Hp Hd. eapply rigid_step; eauto.
    + rewrite Hm. apply mobile1_dists. exact Hs1.
Qed.

(* ------------------------------------------------------------------ C06_tree_bonds *)
Lemma tree_graph_range adj n i j nb : tree_graph adj n -> nth_error adj i = Some nb -> In j nb ->
  (i < n)%nat /\ (j < n)%nat.
Proof.
  intros [Hl Hs _ _] Hnb Hin. destruct (Hs i j nb Hnb Hin) as (nb' & Hnb' & _).
  rewrite <- Hl. split; apply nth_error_Some; congruence.
Qed.

Lemma tree_bonds_kept :
  tree_graph (am_adj mobile_in) (am_len mobile_in) ->
  bonded_dists_kept (am_adj mobile_in) (am_pos mobile_in) (am_pos mobile_out).
Proof.
  intros Htree.
  destruct run_shape as (start1 & Hs1 & Hlen1 & [(A & B & _)|(oc & final & _ & Er & Hm & Htb & _ & _ & Hw)]).
  - (* no optimiser call: the mobile molecule is the caller's, at most translated *)
    pose proof (mobile1_dists start1 Hs1) as [Hl Hd]. unfold mobile_out. rewrite A, B.
    split; [exact Hl|]. intros i j nb Hnb Hin.
    destruct (tree_graph_range _ _ _ _ _ Htree Hnb Hin) as [Hi Hj].
    rewrite <- am_pos_length in Hi, Hj.
    destruct (nth_error (am_pos mobile_in) i) as [a|] eqn:Ea; [|apply nth_error_None in Ea; lia].
    destruct (nth_error (am_pos mobile_in) j) as [b|] eqn:Eb; [|apply nth_error_None in Eb; lia].
    rewrite <- Hl in Hi, Hj.
    destruct (nth_error (am_pos (mobile_of start end_ start1 end_)) i) as [a'|] eqn:Ea'; [|apply nth_error_None in Ea'; lia].
    destruct (nth_error (am_pos (mobile_of start end_ start1 end_)) j) as [b'|] eqn:Eb'; [|apply nth_error_None in Eb'; lia].
    exists a, b, a', b'. repeat split; auto. eapply Hd; eauto.
  - rewrite (mobile_out_pos _ _ Hw).
    pose proof (mobile1_dists start1 Hs1) as [Hl Hd].
    set (mobile1 := mobile_of start end_ start1 end_) in *.
    assert (Hadj : am_adj mobile1 = am_adj mobile_in).
    { unfold mobile1, mobile_in, mobile_of. destruct (am_len start <? am_len end_)%nat; [|reflexivity].
      destruct (set_positions_spec _ _ _ Hs1) as (_ & _ & _ & Ha & _). exact Ha. }
    rewrite Hm, Hadj in Htb.
    assert (Hn : length (am_pos mobile1) = am_len mobile_in) by (rewrite Hl; apply am_pos_length).
    assert (Htt : table_tree (ma_table (oc_args oc)) (length (am_pos mobile1))).
    { apply (table_tree_of _ _ _ Htb). rewrite Hn. exact Htree. }
    assert (Hfin : bonds_kept (ma_table (oc_args oc)) (length (am_pos mobile1)) final).
    { unfold run_opt in Er.
      eapply (run_invariant _ _ _ _ _ _ _ _ _ _ _ (bonds_kept (ma_table (oc_args oc)) (length (am_pos mobile1))) Er).
      - intros kind p c c' _ Hp Hk. eapply tree_step; eauto.
      - rewrite Hm. split; [reflexivity|]. apply (table_is_geometry _ _ _ Htb). }
    destruct Hfin as [Hlf Hbk].
    split; [congruence|]. intros i j nb Hnb Hin.
    destruct (tree_graph_range _ _ _ _ _ Htree Hnb Hin) as [Hi Hj].
    rewrite <- am_pos_length in Hi, Hj.
    destruct (nth_error (am_pos mobile_in) i) as [a|] eqn:Ea; [|apply nth_error_None in Ea; lia].
    destruct (nth_error (am_pos mobile_in) j) as [b|] eqn:Eb; [|apply nth_error_None in Eb; lia].
    rewrite <- Hl in Hi, Hj.
    destruct (nth_error (am_pos mobile1) i) as [p|] eqn:Ep; [|apply nth_error_None in Ep; lia].
    destruct (nth_error (am_pos mobile1) j) as [q|] eqn:Eq; [|apply nth_error_None in Eq; lia].
    assert (Hb : bonded (ma_table (oc_args oc)) i j (vdist p q)).
    { apply (bonded_iff _ _ _ Htb). exists p, q, nb. repeat split; auto. }
    destruct (Hbk _ _ _ Hb) as (a' & b' & Ha' & Hb' & Hd').
    exists a, b, a', b'. repeat split; auto.
    change (vnorm (vsub a' b')) with (vdist a' b') in Hd'. rewrite Hd'. eapply Hd; eauto.
Qed.

(* ------------------------------------------------------------------ what the optimiser did (C09, C07 tied in) *)
(* every pass proposed a translation, a rotation about the centroid by a proper rotation, or a single-atom move
   (find_atom_random_displ + move_mol_atom with the table of the initial geometry) of the configuration held, of
   an enabled type; the measure of every proposal was defined; the result is the last accepted proposal *)
Lemma optimiser_passes : forall a, ar_args r = Some a ->
  Forall (fun st : step_rec R posR =>
            (exists z, In z (eff_deform start end_ deform) /\ kind_of z = Ok (sr_kind st)) /\
            is_proposal (adraw R) (atom_move (ma_table a) (ma_sigma a)) (sr_kind st) (held (sr_before st)) (sr_test st))
         (ar_trace r) /\
  am_pos mobile_out = Proofs.MC.last_accepted posR (ma_mobile a) (ar_trace r).
Proof.
  intros a Ha.
  destruct run_shape as (start1 & Hs1 & Hlen1 & [(_ & _ & N & _)|(oc & final & Ea & Er & Hm & _ & Hsim & _ & Hw)]).
  - rewrite N in Ha. discriminate.
  - rewrite Ea in Ha. inversion Ha; subst a. unfold run_opt in Er. split.
    + pose proof (Proofs.MC.run_kinds _ _ _ _ _ _ _ _ _ _ _ Er) as Hk.
      rewrite Forall_forall in *. intros st Hin. destruct (Hk st Hin) as [H1 [p Hp]]. split.
      * apply (mapM_In _ _ _ Hsim) in H1. exact H1.
      * destruct (propose_geo_of _ _ _ _ _ _ _ _ _ Hp) as [Eg _]. eapply propose_geo_kinds; eauto.
    + rewrite (mobile_out_pos _ _ Hw).
      destruct (Proofs.MC.run_returns_held _ _ _ _ _ _ _ _ _ _ _ Er) as [_ Hret].
      destruct (Hret final eq_refl) as [_ Hla]. exact Hla.
Qed.

End Run.
