(* Graph-level facts about the executable model in Model/Topology.v:
   are_connected decides connectivity from node 0, and molecule_top builds the
   symmetric closure of the listed bond pairs as sorted duplicate-free sets. *)
From Coq Require Import List Arith Lia Bool ZArith Sorted.
From GM Require Import Base.Res Base.StrItp Model.Itp Model.Topology.
Import ListNotations.

(* ---- graph vocabulary *)
Definition edge (adj : list (list nat)) (i j : nat) : Prop :=
  exists bs, nth_error adj i = Some bs /\ In j bs.
Inductive reach (adj : list (list nat)) : nat -> nat -> Prop :=
| reach_refl : forall i, reach adj i i
| reach_step : forall i j k, reach adj i j -> edge adj j k -> reach adj i k.
Definition adj_wf (adj : list (list nat)) : Prop :=
  forall i bs j, nth_error adj i = Some bs -> In j bs -> j < List.length adj.
Definition graph_connected (adj : list (list nat)) : Prop :=
  forall i, i < List.length adj -> reach adj 0 i.

(* ================================================================ are_connected *)

Lemma memn_true_iff : forall x l, memn x l = true <-> In x l.
Proof.
  intros x l. unfold memn. rewrite existsb_exists. split.
  - intros [y [Hy He]]. apply Nat.eqb_eq in He. subst y. exact Hy.
  - intros H. exists x. split; [exact H | apply Nat.eqb_refl].
Qed.

Lemma memn_false_iff : forall x l, memn x l = false <-> ~ In x l.
Proof.
  intros x l. rewrite <- memn_true_iff. destruct (memn x l); intuition congruence.
Qed.

Lemma memn_cons : forall x y c, memn x (y :: c) = Nat.eqb x y || memn x c.
Proof. reflexivity. Qed.

(* potential: total out-degree of the nodes not yet in [c]; [i] = index of the head of [adj] *)
Fixpoint pot (adj : list (list nat)) (i : nat) (c : list nat) : nat :=
  match adj with
  | [] => 0
  | bs :: r => (if memn i c then 0 else List.length bs) + pot r (S i) c
  end.

Lemma pot_nil : forall adj i, pot adj i [] = List.length (List.concat adj).
Proof.
  induction adj as [|bs r IH]; intros i; cbn [pot List.concat]; [reflexivity|].
  rewrite app_length, IH. reflexivity.
Qed.

Lemma pot_below : forall adj i cur c, cur < i -> pot adj i (cur :: c) = pot adj i c.
Proof.
  induction adj as [|bs r IH]; intros i cur c H; cbn [pot]; [reflexivity|].
  rewrite IH by lia. rewrite memn_cons.
  destruct (Nat.eqb_spec i cur) as [E|E]; [lia|]. reflexivity.
Qed.

Lemma pot_step : forall adj i k bs c,
  nth_error adj k = Some bs -> memn (i + k) c = false ->
  pot adj i c = List.length bs + pot adj i ((i + k) :: c).
Proof.
  induction adj as [|b0 r IH]; intros i k bs c Hn Hm.
  - destruct k; discriminate.
  - destruct k as [|k]; cbn [nth_error] in Hn; cbn [pot].
    + inversion Hn; subst b0. rewrite Nat.add_0_r in *.
      rewrite Hm, memn_cons, Nat.eqb_refl. cbn [orb].
      rewrite pot_below by lia. lia.
    + rewrite memn_cons. replace (i + S k) with (S i + k) in * by lia.
      destruct (Nat.eqb_spec i (S i + k)) as [E|E]; [lia|]. cbn [orb].
      rewrite (IH (S i) k bs c Hn Hm). lia.
Qed.

Lemma filter_length_le_ : forall (A : Type) (f : A -> bool) (l : list A),
  List.length (filter f l) <= List.length l.
Proof.
  intros A f l. induction l as [|x r IH]; cbn [filter List.length]; [lia|].
  destruct (f x); cbn [List.length]; lia.
Qed.

Lemma rev_append_in : forall (A : Type) (a b : list A) x, In x (rev_append a b) <-> In x a \/ In x b.
Proof.
  intros A a b x. rewrite rev_append_rev, in_app_iff, <- in_rev. tauto.
Qed.

Lemma rev_append_length : forall (A : Type) (a b : list A),
  List.length (rev_append a b) = List.length a + List.length b.
Proof.
  intros A a b. rewrite rev_append_rev, app_length, rev_length. reflexivity.
Qed.

Definition winv (adj : list (list nat)) (stack c : list nat) : Prop :=
  NoDup c /\
  (forall x, In x c -> x < List.length adj /\ reach adj 0 x) /\
  (forall x, In x stack -> x < List.length adj /\ reach adj 0 x) /\
  (forall x y, In x c -> edge adj x y -> In y c \/ In y stack) /\
  (In 0 c \/ In 0 stack).

Lemma walk_ok : forall adj, adj_wf adj ->
  forall fuel stack c, winv adj stack c -> fuel > List.length stack + pot adj 0 c ->
  exists c', walk fuel adj stack c = Ok c' /\ winv adj [] c'.
Proof.
  intros adj Hwf. induction fuel as [|f IH]; intros stack c Hinv Hf; [lia|].
  destruct stack as [|cur st].
  - exists c. split; [reflexivity | exact Hinv].
  - cbn [walk]. destruct Hinv as (Hnd & Hc & Hs & He & H0).
    destruct (memn cur c) eqn:Hm.
    + apply memn_true_iff in Hm. apply IH.
      * split; [exact Hnd|]. split; [exact Hc|]. split.
        { intros x Hx. apply Hs. right. exact Hx. }
        split.
        { intros x y Hx Hxy. destruct (He x y Hx Hxy) as [Hy|[Hy|Hy]].
          - left; exact Hy.
          - left; subst y; exact Hm.
          - right; exact Hy. }
        { destruct H0 as [H0|[H0|H0]].
          - left; exact H0.
          - left; subst cur; exact Hm.
          - right; exact H0. }
      * cbn [List.length] in Hf. lia.
    + destruct (Hs cur (or_introl eq_refl)) as [Hlt Hr].
      destruct (nth_error adj cur) as [bs|] eqn:Hn;
        [| apply nth_error_None in Hn; lia].
      unfold nth_res. rewrite Hn. cbn [bind].
      assert (Hnin : ~ In cur c) by (apply memn_false_iff; exact Hm).
      apply IH.
      * split; [constructor; assumption|]. split.
        { intros x [Hx|Hx]; [subst x; split; assumption | apply Hc; exact Hx]. }
        split.
        { intros x Hx. apply rev_append_in in Hx. destruct Hx as [Hx|Hx].
          - apply filter_In in Hx. destruct Hx as [Hx _]. split.
            + exact (Hwf cur bs x Hn Hx).
            + apply reach_step with (j := cur); [exact Hr|]. exists bs. split; assumption.
          - apply Hs. right. exact Hx. }
        split.
        { intros x y [Hx|Hx] Hxy.
          - subst x. destruct Hxy as [bs' [Hn' Hy]]. rewrite Hn in Hn'. inversion Hn'; subst bs'.
            destruct (memn y (cur :: c)) eqn:Hmy.
            + left. apply memn_true_iff. exact Hmy.
            + right. apply rev_append_in. left. apply filter_In. split; [exact Hy|].
              rewrite Hmy. reflexivity.
          - destruct (He x y Hx Hxy) as [Hy|[Hy|Hy]].
            + left; right; exact Hy.
            + left; left; exact Hy.
            + right. apply rev_append_in. right. exact Hy. }
        { destruct H0 as [H0|[H0|H0]].
          - left; right; exact H0.
          - left; left; exact H0.
          - right. apply rev_append_in. right. exact H0. }
      * rewrite rev_append_length.
        pose proof (filter_length_le_ nat (fun j => negb (memn j (cur :: c))) bs) as Hfl.
        pose proof (pot_step adj 0 cur bs c Hn Hm) as Hp. cbn [Nat.add] in Hp.
        cbn [List.length] in Hf. lia.
Qed.

Lemma winv_closed : forall adj c, winv adj [] c -> forall x, reach adj 0 x -> In x c.
Proof.
  intros adj c (_ & _ & _ & He & H0) x Hr.
  assert (H0' : In 0 c) by (destruct H0 as [H0|[]]; exact H0). clear H0.
  remember 0 as s eqn:Es. induction Hr as [i|i j k Hr IH Hjk].
  - exact H0'.
  - destruct (He j k (IH Es H0') Hjk) as [H|[]]. exact H.
Qed.

Lemma winv_final : forall adj c, winv adj [] c ->
  (List.length c = List.length adj <-> graph_connected adj).
Proof.
  intros adj c Hinv. pose proof (winv_closed adj c Hinv) as Hcl.
  destruct Hinv as (Hnd & Hc & Hs & He & H0).
  assert (Hincl : incl c (seq 0 (List.length adj))).
  { intros x Hx. apply in_seq. destruct (Hc x Hx) as [Hlt _]. lia. }
  split.
  - intros Hlen i Hi.
    assert (Hincl' : incl (seq 0 (List.length adj)) c).
    { apply NoDup_length_incl; [exact Hnd | rewrite seq_length; lia | exact Hincl]. }
    apply Hc. apply Hincl'. apply in_seq. lia.
  - intros Hg.
    assert (Hincl' : incl (seq 0 (List.length adj)) c).
    { intros x Hx. apply in_seq in Hx. apply Hcl. apply Hg. lia. }
    pose proof (NoDup_incl_length Hnd Hincl) as H1.
    pose proof (NoDup_incl_length (seq_NoDup (List.length adj) 0) Hincl') as H2.
    rewrite seq_length in H1, H2. lia.
Qed.

Lemma are_connected_correct : forall adj, adj <> [] -> adj_wf adj ->
  exists b, are_connected adj = Ok b /\ (b = true <-> graph_connected adj).
Proof.
  intros adj Hne Hwf.
  assert (Hpos : 0 < List.length adj) by (destruct adj; [congruence | cbn [List.length]; lia]).
  destruct (walk_ok adj Hwf (walk_fuel adj) [0] []) as [c [Hw Hinv]].
  - split; [constructor|]. split; [intros x []|]. split.
    { intros x [Hx|[]]. subst x. split; [exact Hpos | constructor]. }
    split; [intros x y []|]. right; left; reflexivity.
  - unfold walk_fuel. rewrite pot_nil. cbn [List.length]. lia.
  - unfold are_connected. rewrite Hw. cbn [bind].
    exists (Nat.eqb (List.length c) (List.length adj)). split; [reflexivity|].
    rewrite Nat.eqb_eq. apply winv_final. exact Hinv.
Qed.

Lemma are_connected_empty : are_connected [] = Err EIndex.
Proof. reflexivity. Qed.

(* ================================================================ MoleculeTop *)

Lemma set_add_In : forall x s y, In y (set_add x s) <-> y = x \/ In y s.
Proof.
  intros x s y. induction s as [|z r IH]; cbn [set_add].
  - cbn [In]. intuition congruence.
  - destruct (Nat.ltb x z) eqn:Hlt.
    + cbn [In]. intuition congruence.
    + destruct (Nat.eqb_spec x z) as [E|E].
      * subst z. cbn [In]. intuition congruence.
      * cbn [In]. rewrite IH. tauto.
Qed.

Lemma set_add_sorted : forall x s, StronglySorted lt s -> StronglySorted lt (set_add x s).
Proof.
  intros x s Hs. induction Hs as [|z r Hr IH Hz]; cbn [set_add].
  - constructor; constructor.
  - destruct (Nat.ltb_spec x z) as [Hlt|Hge].
    + constructor; [constructor; assumption|].
      constructor; [exact Hlt|].
      rewrite Forall_forall in *. intros y Hy. specialize (Hz y Hy). lia.
    + destruct (Nat.eqb_spec x z) as [E|E].
      * constructor; assumption.
      * constructor; [exact IH|].
        rewrite Forall_forall in *. intros y Hy. apply set_add_In in Hy.
        destruct Hy as [Hy|Hy]; [subst y; lia | apply Hz; exact Hy].
Qed.

Lemma upd_length : forall (A : Type) (l : list A) n f, List.length (upd l n f) = List.length l.
Proof.
  intros A l. induction l as [|x r IH]; intros n f; [reflexivity|].
  destruct n as [|n]; cbn [upd List.length]; [reflexivity|]. rewrite IH. reflexivity.
Qed.

Lemma nth_error_upd : forall (A : Type) (l : list A) n f m,
  nth_error (upd l n f) m =
  if Nat.eqb m n then option_map f (nth_error l m) else nth_error l m.
Proof.
  intros A l. induction l as [|x r IH]; intros n f m.
  - cbn [upd]. destruct m; destruct (Nat.eqb _ n); reflexivity.
  - destruct n as [|n]; destruct m as [|m]; cbn [upd nth_error Nat.eqb option_map]; try reflexivity.
    apply IH.
Qed.

Lemma mk_atoms_length : forall infos s, List.length (mk_atoms infos s) = List.length infos.
Proof.
  induction infos as [|[[n rn] rid] r IH]; intros s; cbn [mk_atoms List.length]; [reflexivity|].
  rewrite IH. reflexivity.
Qed.

Lemma mk_atoms_nth : forall infos s k info,
  nth_error infos k = Some info ->
  nth_error (mk_atoms infos s) k =
  Some {| at_name := fst (fst info); at_resname := snd (fst info); at_resid := snd info;
          at_index := s + k; at_bonds := [] |}.
Proof.
  induction infos as [|[[n rn] rid] r IH]; intros s k info Hk.
  - destruct k; discriminate.
  - destruct k as [|k]; cbn [nth_error] in Hk; cbn [mk_atoms nth_error].
    + inversion Hk; subst info. cbn [fst snd]. rewrite Nat.add_0_r. reflexivity.
    + rewrite (IH (S s) k info Hk). replace (S s + k) with (s + S k) by lia. reflexivity.
Qed.

(* per-atom invariant: fixed fields, and bonds = sorted representation of the set D *)
Definition atom_ok (i : nat) (info : atom_info) (a : atomtop) (D : nat -> Prop) : Prop :=
  at_name a = fst (fst info) /\ at_resname a = snd (fst info) /\ at_resid a = snd info /\
  at_index a = i /\ StronglySorted lt (at_bonds a) /\ (forall j, In j (at_bonds a) <-> D j).

Lemma atom_ok_add : forall i info a D k,
  atom_ok i info a D -> atom_ok i info (add_bond k a) (fun j => j = k \/ D j).
Proof.
  intros i info a D k (H1 & H2 & H3 & H4 & H5 & H6).
  unfold atom_ok, add_bond; cbn [at_name at_resname at_resid at_index at_bonds].
  repeat (split; [assumption|]). split; [apply set_add_sorted; exact H5|].
  intros j. rewrite set_add_In, H6. tauto.
Qed.

Lemma atom_ok_ext : forall i info a D D',
  atom_ok i info a D -> (forall j, D j <-> D' j) -> atom_ok i info a D'.
Proof.
  intros i info a D D' (H1 & H2 & H3 & H4 & H5 & H6) HD.
  unfold atom_ok. repeat (split; [assumption|]). intros j. rewrite H6. apply HD.
Qed.

(* whole-list invariant: D = set of bond pairs processed so far *)
Definition atoms_ok (infos : list atom_info) (atoms : list atomtop) (D : nat * nat -> Prop) : Prop :=
  List.length atoms = List.length infos /\
  forall i info, nth_error infos i = Some info ->
    exists a, nth_error atoms i = Some a /\ atom_ok i info a (fun j => D (i, j) \/ D (j, i)).

Lemma atoms_ok_nth : forall infos atoms D i,
  atoms_ok infos atoms D -> i < List.length infos ->
  exists a, nth_error atoms i = Some a /\ at_index a = i.
Proof.
  intros infos atoms D i [Hl Hok] Hi.
  destruct (nth_error infos i) as [info|] eqn:Hn; [| apply nth_error_None in Hn; lia].
  destruct (Hok i info Hn) as [a [Ha Hq]]. exists a. split; [exact Ha|].
  destruct Hq as (_ & _ & _ & H4 & _). exact H4.
Qed.

Lemma connect_ok : forall infos atoms D p q,
  atoms_ok infos atoms D -> p < List.length infos -> q < List.length infos ->
  exists atoms', connect atoms (p, q) = Ok atoms' /\
                 atoms_ok infos atoms' (fun b => b = (p, q) \/ D b).
Proof.
  intros infos atoms D p q Hok Hp Hq.
  destruct (atoms_ok_nth infos atoms D p Hok Hp) as [a0 [Ha0 Hi0]].
  destruct (atoms_ok_nth infos atoms D q Hok Hq) as [a1 [Ha1 Hi1]].
  unfold connect, nth_res. cbn [fst snd]. rewrite Ha0, Ha1. cbn [bind].
  rewrite Hi0, Hi1. eexists. split; [reflexivity|].
  destruct Hok as [Hl Hok]. split.
  - rewrite !upd_length. exact Hl.
  - intros i info Hn. destruct (Hok i info Hn) as [a [Ha Hqa]].
    rewrite !nth_error_upd, Ha.
    destruct (Nat.eqb_spec i q) as [Eq|Eq]; destruct (Nat.eqb_spec i p) as [Ep|Ep];
      cbn [option_map]; eexists; (split; [reflexivity|]).
    + eapply atom_ok_ext; [apply atom_ok_add, atom_ok_add; exact Hqa|].
      intros j. cbv beta. subst. intuition congruence.
    + eapply atom_ok_ext; [apply atom_ok_add; exact Hqa|].
      intros j. cbv beta. subst. intuition congruence.
    + eapply atom_ok_ext; [apply atom_ok_add; exact Hqa|].
      intros j. cbv beta. subst. intuition congruence.
    + eapply atom_ok_ext; [exact Hqa|].
      intros j. cbv beta. intuition congruence.
Qed.

Lemma connect_all_ok : forall infos bonds atoms D,
  atoms_ok infos atoms D ->
  (forall b, In b bonds -> fst b < List.length infos /\ snd b < List.length infos) ->
  exists atoms', connect_all atoms bonds = Ok atoms' /\
                 atoms_ok infos atoms' (fun b => D b \/ In b bonds).
Proof.
  intros infos bonds. induction bonds as [|[p q] r IH]; intros atoms D Hok Hr.
  - exists atoms. split; [reflexivity|]. destruct Hok as [Hl Hok]. split; [exact Hl|].
    intros i info Hn. destruct (Hok i info Hn) as [a [Ha Hqa]]. exists a. split; [exact Ha|].
    eapply atom_ok_ext; [exact Hqa|]. intros j. cbn [In]. tauto.
  - destruct (Hr (p, q) (or_introl eq_refl)) as [Hp Hq]. cbn [fst snd] in Hp, Hq.
    destruct (connect_ok infos atoms D p q Hok Hp Hq) as [atoms1 [Hc Hok1]].
    destruct (IH atoms1 _ Hok1 (fun b Hb => Hr b (or_intror Hb))) as [atoms2 [Hc2 Hok2]].
    exists atoms2. cbn [connect_all]. rewrite Hc. cbn [bind]. split; [exact Hc2|].
    destruct Hok2 as [Hl Hok2]. split; [exact Hl|].
    intros i info Hn. destruct (Hok2 i info Hn) as [a [Ha Hqa]]. exists a. split; [exact Ha|].
    eapply atom_ok_ext; [exact Hqa|]. intros j. cbv beta. cbn [In].
    split; intros H; intuition (auto; congruence).
Qed.

Lemma mk_atoms_ok : forall infos, atoms_ok infos (mk_atoms infos 0) (fun _ => False).
Proof.
  intros infos. split; [apply mk_atoms_length|].
  intros i info Hn. eexists. split; [apply mk_atoms_nth; exact Hn|].
  unfold atom_ok; cbn [at_name at_resname at_resid at_index at_bonds Nat.add].
  repeat (split; [reflexivity|]). split; [constructor|]. intros j. cbn [In]. tauto.
Qed.

Lemma molecule_top_graph : forall (name : str) (infos : list atom_info) (bonds : list (nat * nat)),
  (forall b, In b bonds -> fst b < List.length infos /\ snd b < List.length infos) ->
  exists atoms, molecule_top (name, infos, bonds) = Ok (name, atoms) /\
    List.length atoms = List.length infos /\
    forall i info, nth_error infos i = Some info ->
      exists a, nth_error atoms i = Some a /\
        at_name a = fst (fst info) /\ at_resname a = snd (fst info) /\ at_resid a = snd info /\
        at_index a = i /\ StronglySorted lt (at_bonds a) /\
        (forall j, In j (at_bonds a) <-> (In (i, j) bonds \/ In (j, i) bonds)).
Proof.
  intros name infos bonds Hr.
  destruct (connect_all_ok infos bonds (mk_atoms infos 0) _ (mk_atoms_ok infos) Hr)
    as [atoms [Hc [Hl Hok]]].
  exists atoms. unfold molecule_top. rewrite Hc. cbn [bind]. split; [reflexivity|].
  split; [exact Hl|]. intros i info Hn.
  destruct (Hok i info Hn) as [a [Ha (H1 & H2 & H3 & H4 & H5 & H6)]].
  exists a. repeat (split; [assumption|]). intros j. rewrite H6. tauto.
Qed.

Lemma molecule_top_symmetric : forall (name name' : str) (infos : list atom_info)
    (bonds : list (nat * nat)) (atoms : list atomtop),
  (forall b, In b bonds -> fst b < List.length infos /\ snd b < List.length infos) ->
  molecule_top (name, infos, bonds) = Ok (name', atoms) ->
  (forall i j a b, nth_error atoms i = Some a -> nth_error atoms j = Some b ->
     (In j (at_bonds a) <-> In i (at_bonds b))) /\
  adj_wf (adj_of atoms).
Proof.
  intros name name' infos bonds atoms Hr Hm.
  destruct (molecule_top_graph name infos bonds Hr) as [atoms0 [Hm0 [Hl Hok]]].
  rewrite Hm0 in Hm. inversion Hm; subst name' atoms0. clear Hm.
  assert (Hget : forall i a, nth_error atoms i = Some a ->
            forall j, In j (at_bonds a) <-> (In (i, j) bonds \/ In (j, i) bonds)).
  { intros i a Ha.
    assert (Hi : i < List.length infos).
    { rewrite <- Hl. apply nth_error_Some. rewrite Ha. discriminate. }
    destruct (nth_error infos i) as [info|] eqn:Hn; [| apply nth_error_None in Hn; lia].
    destruct (Hok i info Hn) as [a' [Ha' (_ & _ & _ & _ & _ & H6)]].
    rewrite Ha in Ha'. inversion Ha'; subst a'. exact H6. }
  split.
  - intros i j a b Ha Hb. rewrite (Hget i a Ha j), (Hget j b Hb i). tauto.
  - intros i bs j Hn Hj. unfold adj_of in *. rewrite map_length.
    rewrite nth_error_map in Hn. destruct (nth_error atoms i) as [a|] eqn:Ha; [|discriminate].
    cbn [option_map] in Hn. inversion Hn; subst bs.
    apply (Hget i a Ha) in Hj. rewrite Hl.
    destruct Hj as [Hj|Hj]; apply Hr in Hj; cbn [fst snd] in Hj; tauto.
Qed.

Lemma connect_length : forall atoms b atoms',
  connect atoms b = Ok atoms' -> List.length atoms' = List.length atoms.
Proof.
  intros atoms b atoms' H. unfold connect in H.
  destruct (nth_res atoms (fst b)) as [a0|e0]; cbn [bind] in H; [|discriminate].
  destruct (nth_res atoms (snd b)) as [a1|e1]; cbn [bind] in H; [|discriminate].
  inversion H. rewrite !upd_length. reflexivity.
Qed.

Lemma connect_all_out_of_range : forall bonds atoms,
  (exists b, In b bonds /\ (List.length atoms <= fst b \/ List.length atoms <= snd b)) ->
  connect_all atoms bonds = Err EIndex.
Proof.
  induction bonds as [|b0 r IH]; intros atoms [b [Hb Hbad]]; [destruct Hb|].
  cbn [connect_all]. unfold connect at 1, nth_res.
  destruct (nth_error atoms (fst b0)) as [a0|] eqn:H0; cbn [bind]; [|reflexivity].
  destruct (nth_error atoms (snd b0)) as [a1|] eqn:H1; cbn [bind]; [|reflexivity].
  apply IH. exists b. rewrite !upd_length.
  destruct Hb as [Hb|Hb]; [|split; [exact Hb | exact Hbad]].
  subst b. exfalso.
  assert (fst b0 < List.length atoms) by (apply nth_error_Some; rewrite H0; discriminate).
  assert (snd b0 < List.length atoms) by (apply nth_error_Some; rewrite H1; discriminate).
  lia.
Qed.

Lemma molecule_top_out_of_range : forall name infos bonds,
  (exists b, In b bonds /\ (List.length infos <= fst b \/ List.length infos <= snd b)) ->
  molecule_top (name, infos, bonds) = Err EIndex.
Proof.
  intros name infos bonds H. unfold molecule_top.
  rewrite connect_all_out_of_range; [reflexivity|].
  rewrite mk_atoms_length. exact H.
Qed.
