(* C16: reading an .itp text, writing it and reading it again loses no section, line or comment.
   File-level round trip on top of the line-level round trip (ItpLine.v), the characterisation of the
   reading loop (ItpCore.v) and the text lemmas (ItpText.v). *)
From Coq Require Import List Ascii Bool Arith Lia.
From GM Require Import Base.Res Base.StrItp Model.Itp Proofs.ItpSpec Proofs.ItpCore Proofs.ItpText Proofs.ItpLine.
Import ListNotations.

(* ================================================================== R1: the first parse is complete *)
Lemma Forall2_entries k L ps :
  Forall2 (fun l p => parse_line k l = Ok p) L ps -> map entry_of ps = map spec_entry L.
Proof.
  induction 1 as [|l p L ps Hp _ IH]; [reflexivity|].
  destruct (parse_line_entry _ _ _ Hp) as [E _]. cbn [map]. rewrite E, IH. reflexivity.
Qed.

Theorem first_parse_complete : forall ls f,
  itp_parse ls = Ok f -> no_header_sec ls -> abs f = spec_abs ls.
Proof.
  intros ls f H Hdom. destruct (itp_parse_spec _ _ H Hdom) as [H1 [_ [H3 H4]]].
  unfold abs, spec_abs. rewrite H1. f_equal.
  rewrite H3 at 1. rewrite map_map. apply map_ext. intros n. cbn [fst snd]. f_equal.
  unfold abs_sec, spec_sec. f_equal. eapply Forall2_entries. apply H4.
Qed.

(* ================================================================== plain-list helpers *)
Definition nohdr (l : str) : Prop := is_hdr l = false.
Definition good (n : str) : Prop := ~ In ch_nl n /\ strip n = n.

Lemma last_is_snoc c (b : str) x : last_is c (b ++ [x]) = Ascii.eqb x c.
Proof. unfold last_is, last_opt. rewrite rev_app_distr. reflexivity. Qed.

Lemma ends_nl_last l : ends_nl l -> last_is ch_nl l = true.
Proof. intros [b [E _]]. subst. rewrite last_is_snoc. apply Ascii.eqb_refl. Qed.

Lemma open_line_last l : open_line l -> last_is ch_nl l = false.
Proof.
  intros [H1 H2]. destruct (@exists_last _ l H1) as [b [x E]]. subst. rewrite last_is_snoc.
  apply Ascii.eqb_neq. intros F. apply H2. apply in_or_app. right. left. exact F.
Qed.

Lemma line_ok_last_true l : line_ok l -> last_is ch_nl l = true -> ends_nl l.
Proof.
  intros H L. apply line_ok_cases in H. destruct H as [H|H]; [exact H|].
  rewrite (open_line_last _ H) in L. discriminate.
Qed.

Lemma line_ok_last_false l : line_ok l -> last_is ch_nl l = false -> open_line l.
Proof.
  intros H L. apply line_ok_cases in H. destruct H as [H|H]; [|exact H].
  rewrite (ends_nl_last _ H) in L. discriminate.
Qed.

(* ------------------------------------------------------------------ lists of lines closed but the last *)
Inductive cbl : list str -> Prop :=
| cbl_nil : cbl []
| cbl_one x : line_ok x -> cbl [x]
| cbl_cons x r : ends_nl x -> cbl r -> cbl (x :: r).

Lemma cbl_head x r : cbl (x :: r) -> line_ok x.
Proof. intros H. inversion H; subst; [assumption | apply ends_nl_line_ok; assumption]. Qed.

Lemma cbl_tail x r : cbl (x :: r) -> cbl r.
Proof. intros H. inversion H; subst; [constructor | assumption]. Qed.

Lemma cbl_open_last x r : cbl (x :: r) -> last_is ch_nl x = false -> r = [].
Proof.
  intros H L. inversion H as [|? Hx|? ? Hx Hr]; subst; [reflexivity|].
  rewrite (ends_nl_last _ Hx) in L. discriminate.
Qed.

Lemma cbl_keep x r r' : cbl (x :: r) -> cbl r' -> (r = [] -> r' = []) -> cbl (x :: r').
Proof.
  intros H H' E. inversion H as [|? Hx|? ? Hx Hr]; subst.
  - rewrite (E eq_refl). apply cbl_one. exact Hx.
  - apply cbl_cons; assumption.
Qed.

Lemma cbl_of_closed xs :
  Forall line_ok xs -> (forall pre x, xs = pre ++ [x] -> Forall ends_nl pre) -> cbl xs.
Proof.
  induction xs as [|a r IH]; intros Hok Hc; [constructor|].
  inversion Hok as [|? ? Ha Hr]; subst.
  destruct r as [|b r'].
  - apply cbl_one. exact Ha.
  - destruct (@exists_last _ (b :: r')) as [pre [z E]]; [discriminate|].
    assert (Forall ends_nl (a :: pre)) as F by (apply (Hc (a :: pre) z); rewrite E; reflexivity).
    inversion F; subst. apply cbl_cons; [assumption|]. apply IH; [exact Hr|].
    intros pre' x' E'.
    assert (Forall ends_nl (a :: pre')) as F' by (apply (Hc (a :: pre') x'); rewrite E'; reflexivity).
    inversion F'; assumption.
Qed.

Lemma cbl_lines text : cbl (lines text).
Proof.
  apply cbl_of_closed; [apply lines_ok|]. intros pre x E. eapply lines_all_but_last_closed. exact E.
Qed.

Lemma cbl_tagged n : forall ls cur, cbl ls -> cbl (tagged n cur ls).
Proof.
  induction ls as [|l r IH]; intros cur H; [constructor|].
  pose proof (cbl_tail _ _ H) as Hr.
  unfold tagged. cbn [tag_lines].
  destruct (is_hdr l).
  - destruct (hdr_name l); [apply IH; exact Hr | constructor].
  - destruct cur as [c|]; [|apply IH; exact Hr].
    cbn [filter fst]. destruct (str_eqb c n); [|apply IH; exact Hr].
    cbn [map snd]. apply (cbl_keep l r); [exact H | apply IH; exact Hr|].
    intros E. subst r. reflexivity.
Qed.

(* ------------------------------------------------------------------ tagged lines come from the text *)
Lemma tag_lines_src : forall ls cur n l, In (n, l) (tag_lines cur ls) -> In l ls /\ is_hdr l = false.
Proof.
  induction ls as [|x r IH]; simpl; intros cur n l H; [contradiction|].
  destruct (is_hdr x) eqn:Hx.
  - destruct (hdr_name x); [|contradiction]. destruct (IH _ _ _ H). tauto.
  - destruct cur as [c|].
    + destruct H as [H|H]; [inversion H; subst; tauto | destruct (IH _ _ _ H); tauto].
    + destruct (IH _ _ _ H). tauto.
Qed.

Lemma lines_in_tag n l ls : In l (lines_in n ls) -> In (n, l) (tag_lines None ls).
Proof.
  unfold lines_in. rewrite in_map_iff. intros [[k x] [E H]]. simpl in E. subst x.
  apply filter_In in H as [H1 H2]. simpl in H2. apply str_eqb_eq in H2. subst. exact H1.
Qed.

Lemma lines_in_nohdr n ls : Forall nohdr (lines_in n ls).
Proof.
  apply Forall_forall. intros l H. apply lines_in_tag in H. apply tag_lines_src in H. apply H.
Qed.

(* ------------------------------------------------------------------ names and header lines of a text *)
Lemma sec_names_from_src ls : forall acc n, In n (sec_names_from acc ls) ->
  In n acc \/ exists l, In l ls /\ is_hdr l = true /\ hdr_name l = Ok n.
Proof.
  induction ls as [|x r IH]; simpl; intros acc n H; [left; exact H|].
  destruct (is_hdr x) eqn:Hx.
  - destruct (hdr_name x) as [k|] eqn:Hk; [|left; exact H].
    destruct (IH _ _ H) as [F|[l [F1 F2]]].
    + apply add_name_In in F. destruct F as [F|F]; [|left; exact F].
      subst k. right. exists x. tauto.
    + right. exists l. tauto.
  - destruct (IH _ _ H) as [F|[l [F1 F2]]]; [left; exact F | right; exists l; tauto].
Qed.

Lemma sec_names_src ls n : In n (sec_names ls) -> exists l, In l ls /\ is_hdr l = true /\ hdr_name l = Ok n.
Proof. intros H. destruct (sec_names_from_src _ _ _ H) as [[]|F]. exact F. Qed.

Lemma sec_names_from_keeps ls : forall acc x, In x acc -> In x (sec_names_from acc ls).
Proof.
  induction ls as [|l r IH]; simpl; intros acc x H; [exact H|].
  destruct (is_hdr l); [|apply IH; exact H]. destruct (hdr_name l); [|exact H].
  apply IH. apply add_name_In. right. exact H.
Qed.

Lemma header_lines_nohdr ls l : In l (header_lines ls) -> is_hdr l = false.
Proof.
  induction ls as [|x r IH]; simpl; [intros []|].
  destruct (is_hdr x) eqn:Hx; [intros []|]. intros [H|H]; [subst; exact Hx | apply IH; exact H].
Qed.

Lemma header_lines_all ls : sec_names ls = [] -> header_lines ls = ls.
Proof.
  unfold sec_names. induction ls as [|x r IH]; simpl; intros H; [reflexivity|].
  destruct (is_hdr x) eqn:Hx.
  - exfalso. destruct (hdr_name_total_gen _ Hx) as [n Hn]. rewrite Hn in H.
    assert (In n (sec_names_from [n] r)) as F by (apply sec_names_from_keeps; left; reflexivity).
    simpl in H. rewrite H in F. destruct F.
  - f_equal. apply IH. exact H.
Qed.

Lemma sec_names_from_nohdr acc a b : Forall nohdr a -> sec_names_from acc (a ++ b) = sec_names_from acc b.
Proof.
  intros H. induction H as [|x a Hx _ IH]; [reflexivity|]. cbn [app sec_names_from]. rewrite Hx. exact IH.
Qed.

Lemma header_lines_closed ls : cbl ls -> header_lines ls <> ls -> Forall ends_nl (header_lines ls).
Proof.
  induction 1 as [|x Hx|x r Hx Hr IH]; intros Hne; cbn [header_lines] in *.
  - constructor.
  - destruct (is_hdr x); [constructor | contradiction].
  - destruct (is_hdr x); [constructor|]. constructor; [exact Hx|]. apply IH. intros E. apply Hne. rewrite E. reflexivity.
Qed.

Lemma header_lines_proper ls : sec_names ls <> [] -> header_lines ls <> ls.
Proof.
  intros H E. apply H. unfold sec_names.
  assert (Forall nohdr ls) as F.
  { apply Forall_forall. intros l Hl. rewrite <- E in Hl. exact (header_lines_nohdr _ _ Hl). }
  pose proof (sec_names_from_nohdr [] ls [] F) as G. rewrite app_nil_r in G. exact G.
Qed.

(* ------------------------------------------------------------------ a text made of header lines and blocks *)
Definition block (B : str -> list str) (n : str) : list str := hdr_text n :: B n.

Lemma tag_lines_hdr cur h n r : is_hdr h = true -> hdr_name h = Ok n -> tag_lines cur (h :: r) = tag_lines (Some n) r.
Proof. intros H1 H2. cbn [tag_lines]. rewrite H1, H2. reflexivity. Qed.

Lemma sec_names_hdr acc h n r :
  is_hdr h = true -> hdr_name h = Ok n -> sec_names_from acc (h :: r) = sec_names_from (add_name n acc) r.
Proof. intros H1 H2. cbn [sec_names_from]. rewrite H1, H2. reflexivity. Qed.

Lemma header_lines_hdr h r : is_hdr h = true -> header_lines (h :: r) = [].
Proof. intros H. cbn [header_lines]. rewrite H. reflexivity. Qed.

Lemma tag_lines_nohdr_some n a b :
  Forall nohdr a -> tag_lines (Some n) (a ++ b) = map (pair n) a ++ tag_lines (Some n) b.
Proof.
  intros H. induction H as [|x a Hx _ IH]; [reflexivity|].
  cbn [app tag_lines map]. rewrite Hx, IH. reflexivity.
Qed.

Lemma tag_lines_nohdr_none a b : Forall nohdr a -> tag_lines None (a ++ b) = tag_lines None b.
Proof.
  intros H. induction H as [|x a Hx _ IH]; [reflexivity|]. cbn [app tag_lines]. rewrite Hx. exact IH.
Qed.

Lemma block_hdr n : good n -> is_hdr (hdr_text n) = true /\ hdr_name (hdr_text n) = Ok n.
Proof. intros [G1 G2]. destruct (hdr_text_ok n G1 G2) as [_ H]. exact H. Qed.

Lemma tag_lines_blocks B names :
  (forall n, In n names -> good n /\ Forall nohdr (B n)) ->
  forall cur, tag_lines cur (flat_map (block B) names) = flat_map (fun n => map (pair n) (B n)) names.
Proof.
  induction names as [|a names IH]; intros H cur; [reflexivity|].
  destruct (H a (or_introl eq_refl)) as [Ga Ba]. destruct (block_hdr _ Ga) as [H1 H2].
  cbn [flat_map]. unfold block at 1. cbn [app].
  rewrite (tag_lines_hdr _ _ _ _ H1 H2). rewrite (tag_lines_nohdr_some _ _ _ Ba). f_equal.
  apply IH. intros n Hn. apply H. right. exact Hn.
Qed.

Lemma add_name_fresh n acc : ~ In n acc -> add_name n acc = acc ++ [n].
Proof.
  induction acc as [|k r IH]; simpl; intros H; [reflexivity|].
  destruct (str_eqb k n) eqn:E.
  - apply str_eqb_eq in E. exfalso. apply H. left. exact E.
  - f_equal. apply IH. intros F. apply H. right. exact F.
Qed.

Lemma sec_names_blocks B names :
  (forall n, In n names -> good n /\ Forall nohdr (B n)) ->
  forall acc, NoDup (acc ++ names) -> sec_names_from acc (flat_map (block B) names) = acc ++ names.
Proof.
  induction names as [|a names IH]; intros H acc Hnd; [cbn; rewrite app_nil_r; reflexivity|].
  destruct (H a (or_introl eq_refl)) as [Ga Ba]. destruct (block_hdr _ Ga) as [H1 H2].
  cbn [flat_map]. unfold block at 1. cbn [app].
  rewrite (sec_names_hdr _ _ _ _ H1 H2). rewrite (sec_names_from_nohdr _ _ _ Ba).
  assert (~ In a acc) as Hfresh.
  { intros F. apply (NoDup_remove_2 _ _ _ Hnd). apply in_or_app. left. exact F. }
  rewrite (add_name_fresh _ _ Hfresh).
  replace (acc ++ a :: names) with ((acc ++ [a]) ++ names) in * by (rewrite <- app_assoc; reflexivity).
  apply IH; [|exact Hnd]. intros n Hn. apply H. right. exact Hn.
Qed.

Lemma header_lines_blocks B H names :
  Forall nohdr H -> (forall n, In n names -> good n) -> header_lines (H ++ flat_map (block B) names) = H.
Proof.
  intros HH G. induction HH as [|x H Hx _ IH].
  - destruct names as [|a names]; [reflexivity|]. cbn [app flat_map]. unfold block at 1. cbn [app].
    apply header_lines_hdr. apply block_hdr. apply G. left. reflexivity.
  - cbn [app header_lines]. rewrite Hx. f_equal. exact IH.
Qed.

Lemma tagged_filter_map n m (l : list str) :
  map snd (filter (fun p : str * str => str_eqb (fst p) n) (map (pair m) l)) = if str_eqb m n then l else [].
Proof.
  destruct (str_eqb m n) eqn:E; induction l as [|x l IH]; cbn [map filter fst]; try reflexivity; rewrite E.
  - cbn [map snd]. f_equal. exact IH.
  - exact IH.
Qed.

Lemma tagged_blocks_other (B : str -> list str) names n : ~ In n names ->
  map snd (filter (fun p : str * str => str_eqb (fst p) n) (flat_map (fun m => map (pair m) (B m)) names)) = [].
Proof.
  induction names as [|a names IH]; intros H; [reflexivity|].
  cbn [flat_map]. rewrite filter_app, map_app, tagged_filter_map.
  destruct (str_eqb a n) eqn:E.
  - apply str_eqb_eq in E. exfalso. apply H. left. exact E.
  - apply IH. intros F. apply H. right. exact F.
Qed.

Lemma tagged_blocks_same (B : str -> list str) names n : NoDup names -> In n names ->
  map snd (filter (fun p : str * str => str_eqb (fst p) n) (flat_map (fun m => map (pair m) (B m)) names)) = B n.
Proof.
  induction names as [|a names IH]; intros Hnd H; [destruct H|].
  inversion Hnd as [|? ? Ha Hr]; subst.
  cbn [flat_map]. rewrite filter_app, map_app, tagged_filter_map.
  destruct H as [H|H].
  - subst a. rewrite str_eqb_refl. rewrite (tagged_blocks_other _ _ _ Ha). apply app_nil_r.
  - destruct (str_eqb a n) eqn:E.
    + apply str_eqb_eq in E. subst a. contradiction.
    + apply IH; assumption.
Qed.

Lemma in_blocks B names l : In l (flat_map (block B) names) ->
  exists n, In n names /\ (l = hdr_text n \/ In l (B n)).
Proof.
  intros H. apply in_flat_map in H. destruct H as [n [Hn Hl]]. exists n. split; [exact Hn|].
  destruct Hl as [Hl|Hl]; [left; symmetry; exact Hl | right; exact Hl].
Qed.

(* ------------------------------------------------------------------ the written lines of one section *)
Fixpoint close_lines (ls : list str) : list str :=
  match ls with
  | [] => [[ch_nl]]
  | l :: r => match r with
              | [] => if last_is ch_nl l then [l; [ch_nl]] else [l ++ [ch_nl]]
              | _ :: _ => l :: close_lines r
              end
  end.

Definition body (ps : list pline) : list str := close_lines (filter nonempty (map line_of ps)).

Lemma close_lines_closed l r : last_is ch_nl l = true -> close_lines (l :: r) = l :: close_lines r.
Proof. intros H. destruct r; cbn [close_lines]; [rewrite H|]; reflexivity. Qed.

Lemma nonempty_true (l : str) : l <> [] -> nonempty l = true.
Proof. destruct l; [contradiction | reflexivity]. Qed.

Lemma body_cons_nil p ps : line_of p = [] -> body (p :: ps) = body ps.
Proof. intros E. unfold body. cbn [map filter]. rewrite E. reflexivity. Qed.

Lemma body_cons_closed p ps :
  line_of p <> [] -> last_is ch_nl (line_of p) = true -> body (p :: ps) = line_of p :: body ps.
Proof.
  intros NE L. unfold body. cbn [map filter]. rewrite (nonempty_true _ NE).
  apply close_lines_closed. exact L.
Qed.

Lemma body_single_open p :
  line_of p <> [] -> last_is ch_nl (line_of p) = false -> body [p] = [line_of p ++ [ch_nl]].
Proof.
  intros NE L. unfold body. cbn [map filter]. rewrite (nonempty_true _ NE). cbn [close_lines]. rewrite L. reflexivity.
Qed.

Lemma parse_nl k : exists p, parse_line k [ch_nl] = Ok p.
Proof. destruct k; eexists; reflexivity. Qed.

Lemma not_in_removelast_last c (l : str) : ~ In c (removelast l) -> last_is c l = false -> ~ In c l.
Proof.
  intros H L F. destruct l as [|x l]; [exact F|].
  destruct (@exists_last _ (x :: l)) as [b [y E]]; [discriminate|]. rewrite E in *.
  rewrite removelast_last in H. rewrite last_is_snoc in L.
  apply in_app_or in F. destruct F as [F|[F|[]]]; [exact (H F)|].
  subst y. rewrite Ascii.eqb_refl in L. discriminate.
Qed.

(* the lines written for a section whose source lines L were parsed to ps: none is a section header, each
   parses again, together they carry the same entries, and they are what [lines] finds in the written text *)
Lemma body_props k : forall L ps,
  Forall2 (fun l p => parse_line k l = Ok p) L ps -> cbl L -> Forall nohdr L ->
  Forall (fun b => is_hdr b = false /\ exists p', parse_line k b = Ok p') (body ps) /\
  filter entry_nonblank (map spec_entry (body ps)) = filter entry_nonblank (map spec_entry L) /\
  forall s, lines (List.concat (map line_of ps) ++ ch_nl :: s) = body ps ++ lines s.
Proof.
  induction 1 as [|l p L ps Hp HF IH]; intros Hc Hn.
  - split; [|split].
    + constructor; [|constructor]. split; [reflexivity | apply parse_nl].
    + reflexivity.
    + intros s. reflexivity.
  - inversion Hn as [|? ? Hl HnL]; subst.
    pose proof (cbl_head _ _ Hc) as Hok.
    destruct (IH (cbl_tail _ _ Hc) HnL) as [I1 [I2 I3]].
    pose proof (line_roundtrip k l p Hok Hl Hp) as R. cbv zeta in R.
    destruct R as [[E Bk]|[NE [NR [LS [NH [RH SE]]]]]].
    + rewrite (body_cons_nil _ _ E). split; [exact I1 | split].
      * cbn [map filter]. rewrite Bk. exact I2.
      * intros s. cbn [map List.concat]. rewrite E. exact (I3 s).
    + assert (line_ok (line_of p)) as Hok' by (split; assumption).
      destruct (last_is ch_nl (line_of p)) eqn:LL.
      * rewrite (body_cons_closed _ _ NE LL). split; [|split].
        -- constructor; [|exact I1]. split; [exact NH|].
           destruct (line_reparse k l p Hok Hl Hp NE) as [p' [Hp' _]]. exists p'. exact Hp'.
        -- cbn [map filter]. rewrite SE, I2. reflexivity.
        -- intros s. cbn [map List.concat]. rewrite <- app_assoc.
           rewrite (lines_app_closed _ _ (line_ok_last_true _ Hok' LL)). rewrite I3. reflexivity.
      * assert (L = []) as EL by (apply (cbl_open_last l L Hc); rewrite <- LS; reflexivity).
        subst L. inversion HF; subst.
        rewrite (body_single_open _ NE LL).
        pose proof (not_in_removelast_last _ _ NR LL) as Hfree.
        destruct (spec_entry_add_nl _ NE Hfree) as [S1 [S2 _]].
        split; [|split].
        -- constructor; [|constructor]. split; [rewrite S2; exact NH|].
           destruct (line_reparse_nl k l p Hok Hl Hp NE LL) as [p' [Hp' _]]. exists p'. exact Hp'.
        -- cbn [map filter]. rewrite S1, SE. reflexivity.
        -- intros s. cbn [map List.concat]. rewrite app_nil_r. cbn [app].
           apply lines_app_nl. exact Hfree.
Qed.

Lemma filter_nonempty_closed (xs : list str) : Forall ends_nl xs -> filter nonempty xs = xs.
Proof.
  intros H. induction H as [|x xs Hx _ IH]; [reflexivity|].
  cbn [filter]. rewrite (ends_nl_nonempty _ Hx), IH. reflexivity.
Qed.

Lemma lines_sections (P : str -> list pline) (B : str -> list str) names :
  (forall n, In n names ->
     good n /\ forall s, lines (List.concat (map line_of (P n)) ++ ch_nl :: s) = B n ++ lines s) ->
  forall s, lines (List.concat (map (fun n => section_text n (P n)) names) ++ s)
            = flat_map (block B) names ++ lines s.
Proof.
  induction names as [|a names IH]; intros H s; [reflexivity|].
  destruct (H a (or_introl eq_refl)) as [[G1 _] G3].
  cbn [map List.concat flat_map]. rewrite section_text_lines. rewrite <- !app_assoc.
  rewrite (lines_app_closed _ _ (hdr_text_ends_nl _ G1)).
  change ([ch_nl] ++ List.concat (map (fun n => section_text n (P n)) names) ++ s)
    with (ch_nl :: (List.concat (map (fun n => section_text n (P n)) names) ++ s)).
  rewrite G3. rewrite IH by (intros n Hn; apply H; right; exact Hn).
  unfold block. cbn [app]. reflexivity.
Qed.

(* ================================================================== R2: read, write, read *)
Theorem roundtrip : forall text f,
  itp_read text = Ok f -> no_header_sec (lines text) ->
  exists f', itp_read (itp_write f) = Ok f' /\ abs f' = abs f /\ no_header_sec (lines (itp_write f)).
Proof.
  intros text f Hread Hdom. unfold itp_read in *.
  pose proof (cbl_lines text) as Hcbl.
  remember (lines text) as ls eqn:Els.
  destruct (itp_parse_spec _ _ Hread Hdom) as [H1 [_ [H3 H4]]].
  assert (sec_names ls = [] \/ sec_names ls <> []) as [Hnil|Hne]
    by (destruct (sec_names ls); [left; reflexivity | right; discriminate]).
  - (* no section at all: the text is written back unchanged *)
    assert (itp_write f = text) as W.
    { unfold itp_write. rewrite H3, H1, Hnil. cbn [map List.concat]. rewrite app_nil_r.
      rewrite (header_lines_all _ Hnil). rewrite Els. apply lines_concat_id. }
    exists f. rewrite W, <- Els. repeat split; assumption.
  - set (names := sec_names ls) in *.
    set (P := fun n => sec_lines n (f_secs f)).
    set (B := fun n => body (P n)).
    (* the section names *)
    assert (Hname : forall n, In n names -> good n /\ n <> s_header).
    { intros n Hn. destruct (sec_names_src _ _ Hn) as [l [L1 [L2 L3]]]. split.
      - exact (hdr_name_ok_gen _ _ L3).
      - intros E. apply (Hdom l L1 L2). rewrite L3, E. reflexivity. }
    (* the sections *)
    assert (Hsec : forall n,
      Forall (fun b => is_hdr b = false /\ exists p', parse_line (kind_of n) b = Ok p') (B n) /\
      filter entry_nonblank (map spec_entry (B n)) = filter entry_nonblank (map spec_entry (lines_in n ls)) /\
      forall s, lines (List.concat (map line_of (P n)) ++ ch_nl :: s) = B n ++ lines s).
    { intros n. apply (body_props (kind_of n) (lines_in n ls) (P n)).
      - apply H4.
      - apply (cbl_tagged n ls None Hcbl).
      - apply lines_in_nohdr. }
    assert (Hblk : forall n, In n names -> good n /\ Forall nohdr (B n)).
    { intros n Hn. split; [apply Hname; exact Hn|]. destruct (Hsec n) as [S1 _].
      eapply Forall_impl; [|exact S1]. intros b [Hb _]. exact Hb. }
    assert (HH : Forall nohdr (header_lines ls)).
    { apply Forall_forall. intros l Hl. exact (header_lines_nohdr _ _ Hl). }
    (* the lines of the written text *)
    assert (Hls' : lines (itp_write f) = header_lines ls ++ flat_map (block B) names).
    { unfold itp_write. rewrite H1. rewrite H3. rewrite map_map. cbn [fst snd].
      rewrite lines_concat_closed.
      2:{ eapply Forall_impl; [|apply (header_lines_closed _ Hcbl (header_lines_proper _ Hne))].
          intros l Hl. right. exact Hl. }
      rewrite filter_nonempty_closed by (apply (header_lines_closed _ Hcbl (header_lines_proper _ Hne))).
      f_equal.
      pose proof (lines_sections P B names) as LS.
      rewrite <- (app_nil_r (List.concat _)). rewrite LS; [apply app_nil_r|].
      intros n Hn. split; [apply Hname; exact Hn | apply Hsec]. }
    remember (lines (itp_write f)) as ls' eqn:Els'.
    assert (Hhdr' : header_lines ls' = header_lines ls).
    { rewrite Hls'. apply header_lines_blocks; [exact HH|]. intros n Hn. apply Hname. exact Hn. }
    assert (Hnames' : sec_names ls' = names).
    { rewrite Hls'. unfold sec_names. rewrite (sec_names_from_nohdr _ _ _ HH).
      apply (sec_names_blocks B names Hblk []). apply sec_names_NoDup. }
    assert (Htag' : tag_lines None ls' = flat_map (fun n => map (pair n) (B n)) names).
    { rewrite Hls'. rewrite (tag_lines_nohdr_none _ _ HH). apply tag_lines_blocks. exact Hblk. }
    assert (Hin' : forall n, In n names -> lines_in n ls' = B n).
    { intros n Hn. unfold lines_in. rewrite Htag'. apply tagged_blocks_same; [apply sec_names_NoDup | exact Hn]. }
    assert (Hhl : forall l, In l ls' -> is_hdr l = true -> exists n, In n names /\ hdr_name l = Ok n).
    { intros l Hl Hh. rewrite Hls' in Hl. apply in_app_or in Hl. destruct Hl as [Hl|Hl].
      - rewrite (header_lines_nohdr _ _ Hl) in Hh. discriminate.
      - destruct (in_blocks _ _ _ Hl) as [n [Hn [E|Hb]]].
        + subst l. exists n. split; [exact Hn|]. apply block_hdr. apply Hname. exact Hn.
        + destruct (Hblk n Hn) as [_ F]. rewrite Forall_forall in F. rewrite (F l Hb) in Hh. discriminate. }
    assert (Hdom' : no_header_sec ls').
    { intros l Hl Hh E. destruct (Hhl l Hl Hh) as [n [Hn Hnm]]. rewrite Hnm in E. inversion E; subst n.
      destruct (Hname _ Hn) as [_ F]. apply F. reflexivity. }
    destruct (itp_parse_total ls' Hdom') as [f' Hf'].
    { intros l Hl Hh. destruct (Hhl l Hl Hh) as [n [_ Hnm]]. exists n. exact Hnm. }
    { intros n l Hl. rewrite Htag' in Hl. apply in_flat_map in Hl. destruct Hl as [m [Hm Hl]].
      apply in_map_iff in Hl. destruct Hl as [x [E Hx]]. inversion E; subst m x.
      destruct (Hsec n) as [S1 _]. rewrite Forall_forall in S1. apply (S1 l Hx). }
    exists f'. split; [exact Hf' | split; [|exact Hdom']].
    rewrite (first_parse_complete _ _ Hf' Hdom'). rewrite (first_parse_complete _ _ Hread Hdom).
    unfold spec_abs. rewrite Hhdr', Hnames'. f_equal. apply map_ext_in. intros n Hn. f_equal.
    unfold spec_sec. rewrite (Hin' n Hn). apply (Hsec n).
Qed.

(* ================================================================== R3: the written form is stable *)
Theorem stable : forall text f,
  itp_read text = Ok f -> no_header_sec (lines text) ->
  exists f' f'', itp_read (itp_write f) = Ok f' /\ abs f' = abs f /\
                 itp_read (itp_write f') = Ok f'' /\ abs f'' = abs f.
Proof.
  intros text f Hread Hdom.
  destruct (roundtrip text f Hread Hdom) as [f' [R1 [A1 D1]]].
  destruct (roundtrip (itp_write f) f' R1 D1) as [f'' [R2 [A2 _]]].
  exists f', f''. repeat split; [exact R1 | exact A1 | exact R2 | rewrite A2; exact A1].
Qed.
