(* _split_list, guess_residue_restrains, guess_protein_restrains: lemmas for C10. *)
From Coq Require Import String Bool Arith Lia Sorted List.
From GM Require Import Base.Res Model.Restraints.
Import ListNotations.

(* ------------------------------------------------------------------ list helpers *)
Lemma firstn_slice {A} (l : list A) a b : a <= b -> firstn a l ++ slice l a b = firstn b l.
Proof.
  revert l b; induction a as [|a IH]; intros l b H.
  - unfold slice; simpl. now rewrite Nat.sub_0_r.
  - destruct b as [|b]; [lia|]. destruct l as [|x t].
    + unfold slice; simpl. now rewrite firstn_nil.
    + simpl. f_equal. rewrite <- (IH t b) by lia. reflexivity.
Qed.

Lemma concat_slices {A} (l : list A) (f : nat -> nat) n :
  f 0 = 0 -> (forall i, i < n -> f i <= f (S i)) ->
  concat (map (fun i => slice l (f i) (f (S i))) (seq 0 n)) = firstn (f n) l.
Proof.
  intros H0; induction n as [|n IH]; intros Hm.
  - simpl. now rewrite H0.
  - rewrite seq_S, map_app, concat_app; simpl. rewrite app_nil_r, IH by (intros; apply Hm; lia).
    apply firstn_slice, Hm; lia.
Qed.

Lemma nth_error_seq' s n k : k < n -> nth_error (seq s n) k = Some (s + k).
Proof.
  revert s k; induction n as [|n IH]; intros s k H; [lia|].
  destruct k as [|k]; simpl; [f_equal; lia|]. rewrite IH by lia. f_equal; lia.
Qed.

Lemma skipn_seq' a s n : skipn a (seq s n) = seq (s + a) (n - a).
Proof.
  revert s n; induction a as [|a IH]; intros s n; simpl.
  - now rewrite Nat.add_0_r, Nat.sub_0_r.
  - destruct n as [|n]; simpl; [reflexivity|]. rewrite IH. f_equal; lia.
Qed.

Lemma firstn_seq' a s n : a <= n -> firstn a (seq s n) = seq s a.
Proof.
  revert s n; induction a as [|a IH]; intros s n H; simpl; [reflexivity|].
  destruct n as [|n]; [lia|]. simpl. f_equal. apply IH; lia.
Qed.

Lemma slice_seq n a b : a <= b -> b <= n -> slice (seq 0 n) a b = seq a (b - a).
Proof.
  intros H1 H2. unfold slice. rewrite skipn_seq', firstn_seq' by lia. reflexivity.
Qed.

Lemma slice_length {A} (l : list A) a b : a <= b -> b <= length l -> length (slice l a b) = b - a.
Proof.
  intros H1 H2. unfold slice. rewrite firstn_length, skipn_length. lia.
Qed.

Lemma combine_map_same {A B C} (f : A -> B) (g : A -> C) (l : list A) :
  combine (map f l) (map g l) = map (fun x => (f x, g x)) l.
Proof. induction l; simpl; congruence. Qed.

Lemma flat_map_map' {A B C} (f : B -> list C) (g : A -> B) (l : list A) :
  flat_map f (map g l) = flat_map (fun x => f (g x)) l.
Proof. induction l; simpl; congruence. Qed.

Lemma map_fst_combine {A B} (a : list A) (b : list B) :
  length a = length b -> map fst (combine a b) = a.
Proof.
  revert b; induction a as [|x a IH]; intros [|y b] H; simpl in *; try discriminate; auto.
  f_equal; apply IH; lia.
Qed.
Lemma map_snd_combine {A B} (a : list A) (b : list B) :
  length a = length b -> map snd (combine a b) = b.
Proof.
  revert b; induction a as [|x a IH]; intros [|y b] H; simpl in *; try discriminate; auto.
  f_equal; apply IH; lia.
Qed.

(* ------------------------------------------------------------------ the bounds i*n/p *)
Definition bd (n p i : nat) : nat := i * n / p.

Lemma bd_0 n p : p <> 0 -> bd n p 0 = 0.
Proof. intros; unfold bd; simpl. now apply Nat.div_0_l. Qed.
Lemma bd_le n p i j : p <> 0 -> i <= j -> bd n p i <= bd n p j.
Proof. intros; unfold bd. apply Nat.div_le_mono; [assumption|]. now apply Nat.mul_le_mono_r. Qed.
Lemma bd_top n p : p <> 0 -> bd n p p = n.
Proof. intros; unfold bd. rewrite Nat.mul_comm. now apply Nat.div_mul. Qed.
Lemma bd_strict n p i : p <> 0 -> p <= n -> bd n p i < bd n p (S i).
Proof.
  intros Hp Hn; unfold bd.
  assert (H : (i * n + 1 * p) / p <= S i * n / p) by (apply Nat.div_le_mono; [assumption|]; simpl; lia).
  rewrite Nat.div_add in H by assumption. lia.
Qed.
Lemma bd_id n i : n <> 0 -> bd n n i = i.
Proof. intros; unfold bd. now apply Nat.div_mul. Qed.

(* every index below n lies in exactly one interval [bd k, bd (S k)) *)
Lemma bd_cover n p i : p <> 0 -> i < n -> exists k, k < p /\ bd n p k <= i < bd n p (S k).
Proof.
  intros Hp Hi.
  assert (G : forall m, m <= p -> i < bd n p m -> exists k, k < m /\ bd n p k <= i < bd n p (S k)).
  { induction m as [|m IH]; intros Hm Hlt.
    - rewrite bd_0 in Hlt by assumption; lia.
    - destruct (Nat.lt_ge_cases i (bd n p m)) as [L|G].
      + destruct (IH ltac:(lia) L) as [k [Hk Hb]]. exists k; split; [lia|assumption].
      + exists m; split; [lia|]. split; assumption. }
  apply (G p); [lia|]. now rewrite bd_top.
Qed.

Lemma bd_unique n p i k k' : p <> 0 ->
  bd n p k <= i < bd n p (S k) -> bd n p k' <= i < bd n p (S k') -> k = k'.
Proof.
  intros Hp [A B] [C D].
  destruct (Nat.lt_trichotomy k k') as [L|[E|L]]; [|assumption|].
  - assert (bd n p (S k) <= bd n p k') by (apply bd_le; [assumption|lia]). lia.
  - assert (bd n p (S k') <= bd n p k) by (apply bd_le; [assumption|lia]). lia.
Qed.

(* ------------------------------------------------------------------ _split_list *)
Lemma split_list_eq {A} (l : list A) p : p <> 0 ->
  split_list l p = map (fun i => slice l (bd (length l) p i) (bd (length l) p (S i))) (seq 0 p).
Proof.
  intros Hp. destruct p as [|p]; [congruence|]. unfold split_list, bd.
  apply map_ext; intros i. now rewrite Nat.add_1_r.
Qed.

Lemma split_list_partition_lem {A} (l : list A) (parts : nat) :
  1 <= parts <= length l ->
  concat (split_list l parts) = l /\
  length (split_list l parts) = parts /\
  (forall g, In g (split_list l parts) -> g <> []) /\
  (forall k, k < parts ->
     nth_error (split_list l parts) k =
       Some (slice l (k * length l / parts) ((k + 1) * length l / parts)) /\
     k * length l / parts < (k + 1) * length l / parts <= length l).
Proof.
  intros [H1 H2]. assert (Hp : parts <> 0) by lia.
  rewrite split_list_eq by assumption. repeat split.
  - rewrite (concat_slices l (bd (length l) parts) parts).
    + rewrite bd_top by assumption. apply firstn_all.
    + now apply bd_0.
    + intros; apply bd_le; [assumption|lia].
  - now rewrite map_length, seq_length.
  - intros g Hg E. apply in_map_iff in Hg. destruct Hg as [i [Hi Hin]]. apply in_seq in Hin.
    assert (L : length g = bd (length l) parts (S i) - bd (length l) parts i).
    { rewrite <- Hi. apply slice_length.
      - apply bd_le; [assumption|lia].
      - rewrite <- (bd_top (length l) parts Hp) at 2. apply bd_le; [assumption|lia]. }
    pose proof (bd_strict (length l) parts i Hp H2). rewrite E in L; simpl in L. lia.
  - rewrite nth_error_map, nth_error_seq' by assumption. simpl. unfold bd. now rewrite Nat.add_1_r.
  - rewrite Nat.add_1_r. apply (bd_strict (length l) parts k Hp H2).
  - rewrite Nat.add_1_r. fold (bd (length l) parts (S k)).
    rewrite <- (bd_top (length l) parts Hp) at 2. apply bd_le; [assumption|lia].
Qed.

(* ------------------------------------------------------------------ guess_residue_restrains *)
Definition lex_lt (p q : nat * nat) : Prop := fst p < fst q \/ (fst p = fst q /\ snd p < snd q).

Definition group_pairs (n1 n2 np o1 o2 k : nat) : list (nat * nat) :=
  flat_map (fun i => map (fun j => (i + o1, j + o2)) (seq (bd n2 np k) (bd n2 np (S k) - bd n2 np k)))
           (seq (bd n1 np k) (bd n1 np (S k) - bd n1 np k)).

Lemma split_seq n p : p <> 0 ->
  split_list (seq 0 n) p = map (fun k => seq (bd n p k) (bd n p (S k) - bd n p k)) (seq 0 p).
Proof.
  intros Hp. rewrite split_list_eq by assumption. rewrite seq_length.
  apply map_ext_in. intros k Hk. apply in_seq in Hk. apply slice_seq.
  - apply bd_le; [assumption|lia].
  - rewrite <- (bd_top n p Hp) at 2. apply bd_le; [assumption|lia].
Qed.

Lemma guess_residue_canonical n1 n2 o1 o2 : 1 <= n1 -> 1 <= n2 ->
  guess_residue_restrains n1 n2 o1 o2 =
  flat_map (group_pairs n1 n2 (Nat.min n1 n2) o1 o2) (seq 0 (Nat.min n1 n2)).
Proof.
  intros H1 H2. unfold guess_residue_restrains.
  assert (Hp : Nat.min n1 n2 <> 0) by lia.
  rewrite !split_seq by assumption. rewrite combine_map_same, flat_map_map'. reflexivity.
Qed.

Lemma in_group_pairs n1 n2 np o1 o2 k a c :
  In (a, c) (group_pairs n1 n2 np o1 o2 k) <->
  exists i j, bd n1 np k <= i < bd n1 np (S k) /\ bd n2 np k <= j < bd n2 np (S k) /\
              a = i + o1 /\ c = j + o2.
Proof.
  unfold group_pairs. rewrite in_flat_map. split.
  - intros [i [Hi Hin]]. apply in_map_iff in Hin. destruct Hin as [j [E Hj]].
    apply in_seq in Hi. apply in_seq in Hj. inversion E; subst. exists i, j. lia.
  - intros [i [j [Hi [Hj [Ea Ec]]]]]. exists i. split; [apply in_seq; lia|].
    apply in_map_iff. exists j. split; [subst; reflexivity|apply in_seq; lia].
Qed.

Lemma in_guess_residue n1 n2 o1 o2 a c : 1 <= n1 -> 1 <= n2 ->
  In (a, c) (guess_residue_restrains n1 n2 o1 o2) <->
  exists k i j, k < Nat.min n1 n2 /\
    bd n1 (Nat.min n1 n2) k <= i < bd n1 (Nat.min n1 n2) (S k) /\
    bd n2 (Nat.min n1 n2) k <= j < bd n2 (Nat.min n1 n2) (S k) /\
    a = i + o1 /\ c = j + o2.
Proof.
  intros H1 H2. rewrite guess_residue_canonical by assumption. rewrite in_flat_map. split.
  - intros [k [Hk Hin]]. apply in_seq in Hk. apply in_group_pairs in Hin.
    destruct Hin as [i [j H]]. exists k, i, j. split; [lia|assumption].
  - intros [k [i [j [Hk H]]]]. exists k. split; [apply in_seq; lia|]. apply in_group_pairs. eauto.
Qed.

(* sortedness machinery *)
Lemma SS_app {A} (R : A -> A -> Prop) l1 l2 :
  StronglySorted R l1 -> StronglySorted R l2 -> (forall x y, In x l1 -> In y l2 -> R x y) ->
  StronglySorted R (l1 ++ l2).
Proof.
  induction l1 as [|a l1 IH]; intros S1 S2 H; simpl; [assumption|].
  inversion S1; subst. constructor.
  - apply IH; auto. intros; apply H; simpl; auto.
  - apply Forall_app; split; [assumption|]. apply Forall_forall. intros; apply H; simpl; auto.
Qed.

Lemma SS_flat_map {A B} (RA : A -> A -> Prop) (R : B -> B -> Prop) (f : A -> list B) l :
  StronglySorted RA l -> (forall a, In a l -> StronglySorted R (f a)) ->
  (forall a a' x y, In a l -> In a' l -> RA a a' -> In x (f a) -> In y (f a') -> R x y) ->
  StronglySorted R (flat_map f l).
Proof.
  induction l as [|a l IH]; intros S Hs Hr; simpl; [constructor|].
  inversion S; subst. apply SS_app.
  - apply Hs; simpl; auto.
  - apply IH; auto. { intros; apply Hs; simpl; auto. }
    intros a0 a' x y I1 I2; apply Hr; simpl; auto.
  - intros x y Hx Hy. apply in_flat_map in Hy. destruct Hy as [a' [Ia' Hy]].
    apply (Hr a a' x y); simpl; auto. rewrite Forall_forall in H2. auto.
Qed.

Lemma SS_seq s n : StronglySorted lt (seq s n).
Proof.
  revert s; induction n as [|n IH]; intros s; simpl; constructor; [apply IH|].
  apply Forall_forall. intros x Hx. apply in_seq in Hx. lia.
Qed.

Lemma SS_map {A B} (RA : A -> A -> Prop) (R : B -> B -> Prop) (f : A -> B) l :
  StronglySorted RA l -> (forall a a', RA a a' -> R (f a) (f a')) -> StronglySorted R (map f l).
Proof.
  intros S H; induction S; simpl; constructor; [assumption|].
  apply Forall_forall. intros y Hy. apply in_map_iff in Hy. destruct Hy as [a' [E Ia]]. subst.
  rewrite Forall_forall in H0. auto.
Qed.

Lemma guess_residue_sorted n1 n2 o1 o2 : 1 <= n1 -> 1 <= n2 ->
  StronglySorted lex_lt (guess_residue_restrains n1 n2 o1 o2).
Proof.
  intros H1 H2. rewrite guess_residue_canonical by assumption.
  assert (Hp : Nat.min n1 n2 <> 0) by lia.
  apply (SS_flat_map lt); [apply SS_seq| |].
  - intros k _. unfold group_pairs. apply (SS_flat_map lt); [apply SS_seq| |].
    + intros i _. apply (SS_map lt); [apply SS_seq|]. intros j j' Hj. right; simpl; lia.
    + intros i i' x y _ _ Hi Hx Hy. apply in_map_iff in Hx. apply in_map_iff in Hy.
      destruct Hx as [j [Ex _]]. destruct Hy as [j' [Ey _]]. subst. left; simpl; lia.
  - intros k k' [a c] [a' c'] _ _ Hk Hx Hy. apply in_group_pairs in Hx. apply in_group_pairs in Hy.
    destruct Hx as [i [j [Hi [Hj [Ea Ec]]]]]. destruct Hy as [i' [j' [Hi' [Hj' [Ea' Ec']]]]].
    assert (bd n1 (Nat.min n1 n2) (S k) <= bd n1 (Nat.min n1 n2) k') by (apply bd_le; [assumption|lia]).
    left; simpl; lia.
Qed.

(* the full statement for one residue pair *)
Lemma guess_residue_spec n1 n2 o1 o2 : 1 <= n1 -> 1 <= n2 ->
  let r := guess_residue_restrains n1 n2 o1 o2 in
  (forall i, i < n1 -> exists j, j < n2 /\ In (i + o1, j + o2) r) /\
  (forall j, j < n2 -> exists i, i < n1 /\ In (i + o1, j + o2) r) /\
  (forall a c, In (a, c) r -> o1 <= a < o1 + n1 /\ o2 <= c < o2 + n2) /\
  StronglySorted lex_lt r /\
  (forall p q, In p r -> In q r -> fst p < fst q -> snd p <= snd q).
Proof.
  intros H1 H2 r. set (np := Nat.min n1 n2).
  assert (Hp : np <> 0) by (unfold np; lia).
  assert (Hp1 : np <= n1) by (unfold np; lia). assert (Hp2 : np <= n2) by (unfold np; lia).
  assert (top : forall n k, k < np -> bd n np (S k) <= n).
  { intros n k Hk. rewrite <- (bd_top n np Hp) at 2. apply bd_le; [assumption|lia]. }
  repeat split.
  - intros i Hi. destruct (bd_cover n1 np i Hp Hi) as [k [Hk Hb]].
    pose proof (bd_strict n2 np k Hp Hp2). pose proof (top n2 k Hk).
    exists (bd n2 np k). split; [lia|]. apply in_guess_residue; [assumption..|].
    exists k, i, (bd n2 np k). fold np. repeat split; try lia.
  - intros j Hj. destruct (bd_cover n2 np j Hp Hj) as [k [Hk Hb]].
    pose proof (bd_strict n1 np k Hp Hp1). pose proof (top n1 k Hk).
    exists (bd n1 np k). split; [lia|]. apply in_guess_residue; [assumption..|].
    exists k, (bd n1 np k), j. fold np. repeat split; try lia.
  - apply in_guess_residue in H; [|assumption..]. destruct H as [k [i [j [Hk [Hi [Hj [Ea Ec]]]]]]]. lia.
  - apply in_guess_residue in H; [|assumption..]. destruct H as [k [i [j [Hk [Hi [Hj [Ea Ec]]]]]]].
    fold np in Hi. pose proof (top n1 k Hk). lia.
  - apply in_guess_residue in H; [|assumption..]. destruct H as [k [i [j [Hk [Hi [Hj [Ea Ec]]]]]]]. lia.
  - apply in_guess_residue in H; [|assumption..]. destruct H as [k [i [j [Hk [Hi [Hj [Ea Ec]]]]]]].
    fold np in Hj. pose proof (top n2 k Hk). lia.
  - apply guess_residue_sorted; assumption.
  - intros [a c] [a' c'] Hx Hy Hlt; simpl in *.
    apply in_guess_residue in Hx; [|assumption..]. apply in_guess_residue in Hy; [|assumption..].
    destruct Hx as [k [i [j [Hk [Hi [Hj [Ea Ec]]]]]]]. destruct Hy as [k' [i' [j' [Hk' [Hi' [Hj' [Ea' Ec']]]]]]].
    fold np in Hi, Hj, Hi', Hj', Hk, Hk'.
    destruct (Nat.lt_trichotomy k k') as [L|[E|L]].
    + assert (bd n2 np (S k) <= bd n2 np k') by (apply bd_le; [assumption|lia]). lia.
    + subst k'. (* same group: one side is a singleton because np = min n1 n2 *)
      destruct (Nat.le_ge_cases n1 n2) as [Le|Ge].
      * assert (np = n1) by (unfold np; lia). rewrite H in Hi, Hi'. rewrite !bd_id in Hi, Hi' by lia. lia.
      * assert (np = n2) by (unfold np; lia). rewrite H in Hj, Hj'. rewrite !bd_id in Hj, Hj' by lia. lia.
    + assert (bd n1 np (S k') <= bd n1 np k) by (apply bd_le; [assumption|lia]). lia.
Qed.

(* ------------------------------------------------------------------ guess_protein_restrains *)
(* residue (sequence position) of atom i in a molecule whose residues have the given sizes *)
Fixpoint res_index (sizes : list nat) (i : nat) : option nat :=
  match sizes with
  | [] => None
  | n :: t => if i <? n then Some 0 else option_map S (res_index t (i - n))
  end.

Definition total (l : list nat) : nat := fold_right Nat.add 0 l.

Lemma protein_pairs_spec sizes : Forall (fun s => 1 <= fst s /\ 1 <= snd s) sizes ->
  forall o1 o2,
  let r := protein_pairs sizes o1 o2 in
  (forall a c, In (a, c) r ->
     o1 <= a < o1 + total (map fst sizes) /\ o2 <= c < o2 + total (map snd sizes) /\
     exists k, res_index (map fst sizes) (a - o1) = Some k /\ res_index (map snd sizes) (c - o2) = Some k) /\
  (forall a, o1 <= a < o1 + total (map fst sizes) -> exists c, In (a, c) r) /\
  (forall c, o2 <= c < o2 + total (map snd sizes) -> exists a, In (a, c) r) /\
  StronglySorted lex_lt r /\
  (forall p q, In p r -> In q r -> fst p < fst q -> snd p <= snd q).
Proof.
  induction 1 as [|[n1 n2] t [Hn1 Hn2] Ht IH]; intros o1 o2; simpl in *.
  - repeat split; try (intros; contradiction || lia). constructor.
  - destruct (guess_residue_spec n1 n2 o1 o2 Hn1 Hn2) as [G1 [G2 [G3 [G4 G5]]]].
    destruct (IH (o1 + n1) (o2 + n2)) as [I1 [I2 [I3 [I4 I5]]]]. clear IH.
    repeat split.
    + apply in_app_or in H. destruct H as [H|H]; [apply G3 in H; lia|apply I1 in H; lia].
    + apply in_app_or in H. destruct H as [H|H]; [apply G3 in H; lia|apply I1 in H; lia].
    + apply in_app_or in H. destruct H as [H|H]; [apply G3 in H; lia|apply I1 in H; lia].
    + apply in_app_or in H. destruct H as [H|H]; [apply G3 in H; lia|apply I1 in H; lia].
    + apply in_app_or in H. destruct H as [H|H].
      * apply G3 in H. exists 0.
        replace (a - o1 <? n1) with true by (symmetry; apply Nat.ltb_lt; lia).
        replace (c - o2 <? n2) with true by (symmetry; apply Nat.ltb_lt; lia). auto.
      * apply I1 in H. destruct H as [Ha [Hc [k [K1 K2]]]]. exists (S k).
        replace (a - o1 <? n1) with false by (symmetry; apply Nat.ltb_ge; lia).
        replace (c - o2 <? n2) with false by (symmetry; apply Nat.ltb_ge; lia).
        replace (a - o1 - n1) with (a - (o1 + n1)) by lia.
        replace (c - o2 - n2) with (c - (o2 + n2)) by lia. now rewrite K1, K2.
    + intros a Ha. destruct (Nat.lt_ge_cases a (o1 + n1)) as [L|G].
      * destruct (G1 (a - o1) ltac:(lia)) as [j [Hj Hin]]. exists (j + o2). apply in_or_app; left.
        replace a with (a - o1 + o1) at 1 by lia. exact Hin.
      * destruct (I2 a ltac:(lia)) as [c Hin]. exists c. apply in_or_app; now right.
    + intros c Hc. destruct (Nat.lt_ge_cases c (o2 + n2)) as [L|G].
      * destruct (G2 (c - o2) ltac:(lia)) as [i [Hi Hin]]. exists (i + o1). apply in_or_app; left.
        replace c with (c - o2 + o2) at 1 by lia. exact Hin.
      * destruct (I3 c ltac:(lia)) as [a Hin]. exists a. apply in_or_app; now right.
    + apply SS_app; [assumption..|]. intros [a c] [a' c'] Hx Hy. apply G3 in Hx. apply I1 in Hy.
      left; simpl; lia.
    + intros [a c] [a' c'] Hx Hy Hlt; simpl in *.
      apply in_app_or in Hx. apply in_app_or in Hy. destruct Hx as [Hx|Hx], Hy as [Hy|Hy].
      * apply (G5 (a, c) (a', c')); assumption.
      * apply G3 in Hx. apply I1 in Hy. lia.
      * apply I1 in Hx. apply G3 in Hy. lia.
      * apply (I5 (a, c) (a', c')); assumption.
Qed.

Section Protein.
Context {P : Type}.

Lemma guess_protein_counts (m1 m2 : molecule P) :
  length (m_res m1) <> length (m_res m2) -> guess_protein_restrains m1 m2 = Err EIO.
Proof.
  intros H. unfold guess_protein_restrains, m_resnames. rewrite !map_length.
  destruct (Nat.eqb_spec (length (m_res m1)) (length (m_res m2))); [contradiction|reflexivity].
Qed.

Lemma guess_protein_spec (m1 m2 : molecule P) r :
  guess_protein_restrains m1 m2 = Ok r ->
  Forall (fun n => 1 <= n) (m_sizes m1) -> Forall (fun n => 1 <= n) (m_sizes m2) ->
  length (m_res m1) = length (m_res m2) /\
  (forall a c, In (a, c) r ->
     a < m_len m1 /\ c < m_len m2 /\
     exists k, res_index (m_sizes m1) a = Some k /\ res_index (m_sizes m2) c = Some k) /\
  (forall a, a < m_len m1 -> exists c, In (a, c) r) /\
  (forall c, c < m_len m2 -> exists a, In (a, c) r) /\
  StronglySorted lex_lt r /\
  (forall p q, In p r -> In q r -> fst p < fst q -> snd p <= snd q).
Proof.
  unfold guess_protein_restrains, m_resnames. rewrite !map_length.
  destruct (Nat.eqb_spec (length (m_res m1)) (length (m_res m2))) as [E|]; [|discriminate]. simpl.
  match goal with |- (if ?b then _ else _) = _ -> _ => destruct b end; [discriminate|].
  intros H F1 F2. inversion H; subst r; clear H.
  assert (L : length (m_sizes m1) = length (m_sizes m2)) by (unfold m_sizes; now rewrite !map_length).
  assert (T : forall m : molecule P, m_len m = total (m_sizes m)).
  { intros m. unfold m_len, m_atoms, m_sizes. induction (m_res m) as [|x t IH]; simpl; [reflexivity|].
    rewrite app_length, IH. reflexivity. }
  assert (F : Forall (fun s => 1 <= fst s /\ 1 <= snd s) (combine (m_sizes m1) (m_sizes m2))).
  { apply Forall_forall. intros [a b] Hin. rewrite Forall_forall in F1, F2.
    split; simpl; [apply F1; eapply in_combine_l; eauto|apply F2; eapply in_combine_r; eauto]. }
  destruct (protein_pairs_spec _ F 0 0) as [S1 [S2 [S3 [S4 S5]]]].
  rewrite map_fst_combine, map_snd_combine in * by assumption. rewrite !T.
  split; [assumption|]. repeat split; try assumption.
  - apply S1 in H. lia.
  - apply S1 in H. lia.
  - apply S1 in H. destruct H as [_ [_ [k K]]]. rewrite !Nat.sub_0_r in K. eauto.
  - intros a Ha. apply S2. lia.
  - intros c Hc. apply S3. lia.
Qed.

End Protein.
