(* C11_exact and C11_order_independent at the level of residue kinds *)
From Coq Require Import List Arith Bool Lia Sorting.Permutation.
Import ListNotations.
From GM Require Import Base.Res Model.SystemRec Proofs.SystemRecScan Proofs.SystemRecDomain
     Proofs.SystemRecSort Proofs.SystemRecLoad.

Lemma mapM_app {A B} (f : A -> res B) l1 l2 r1 r2 :
  mapM f l1 = Ok r1 -> mapM f l2 = Ok r2 -> mapM f (l1 ++ l2) = Ok (r1 ++ r2).
Proof.
  revert r1. induction l1 as [|x xs IH]; simpl; intros r1 H1 H2.
  - inversion H1; subst. exact H2.
  - destruct (f x); simpl in *; [|discriminate].
    destruct (mapM f xs) eqn:E; simpl in *; [|discriminate]. inversion H1; subst.
    rewrite (IH l eq_refl H2). reflexivity.
Qed.

Lemma mapM_id {A} (f : A -> res A) l : Forall (fun x => f x = Ok x) l -> mapM f l = Ok l.
Proof.
  induction 1 as [|x xs Hx _ IH]; simpl; auto. rewrite Hx; simpl. rewrite IH; reflexivity.
Qed.

Lemma index_of_nth order s i : index_of order s = Some i -> nth_error order i = Some s.
Proof.
  revert i. induction order as [|x rest IH]; simpl; intros i H; [discriminate|].
  destruct (x =? s) eqn:E.
  - inversion H; subst. apply Nat.eqb_eq in E. subst. reflexivity.
  - destruct (index_of rest s); simpl in H; [|discriminate]. inversion H; subst. simpl. auto.
Qed.

Lemma Forall2_nth {A B} (R : A -> B -> Prop) l1 l2 i a :
  Forall2 R l1 l2 -> nth_error l1 i = Some a -> exists b, nth_error l2 i = Some b /\ R a b.
Proof.
  intros H. revert i. induction H; intros [|i] Hn; simpl in *; try discriminate.
  - inversion Hn; subst. eauto.
  - eauto.
Qed.

Section Exact.
Variables (v : groview) (tops : list top) (pats : list (list nat)) (runs : list run).
Hypothesis D : domain v tops pats runs.

Lemma mols_lookup order mols s i : mols_ok tops pats order mols -> index_of order s = Some i ->
  exists mi, nth_error mols i = Some mi /\ nth_error tops s = Some (mi_top mi) /\ mi_nres mi = plen pats s.
Proof.
  intros Hm Hi. apply index_of_nth in Hi. destruct (Forall2_nth _ _ _ _ _ Hm Hi) as (mi & H1 & H2 & H3). eauto.
Qed.

Lemma instances_spec order st : inv tops pats runs order st ->
  instances st = Ok (expected pats (index_of order) runs 0).
Proof.
  intros (_ & Hm & Hb). unfold instances. rewrite Hb.
  assert (H : forall rs pos, exists ls,
    mapM (expand_block (s_mols st)) (spec_blocks pats (index_of order) rs pos) = Ok ls /\
    concat ls = expected pats (index_of order) rs pos).
  { induction rs as [|r rest IH]; intros pos; cbn [spec_blocks expected].
    - exists []. auto.
    - destruct (IH (pos + run_len pats r)) as (ls & H1 & H2).
      destruct r as [t m|k]; [|cbn [app]; eauto].
      destruct (index_of order t) as [i|] eqn:Ei; [|cbn [app]; eauto].
      destruct (mols_lookup order _ t i Hm Ei) as (mi & Hn & _ & Hl).
      cbn [app mapM expand_block]. unfold nth_res. rewrite Hn. cbn [bind]. rewrite H1. cbn [bind].
      eexists. split; [reflexivity|]. cbn [concat]. rewrite H2, Hl. reflexivity. }
  destruct (H runs 0) as (ls & H1 & H2). rewrite H1. simpl. rewrite H2. reflexivity.
Qed.

Lemma mol_of_expected order st : inv tops pats runs order st ->
  forall rs pos, runs_match v tops pats rs pos ->
  Forall (fun x => mol_of v st x = Ok x) (expected pats (index_of order) rs pos).
Proof.
  intros (_ & Hm & _). induction rs as [|r rest IH]; intros pos Hrm; cbn [expected]; [constructor|].
  destruct Hrm as [Hr Hrest]. apply Forall_app. split; [|apply IH; exact Hrest].
  destruct r as [t m|k]; [|constructor].
  destruct (index_of order t) as [i|] eqn:Ei; [|constructor].
  destruct (mols_lookup order _ t i Hm Ei) as (mi & Hn & Ht & _).
  apply Forall_forall. intros x Hx. apply in_map_iff in Hx as (j & <- & Hj). apply in_seq in Hj.
  unfold mol_of, nth_res. rewrite Hn. cbn [bind].
  replace (pos + S j * plen pats t - (pos + j * plen pats t)) with (plen pats t) by (simpl; lia).
  rewrite (Hr (mi_top mi) j Ht) by lia. reflexivity.
Qed.

Lemma load_all_inv : forall todo ts done st,
  inv tops pats runs done st -> NoDup (done ++ todo) -> Forall (fun s => present s runs) todo ->
  Forall2 (fun s t => nth_error tops s = Some t) todo ts ->
  exists st', load_all v st ts = Ok st' /\ inv tops pats runs (done ++ todo) st'.
Proof.
  induction todo as [|s rest IH]; intros ts done st Hinv Hnd Hpr Hts.
  - inversion Hts; subst. rewrite app_nil_r. exists st. split; auto.
  - inversion Hts as [|? t ? ts' Ht Hts']; subst. inversion Hpr as [|? ? Hp Hpr']; subst.
    assert (Hnin : ~ In s done).
    { intros Hi. apply NoDup_remove_2 in Hnd. apply Hnd. apply in_or_app. left. exact Hi. }
    destruct (load_step v tops pats runs done st s t D Hinv Hnin Hp Ht) as (st1 & H1 & Hinv1).
    simpl. rewrite H1. simpl.
    replace (done ++ s :: rest) with ((done ++ [s]) ++ rest) in * by (rewrite <- app_assoc; reflexivity).
    apply IH; auto.
Qed.

(* loading the topologies of any duplicate-free list of species present in the file, in the order
   given: every load is accepted, and the system then consists of exactly the instances of these
   species, in file order, each with its exact residue range; every instance passes the atom-by-atom
   check when it is handed out *)
Theorem exact_kinds order ts : NoDup order -> Forall (fun s => present s runs) order ->
  Forall2 (fun s t => nth_error tops s = Some t) order ts ->
  exists st, load_all v (sys_init v) ts = Ok st /\
             instances st = Ok (expected pats (index_of order) runs 0) /\
             sys_iter v st = Ok (expected pats (index_of order) runs 0) /\
             s_avail st = stream pats (loaded_of order) runs.
Proof.
  intros Hnd Hpr Hts.
  destruct (load_all_inv order ts [] (sys_init v) (inv_init v tops pats runs D) Hnd Hpr Hts) as (st & H1 & Hinv).
  simpl in Hinv. exists st. split; auto. split; [apply instances_spec; auto|]. split.
  - unfold sys_iter. rewrite (instances_spec order st Hinv). simpl.
    apply mapM_id. apply mol_of_expected; auto. exact (d_match _ _ _ _ D).
  - destruct Hinv as (Hav & _). exact Hav.
Qed.

End Exact.

(* ---------------- the result does not depend on the loading order *)
Section Order.
Variable pats : list (list nat).

(* the instances of the species selected by [sel], tagged by species *)
Fixpoint expected_sp (sel : nat -> bool) (runs : list run) (pos : nat) : list inst :=
  match runs with
  | [] => []
  | r :: rest =>
    (match r with
     | RInst t m =>
       if sel t then map (fun j => (t, pos + j * plen pats t, pos + S j * plen pats t)) (seq 0 (S m))
       else []
     | ROther _ => []
     end) ++ expected_sp sel rest (pos + run_len pats r)
  end.

(* molecule index -> species, through the loading order *)
Definition by_species (order : list nat) (l : list inst) : list inst :=
  map (fun x => match x with (i, a, b) => (nth i order 0, a, b) end) l.

Lemma index_of_loaded order s :
  match index_of order s with
  | Some i => nth i order 0 = s /\ loaded_of order s = true
  | None => loaded_of order s = false
  end.
Proof.
  unfold loaded_of. induction order as [|x rest IH]; simpl; auto.
  rewrite (Nat.eqb_sym s x). destruct (x =? s) eqn:E; simpl.
  - apply Nat.eqb_eq in E. auto.
  - destruct (index_of rest s); simpl; auto.
Qed.

Lemma by_species_expected order runs pos :
  by_species order (expected pats (index_of order) runs pos) = expected_sp (loaded_of order) runs pos.
Proof.
  revert pos. induction runs as [|r rest IH]; intros pos; cbn [expected expected_sp]; auto.
  unfold by_species in *. rewrite map_app, IH. f_equal.
  destruct r as [t m|k]; auto.
  pose proof (index_of_loaded order t) as H. destruct (index_of order t) as [i|].
  - destruct H as [H1 H2]. rewrite H2, map_map. apply map_ext. intros j. rewrite H1. reflexivity.
  - rewrite H. reflexivity.
Qed.

Lemma expected_sp_ext s1 s2 runs pos : (forall t, s1 t = s2 t) -> expected_sp s1 runs pos = expected_sp s2 runs pos.
Proof.
  intros H. revert pos. induction runs as [|r rest IH]; intros pos; simpl; auto. rewrite IH. f_equal.
  destruct r; simpl; auto. rewrite H. reflexivity.
Qed.

Lemma loaded_of_perm o1 o2 t : Permutation o1 o2 -> loaded_of o1 t = loaded_of o2 t.
Proof.
  intros HP. unfold loaded_of. destruct (existsb (Nat.eqb t) o1) eqn:E1; symmetry.
  - apply existsb_exists in E1 as [x [Hx Hx']]. apply existsb_exists. exists x. split; auto.
    eapply Permutation_in; eauto.
  - destruct (existsb (Nat.eqb t) o2) eqn:E2; auto.
    apply existsb_exists in E2 as [x [Hx Hx']].
    assert (existsb (Nat.eqb t) o1 = true).
    { apply existsb_exists. exists x. split; auto. eapply Permutation_in; [apply Permutation_sym|]; eauto. }
    congruence.
Qed.

Lemma order_independent o1 o2 runs : Permutation o1 o2 ->
  by_species o1 (expected pats (index_of o1) runs 0) = by_species o2 (expected pats (index_of o2) runs 0).
Proof.
  intros HP. rewrite !by_species_expected. apply expected_sp_ext. intros t. apply loaded_of_perm; auto.
Qed.

End Order.
