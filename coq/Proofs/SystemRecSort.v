(* sort_blocks: sorted, a permutation, and the unique strictly sorted arrangement *)
From Coq Require Import List Arith Bool Lia Sorting.Permutation Sorting.Sorted.
Import ListNotations.
From GM Require Import Base.Res Model.SystemRec.

Definition ble (a b : block) : Prop := bstart a <= bstart b.
Definition blt (a b : block) : Prop := bstart a < bstart b.

Lemma insert_perm b l : Permutation (insert_block b l) (b :: l).
Proof.
  induction l as [|y t IH]; simpl; auto.
  destruct (bstart b <=? bstart y); auto.
  eapply perm_trans; [apply perm_skip, IH|apply perm_swap].
Qed.

Lemma sort_perm l : Permutation (sort_blocks l) l.
Proof.
  induction l as [|b t IH]; simpl; auto.
  eapply perm_trans; [apply insert_perm|]. auto.
Qed.

Lemma insert_sorted b l : StronglySorted ble l -> StronglySorted ble (insert_block b l).
Proof.
  induction l as [|y t IH]; intros H; simpl.
  - repeat constructor.
  - destruct (bstart b <=? bstart y) eqn:E.
    + apply Nat.leb_le in E. constructor; auto. constructor; auto.
      inversion H; subst. eapply Forall_impl; [|eassumption]. intros a Ha. unfold ble in *. lia.
    + apply Nat.leb_gt in E. inversion H; subst. constructor; auto.
      eapply Permutation_Forall; [apply Permutation_sym, insert_perm|].
      constructor; auto. unfold ble. lia.
Qed.

Lemma sort_sorted l : StronglySorted ble (sort_blocks l).
Proof. induction l; simpl; [constructor|apply insert_sorted; auto]. Qed.

(* two arrangements of the same blocks, one sorted, one strictly sorted, are equal *)
Lemma sorted_unique l1 : forall l2, StronglySorted ble l1 -> StronglySorted blt l2 -> Permutation l1 l2 -> l1 = l2.
Proof.
  induction l1 as [|x t IH]; intros l2 H1 H2 HP.
  - apply Permutation_nil in HP. auto.
  - destruct l2 as [|y t2]; [apply Permutation_sym, Permutation_nil in HP; discriminate|].
    inversion H1 as [|? ? H1t H1x]; subst. inversion H2 as [|? ? H2t H2y]; subst.
    assert (x = y).
    { assert (Hx : In x (y :: t2)) by (eapply Permutation_in; [exact HP|left; auto]).
      assert (Hy : In y (x :: t)) by (eapply Permutation_in; [apply Permutation_sym; exact HP|left; auto]).
      destruct Hx as [->|Hx]; auto. destruct Hy as [->|Hy]; auto.
      rewrite Forall_forall in H1x, H2y. specialize (H1x _ Hy). specialize (H2y _ Hx).
      unfold ble, blt in *. lia. }
    subst y. f_equal. apply IH; auto. eapply Permutation_cons_inv; eauto.
Qed.

Lemma sort_unique l l' : StronglySorted blt l' -> Permutation l' l -> sort_blocks l = l'.
Proof.
  intros H HP. apply sorted_unique; auto using sort_sorted.
  eapply perm_trans; [apply sort_perm|apply Permutation_sym; auto].
Qed.
