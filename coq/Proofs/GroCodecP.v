(* Line-level lemmas of the .gro codec: width of every formatted field, the five-digit wrap,
   parse_atomline (parse_atomlist r) = r, determine_format of a written line, box line. *)
From Coq Require Import List Ascii NArith ZArith Bool Arith Lia.
From GM Require Import Base.Res Base.StrGro Gen.SrcConsts Model.GroCodec Proofs.GroStr.
Import ListNotations.
Local Open Scope nat_scope.

(* ------------------------------------------------------------------ the domain of C13 *)
Definition name_ok (s : bytes) : Prop :=
  1 <= length s <= 5 /\ forallb (fun c => negb (is_space_py c)) s = true.
Definition dec3_fits (w : nat) (v : dec3) : Prop :=
  let '(x, y, z) := v in fits w x /\ fits w y /\ fits w z.
Definition rec_fits (w : nat) (r : grec) : Prop :=
  dec3_fits w (g_pos r) /\ match g_vel r with Some v => dec3_fits w v | None => True end.
Definition rec_ok (w : nat) (vel : bool) (r : grec) : Prop :=
  name_ok (g_resname r) /\ name_ok (g_aname r) /\ rec_fits w r /\ has_vel r = vel.

Definition pd (d : nat) (v : dec) : pdec := mkpdec (dneg v) (dmant v) d.
Definition pd3 (d : nat) (v : dec3) : list pdec := let '(x, y, z) := v in [pd d x; pd d y; pd d z].
(* what the reader must return for a written record *)
Definition expected_atom (d : nat) (r : grec) : ratom :=
  mkratom (g_resnum r mod WRAP) (g_resname r) (g_aname r) (g_anum r mod WRAP)
          (pd3 d (g_pos r) ++ match g_vel r with Some v => pd3 (d + 1) v | None => [] end).

Definition line_len (w : nat) (vel : bool) : nat := 20 + w * 3 * (1 + (if vel then 1 else 0)).

(* ------------------------------------------------------------------ integer fields *)
Lemma wrap_range z : (0 <= z mod WRAP < 100000)%Z.
Proof. apply Z.mod_pos_bound. reflexivity. Qed.

Lemma int5_length z : (0 <= z < 100000)%Z -> length (lpad 5 (fmt_Z z)) = 5.
Proof. intros H. apply lpad_length. apply fmt_Z_length; [lia|]. exact H. Qed.

Lemma int5_roundtrip z : (0 <= z < 100000)%Z ->
  py_int (lpad 5 (fmt_Z z)) = Ok z /\ length (lpad 5 (fmt_Z z)) = 5.
Proof.
  intros H. split; [|apply int5_length; assumption].
  rewrite <- (app_nil_r (lpad 5 (fmt_Z z))). apply py_int_lpad; [lia|reflexivity].
Qed.

Lemma validate_length s : length (validate_string s) <= 5.
Proof.
  unfold validate_string. destruct (5 <? length s) eqn:E.
  - rewrite firstn_length. lia.
  - apply Nat.ltb_ge in E. exact E.
Qed.
Lemma validate_short s : length s <= 5 -> validate_string s = s.
Proof. intros H. unfold validate_string. destruct (5 <? length s) eqn:E; [|reflexivity].
  apply Nat.ltb_lt in E. lia. Qed.

(* the 20 header columns *)
Definition header_of (r : grec) : bytes :=
  lpad 5 (fmt_Z (g_resnum r mod WRAP)) ++ rpad 5 (validate_string (g_resname r)) ++
  lpad 5 (validate_string (g_aname r)) ++ lpad 5 (fmt_Z (g_anum r mod WRAP)).
Definition line_of (w d : nat) (r : grec) : bytes :=
  header_of r ++ fmt3 w d (g_pos r) ++ match g_vel r with Some v => fmt3 w (d + 1) v | None => [] end.

Lemma parse_atomlist_line w d fv r : has_vel r = fv -> parse_atomlist w d fv r = Ok (line_of w d r).
Proof.
  intros H. unfold parse_atomlist. rewrite H. rewrite eqb_reflx. simpl.
  unfold line_of, header_of. rewrite <- !app_assoc. reflexivity.
Qed.
Lemma parse_atomlist_ok w d fv r line : parse_atomlist w d fv r = Ok line ->
  has_vel r = fv /\ line = line_of w d r.
Proof.
  intros H. unfold parse_atomlist in H.
  destruct (Bool.eqb (has_vel r) fv) eqn:E; simpl in H; [|discriminate].
  apply eqb_prop in E. split; [assumption|]. inversion H. unfold line_of, header_of.
  rewrite <- !app_assoc. reflexivity.
Qed.

Lemma header_length r : length (header_of r) = 20.
Proof.
  unfold header_of. rewrite !app_length.
  rewrite !int5_length by apply wrap_range.
  rewrite rpad_length, lpad_length by apply validate_length. reflexivity.
Qed.

Lemma fmt3_length w d v : 1 <= d -> d + 3 <= w -> dec3_fits w v -> length (fmt3 w d v) = w * 3.
Proof.
  intros Hd Hw. destruct v as [[x y] z]. intros (Hx & Hy & Hz). unfold fmt3.
  rewrite !app_length, !fmt_f_length by assumption. lia.
Qed.

Lemma line_length w d r : 1 <= d -> d + 4 <= w -> rec_fits w r ->
  length (line_of w d r) = line_len w (has_vel r).
Proof.
  intros Hd Hw [Hp Hv]. unfold line_of, line_len, has_vel. rewrite !app_length, header_length.
  rewrite fmt3_length by (assumption || lia).
  destruct (g_vel r) as [v|].
  - rewrite fmt3_length by (assumption || lia). lia.
  - simpl. lia.
Qed.

(* ------------------------------------------------------------------ reading a written line *)
Lemma name_nonspace_c s : forallb (fun c => negb (is_space_py c)) s = true ->
  forallb (fun c => negb (is_space_c c)) s = true.
Proof. apply forallb_impl. intros c H. apply negb_true_iff in H. rewrite space_c_py by assumption. reflexivity. Qed.

Lemma strip_rpad s w : forallb (fun c => negb (is_space_py c)) s = true -> strip_py (rpad w s) = s.
Proof.
  intros H. unfold strip_py, rpad. rewrite <- (app_nil_l (s ++ _)).
  apply strip_with_mid; auto. apply forallb_repeat. reflexivity.
Qed.
Lemma strip_lpad s w : forallb (fun c => negb (is_space_py c)) s = true -> strip_py (lpad w s) = s.
Proof.
  intros H. unfold strip_py, lpad.
  replace (repeat SP (w - length s) ++ s) with (repeat SP (w - length s) ++ s ++ [])
    by (rewrite app_nil_r; reflexivity).
  apply strip_with_mid; auto. apply forallb_repeat. reflexivity.
Qed.

Lemma chop_nil_r (c : bytes) n : n = length c -> chop n c = (c, []).
Proof. intros H. rewrite <- (app_nil_r c) at 1. apply chop_app. assumption. Qed.

Lemma chop_fields3 w a b c : length a = w -> length b = w -> length c = w ->
  chop_fields 3 w (a ++ b ++ c) = [a; b; c].
Proof.
  intros Ha Hb Hc. cbn [chop_fields].
  rewrite (chop_app a) by auto. cbv beta iota. rewrite (chop_app b) by auto. cbv beta iota.
  rewrite (chop_nil_r c) by auto. reflexivity.
Qed.
Lemma chop_fields6 w a b c a' b' c' :
  length a = w -> length b = w -> length c = w -> length a' = w -> length b' = w -> length c' = w ->
  chop_fields 6 w ((a ++ b ++ c) ++ a' ++ b' ++ c') = [a; b; c; a'; b'; c'].
Proof.
  intros. cbn [chop_fields]. rewrite <- !app_assoc.
  rewrite (chop_app a) by auto. cbv beta iota. rewrite (chop_app b) by auto. cbv beta iota.
  rewrite (chop_app c) by auto. cbv beta iota.
  rewrite (chop_app a') by auto. cbv beta iota. rewrite (chop_app b') by auto. cbv beta iota.
  rewrite (chop_nil_r c') by auto. reflexivity.
Qed.

Lemma parse_fields w d r : 1 <= d -> d + 4 <= w -> rec_fits w r ->
  mapM parse_float
    (chop_fields (if has_vel r then 6 else 3) w
       (fmt3 w d (g_pos r) ++ match g_vel r with Some v => fmt3 w (d + 1) v | None => [] end))
  = Ok (pd3 d (g_pos r) ++ match g_vel r with Some v => pd3 (d + 1) v | None => [] end).
Proof.
  intros Hd Hw [Hp Hv]. unfold has_vel.
  destruct (g_pos r) as [[x y] z]. destruct Hp as (Hx & Hy & Hz).
  destruct (g_vel r) as [[[vx vy] vz]|].
  - destruct Hv as (Hvx & Hvy & Hvz). unfold fmt3.
    rewrite chop_fields6 by (apply fmt_f_length; assumption || lia).
    simpl. rewrite !parse_float_fmt_f by lia. reflexivity.
  - unfold fmt3. rewrite app_nil_r. rewrite chop_fields3 by (apply fmt_f_length; assumption || lia).
    simpl. rewrite !parse_float_fmt_f by lia. reflexivity.
Qed.

Lemma parse_atomline_written w d r : 1 <= d -> d + 4 <= w ->
  name_ok (g_resname r) -> name_ok (g_aname r) -> rec_fits w r ->
  parse_atomline (w, has_vel r) (line_of w d r ++ [NL]) = Ok (expected_atom d r).
Proof.
  intros Hd Hw [Hl1 Hn1] [Hl2 Hn2] Hf.
  unfold parse_atomline. destruct (line_of w d r ++ [NL]) eqn:E.
  { exfalso. destruct (line_of w d r); discriminate. }
  rewrite <- E. clear E. unfold parse_atomline_body. rewrite drop_final_nl_snoc.
  rewrite line_length by assumption. unfold line_len. rewrite Nat.eqb_refl. simpl negb. cbv iota.
  unfold line_of, header_of. rewrite <- !app_assoc.
  rewrite chop_app by (symmetry; apply int5_length, wrap_range).
  rewrite chop_app by (symmetry; apply rpad_length, validate_length).
  rewrite chop_app by (symmetry; apply lpad_length, validate_length).
  rewrite chop_app by (symmetry; apply int5_length, wrap_range).
  rewrite (proj1 (int5_roundtrip _ (wrap_range _))).
  rewrite (proj1 (int5_roundtrip _ (wrap_range _))). simpl io_of_value. cbn [bind].
  rewrite parse_fields by assumption. cbn [bind].
  rewrite !validate_short by lia. rewrite strip_rpad, strip_lpad by assumption. reflexivity.
Qed.

(* ------------------------------------------------------------------ a written line has no newline *)
Lemma no_nl_repeat_sp n : no_nl (repeat SP n).
Proof. apply forallb_repeat. reflexivity. Qed.
Lemma no_nl_digits ds : forallb is_digit ds = true -> no_nl ds.
Proof. apply forallb_impl. intros c H. rewrite digit_not_nl by assumption. reflexivity. Qed.
Lemma no_nl_name s : forallb (fun c => negb (is_space_py c)) s = true -> no_nl s.
Proof. apply forallb_impl. intros c H. apply negb_true_iff in H. rewrite space_py_not_nl by assumption. reflexivity. Qed.
Lemma no_nl_int5 z : (0 <= z)%Z -> no_nl (lpad 5 (fmt_Z z)).
Proof.
  intros H. unfold lpad. apply no_nl_app. split; [apply no_nl_repeat_sp|].
  rewrite fmt_Z_nonneg by assumption. apply no_nl_digits, to_digits_digits.
Qed.
Lemma no_nl_fmt_f w d v : no_nl (fmt_f w d v).
Proof. apply count_no_nl, fmt_f_no_nl. Qed.
Lemma no_nl_fmt3 w d v : no_nl (fmt3 w d v).
Proof. destruct v as [[x y] z]. unfold fmt3. rewrite !no_nl_app. auto using no_nl_fmt_f. Qed.

Lemma no_nl_line w d r : name_ok (g_resname r) -> name_ok (g_aname r) -> no_nl (line_of w d r).
Proof.
  intros [Hl1 Hn1] [Hl2 Hn2]. unfold line_of, header_of. rewrite !no_nl_app.
  rewrite !validate_short by lia. unfold rpad, lpad at 2. rewrite !no_nl_app.
  repeat split; auto using no_nl_repeat_sp, no_nl_name, no_nl_fmt3.
  - apply no_nl_int5. apply wrap_range.
  - apply no_nl_int5. apply wrap_range.
  - destruct (g_vel r); [apply no_nl_fmt3|reflexivity].
Qed.

(* ------------------------------------------------------------------ determine_format *)
Lemma fmt3_dots w d v : 1 <= d -> count_char "."%char (fmt3 w d v) = 3.
Proof. intros Hd. destruct v as [[x y] z]. unfold fmt3. rewrite !count_char_app, !fmt_f_dots by assumption. reflexivity. Qed.

Lemma determine_format_written w d r : 1 <= d -> d + 4 <= w -> 1 <= w ->
  name_ok (g_resname r) -> name_ok (g_aname r) -> rec_fits w r ->
  determine_format (line_of w d r ++ [NL]) = Ok (w, has_vel r).
Proof.
  intros Hd Hw Hw1 Hn1 Hn2 Hf.
  unfold determine_format. destruct (line_of w d r ++ [NL]) eqn:E.
  { exfalso. destruct (line_of w d r); discriminate. }
  rewrite <- E. clear E. unfold determine_format_body. rewrite drop_final_nl_snoc.
  cbv zeta.
  rewrite (no_nl_count _ (no_nl_line w d r Hn1 Hn2)).
  change (negb (0 =? 0)) with false. cbn [negb].
  rewrite line_length by assumption.
  assert (Hdots : count_char "."%char (skipn COORD_START (line_of w d r)) = if has_vel r then 6 else 3).
  { unfold line_of. rewrite skipn_app_exact by (rewrite header_length; reflexivity).
    rewrite count_char_app, fmt3_dots by assumption. unfold has_vel.
    destruct (g_vel r); [rewrite fmt3_dots by lia|]; reflexivity. }
  rewrite Hdots. change COORD_START with 20.
  destruct (has_vel r).
  - change (6 =? 3) with false. change (6 =? 6) with true. cbn [bind].
    assert (E : (line_len w true - 20) / 6 = w).
    { unfold line_len. replace (20 + w * 3 * (1 + 1) - 20) with (w * 6) by lia. apply Nat.div_mul. discriminate. }
    rewrite E.
    match goal with |- context [negb (?a =? ?b)] =>
      assert (X : (a =? b) = true) by (apply Nat.eqb_eq; unfold line_len; lia) end.
    rewrite X. reflexivity.
  - change (3 =? 3) with true. cbn [bind].
    assert (E : (line_len w false - 20) / 3 = w).
    { unfold line_len. replace (20 + w * 3 * (1 + 0) - 20) with (w * 3) by lia. apply Nat.div_mul. discriminate. }
    rewrite E.
    match goal with |- context [negb (?a =? ?b)] =>
      assert (X : (a =? b) = true) by (apply Nat.eqb_eq; unfold line_len; lia) end.
    rewrite X. reflexivity.
Qed.

(* ------------------------------------------------------------------ box line *)
Definition bentry_ok (e : bentry) : Prop :=
  fits BOX_W (b_dec e) /\ (b_nz e = false -> dmant (b_dec e) = 0%N).

Definition box_body (e : bentry) : bytes := fmt_f_body BOX_D (b_dec e).

Lemma box_body_nonspace e : forallb (fun c => negb (is_space_py c)) (box_body e) = true.
Proof.
  unfold box_body, fmt_f_body, BOX_D. rewrite !forallb_app'.
  assert (Hd : forall ds, forallb is_digit ds = true -> forallb (fun c => negb (is_space_py c)) ds = true).
  { intros ds. apply forallb_impl. intros c H. rewrite digit_not_space_py by assumption. reflexivity. }
  rewrite (Hd _ (to_digits_digits _)). cbn [forallb]. rewrite (Hd _ (digs_k_digits _ _)).
  destruct (dneg (b_dec e)); reflexivity.
Qed.
Lemma box_body_nonempty e : box_body e <> [].
Proof.
  unfold box_body, fmt_f_body. intros E. apply (f_equal (@length _)) in E.
  rewrite !app_length in E. simpl in E. lia.
Qed.

Lemma split_ws_box (es : list bentry) : es <> [] ->
  split_ws (join_sp (map (fun e => fmt_f BOX_W BOX_D (b_dec e)) es) ++ [NL]) = map box_body es.
Proof.
  induction es as [|e r IH]; [contradiction|]. intros _.
  destruct r as [|e' r'].
  - simpl. unfold fmt_f, lpad. rewrite <- app_assoc.
    rewrite split_ws_spaces by (apply forallb_repeat; reflexivity).
    fold (box_body e). rewrite split_ws_token; auto using box_body_nonspace, box_body_nonempty.
  - change (join_sp (map (fun e0 => fmt_f BOX_W BOX_D (b_dec e0)) (e :: e' :: r')))
      with (fmt_f BOX_W BOX_D (b_dec e) ++ SP :: join_sp (map (fun e0 => fmt_f BOX_W BOX_D (b_dec e0)) (e' :: r'))).
    unfold fmt_f at 1, lpad. rewrite <- !app_assoc.
    rewrite split_ws_spaces by (apply forallb_repeat; reflexivity).
    fold (box_body e). rewrite <- app_comm_cons.
    rewrite split_ws_token; auto using box_body_nonspace, box_body_nonempty.
    rewrite IH by discriminate. reflexivity.
Qed.

Lemma parse_box_body e : parse_float (box_body e) = Ok (pd BOX_D (b_dec e)).
Proof.
  unfold box_body. rewrite <- (app_nil_l (fmt_f_body _ _)). rewrite <- (app_nil_r (fmt_f_body _ _)).
  apply parse_float_body; auto. unfold BOX_D. lia.
Qed.
Lemma mapM_parse_box es : mapM parse_float (map box_body es) = Ok (map (fun e => pd BOX_D (b_dec e)) es).
Proof. induction es; simpl; [reflexivity|]. rewrite parse_box_body, IHes. reflexivity. Qed.

(* what the reader returns for the box (row major): 3 numbers when every off-diagonal float is
   zero, 9 otherwise *)
Definition expected_box (box : list bentry) : list pdec :=
  match box with
  | [a0; a1; a2; a3; a4; a5; a6; a7; a8] =>
      let q := fun e => pd BOX_D (b_dec e) in
      if existsb b_nz [a1; a2; a3; a5; a6; a7]
      then [q a0; q a1; q a2; q a3; q a4; q a5; q a6; q a7; q a8]
      else [q a0; pzero; pzero; pzero; q a4; pzero; pzero; pzero; q a8]
  | _ => []
  end.

Lemma fmt_f_nonempty w d v : fmt_f w d v <> [].
Proof.
  unfold fmt_f, lpad, fmt_f_body. intros E. apply (f_equal (@length _)) in E.
  rewrite !app_length in E. pose proof (to_digits_nonempty (dmant v / pow10 d)) as Hne.
  destruct (to_digits (dmant v / pow10 d)); [contradiction|]. simpl in E. lia.
Qed.
Lemma join_sp_nonempty x r : x <> [] -> join_sp (x :: r) <> [].
Proof. intros H. destruct r; simpl; [assumption|]. destruct x; [contradiction|discriminate]. Qed.

Lemma box_roundtrip box line : length box = 9 -> dump_lattice_gro box = Ok line ->
  extract_lattice_gro (line ++ [NL]) = Ok (expected_box box) /\ line <> [].
Proof.
  intros Hlen H.
  destruct box as [|a0 [|a1 [|a2 [|a3 [|a4 [|a5 [|a6 [|a7 [|a8 [|]]]]]]]]]]; try discriminate.
  unfold dump_lattice_gro in H. unfold expected_box.
  destruct (existsb b_nz [a1; a2; a3; a5; a6; a7]); injection H as <-.
  - split.
    + unfold extract_lattice_gro.
      assert (Hs := split_ws_box [a0; a4; a8; a1; a2; a3; a5; a6; a7] ltac:(discriminate)).
      cbn [map join_sp] in Hs. rewrite Hs.
      cbn [firstn]. assert (Hm := mapM_parse_box [a0; a4; a8; a1; a2; a3; a5; a6; a7]).
      cbn [map] in Hm. rewrite Hm. reflexivity.
    + intros E. destruct (fmt_f BOX_W BOX_D (b_dec a0)) eqn:E0; [|discriminate].
      exact (fmt_f_nonempty _ _ _ E0).
  - split.
    + unfold extract_lattice_gro.
      assert (Hs := split_ws_box [a0; a4; a8] ltac:(discriminate)).
      cbn [map join_sp] in Hs. rewrite Hs.
      cbn [firstn]. assert (Hm := mapM_parse_box [a0; a4; a8]).
      cbn [map] in Hm. rewrite Hm. reflexivity.
    + intros E. destruct (fmt_f BOX_W BOX_D (b_dec a0)) eqn:E0; [|discriminate].
      exact (fmt_f_nonempty _ _ _ E0).
Qed.

Lemma no_nl_join_sp l : Forall no_nl l -> no_nl (join_sp l).
Proof.
  induction l as [|x r IH]; intros H; [reflexivity|]. inversion H; subst.
  destruct r as [|y r']; [assumption|].
  change (join_sp (x :: y :: r')) with (x ++ SP :: join_sp (y :: r')).
  apply no_nl_app. split; [assumption|]. change (SP :: join_sp (y :: r')) with ([SP] ++ join_sp (y :: r')).
  apply no_nl_app. split; [reflexivity|auto].
Qed.
Lemma dump_no_nl box line : dump_lattice_gro box = Ok line -> no_nl line.
Proof.
  intros H. unfold dump_lattice_gro in H.
  destruct box as [|a0 [|a1 [|a2 [|a3 [|a4 [|a5 [|a6 [|a7 [|a8 [|]]]]]]]]]]; try discriminate.
  inversion H. apply no_nl_join_sp. apply Forall_forall. intros x Hx.
  apply in_map_iff in Hx as (e & <- & _). apply no_nl_fmt_f.
Qed.

(* ------------------------------------------------------------------ statements used by Props/C13.v *)
Lemma fixed_roundtrip w d v : 1 <= d -> d + 3 <= w -> fits w v ->
  parse_float (fmt_f w d v) = Ok (mkpdec (dneg v) (dmant v) d) /\ length (fmt_f w d v) = w.
Proof. intros. split; [apply parse_float_fmt_f; assumption|apply fmt_f_length; assumption]. Qed.

Lemma atomline_length w d fv r line : parse_atomlist w d fv r = Ok line ->
  1 <= d -> d + 4 <= w -> rec_fits w r ->
  length line = 20 + w * 3 * (1 + (if fv then 1 else 0)).
Proof.
  intros H Hd Hw Hf. apply parse_atomlist_ok in H as [Hv ->]. rewrite line_length by assumption.
  unfold line_len. rewrite Hv. reflexivity.
Qed.

(* the two number fields of any written line: five columns holding n mod 10^5 *)
Lemma wrap_fields w d fv r line : parse_atomlist w d fv r = Ok line ->
  let f_res := firstn 5 line in
  let f_num := firstn 5 (skipn 15 line) in
  length f_res = 5 /\ length f_num = 5 /\
  py_int f_res = Ok (g_resnum r mod 100000)%Z /\ py_int f_num = Ok (g_anum r mod 100000)%Z /\
  ((0 <= g_resnum r < 100000)%Z -> py_int f_res = Ok (g_resnum r)) /\
  ((0 <= g_anum r < 100000)%Z -> py_int f_num = Ok (g_anum r)).
Proof.
  intros H. apply parse_atomlist_ok in H as [Hv ->]. cbv zeta.
  set (f1 := lpad 5 (fmt_Z (g_resnum r mod WRAP))).
  set (f2 := rpad 5 (validate_string (g_resname r))).
  set (f3 := lpad 5 (validate_string (g_aname r))).
  set (f4 := lpad 5 (fmt_Z (g_anum r mod WRAP))).
  assert (L1 : length f1 = 5) by (apply int5_length, wrap_range).
  assert (L2 : length f2 = 5) by (apply rpad_length, validate_length).
  assert (L3 : length f3 = 5) by (apply lpad_length, validate_length).
  assert (L4 : length f4 = 5) by (apply int5_length, wrap_range).
  assert (E1 : firstn 5 (line_of w d r) = f1).
  { unfold line_of, header_of. fold f1 f2 f3 f4. rewrite <- !app_assoc.
    apply firstn_app_exact. symmetry. exact L1. }
  assert (E4 : firstn 5 (skipn 15 (line_of w d r)) = f4).
  { unfold line_of, header_of. fold f1 f2 f3 f4.
    replace ((f1 ++ f2 ++ f3 ++ f4) ++ fmt3 w d (g_pos r) ++ match g_vel r with Some v => fmt3 w (d + 1) v | None => [] end)
      with ((f1 ++ f2 ++ f3) ++ f4 ++ fmt3 w d (g_pos r) ++ match g_vel r with Some v => fmt3 w (d + 1) v | None => [] end)
      by (rewrite <- !app_assoc; reflexivity).
    rewrite skipn_app_exact by (rewrite !app_length; lia).
    apply firstn_app_exact. symmetry. exact L4. }
  rewrite E1, E4.
  pose proof (proj1 (int5_roundtrip _ (wrap_range (g_resnum r)))) as P1.
  pose proof (proj1 (int5_roundtrip _ (wrap_range (g_anum r)))) as P4.
  change WRAP with 100000%Z in *. fold f1 in P1. fold f4 in P4.
  repeat split; try assumption.
  - intros Hr. rewrite P1. rewrite Z.mod_small by assumption. reflexivity.
  - intros Hr. rewrite P4. rewrite Z.mod_small by assumption. reflexivity.
Qed.
