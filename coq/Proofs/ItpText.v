From Coq Require Import List Ascii Bool Arith Lia.
From GM Require Import Base.Res Base.StrItp Model.Itp Proofs.ItpSpec.
Import ListNotations.
Local Open Scope char_scope.
(* String is imported only for the literals given to [la]; list functions are written List.xxx *)
From Coq Require Import String.

(* Text-level facts about the .itp model: the file iterator [lines], the white-space functions,
   section-header lines, and the lines of the text written by [itp_write]. *)

Definition ends_nl (l : str) : Prop := exists b, l = b ++ [ch_nl] /\ ~ In ch_nl b.     (* a complete line *)
Definition open_line (l : str) : Prop := l <> [] /\ ~ In ch_nl l.                      (* a last line without newline *)

(* ------------------------------------------------------------------ characters *)
Lemma eqb_nl_false c : c <> ch_nl -> Ascii.eqb c ch_nl = false.
Proof. intros H. apply Ascii.eqb_neq. exact H. Qed.

Lemma not_nl_true c : not_nl c = true <-> c <> ch_nl.
Proof.
  unfold not_nl. rewrite negb_true_iff. apply Ascii.eqb_neq.
Qed.

Lemma not_nl_nl : not_nl ch_nl = false.
Proof. reflexivity. Qed.

(* ------------------------------------------------------------------ T1: line_ok *)
Lemma in_removelast (l : str) c : In c (removelast l) -> In c l.
Proof.
  intros H. destruct l as [|x l]; [exact H|].
  rewrite (@app_removelast_last _ (x :: l) x) by discriminate.
  apply in_or_app. left. exact H.
Qed.

Lemma ends_nl_nonnil l : ends_nl l -> l <> [].
Proof. intros [b [E _]] F. subst l. destruct b; discriminate. Qed.

Lemma ends_nl_nonempty l : ends_nl l -> nonempty l = true.
Proof. intros [b [E _]]. subst l. destruct b; reflexivity. Qed.

Lemma open_line_nonempty l : open_line l -> nonempty l = true.
Proof. intros [H _]. destruct l; [contradiction | reflexivity]. Qed.

Lemma ends_nl_line_ok l : ends_nl l -> line_ok l.
Proof.
  intros H. split; [apply ends_nl_nonnil; exact H|].
  destruct H as [b [E Hb]]. subst l. rewrite removelast_last. exact Hb.
Qed.

Lemma open_line_line_ok l : open_line l -> line_ok l.
Proof.
  intros [H1 H2]. split; [exact H1|]. intros F. apply H2. apply in_removelast. exact F.
Qed.

Lemma line_ok_cases : forall l, line_ok l <-> ends_nl l \/ open_line l.
Proof.
  intros l. split.
  - intros [H1 H2].
    pose proof (@app_removelast_last _ l ch_nl H1) as E.
    destruct (ascii_dec (last l ch_nl) ch_nl) as [D|D].
    + left. exists (removelast l). split; [rewrite D in E; exact E | exact H2].
    + right. split; [exact H1|]. intros F. rewrite E in F.
      apply in_app_or in F. destruct F as [F|[F|[]]]; [exact (H2 F) | exact (D F)].
  - intros [H|H]; [apply ends_nl_line_ok | apply open_line_line_ok]; exact H.
Qed.

Lemma ends_nl_cons c l : c <> ch_nl -> ends_nl l -> ends_nl (c :: l).
Proof.
  intros Hc [b [E Hb]]. exists (c :: b). split; [subst l; reflexivity|].
  intros [F|F]; [exact (Hc F) | exact (Hb F)].
Qed.

Lemma open_line_cons c l : c <> ch_nl -> ~ In ch_nl l -> open_line (c :: l).
Proof.
  intros Hc Hl. split; [discriminate|]. intros [F|F]; [exact (Hc F) | exact (Hl F)].
Qed.

Lemma ends_nl_single : ends_nl [ch_nl].
Proof. exists []. split; [reflexivity | intros []]. Qed.

Lemma open_line_snoc_nl l : ~ In ch_nl l -> ends_nl (l ++ [ch_nl]).
Proof. intros H. exists l. split; [reflexivity | exact H]. Qed.

(* ------------------------------------------------------------------ T3: computing [lines] *)
Lemma lines_nil : lines [] = [].
Proof. reflexivity. Qed.

Lemma lines_cons_nl s : lines (ch_nl :: s) = [ch_nl] :: lines s.
Proof. reflexivity. Qed.

Lemma lines_cons_other c s : c <> ch_nl -> lines (c :: s) = cons_first c (lines s).
Proof.
  intros H. simpl. rewrite (eqb_nl_false _ H). destruct s; reflexivity.
Qed.

Lemma lines_app_closed : forall l s, ends_nl l -> lines (l ++ s) = l :: lines s.
Proof.
  intros l s [b [E Hb]]. subst l. induction b as [|c b IH].
  - reflexivity.
  - assert (c <> ch_nl) as Hc by (intros F; apply Hb; left; exact F).
    assert (~ In ch_nl b) as Hb' by (intros F; apply Hb; right; exact F).
    change (((c :: b) ++ [ch_nl]) ++ s) with (c :: ((b ++ [ch_nl]) ++ s)).
    rewrite (lines_cons_other _ _ Hc). rewrite (IH Hb'). reflexivity.
Qed.

Lemma lines_app_nl l s : ~ In ch_nl l -> lines (l ++ ch_nl :: s) = (l ++ [ch_nl]) :: lines s.
Proof.
  intros H. pose proof (lines_app_closed (l ++ [ch_nl]) s (open_line_snoc_nl _ H)) as E.
  rewrite <- app_assoc in E. exact E.
Qed.

Lemma lines_open : forall l, open_line l -> lines l = [l].
Proof.
  intros l [H1 H2]. induction l as [|c l IH]; [contradiction|].
  assert (c <> ch_nl) as Hc by (intros F; apply H2; left; exact F).
  assert (~ In ch_nl l) as Hl by (intros F; apply H2; right; exact F).
  rewrite (lines_cons_other _ _ Hc). destruct l as [|d l].
  - reflexivity.
  - rewrite IH; [reflexivity | discriminate | exact Hl].
Qed.

(* ------------------------------------------------------------------ T2: what [lines] yields *)
Lemma concat_cons_first c (L : list str) : List.concat (cons_first c L) = c :: List.concat L.
Proof. destruct L; reflexivity. Qed.

Lemma lines_concat_id : forall s, List.concat (lines s) = s.
Proof.
  induction s as [|c s IH]; [reflexivity|].
  destruct (ascii_dec c ch_nl) as [D|D].
  - subst c. rewrite lines_cons_nl. simpl. rewrite IH. reflexivity.
  - rewrite (lines_cons_other _ _ D). rewrite concat_cons_first. rewrite IH. reflexivity.
Qed.

Lemma line_ok_cons c l : c <> ch_nl -> line_ok l -> line_ok (c :: l).
Proof.
  intros Hc H. apply line_ok_cases. apply line_ok_cases in H. destruct H as [H|[_ H]].
  - left. apply ends_nl_cons; assumption.
  - right. apply open_line_cons; assumption.
Qed.

Lemma Forall_line_ok_cons_first c L : c <> ch_nl -> Forall line_ok L -> Forall line_ok (cons_first c L).
Proof.
  intros Hc H. destruct L as [|t ts]; simpl.
  - constructor; [|constructor]. apply open_line_line_ok. apply open_line_cons; [exact Hc | intros []].
  - inversion H; subst. constructor; [apply line_ok_cons; assumption | assumption].
Qed.

Lemma lines_ok : forall s, Forall line_ok (lines s).
Proof.
  induction s as [|c s IH]; [constructor|].
  destruct (ascii_dec c ch_nl) as [D|D].
  - subst c. rewrite lines_cons_nl. constructor; [apply ends_nl_line_ok, ends_nl_single | exact IH].
  - rewrite (lines_cons_other _ _ D). apply Forall_line_ok_cons_first; assumption.
Qed.

Lemma lines_nonempty : forall s, Forall (fun l => nonempty l = true) (lines s).
Proof.
  intros s. eapply Forall_impl; [|apply lines_ok].
  intros l [H _]. destruct l; [contradiction | reflexivity].
Qed.

Lemma lines_all_but_last_closed : forall s ls l, lines s = ls ++ [l] -> Forall ends_nl ls.
Proof.
  induction s as [|c s IH]; intros ls l H.
  - destruct ls; discriminate.
  - destruct (ascii_dec c ch_nl) as [D|D].
    + subst c. rewrite lines_cons_nl in H. destruct ls as [|x ls]; [constructor|].
      simpl in H. inversion H; subst. constructor; [apply ends_nl_single|].
      eapply IH. eassumption.
    + rewrite (lines_cons_other _ _ D) in H. destruct ls as [|x ls]; [constructor|].
      destruct (lines s) as [|t ts] eqn:E; simpl in H.
      * inversion H. destruct ls; discriminate.
      * inversion H; subst.
        assert (Forall ends_nl (t :: ls)) as F by (apply (IH (t :: ls) l); reflexivity).
        inversion F; subst. constructor; [apply ends_nl_cons; assumption | assumption].
Qed.

(* ------------------------------------------------------------------ T4: concatenated complete lines *)
Lemma lines_concat_closed : forall ls s,
  Forall (fun l => l = [] \/ ends_nl l) ls ->
  lines (List.concat ls ++ s) = filter nonempty ls ++ lines s.
Proof.
  intros ls s H. induction H as [|l ls Hl _ IH]; [reflexivity|].
  destruct Hl as [Hl|Hl].
  - subst l. simpl. exact IH.
  - simpl. rewrite (ends_nl_nonempty _ Hl). rewrite <- app_assoc.
    rewrite (lines_app_closed _ _ Hl). rewrite IH. reflexivity.
Qed.

Lemma lines_concat_closed_nil : forall ls,
  Forall (fun l => l = [] \/ ends_nl l) ls -> lines (List.concat ls) = filter nonempty ls.
Proof.
  intros ls H. pose proof (lines_concat_closed ls [] H) as E.
  rewrite !app_nil_r in E. exact E.
Qed.

(* ------------------------------------------------------------------ T7: shape of the written text *)
Definition hdr_text (n : str) : str := la "[ " ++ n ++ la " ]" ++ [ch_nl].

Lemma section_text_lines : forall n ps,
  section_text n ps = hdr_text n ++ List.concat (map line_of ps) ++ [ch_nl].
Proof.
  intros n ps. unfold section_text, hdr_text. rewrite <- !app_assoc. reflexivity.
Qed.

Lemma itp_write_eq : forall f,
  itp_write f = List.concat (f_header f)
                ++ List.concat (map (fun kv => section_text (fst kv) (snd kv)) (f_secs f)).
Proof. reflexivity. Qed.

(* ------------------------------------------------------------------ T8: the lines of one written section *)
Lemma hdr_text_ends_nl n : ~ In ch_nl n -> ends_nl (hdr_text n).
Proof.
  intros H. exists (la "[ " ++ n ++ la " ]"). split.
  - unfold hdr_text. rewrite <- !app_assoc. reflexivity.
  - intros F. apply in_app_or in F. destruct F as [F|F].
    + simpl in F. destruct F as [F|[F|[]]]; discriminate.
    + apply in_app_or in F. destruct F as [F|F]; [exact (H F)|].
      simpl in F. destruct F as [F|[F|[]]]; discriminate.
Qed.

Lemma Forall_map_line_of (P : str -> Prop) ps :
  Forall (fun p => P (line_of p)) ps -> Forall P (map line_of ps).
Proof. intros H. induction H; simpl; constructor; assumption. Qed.

Lemma section_lines : forall n ps s,
  ~ In ch_nl n ->
  Forall (fun p => line_of p = [] \/ ends_nl (line_of p)) ps ->
  lines (section_text n ps ++ s)
  = hdr_text n :: filter nonempty (map line_of ps) ++ [ch_nl] :: lines s.
Proof.
  intros n ps s Hn Hps. rewrite section_text_lines. rewrite <- !app_assoc.
  rewrite (lines_app_closed _ _ (hdr_text_ends_nl _ Hn)). f_equal.
  rewrite lines_concat_closed by (apply Forall_map_line_of with (P := fun l => l = [] \/ ends_nl l); exact Hps).
  f_equal.
Qed.

Lemma section_lines_open : forall n ps p s,
  ~ In ch_nl n ->
  Forall (fun p => line_of p = [] \/ ends_nl (line_of p)) ps ->
  open_line (line_of p) ->
  lines (section_text n (ps ++ [p]) ++ s)
  = hdr_text n :: filter nonempty (map line_of ps) ++ (line_of p ++ [ch_nl]) :: lines s.
Proof.
  intros n ps p s Hn Hps [_ Hp]. rewrite section_text_lines. rewrite <- !app_assoc.
  rewrite (lines_app_closed _ _ (hdr_text_ends_nl _ Hn)). f_equal.
  rewrite map_app. rewrite concat_app. simpl. rewrite app_nil_r. rewrite <- !app_assoc.
  rewrite lines_concat_closed by (apply Forall_map_line_of with (P := fun l => l = [] \/ ends_nl l); exact Hps).
  f_equal. apply lines_app_nl. exact Hp.
Qed.

(* ------------------------------------------------------------------ takewhile / dropwhile *)
Lemma takewhile_all p (s : str) : (forall c, In c s -> p c = true) -> takewhile p s = s.
Proof.
  induction s as [|c s IH]; intros H; [reflexivity|]. simpl.
  rewrite (H c (or_introl eq_refl)). f_equal. apply IH. intros x Hx. apply H. right. exact Hx.
Qed.

Lemma takewhile_app_stop p (a : str) d b :
  (forall c, In c a -> p c = true) -> p d = false -> takewhile p (a ++ d :: b) = a.
Proof.
  induction a as [|c a IH]; intros H Hd; simpl.
  - rewrite Hd. reflexivity.
  - rewrite (H c (or_introl eq_refl)). f_equal. apply IH; [|exact Hd].
    intros x Hx. apply H. right. exact Hx.
Qed.

Lemma takewhile_In p (s : str) c : In c (takewhile p s) -> p c = true /\ In c s.
Proof.
  induction s as [|x s IH]; simpl; [intros []|].
  destruct (p x) eqn:E; [|intros []].
  intros [H|H].
  - subst x. split; [exact E | left; reflexivity].
  - destruct (IH H) as [H1 H2]. split; [exact H1 | right; exact H2].
Qed.

Lemma takewhile_app_prefix p (a b : str) : exists t, takewhile p (a ++ b) = takewhile p a ++ t.
Proof.
  induction a as [|c a [t IH]]; simpl.
  - exists (takewhile p b). reflexivity.
  - destruct (p c); [|exists []; reflexivity]. exists t. rewrite IH. reflexivity.
Qed.

Lemma takewhile_not_nl_id (s : str) : ~ In ch_nl s -> takewhile not_nl s = s.
Proof.
  intros H. apply takewhile_all. intros c Hc. apply not_nl_true. intros F. subst c. exact (H Hc).
Qed.

Lemma takewhile_not_nl_stop (a b : str) : ~ In ch_nl a -> takewhile not_nl (a ++ ch_nl :: b) = a.
Proof.
  intros H. apply takewhile_app_stop; [|exact not_nl_nl].
  intros c Hc. apply not_nl_true. intros F. subst c. exact (H Hc).
Qed.

Lemma takewhile_not_nl_free (s : str) : ~ In ch_nl (takewhile not_nl s).
Proof.
  intros F. apply takewhile_In in F. destruct F as [F _]. rewrite not_nl_nl in F. discriminate.
Qed.

Lemma dropwhile_head p (s : str) c r : dropwhile p s = c :: r -> p c = false.
Proof.
  induction s as [|x s IH]; simpl; [discriminate|].
  destruct (p x) eqn:E; [exact IH|]. intros H. inversion H; subst. exact E.
Qed.

Lemma dropwhile_all p (w s : str) : (forall c, In c w -> p c = true) -> dropwhile p (w ++ s) = dropwhile p s.
Proof.
  induction w as [|c w IH]; intros H; [reflexivity|]. simpl.
  rewrite (H c (or_introl eq_refl)). apply IH. intros x Hx. apply H. right. exact Hx.
Qed.

Lemma dropwhile_stop p (s : str) c r : p c = false -> dropwhile p (c :: r) = c :: r.
Proof. intros H. simpl. rewrite H. reflexivity. Qed.

Lemma dropwhile_snoc_stop p (s : str) c : p c = false -> dropwhile p (s ++ [c]) = dropwhile p s ++ [c].
Proof.
  intros H. induction s as [|x s IH]; simpl.
  - rewrite H. reflexivity.
  - destruct (p x); [exact IH | reflexivity].
Qed.

Lemma dropwhile_decomp p (s : str) :
  exists w, s = w ++ dropwhile p s /\ (forall c, In c w -> p c = true).
Proof.
  induction s as [|x s [w [E H]]]; simpl.
  - exists []. split; [reflexivity | intros c []].
  - destruct (p x) eqn:Ex.
    + exists (x :: w). split; [simpl; f_equal; exact E|].
      intros c [Hc|Hc]; [subst; exact Ex | apply H; exact Hc].
    + exists []. split; [reflexivity | intros c []].
Qed.

(* ------------------------------------------------------------------ strip *)
Definition all_space (w : str) : Prop := forall c, In c w -> is_space c = true.

(* the fixed points of strip: empty, or first and last characters are not white space *)
Definition tight (t : str) : Prop :=
  t = [] \/ ((exists c r, t = c :: r /\ is_space c = false) /\ (exists r d, t = r ++ [d] /\ is_space d = false)).

Lemma all_space_nil : all_space [].
Proof. intros c []. Qed.

Lemma all_space_cons c w : is_space c = true -> all_space w -> all_space (c :: w).
Proof. intros Hc Hw x [Hx|Hx]; [subst; exact Hc | apply Hw; exact Hx]. Qed.

Lemma all_space_rev w : all_space w -> all_space (rev w).
Proof. intros H c Hc. apply H. apply in_rev. exact Hc. Qed.

Lemma all_space_blank w : all_space w <-> is_blank w = true.
Proof. unfold all_space, is_blank. rewrite forallb_forall. tauto. Qed.

Lemma lstrip_all_space w s : all_space w -> lstrip (w ++ s) = lstrip s.
Proof. intros H. apply dropwhile_all. exact H. Qed.

Lemma lstrip_stop c r : is_space c = false -> lstrip (c :: r) = c :: r.
Proof. intros H. unfold lstrip. simpl. rewrite H. reflexivity. Qed.

Lemma rstrip_all_space s w : all_space w -> rstrip (s ++ w) = rstrip s.
Proof.
  intros H. unfold rstrip. rewrite rev_app_distr.
  rewrite (dropwhile_all is_space (rev w) (rev s) (all_space_rev _ H)). reflexivity.
Qed.

Lemma rstrip_stop r d : is_space d = false -> rstrip (r ++ [d]) = r ++ [d].
Proof.
  intros H. unfold rstrip. rewrite rev_app_distr. simpl. rewrite H.
  simpl. rewrite rev_involutive. reflexivity.
Qed.

Lemma rstrip_cons_stop c r : is_space c = false -> rstrip (c :: r) = c :: rstrip r.
Proof.
  intros H. unfold rstrip. simpl. rewrite (dropwhile_snoc_stop _ _ _ H).
  rewrite rev_app_distr. reflexivity.
Qed.

Lemma lstrip_decomp s : exists w, s = w ++ lstrip s /\ all_space w.
Proof. apply dropwhile_decomp. Qed.

Lemma rstrip_decomp s : exists w, s = rstrip s ++ w /\ all_space w.
Proof.
  destruct (dropwhile_decomp is_space (rev s)) as [w [E H]].
  exists (rev w). split.
  - unfold rstrip. rewrite <- rev_app_distr. rewrite <- E. symmetry. apply rev_involutive.
  - apply all_space_rev. exact H.
Qed.

(* s = w1 ++ strip s ++ w2 with white space w1 w2 *)
Lemma strip_decomp s : exists w1 w2, s = w1 ++ strip s ++ w2 /\ all_space w1 /\ all_space w2.
Proof.
  destruct (lstrip_decomp s) as [w1 [E1 H1]].
  destruct (rstrip_decomp (lstrip s)) as [w2 [E2 H2]].
  exists w1, w2. split; [|split; assumption].
  unfold strip. rewrite <- E2. exact E1.
Qed.

Lemma strip_In s c : In c (strip s) -> In c s.
Proof.
  intros H. destruct (strip_decomp s) as [w1 [w2 [E _]]]. rewrite E.
  apply in_or_app. right. apply in_or_app. left. exact H.
Qed.

Lemma rstrip_last s r d : rstrip s = r ++ [d] -> is_space d = false.
Proof.
  unfold rstrip. intros H.
  destruct (dropwhile is_space (rev s)) as [|c t] eqn:E.
  - destruct r; discriminate.
  - simpl in H. apply app_inj_tail in H. destruct H as [_ H]. subst d.
    eapply dropwhile_head. exact E.
Qed.

Lemma strip_tight s : tight (strip s).
Proof.
  unfold strip. destruct (lstrip s) as [|c r] eqn:E.
  - left. reflexivity.
  - assert (is_space c = false) as Hc by (eapply dropwhile_head; exact E).
    right. rewrite (rstrip_cons_stop _ _ Hc). split.
    + exists c, (rstrip r). split; [reflexivity | exact Hc].
    + rewrite <- (rstrip_cons_stop _ _ Hc).
      destruct (rstrip (c :: r)) as [|x t] eqn:F.
      * rewrite (rstrip_cons_stop _ _ Hc) in F. discriminate.
      * assert (x :: t <> []) as N by discriminate.
        pose proof (@app_removelast_last _ (x :: t) x N) as L.
        exists (removelast (x :: t)), (last (x :: t) x). split; [exact L|].
        rewrite L in F. eapply rstrip_last. exact F.
Qed.

Lemma tight_strip t : tight t -> strip t = t.
Proof.
  intros [H|[[c [r [E Hc]]] [r' [d [E' Hd]]]]].
  - subst t. reflexivity.
  - unfold strip. rewrite E at 1. rewrite (lstrip_stop _ _ Hc). rewrite <- E.
    rewrite E'. apply rstrip_stop. exact Hd.
Qed.

Lemma strip_fix_tight t : strip t = t -> tight t.
Proof. intros H. rewrite <- H. apply strip_tight. Qed.

Lemma strip_idem s : strip (strip s) = strip s.
Proof. apply tight_strip. apply strip_tight. Qed.

(* strip of a tight string wrapped in white space *)
Lemma strip_wrap w1 t w2 : all_space w1 -> all_space w2 -> tight t -> strip (w1 ++ t ++ w2) = t.
Proof.
  intros H1 H2 [H|[[c [r [E Hc]]] [r' [d [E' Hd]]]]].
  - subst t. simpl. unfold strip. rewrite (lstrip_all_space _ _ H1).
    destruct (lstrip_decomp w2) as [w [E Hw]].
    assert (all_space (lstrip w2)) as A.
    { intros x Hx. apply H2. rewrite E. apply in_or_app. right. exact Hx. }
    pose proof (rstrip_all_space [] (lstrip w2) A) as R. simpl in R. exact R.
  - unfold strip. rewrite (lstrip_all_space _ _ H1).
    assert (lstrip (t ++ w2) = t ++ w2) as L by (rewrite E; apply (lstrip_stop c (r ++ w2) Hc)).
    rewrite L. rewrite (rstrip_all_space _ _ H2). rewrite E'. apply rstrip_stop. exact Hd.
Qed.

Lemma strip_wrap_fix w1 n w2 : all_space w1 -> all_space w2 -> strip n = n -> strip (w1 ++ n ++ w2) = n.
Proof. intros H1 H2 H. apply strip_wrap; [exact H1 | exact H2 | apply strip_fix_tight; exact H]. Qed.

Lemma all_space_single c : is_space c = true -> all_space [c].
Proof. intros H. apply all_space_cons; [exact H | apply all_space_nil]. Qed.

(* ------------------------------------------------------------------ upto_last, re_group *)
Lemma upto_last_snoc d (s : str) : upto_last d (s ++ [d]) = Some s.
Proof.
  induction s as [|c s IH]; simpl.
  - rewrite Ascii.eqb_refl. reflexivity.
  - rewrite IH. reflexivity.
Qed.

Lemma upto_last_some d (s a : str) : upto_last d s = Some a -> exists b, s = a ++ d :: b /\ ~ In d b.
Proof.
  revert a. induction s as [|c s IH]; simpl; intros a H; [discriminate|].
  destruct (upto_last d s) as [a'|] eqn:E.
  - inversion H; subst. destruct (IH a' eq_refl) as [b [E1 E2]].
    exists b. split; [simpl; f_equal; exact E1 | exact E2].
  - destruct (Ascii.eqb c d) eqn:C; [|discriminate]. inversion H; subst.
    apply Ascii.eqb_eq in C. subst c. exists s. split; [reflexivity|].
    clear H IH. induction s as [|x s IHs]; [intros []|].
    simpl in E. destruct (upto_last d s) as [a'|]; [discriminate|].
    destruct (Ascii.eqb x d) eqn:X; [discriminate|].
    intros [F|F]; [subst x; rewrite Ascii.eqb_refl in X; discriminate | exact (IHs eq_refl F)].
Qed.

Lemma upto_last_In d (s a : str) c : upto_last d s = Some a -> In c a -> In c s.
Proof.
  intros H Hc. destruct (upto_last_some _ _ _ H) as [b [E _]]. rewrite E.
  apply in_or_app. left. exact Hc.
Qed.

Lemma upto_last_total d (s : str) : In d s -> exists a, upto_last d s = Some a.
Proof.
  induction s as [|c s IH]; [intros []|]. intros H. simpl.
  destruct (upto_last d s) as [a|] eqn:E; [eexists; reflexivity|].
  destruct H as [H|H].
  - subst c. rewrite Ascii.eqb_refl. eexists; reflexivity.
  - destruct (IH H) as [a F]. discriminate.
Qed.

(* the group found by re_group has no newline *)
Lemma re_group_no_nl (s g : str) : re_group s = Ok g -> ~ In ch_nl g.
Proof.
  induction s as [|c s IH]; simpl; [discriminate|].
  destruct (Ascii.eqb c "[").
  - destruct (upto_last "]" (takewhile not_nl s)) as [a|] eqn:E; [|exact IH].
    intros H. inversion H; subst. intros F.
    apply (takewhile_not_nl_free s). eapply upto_last_In; eassumption.
  - exact IH.
Qed.

(* re_group succeeds as soon as some '[' is followed by a ']' on its line *)
Lemma re_group_total (a r : str) :
  In "]" (takewhile not_nl r) -> exists g, re_group (a ++ "[" :: r) = Ok g.
Proof.
  intros H. induction a as [|c a IH]; simpl.
  - destruct (upto_last_total _ _ H) as [g E]. rewrite E. exists g. reflexivity.
  - destruct (Ascii.eqb c "["); [|exact IH].
    destruct (upto_last "]" (takewhile not_nl (a ++ "[" :: r))) as [g|]; [exists g; reflexivity | exact IH].
Qed.

(* a first '[' with its group *)
Lemma re_group_first (r g : str) :
  upto_last "]" (takewhile not_nl r) = Some g -> re_group ("[" :: r) = Ok g.
Proof. intros H. simpl. rewrite H. reflexivity. Qed.

(* characters other than '[' in front are skipped *)
Lemma re_group_skip (w s : str) : ~ In "[" w -> re_group (w ++ s) = re_group s.
Proof.
  induction w as [|c w IH]; intros H; [reflexivity|]. simpl.
  destruct (Ascii.eqb c "[") eqn:E.
  - apply Ascii.eqb_eq in E. exfalso. apply H. left. exact E.
  - apply IH. intros F. apply H. right. exact F.
Qed.

Lemma all_space_no_bracket w : all_space w -> ~ In "[" w.
Proof. intros H F. apply H in F. discriminate. Qed.

(* ------------------------------------------------------------------ T5: the written header line *)
Lemma hdr_text_cons n : hdr_text n = "[" :: (" " :: n ++ [" "]) ++ "]" :: [ch_nl].
Proof. unfold hdr_text. simpl. rewrite <- app_assoc. reflexivity. Qed.

Lemma strip_hdr_text n : strip (hdr_text n) = "[" :: (" " :: n ++ [" "]) ++ ["]"].
Proof.
  rewrite hdr_text_cons. unfold strip.
  rewrite lstrip_stop by reflexivity.
  change ("[" :: (" " :: n ++ [" "]) ++ ["]"; ch_nl])
    with (("[" :: (" " :: n ++ [" "])) ++ ["]"; ch_nl]).
  replace (("[" :: " " :: n ++ [" "]) ++ ["]"; ch_nl])
    with ((("[" :: " " :: n ++ [" "]) ++ ["]"]) ++ [ch_nl]) by (rewrite <- app_assoc; reflexivity).
  rewrite rstrip_all_space by (apply all_space_single; reflexivity).
  apply rstrip_stop. reflexivity.
Qed.

Lemma hdr_inner_no_nl n : ~ In ch_nl n -> ~ In ch_nl ((" " :: n ++ [" "]) ++ ["]"]).
Proof.
  intros H F. apply in_app_or in F. destruct F as [F|F].
  - simpl in F. destruct F as [F|F]; [discriminate|]. apply in_app_or in F.
    destruct F as [F|F]; [exact (H F)|]. simpl in F. destruct F as [F|[]]. discriminate.
  - simpl in F. destruct F as [F|[]]. discriminate.
Qed.

Lemma re_header_cons r : In "]" (takewhile not_nl r) -> re_header ("[" :: r) = true.
Proof.
  intros H. apply mem_In in H. unfold re_header. rewrite H. reflexivity.
Qed.

Lemma hdr_text_is_hdr n : ~ In ch_nl n -> is_hdr (hdr_text n) = true.
Proof.
  intros H. unfold is_hdr. rewrite strip_hdr_text. apply re_header_cons.
  rewrite takewhile_not_nl_id by (apply hdr_inner_no_nl; exact H).
  apply in_or_app. right. left. reflexivity.
Qed.

Lemma hdr_text_group n : ~ In ch_nl n -> re_group (hdr_text n) = Ok (" " :: n ++ [" "]).
Proof.
  intros H. rewrite hdr_text_cons. apply re_group_first.
  replace ((" " :: n ++ [" "]) ++ ["]"; ch_nl])
    with (((" " :: n ++ [" "]) ++ ["]"]) ++ ch_nl :: []) by (rewrite <- app_assoc; reflexivity).
  rewrite takewhile_not_nl_stop.
  - apply upto_last_snoc.
  - apply hdr_inner_no_nl. exact H.
Qed.

Lemma hdr_text_ok : forall n, ~ In ch_nl n -> strip n = n ->
  ends_nl (hdr_text n) /\ is_hdr (hdr_text n) = true /\ hdr_name (hdr_text n) = Ok n.
Proof.
  intros n H S. split; [apply hdr_text_ends_nl; exact H|].
  split; [apply hdr_text_is_hdr; exact H|].
  unfold hdr_name. rewrite (hdr_text_group _ H). simpl rmap. f_equal.
  apply (strip_wrap_fix [" "] n [" "]); [apply all_space_single; reflexivity .. | exact S].
Qed.

(* ------------------------------------------------------------------ T6: names read by the parser *)
Lemma hdr_name_shape l n : hdr_name l = Ok n -> exists g, re_group l = Ok g /\ n = strip g.
Proof.
  unfold hdr_name. destruct (re_group l) as [g|e]; simpl; intros H; [|discriminate].
  inversion H. exists g. split; reflexivity.
Qed.

(* holds for any text l: the two side conditions of hdr_name_ok are not used *)
Lemma hdr_name_ok_gen l n : hdr_name l = Ok n -> ~ In ch_nl n /\ strip n = n.
Proof.
  intros H. destruct (hdr_name_shape _ _ H) as [g [G E]]. subst n. split.
  - intros F. apply strip_In in F. exact (re_group_no_nl _ _ G F).
  - apply strip_idem.
Qed.

Lemma hdr_name_ok : forall l n, line_ok l -> is_hdr l = true -> hdr_name l = Ok n ->
  ~ In ch_nl n /\ strip n = n.
Proof. intros l n _ _ H. exact (hdr_name_ok_gen l n H). Qed.

(* shape of a header line: white space, '[', and a ']' before the next newline *)
Lemma is_hdr_shape l : is_hdr l = true ->
  exists w r w2, l = w ++ "[" :: r ++ w2 /\ all_space w /\ all_space w2
                 /\ strip l = "[" :: r /\ In "]" (takewhile not_nl r).
Proof.
  unfold is_hdr, re_header. intros H.
  destruct (strip_decomp l) as [w1 [w2 [E [H1 H2]]]].
  destruct (strip l) as [|c r] eqn:S; [discriminate|].
  apply andb_true_iff in H. destruct H as [Hc Hm].
  apply Ascii.eqb_eq in Hc. subst c. apply mem_In in Hm.
  exists w1, r, w2. repeat split; assumption.
Qed.

Lemma hdr_name_total_gen l : is_hdr l = true -> exists n, hdr_name l = Ok n.
Proof.
  intros H. destruct (is_hdr_shape _ H) as [w [r [w2 [E [_ [_ [_ Hm]]]]]]].
  assert (In "]" (takewhile not_nl (r ++ w2))) as Hm'.
  { destruct (takewhile_app_prefix not_nl r w2) as [t Et]. rewrite Et.
    apply in_or_app. left. exact Hm. }
  destruct (re_group_total w (r ++ w2) Hm') as [g G].
  exists (strip g). unfold hdr_name. rewrite E. rewrite G. reflexivity.
Qed.

Lemma hdr_name_total : forall l, line_ok l -> is_hdr l = true -> exists n, hdr_name l = Ok n.
Proof. intros l _ H. exact (hdr_name_total_gen l H). Qed.

(* the name read off a header line  w ++ "[" ++ r  (w white space): strip of the group of r *)
Lemma hdr_name_of_shape w r g :
  all_space w -> upto_last "]" (takewhile not_nl r) = Some g -> hdr_name (w ++ "[" :: r) = Ok (strip g).
Proof.
  intros Hw Hg. unfold hdr_name.
  rewrite (re_group_skip _ _ (all_space_no_bracket _ Hw)). rewrite (re_group_first _ _ Hg). reflexivity.
Qed.
