From Coq Require Import List Ascii Bool Arith Lia.
From GM Require Import Base.Res Base.StrItp Model.Itp Proofs.ItpSpec.
Import ListNotations.
Local Open Scope char_scope.
(* String is imported only for the literals given to [la]; list functions are written List.xxx *)
From Coq Require Import String.

(* Text-level facts about the .itp model: the file iterator [lines], the white-space functions,
   section-header lines, and the lines of the text written by [itp_write]. *)

Definition ends_nl (l : str) : Prop := exists b, l = b ++ [ch_nl] /\ ~ In ch_nl b.     (* a complete line *)
Definition open_line (l : str) : Prop := l <> [] /\ ~ In ch_nl l.                      (* a last line without newline *)

(* ------------------------------------------------------------------ characters *)
Lemma eqb_nl_false c : c <> ch_nl -> Ascii.eqb c ch_nl = false.
Proof. intros H. apply Ascii.eqb_neq. exact H. Qed.

Lemma not_nl_true c : not_nl c = true <-> c <> ch_nl.
Proof.
  unfold not_nl. rewrite negb_true_iff. apply Ascii.eqb_neq.
Qed.

Lemma not_nl_nl : not_nl ch_nl = false.
Proof. reflexivity. Qed.

(* ------------------------------------------------------------------ T1: line_ok *)
Lemma in_removelast (l : str) c : In c (removelast l) -> In c l.
Proof.
  intros H. destruct l as [|x l]; [exact H|].
  rewrite (@app_removelast_last _ (x :: l) x) by discriminate.
  apply in_or_app. left. exact H.
Qed.

Lemma ends_nl_nonnil l : ends_nl l -> l <> [].
Proof. intros [b [E _]] F. subst l. destruct b; discriminate. Qed.

Lemma ends_nl_nonempty l : ends_nl l -> nonempty l = true.
Proof. intros [b [E _]]. subst l. destruct b; reflexivity. Qed.

Lemma open_line_nonempty l : open_line l -> nonempty l = true.
Proof. intros [H _]. destruct l; [contradiction | reflexivity]. Qed.

Lemma ends_nl_line_ok l : ends_nl l -> line_ok l.
Proof.
  intros H. split; [apply ends_nl_nonnil; exact H|].
  destruct H as [b [E Hb]]. subst l. rewrite removelast_last. exact Hb.
Qed.

Lemma open_line_line_ok l : open_line l -> line_ok l.
Proof.
  intros [H1 H2]. split; [exact H1|]. intros F. apply H2. apply in_removelast. exact F.
Qed.

Lemma line_ok_cases : forall l, line_ok l <-> ends_nl l \/ open_line l.
Proof.
  intros l. split.
  - intros [H1 H2].
    pose proof (@app_removelast_last _ l ch_nl H1) as E.
    destruct (ascii_dec (last l ch_nl) ch_nl) as [D|D].
    + left. exists (removelast l). split; [rewrite D in E; exact E | exact H2].
    + right. split; [exact H1|]. intros F. rewrite E in F.
      apply in_app_or in F. destruct F as [F|[F|[]]]; [exact (H2 F) | exact (D F)].
  - intros [H|H]; [apply ends_nl_line_ok | apply open_line_line_ok]; exact H.
Qed.

Lemma ends_nl_cons c l : c <> ch_nl -> ends_nl l -> ends_nl (c :: l).
Proof.
  intros Hc [b [E Hb]]. exists (c :: b). split; [subst l; reflexivity|].
  intros [F|F]; [exact (Hc F) | exact (Hb F)].
Qed.

Lemma open_line_cons c l : c <> ch_nl -> ~ In ch_nl l -> open_line (c :: l).
Proof.
  intros Hc Hl. split; [discriminate|]. intros [F|F]; [exact (Hc F) | exact (Hl F)].
Qed.

Lemma ends_nl_single : ends_nl [ch_nl].
Proof. exists []. split; [reflexivity | intros []]. Qed.

Lemma open_line_snoc_nl l : ~ In ch_nl l -> ends_nl (l ++ [ch_nl]).
Proof. intros H. exists l. split; [reflexivity | exact H]. Qed.

(* ------------------------------------------------------------------ T3: computing [lines] *)
Lemma lines_nil : lines [] = [].
Proof. reflexivity. Qed.

Lemma lines_cons_nl s : lines (ch_nl :: s) = [ch_nl] :: lines s.
Proof. reflexivity. Qed.

Lemma lines_cons_other c s : c <> ch_nl -> lines (c :: s) = cons_first c (lines s).
Proof.
  intros H. simpl. rewrite (eqb_nl_false _ H). destruct s; reflexivity.
Qed.

Lemma lines_app_closed : forall l s, ends_nl l -> lines (l ++ s) = l :: lines s.
Proof.
  intros l s [b [E Hb]]. subst l. induction b as [|c b IH].
  - reflexivity.
  - assert (c <> ch_nl) as Hc by (intros F; apply Hb; left; exact F).
    assert (~ In ch_nl b) as Hb' by (intros F; apply Hb; right; exact F).
    change (((c :: b) ++ [ch_nl]) ++ s) with (c :: ((b ++ [ch_nl]) ++ s)).
    rewrite (lines_cons_other _ _ Hc). rewrite (IH Hb'). reflexivity.
Qed.

Lemma lines_app_nl l s : ~ In ch_nl l -> lines (l ++ ch_nl :: s) = (l ++ [ch_nl]) :: lines s.
Proof.
  intros H. pose proof (lines_app_closed (l ++ [ch_nl]) s (open_line_snoc_nl _ H)) as E.
  rewrite <- app_assoc in E. exact E.
Qed.

Lemma lines_open : forall l, open_line l -> lines l = [l].
Proof.
  intros l [H1 H2]. induction l as [|c l IH]; [contradiction|].
  assert (c <> ch_nl) as Hc by (intros F; apply H2; left; exact F).
  assert (~ In ch_nl l) as Hl by (intros F; apply H2; right; exact F).
  rewrite (lines_cons_other _ _ Hc). destruct l as [|d l].
  - reflexivity.
  - rewrite IH; [reflexivity | discriminate | exact Hl].
Qed.

(* ------------------------------------------------------------------ T2: what [lines] yields *)
Lemma concat_cons_first c (L : list str) : List.concat (cons_first c L) = c :: List.concat L.
Proof. destruct L; reflexivity. Qed.

Lemma lines_concat_id : forall s, List.concat (lines s) = s.
Proof.
  induction s as [|c s IH]; [reflexivity|].
  destruct (ascii_dec c ch_nl) as [D|D].
  - subst c. rewrite lines_cons_nl. simpl. rewrite IH. reflexivity.
  - rewrite (lines_cons_other _ _ D). rewrite concat_cons_first. rewrite IH. reflexivity.
Qed.

Lemma line_ok_cons c l : c <> ch_nl -> line_ok l -> line_ok (c :: l).
Proof.
  intros Hc H. apply line_ok_cases. apply line_ok_cases in H. destruct H as [H|[_ H]].
  - left. apply ends_nl_cons; assumption.
  - right. apply open_line_cons; assumption.
Qed.

Lemma Forall_line_ok_cons_first c L : c <> ch_nl -> Forall line_ok L -> Forall line_ok (cons_first c L).
Proof.
  intros Hc H. destruct L as [|t ts]; simpl.
  - constructor; [|constructor]. apply open_line_line_ok. apply open_line_cons; [exact Hc | intros []].
  - inversion H; subst. constructor; [apply line_ok_cons; assumption | assumption].
Qed.

Lemma lines_ok : forall s, Forall line_ok (lines s).
Proof.
  induction s as [|c s IH]; [constructor|].
  destruct (ascii_dec c ch_nl) as [D|D].
  - subst c. rewrite lines_cons_nl. constructor; [apply ends_nl_line_ok, ends_nl_single | exact IH].
  - rewrite (lines_cons_other _ _ D). apply Forall_line_ok_cons_first; assumption.
Qed.

Lemma lines_nonempty : forall s, Forall (fun l => nonempty l = true) (lines s).
Proof.
  intros s. eapply Forall_impl; [|apply lines_ok].
  intros l [H _]. destruct l; [contradiction | reflexivity].
Qed.

Lemma lines_all_but_last_closed : forall s ls l, lines s = ls ++ [l] -> Forall ends_nl ls.
Proof.
  induction s as [|c s IH]; intros ls l H.
  - destruct ls; discriminate.
  - destruct (ascii_dec c ch_nl) as [D|D].
    + subst c. rewrite lines_cons_nl in H. destruct ls as [|x ls]; [constructor|].
      simpl in H. inversion H; subst. constructor; [apply ends_nl_single|].
      eapply IH. eassumption.
    + rewrite (lines_cons_other _ _ D) in H. destruct ls as [|x ls]; [constructor|].
      destruct (lines s) as [|t ts] eqn:E; simpl in H.
      * inversion H. destruct ls; discriminate.
      * inversion H; subst.
        assert (Forall ends_nl (t :: ls)) as F by (apply (IH (t :: ls) l); reflexivity).
        inversion F; subst. constructor; [apply ends_nl_cons; assumption | assumption].
Qed.

(* ------------------------------------------------------------------ T4: concatenated complete lines *)
Lemma lines_concat_closed : forall ls s,
  Forall (fun l => l = [] \/ ends_nl l) ls ->
  lines (List.concat ls ++ s) = filter nonempty ls ++ lines s.
Proof.
  intros ls s H. induction H as [|l ls Hl _ IH]; [reflexivity|].
  destruct Hl as [Hl|Hl].
  - subst l. simpl. exact IH.
  - simpl. rewrite (ends_nl_nonempty _ Hl). rewrite <- app_assoc.
    rewrite (lines_app_closed _ _ Hl). rewrite IH. reflexivity.
Qed.

Lemma lines_concat_closed_nil : forall ls,
  Forall (fun l => l = [] \/ ends_nl l) ls -> lines (List.concat ls) = filter nonempty ls.
Proof.
  intros ls H. pose proof (lines_concat_closed ls [] H) as E.
  rewrite !app_nil_r in E. exact E.
Qed.

(* ------------------------------------------------------------------ T7: shape of the written text *)
Definition hdr_text (n : str) : str := la "[ " ++ n ++ la " ]" ++ [ch_nl].

Lemma section_text_lines : forall n ps,
  section_text n ps = hdr_text n ++ List.concat (map line_of ps) ++ [ch_nl].
Proof.
  intros n ps. unfold section_text, hdr_text. rewrite <- !app_assoc. reflexivity.
Qed.

Lemma itp_write_eq : forall f,
  itp_write f = List.concat (f_header f)
                ++ List.concat (map (fun kv => section_text (fst kv) (snd kv)) (f_secs f)).
Proof. reflexivity. Qed.

(* ------------------------------------------------------------------ T8: the lines of one written section *)
Lemma hdr_text_ends_nl n : ~ In ch_nl n -> ends_nl (hdr_text n).
Proof.
  intros H. exists (la "[ " ++ n ++ la " ]"). split.
  - unfold hdr_text. rewrite <- !app_assoc. reflexivity.
  - intros F. apply in_app_or in F. destruct F as [F|F].
    + simpl in F. destruct F as [F|[F|[]]]; discriminate.
    + apply in_app_or in F. destruct F as [F|F]; [exact (H F)|].
      simpl in F. destruct F as [F|[F|[]]]; discriminate.
Qed.

Lemma Forall_map_line_of (P : str -> Prop) ps :
  Forall (fun p => P (line_of p)) ps -> Forall P (map line_of ps).
Proof. intros H. induction H; simpl; constructor; assumption. Qed.

Lemma section_lines : forall n ps s,
  ~ In ch_nl n ->
  Forall (fun p => line_of p = [] \/ ends_nl (line_of p)) ps ->
  lines (section_text n ps ++ s)
  = hdr_text n :: filter nonempty (map line_of ps) ++ [ch_nl] :: lines s.
Proof.
  intros n ps s Hn Hps. rewrite section_text_lines. rewrite <- !app_assoc.
  rewrite (lines_app_closed _ _ (hdr_text_ends_nl _ Hn)). f_equal.
  rewrite lines_concat_closed by (apply Forall_map_line_of with (P := fun l => l = [] \/ ends_nl l); exact Hps).
  f_equal.
Qed.

Lemma section_lines_open : forall n ps p s,
  ~ In ch_nl n ->
  Forall (fun p => line_of p = [] \/ ends_nl (line_of p)) ps ->
  open_line (line_of p) ->
  lines (section_text n (ps ++ [p]) ++ s)
  = hdr_text n :: filter nonempty (map line_of ps) ++ (line_of p ++ [ch_nl]) :: lines s.
Proof.
  intros n ps p s Hn Hps [_ Hp]. rewrite section_text_lines. rewrite <- !app_assoc.
  rewrite (lines_app_closed _ _ (hdr_text_ends_nl _ Hn)). f_equal.
  rewrite map_app. rewrite concat_app. simpl. rewrite app_nil_r. rewrite <- !app_assoc.
  rewrite lines_concat_closed by (apply Forall_map_line_of with (P := fun l => l = [] \/ ends_nl l); exact Hps).
  f_equal. apply lines_app_nl. exact Hp.
Qed.
