(* Lemmas about Model/Chi2.v at T := R: sums, first arg-min, nearest atom, the reference definition,
   path independence, non-negativity. *)
From GM Require Import Proofs.RTac Model.Chi2 Proofs.Chi2Lists.
From Coq Require Import Bool.
Import ListNotations.
Local Open Scope R_scope.

(* ---------- sums ---------- *)
Fixpoint Rsum (l : list R) : R := match l with [] => 0 | x :: xs => x + Rsum xs end.

Lemma fold_left_Rplus_acc l a : fold_left Rplus l a = a + fold_left Rplus l 0.
Proof.
  revert a; induction l as [|x xs IH]; intros a; simpl; [ring|].
  rewrite (IH (a + x)), (IH (0 + x)). ring.
Qed.

Lemma ssum_Rsum (l : list R) : ssum l = Rsum l.
Proof.
  unfold ssum. change (@sadd R RScalar) with Rplus. change (@s0 R RScalar) with 0.
  induction l as [|x xs IH]; simpl; [reflexivity|].
  rewrite fold_left_Rplus_acc, IH. ring.
Qed.

Lemma Rsum_nonneg l : (forall x, In x l -> 0 <= x) -> 0 <= Rsum l.
Proof.
  induction l as [|x xs IH]; simpl; intros Hp; [lra|].
  assert (0 <= x) by auto. assert (0 <= Rsum xs) by auto. lra.
Qed.

Lemma vdist2_nonneg (a b : V3 R) : 0 <= vdist2 a b.
Proof.
  destruct a as [a1 a2 a3], b as [b1 b2 b3]; runfold.
  pose proof (Rle_0_sqr (a1 - b1)). pose proof (Rle_0_sqr (a2 - b2)). pose proof (Rle_0_sqr (a3 - b3)).
  unfold Rsqr in *. lra.
Qed.

(* ---------- powers of 1.1 ---------- *)
Lemma spow_nat_pos n : 0 < spow_nat (@eleven_tenths R _) n.
Proof.
  induction n as [|n IH]; simpl.
  - change (@s1 R RScalar) with 1. lra.
  - change (@smul R RScalar) with Rmult. apply Rmult_lt_0_compat; [assumption|].
    unfold eleven_tenths; runfold. lra.
Qed.

Lemma spow_Z_pos k : 0 < spow_Z (@eleven_tenths R _) k.
Proof.
  destruct k; simpl.
  - change (@s1 R RScalar) with 1. lra.
  - apply spow_nat_pos.
  - change (@sdiv R RScalar) with Rdiv. change (@s1 R RScalar) with 1.
    apply Rdiv_lt_0_compat; [lra|apply spow_nat_pos].
Qed.

Lemma spow_Z_of_nat (x : R) n : spow_Z x (Z.of_nat n) = spow_nat x n.
Proof.
  destruct n as [|n]; [reflexivity|].
  simpl Z.of_nat. unfold spow_Z. rewrite SuccNat2Pos.id_succ. reflexivity.
Qed.

Lemma penal_of_nat (x : R) n : penal x (Z.of_nat n) = x * spow_nat eleven_tenths n.
Proof.
  unfold penal. destruct n as [|n].
  - simpl. change (@s1 R RScalar) with 1. ring.
  - replace (Z.of_nat (S n) =? 0)%Z with false by (symmetry; apply Z.eqb_neq; lia).
    rewrite spow_Z_of_nat. reflexivity.
Qed.

Lemma penal_nonneg (x : R) k : 0 <= x -> 0 <= penal x k.
Proof.
  intros Hx. unfold penal. destruct (k =? 0)%Z; [assumption|].
  change (@smul R RScalar) with Rmult. apply Rmult_le_pos; [assumption|]. left. apply spow_Z_pos.
Qed.

(* ---------- first arg-min of a row ---------- *)
Definition is_first_min (l : list R) (m : R) (i : nat) : Prop :=
  nth_error l i = Some m /\
  (forall j y, nth_error l j = Some y -> m <= y) /\
  (forall j y, (j < i)%nat -> nth_error l j = Some y -> m < y).

Lemma is_first_min_unique l m i m' i' : is_first_min l m i -> is_first_min l m' i' -> m = m' /\ i = i'.
Proof.
  intros [E1 [A1 S1]] [E2 [A2 S2]].
  assert (i = i').
  { destruct (Nat.lt_trichotomy i i') as [L|[L|L]]; [|assumption|].
    - pose proof (S2 _ _ L E1). pose proof (A1 _ _ E2). lra.
    - pose proof (S1 _ _ L E2). pose proof (A2 _ _ E1). lra. }
  subst i'. split; [congruence|reflexivity].
Qed.

Lemma nth_error_snoc_inv {A} (pre : list A) x j y :
  nth_error (pre ++ [x]) j = Some y ->
  ((j < length pre)%nat /\ nth_error pre j = Some y) \/ (j = length pre /\ y = x).
Proof.
  intros E. destruct (Nat.lt_ge_cases j (length pre)) as [L|L].
  - left. rewrite nth_error_app1 in E by assumption. auto.
  - right. rewrite nth_error_app2 in E by assumption.
    destruct (j - length pre)%nat as [|d] eqn:D; simpl in E.
    + inversion E. split; [lia|reflexivity].
    + destruct d; discriminate.
Qed.

Lemma argmin_from_spec (l pre : list R) m im :
  is_first_min pre m im ->
  is_first_min (pre ++ l) (fst (argmin_from m im (length pre) l)) (snd (argmin_from m im (length pre) l)).
Proof.
  revert pre m im; induction l as [|x xs IH]; intros pre m im Hm.
  - simpl. rewrite app_nil_r. assumption.
  - simpl argmin_from.
    assert (E : pre ++ x :: xs = (pre ++ [x]) ++ xs) by (rewrite <- app_assoc; reflexivity).
    assert (L : S (length pre) = length (pre ++ [x])) by (rewrite app_length; simpl; lia).
    rewrite E, L. destruct Hm as [E1 [A1 S1]].
    assert (Him : (im < length pre)%nat) by (apply nth_error_Some; congruence).
    change (@sltb R RScalar x m) with (Rltb x m). unfold Rltb. destruct (Rlt_dec x m) as [Hlt|Hge].
    + apply IH. split; [|split].
      * rewrite nth_error_app2, Nat.sub_diag by lia. reflexivity.
      * intros j y Hj. apply nth_error_snoc_inv in Hj. destruct Hj as [[_ Hj]|[_ ->]]; [|lra].
        pose proof (A1 _ _ Hj). lra.
      * intros j y Hlt' Hj. apply nth_error_snoc_inv in Hj. destruct Hj as [[_ Hj]|[-> _]]; [|lia].
        pose proof (A1 _ _ Hj). lra.
    + apply IH. split; [|split].
      * rewrite nth_error_app1 by assumption. assumption.
      * intros j y Hj. apply nth_error_snoc_inv in Hj. destruct Hj as [[_ Hj]|[_ ->]]; [eauto|lra].
      * intros j y Hlt' Hj. apply nth_error_snoc_inv in Hj. destruct Hj as [[_ Hj]|[-> _]]; [eauto|lia].
Qed.

Lemma row_min_spec (l : list R) : l <> [] ->
  exists m i, row_min l = Ok (m, i) /\ is_first_min l m i.
Proof.
  destruct l as [|x xs]; [congruence|]. intros _.
  pose proof (argmin_from_spec xs [x] x 0%nat) as S. simpl in S.
  destruct (argmin_from x 0 1 xs) as [m i] eqn:E. exists m, i. split.
  - simpl. rewrite E. reflexivity.
  - apply S. split; [reflexivity|split].
    + intros [|[|j]] y Hj; simpl in Hj; inversion Hj; lra.
    + intros j y Hj; lia.
Qed.

Lemma first_min_In l m i : is_first_min l m i -> In m l /\ (i < length l)%nat.
Proof.
  intros [E _]. split; [eapply nth_error_In; eauto|]. apply nth_error_Some; congruence.
Qed.

(* ---------- the reference "nearest atom" finds the same pair ---------- *)
Lemma is_nearest_true (a : V3 R) mobile b :
  is_nearest a mobile b = true <-> (forall b', In b' mobile -> vdist2 a b <= vdist2 a b').
Proof.
  unfold is_nearest. rewrite forallb_forall. split; intros Hf b' Hb; specialize (Hf b' Hb).
  - apply sleb_R in Hf. assumption.
  - apply sleb_R. assumption.
Qed.

Lemma first_nearest_from_spec (a : V3 R) mobile m i :
  is_first_min (map (vdist2 a) mobile) m i ->
  forall rest pre, mobile = pre ++ rest -> (length pre <= i)%nat ->
  first_nearest_from a mobile rest (length pre) = Ok (m, i).
Proof.
  intros [E1 [A1 S1]] rest. induction rest as [|b bs IH]; intros pre Hm Hle.
  - exfalso. rewrite app_nil_r in Hm. subst pre.
    assert (i < length (map (vdist2 a) mobile))%nat by (apply nth_error_Some; congruence).
    rewrite map_length in *. lia.
  - simpl.
    assert (Eb : nth_error (map (vdist2 a) mobile) (length pre) = Some (vdist2 a b)).
    { rewrite nth_error_map, Hm, nth_error_app2, Nat.sub_diag by lia. reflexivity. }
    destruct (Nat.eq_dec (length pre) i) as [Ei|Ni].
    + subst i. assert (m = vdist2 a b) by congruence. subst m.
      assert (N : is_nearest a mobile b = true).
      { apply is_nearest_true. intros b' Hb. apply In_nth_error in Hb. destruct Hb as [j Hj].
        apply (A1 j). rewrite nth_error_map, Hj. reflexivity. }
      rewrite N. reflexivity.
    + assert (N : is_nearest a mobile b = false).
      { destruct (is_nearest a mobile b) eqn:N; [|reflexivity]. exfalso.
        rewrite is_nearest_true in N.
        assert (Hs : m < vdist2 a b) by (apply (S1 (length pre)); [lia|assumption]).
        rewrite nth_error_map in E1. destruct (nth_error mobile i) as [bi|] eqn:Ebi; [|discriminate].
        cbn [option_map] in E1. assert (Em : vdist2 a bi = m) by congruence.
        apply nth_error_In in Ebi. specialize (N bi Ebi). lra. }
      rewrite N.
      assert (L : S (length pre) = length (pre ++ [b])) by (rewrite app_length; simpl; lia).
      rewrite L. apply IH; [rewrite <- app_assoc; assumption|rewrite <- L; lia].
Qed.

Lemma row_min_nearest (a : V3 R) mobile : mobile <> [] ->
  exists m i, row_min (map (vdist2 a) mobile) = Ok (m, i) /\ nearest a mobile = Ok (m, i)
              /\ is_first_min (map (vdist2 a) mobile) m i.
Proof.
  intros Hne. destruct (row_min_spec (map (vdist2 a) mobile)) as [m [i [E F]]].
  { destruct mobile; [congruence|discriminate]. }
  exists m, i. split; [assumption|split; [|assumption]].
  unfold nearest. apply (first_nearest_from_spec a mobile m i F mobile []); [reflexivity|simpl; lia].
Qed.

(* ---------- the fields of a constructed calculator ---------- *)
Lemma chi2_make_fields (fixed mobile0 : list (V3 R)) restr c :
  chi2_make fixed mobile0 restr = Ok c ->
  exists m1r,
    (forall i, In i (map fst restr) -> (i < length fixed)%nat) /\
    gather fixed (map fst restr) = Ok m1r /\
    c_mol1 c = fixed /\ c_restr2 c = map snd restr /\ c_set2 c = distinct (map snd restr) /\
    c_len2 c = length mobile0 /\
    c_notr c = select (map (fun i => negb (mem_nat i (map fst restr))) (seq 0 (length fixed))) fixed /\
    c_mol1_r c = m1r /\
    (c_path c = PathNone -> restr = []) /\
    (c_path c = PathOnly -> c_notr c = [] /\
       c_kfar c = (Z.of_nat (length mobile0) - Z.of_nat (length (distinct (map snd restr))))%Z /\
       c_fact c = spow_Z eleven_tenths (c_kfar c)).
Proof.
  unfold chi2_make. intros Hc.
  destruct (not_restr_mask (length fixed) (map fst restr)) as [mask|] eqn:Em; simpl in Hc; [|discriminate].
  destruct (not_restr_mask_ok _ _ _ Em) as [-> Hr].
  destruct (gather fixed (map fst restr)) as [m1r|] eqn:Eg; simpl in Hc; [|discriminate].
  exists m1r. split; [assumption|]. split; [reflexivity|].
  destruct restr as [|p rs].
  - inversion Hc; subst; simpl. repeat split; try reflexivity; discriminate.
  - destruct (existsb _ _) eqn:Ee; inversion Hc; subst; simpl.
    + repeat split; try reflexivity; discriminate.
    + repeat split; try reflexivity; try discriminate.
      apply select_none. assumption.
Qed.

(* ---------- restraint contribution = sum over restrained pairs ---------- *)
Definition pair_d2 (fixed mobile : list (V3 R)) (ij : nat * nat) : res R :=
  let* a := nth_res fixed (fst ij) in let* b := nth_res mobile (snd ij) in Ok (vdist2 a b).

Lemma pairs_gather (fixed mobile : list (V3 R)) restr m1r m2r :
  gather fixed (map fst restr) = Ok m1r -> gather mobile (map snd restr) = Ok m2r ->
  mapM (pair_d2 fixed mobile) restr = Ok (map2 vdist2 m1r m2r).
Proof.
  unfold gather. revert m1r m2r; induction restr as [|[i j] rs IH]; simpl; intros m1r m2r E1 E2.
  - inversion E1; inversion E2; reflexivity.
  - unfold pair_d2 at 1. simpl.
    destruct (nth_res fixed i) as [a|]; simpl in *; [|discriminate].
    destruct (nth_res mobile j) as [b|]; simpl in *; [|discriminate].
    destruct (mapM (nth_res fixed) (map fst rs)) as [l1|]; simpl in *; [|discriminate].
    destruct (mapM (nth_res mobile) (map snd rs)) as [l2|]; simpl in *; [|discriminate].
    inversion E1; inversion E2; subst. rewrite (IH l1 l2) by reflexivity. reflexivity.
Qed.

(* ---------- the general (with-restraints) formula equals the reference definition ---------- *)
Lemma near_in_range (mobile : list (V3 R)) (l : list (V3 R)) near :
  mapM (fun a => nearest a mobile) l = Ok near -> mobile <> [] ->
  forall x, In x (map snd near) -> (x < length mobile)%nat.
Proof.
  intros E Hne x Hx. apply in_map_iff in Hx. destruct Hx as [[m i] [<- Hp]].
  destruct (mapM_In _ _ _ _ E Hp) as [a [_ Ea]].
  destruct (row_min_nearest a mobile Hne) as [m' [i' [_ [En F]]]].
  rewrite En in Ea. inversion Ea; subst. apply first_min_In in F. rewrite map_length in F. apply F.
Qed.

Lemma row_mins_nearest (A mobile : list (V3 R)) : mobile <> [] ->
  row_mins (dist_rows A mobile) (length mobile) = mapM (fun a => nearest a mobile) A /\
  exists near, mapM (fun a => nearest a mobile) A = Ok near.
Proof.
  intros Hne. split.
  - unfold row_mins. destruct mobile as [|b bs] eqn:Em; [congruence|]. rewrite <- Em in *. simpl length.
    replace (length mobile) with (S (length bs)) by (subst; reflexivity).
    unfold dist_rows. rewrite mapM_map. apply mapM_ext_in. intros a _.
    destruct (row_min_nearest a mobile Hne) as [m [i [E1 [E2 _]]]]. congruence.
  - apply mapM_all_ok. intros a _. destruct (row_min_nearest a mobile Hne) as [m [i [_ [E2 _]]]]. eauto.
Qed.

Lemma chi2_with_spec (fixed mobile0 mobile : list (V3 R)) restr c :
  chi2_make fixed mobile0 restr = Ok c ->
  mobile <> [] -> length mobile = length mobile0 ->
  (forall j, In j (map snd restr) -> (j < length mobile)%nat) ->
  exists v, chi2_with c mobile = Ok v /\ chi2_spec fixed mobile restr = Ok v.
Proof.
  intros Hc Hne Hlen Hr2.
  destruct (chi2_make_fields _ _ _ _ Hc) as [m1r [Hr1 [Eg1 [F1 [F2 [F3 [F4 [F5 [F6 _]]]]]]]]].
  destruct (gather_ok mobile (map snd restr) Hr2) as [m2r Eg2].
  pose proof (pairs_gather fixed mobile restr m1r m2r Eg1 Eg2) as Ep.
  destruct (row_mins_nearest (c_notr c) mobile Hne) as [Erm [near Enear]].
  pose proof (near_in_range mobile _ near Enear Hne) as Hnr.
  (* the exponent *)
  assert (Ek : (Z.of_nat (c_len2 c) - Z.of_nat (length (distinct (c_set2 c ++ map snd near))))%Z =
               Z.of_nat (length (filter (fun j => negb (mem_nat j (map snd restr)) && negb (mem_nat j (map snd near)))
                                        (seq 0 (length mobile))))).
  { rewrite F3, F4, <- Hlen.
    assert (Ec := count_not_in (map snd restr ++ map snd near) (length mobile)).
    rewrite (distinct_length_ext (distinct (map snd restr) ++ map snd near) (map snd restr ++ map snd near)).
    2:{ intros x. rewrite !in_app_iff, distinct_In. tauto. }
    rewrite (filter_ext (fun j => negb (mem_nat j (map snd restr)) && negb (mem_nat j (map snd near)))
                        (fun j => negb (mem_nat j (map snd restr ++ map snd near)))).
    2:{ intros j. rewrite mem_nat_app, negb_orb. reflexivity. }
    assert (forall x, In x (map snd restr ++ map snd near) -> (x < length mobile)%nat).
    { intros x Hx. apply in_app_iff in Hx. destruct Hx; auto. }
    specialize (Ec H). lia. }
  eexists. split.
  - unfold chi2_with, chi2_with_k, restr_contrib. rewrite F2, Eg2. simpl.
    rewrite Erm, Enear. simpl. rewrite Ek, penal_of_nat, F6. reflexivity.
  - unfold chi2_spec. change (fun ij : nat * nat => _) with (pair_d2 fixed mobile). rewrite Ep. simpl.
    rewrite (mapM_select0 (fun a => nearest a mobile)), <- F5, Enear. simpl. reflexivity.
Qed.

(* ---------- path independence: whichever method was selected at construction computes the
   value of the general with-restraints formula ---------- *)
Lemma chi2_paths_agree (fixed mobile0 mobile : list (V3 R)) restr c :
  chi2_make fixed mobile0 restr = Ok c ->
  mobile <> [] -> length mobile = length mobile0 ->
  chi2_call c mobile = chi2_with c mobile.
Proof.
  intros Hc Hne Hlen.
  destruct (chi2_make_fields _ _ _ _ Hc) as [m1r [Hr1 [Eg1 [F1 [F2 [F3 [F4 [F5 [F6 [PN PO]]]]]]]]]].
  unfold chi2_call, chi2_call_k. destruct (c_path c) eqn:P.
  - (* no restraint *)
    specialize (PN eq_refl). subst restr. simpl in *.
    unfold chi2_with, chi2_with_k, chi2_none_k, restr_contrib. rewrite F2. simpl.
    rewrite F5, F1. rewrite (select_all (fun _ => true) fixed 0%nat) by reflexivity.
    unfold gather in Eg1. simpl in Eg1. inversion Eg1 as [E0]. rewrite F6, <- E0.
    destruct (row_mins (dist_rows fixed mobile) (length mobile)) as [mins|]; simpl; [|reflexivity].
    rewrite F3, F4, Hlen. simpl. f_equal. f_equal.
    change (@sadd R RScalar) with Rplus. rewrite !ssum_Rsum. simpl. ring.
  - (* every fixed atom restrained *)
    destruct (PO eq_refl) as [N [K Fc]].
    unfold chi2_with, chi2_with_k, chi2_only_k. destruct (restr_contrib c mobile) as [x|]; simpl; [|reflexivity].
    rewrite N. unfold dist_rows, row_mins. simpl.
    destruct (length mobile) as [|n] eqn:L; [destruct mobile; [congruence|discriminate]|]. simpl.
    rewrite app_nil_r, F3, F4, (distinct_of_NoDup _ (distinct_NoDup _)), Fc, K.
    f_equal. unfold penal. change (@sadd R RScalar) with Rplus. change (@smul R RScalar) with Rmult.
    rewrite ssum_Rsum. simpl.
    destruct (Z.of_nat (length mobile0) - Z.of_nat (length (distinct (map snd restr))) =? 0)%Z eqn:Z0.
    + apply Z.eqb_eq in Z0. rewrite Z0. simpl. change (@s1 R RScalar) with 1. ring.
    + ring.
  - reflexivity.
Qed.

Lemma chi2_equals_spec (fixed mobile0 mobile : list (V3 R)) restr :
  mobile <> [] -> length mobile = length mobile0 ->
  (forall i j, In (i, j) restr -> (i < length fixed)%nat /\ (j < length mobile)%nat) ->
  exists v, chi2_eval fixed mobile0 restr mobile = Ok v /\ chi2_spec fixed mobile restr = Ok v.
Proof.
  intros Hne Hlen Hr.
  assert (Hr1 : forall i, In i (map fst restr) -> (i < length fixed)%nat).
  { intros i Hi. apply in_map_iff in Hi. destruct Hi as [[i' j] [<- Hp]]. apply (Hr _ _ Hp). }
  assert (Hr2 : forall j, In j (map snd restr) -> (j < length mobile)%nat).
  { intros j Hj. apply in_map_iff in Hj. destruct Hj as [[i j'] [<- Hp]]. apply (Hr _ _ Hp). }
  assert (exists c, chi2_make fixed mobile0 restr = Ok c) as [c Hc].
  { unfold chi2_make. rewrite (not_restr_mask_in_range _ _ Hr1). simpl.
    destruct (gather_ok fixed _ Hr1) as [m1r ->]. simpl.
    destruct restr; [eauto|]. destruct (existsb _ _); eauto. }
  destruct (chi2_with_spec _ _ _ _ _ Hc Hne Hlen Hr2) as [v [E1 E2]].
  exists v. split; [|assumption].
  unfold chi2_eval. rewrite Hc. simpl. rewrite (chi2_paths_agree _ _ _ _ _ Hc Hne Hlen). assumption.
Qed.

(* the two statements of "the value is the same however many atoms are restrained" *)
Lemma chi2_path_independent (fixed mobile0 mobile : list (V3 R)) restr c :
  chi2_make fixed mobile0 restr = Ok c ->
  mobile <> [] -> length mobile = length mobile0 ->
  chi2_call c mobile = chi2_with c mobile /\
  (restr = [] -> chi2_none c mobile = chi2_with c mobile) /\
  ((forall i, (i < length fixed)%nat -> In i (map fst restr)) -> restr <> [] ->
     chi2_only c mobile = chi2_with c mobile).
Proof.
  intros Hc Hne Hlen. pose proof (chi2_paths_agree _ _ _ _ _ Hc Hne Hlen) as E.
  split; [assumption|]. split.
  - intros ->. simpl in Hc. inversion Hc; subst. exact E.
  - intros Hall Hre. rewrite <- E.
    assert (P : c_path c = PathOnly).
    { unfold chi2_make in Hc.
      destruct (not_restr_mask (length fixed) (map fst restr)) as [mask|] eqn:Em; simpl in Hc; [|discriminate].
      destruct (not_restr_mask_ok _ _ _ Em) as [-> _].
      destruct (gather fixed (map fst restr)); simpl in Hc; [|discriminate].
      destruct restr as [|p rs]; [congruence|].
      assert (X : existsb (fun b : bool => b)
                    (map (fun i => negb (mem_nat i (map fst (p :: rs)))) (seq 0 (length fixed))) = false).
      { destruct (existsb _ _) eqn:X; [|reflexivity]. exfalso.
        apply existsb_exists in X. destruct X as [b [Hb ->]]. apply in_map_iff in Hb.
        destruct Hb as [i [Hi Hs]]. apply in_seq in Hs.
        assert (In i (map fst (p :: rs))) by (apply Hall; lia).
        apply mem_nat_In in H. rewrite H in Hi. discriminate. }
      rewrite X in Hc. inversion Hc; reflexivity. }
    unfold chi2_call, chi2_call_k, chi2_only. rewrite P. reflexivity.
Qed.

(* ---------- non-negativity (no hypothesis on the input) ---------- *)
Lemma restr_contrib_nonneg (c : chi2_calc R) mobile x : restr_contrib c mobile = Ok x -> 0 <= x.
Proof.
  unfold restr_contrib. destruct (gather mobile (c_restr2 c)); simpl; intros E; inversion E; subst.
  rewrite ssum_Rsum. apply Rsum_nonneg. intros y Hy. apply map2_In in Hy.
  destruct Hy as [a [b ->]]. apply vdist2_nonneg.
Qed.

Lemma row_mins_nonneg (A mobile : list (V3 R)) mins :
  row_mins (dist_rows A mobile) (length mobile) = Ok mins -> 0 <= ssum (map fst mins).
Proof.
  intros E. rewrite ssum_Rsum. apply Rsum_nonneg. intros y Hy.
  apply in_map_iff in Hy. destruct Hy as [[m i] [<- Hp]]. simpl.
  unfold row_mins in E. destruct (length mobile) eqn:L; [discriminate|].
  unfold dist_rows in E. rewrite mapM_map in E.
  destruct (mapM_In _ _ _ _ E Hp) as [a [_ Ea]].
  assert (Hne : mobile <> []) by (intros ->; discriminate).
  destruct (row_min_nearest a mobile Hne) as [m' [i' [E1 [_ F]]]].
  rewrite E1 in Ea. inversion Ea; subst. apply first_min_In in F. destruct F as [F _].
  apply in_map_iff in F. destruct F as [b [<- _]]. apply vdist2_nonneg.
Qed.

Lemma chi2_nonneg (fixed mobile0 mobile : list (V3 R)) restr v :
  chi2_eval fixed mobile0 restr mobile = Ok v -> 0 <= v.
Proof.
  unfold chi2_eval. destruct (chi2_make fixed mobile0 restr) as [c|] eqn:Hc; simpl; [|discriminate].
  destruct (chi2_make_fields _ _ _ _ Hc) as [m1r [_ [_ [_ [_ [_ [_ [_ [_ [_ PO]]]]]]]]]].
  unfold chi2_call, chi2_call_k. destruct (c_path c) eqn:P.
  - unfold chi2_none_k. destruct (row_mins _ _) as [mins|] eqn:E; simpl; intros H; inversion H; subst.
    apply penal_nonneg. eapply row_mins_nonneg; eauto.
  - unfold chi2_only_k. destruct (restr_contrib c mobile) as [x|] eqn:E; simpl; intros H; inversion H; subst.
    destruct (PO eq_refl) as [_ [_ ->]]. change (@smul R RScalar) with Rmult.
    apply Rmult_le_pos; [eapply restr_contrib_nonneg; eauto|left; apply spow_Z_pos].
  - unfold chi2_with_k. destruct (restr_contrib c mobile) as [x|] eqn:E; simpl; [|discriminate].
    destruct (row_mins _ _) as [mins|] eqn:E2; simpl; intros H; inversion H; subst.
    apply penal_nonneg. change (@sadd R RScalar) with Rplus.
    pose proof (restr_contrib_nonneg _ _ _ E). pose proof (row_mins_nonneg _ _ _ E2). lra.
Qed.
