(* Correspondence check for C04: the state machine of Model/EMState.v (float instance of the concrete
   core) against a real ExchangeMap driven through the same operation sequence.

   The harness numbers the Python objects it can reach (AtomGro / AtomTop objects, by identity) in the
   order ref, tgt, handles; fresh AtomGro objects of a returned molecule get the next numbers in molecule
   order, which is also the model's allocation order, so the aliasing structure is compared location by
   location.  After every operation the WHOLE observable heap is compared (every field of every cell):
   `GSame`/`TSame` = bit-identical to the harness's previous observation of that cell, and then the model's
   cell must be identical to its own previous value; `GNow c` = the content now (positions of cells created by
   the map within 2^-30 relative, everything else exact); `GDead` = a cell the caller cannot reach (garbage of a
   call that raised ValueError). *)
From Coq Require Import String.
From GM Require Import Corr.CorrBase Model.Aux Model.EMState.
Open Scope bool_scope.
Open Scope float_scope.

Definition V := V3 float.
Definition F := frame float.
Definition gcellF := gcell V.
Definition stateF := state V F.

Inductive gobs := GSame | GDead | GNow (c : gcellF) | GSameN (k : nat).   (* GSameN k = k times GSame *)
Inductive tobs := TSame | TNow (c : tcell) | TSameN (k : nat).

Fixpoint gexpand (l : list gobs) : list gobs :=
  match l with
  | [] => []
  | GSameN k :: t => repeat GSame k ++ gexpand t
  | x :: t => x :: gexpand t
  end.
Fixpoint texpand (l : list tobs) : list tobs :=
  match l with
  | [] => []
  | TSameN k :: t => repeat TSame k ++ texpand t
  | x :: t => x :: texpand t
  end.
Inductive oobs :=
| OErr (e : err)            (* exception class *)
| OOkMol (m : mol)          (* a molecule was returned: its topology / residue locations *)
| OOkPoke
| ONonFinite.               (* a molecule with NaN/inf coordinates was returned (sequence stops here) *)
Record sobs := mkObs { o_out : oobs; o_g : list gobs; o_t : list tobs; o_keys : list nat }.

Fixpoint nat_list_eqb (a b : list nat) : bool :=
  match a, b with
  | [], [] => true
  | x :: xs, y :: ys => Nat.eqb x y && nat_list_eqb xs ys
  | _, _ => false
  end.
Fixpoint nat_list2_eqb (a b : list (list nat)) : bool :=
  match a, b with
  | [], [] => true
  | x :: xs, y :: ys => nat_list_eqb x y && nat_list2_eqb xs ys
  | _, _ => false
  end.
Definition mol_same (a b : mol) : bool :=
  String.eqb (m_name a) (m_name b) && nat_list_eqb (m_top a) (m_top b) && nat_list2_eqb (m_res a) (m_res b).

Definition v3_exact (a b : V) : bool := (vx a =? vx b) && (vy a =? vy b) && (vz a =? vz b).
Definition ov3_exact (a b : option V) : bool :=
  match a, b with
  | None, None => true
  | Some x, Some y => v3_exact x y
  | _, _ => false
  end.
Definition glabels_eq (a b : gcellF) : bool :=
  Z.eqb (g_resid a) (g_resid b) && String.eqb (g_resname a) (g_resname b) &&
  String.eqb (g_name a) (g_name b) && Z.eqb (g_atomid a) (g_atomid b) && ov3_exact (g_vel a) (g_vel b).
Definition gcell_exact (a b : gcellF) : bool := glabels_eq a b && v3_exact (g_pos a) (g_pos b).
Definition gcell_close (a b : gcellF) : bool := glabels_eq a b && v3_close 0x1p-30 (g_pos a) (g_pos b).
Definition tcell_exact (a b : tcell) : bool :=
  String.eqb (t_name a) (t_name b) && String.eqb (t_resname a) (t_resname b) &&
  Z.eqb (t_resid a) (t_resid b) && Nat.eqb (t_index a) (t_index b) && nat_list_eqb (t_bonds a) (t_bonds b).

(* n0: number of gro cells before the first call (cells from n0 on were created by the map);
   k: location of the head of `now` *)
Fixpoint gheap_agree (n0 k : nat) (old now : list gcellF) (obs : list gobs) : bool :=
  match now, obs with
  | [], [] => true
  | c :: now', o :: obs' =>
      (match o with
       | GSame => match old with c0 :: _ => gcell_exact c0 c | [] => false end
       | GDead => true                                                 (* unreachable: nothing to compare *)
       | GNow c' => if Nat.leb n0 k then gcell_close c c' else gcell_exact c c'
       | GSameN _ => false
       end) && gheap_agree n0 (S k) (tl old) now' obs'
  | _, _ => false
  end.
Fixpoint theap_agree (old now : list tcell) (obs : list tobs) : bool :=
  match now, obs with
  | [], [] => true
  | c :: now', o :: obs' =>
      (match o with
       | TSame => match old with c0 :: _ => tcell_exact c0 c | [] => false end
       | TNow c' => tcell_exact c c'
       | TSameN _ => false
       end) && theap_agree (tl old) now' obs'
  | _, _ => false
  end.

(* ---- decision margins (indeterminate cases are not compared) ---- *)
Definition near (x target rel : float) : bool := (abs (x - target) <=? rel * target).
Definition triple_indet (p0 p1 p2 : V) : bool :=
  match calcule_base_margin p0 p1 p2, calcule_base_br p0 p1 p2 with
  | Ok mg, Ok (Fm, br) =>
      (andb (0x1p-24 <? mg) (mg <? 0x1p-16)) ||
      match br with
      | CbRegular => false
      | _ => near (vx (f1 Fm) * vx (f1 Fm) + vy (f1 Fm) * vy (f1 Fm)) 0.5 0x1p-30
      end
  | _, _ => false
  end.
Definition frames_indet (g : graph) (ps : list V) : bool :=
  existsb (fun a =>
    match nth_error g a with
    | Some l => match lowest2 l with
                | Some (n1, n2) =>
                    match nth_error ps a, nth_error ps n1, nth_error ps n2 with
                    | Some p0, Some p1, Some p2 => triple_indet p0 p1 p2
                    | _, _, _ => false
                    end
                | None => false
                end
    | None => false
    end) (anchors g).
Definition fmin (a b : float) : float := if (b <? a) then b else a.
Definition closest_indet (ref : list V) (keys : list nat) (p : V) : bool :=
  match mapM (fun i => let* r := nth_res ref i in Ok (vdist p r)) keys with
  | Ok (d :: rest) =>
      let best := fold_left fmin rest d in
      Nat.ltb 1 (length (filter (fun x => (x - best <=? 0x1p-30 * x)) (d :: rest)))
  | _ => false
  end.

Definition mol_indet (h : heap V) (m : mol) : bool :=
  match mol_positions V h m, mol_graph V h m with
  | Ok ps, Ok g => frames_indet g ps
  | _, _ => false
  end.

Section Run.
Variable s : float.
Definition stepF := step V F c_frames_of c_restore.
Definition buildF := build V F c_frames_of (c_project_all s).

Definition op_indet (st : stateF) (o : op V) : bool :=
  match o with
  | Call h => match nth_error (s_objs st) h with Some m => mol_indet (s_heap st) m | None => false end
  | _ => false
  end.

Definition last_mol (l : list mol) : option mol := nth_error l (pred (length l)).

(* Some c: stop with code c;  None: go on and compare the heaps *)
Definition out_agree (st' : stateF) (o : out V) (ob : oobs) : option nat :=
  match o, ob with
  | OCall (Ok _), OOkMol m =>
      match last_mol (s_objs st') with
      | Some m' => if mol_same m' m then None else Some DISAGREE
      | None => Some DISAGREE
      end
  | OCall (Err EDiv0), ONonFinite => Some AGREE
  | OCall (Err e), OErr e' => if err_eqb e e' then None else Some ERRMISMATCH
  | OPoke (Ok _), OOkPoke => None
  | OPoke (Err e), OErr e' => if err_eqb e e' then None else Some ERRMISMATCH
  | _, _ => Some ERRMISMATCH
  end.

(* K-level operation: an operation of the machine, or a call of a SECOND map alive in the same world (the
   reverse map ExchangeMap(tgt, ref, s)): the same `call` run on the shared heap / handle list with the other
   map object swapped in.  The theorems speak of one map; the second one is only executed here. *)
Inductive kop := KOp (o : op V) | KRev (h : nat).

Definition kop_indet (st : stateF) (o : kop) : bool :=
  match o with
  | KOp o => op_indet st o
  | KRev h => op_indet st (Call h)
  end.

Definition kstep (st : stateF) (mb : option (emap V F)) (o : kop) : stateF * option (emap V F) * out V :=
  match o with
  | KOp o => let so := stepF st o in (fst so, mb, snd so)
  | KRev h =>
      match mb with
      | None => (st, mb, OCall (Err EStop))
      | Some b =>
          let so := stepF (mkSt (s_heap st) (s_objs st) b) (Call h) in
          (mkSt (s_heap (fst so)) (s_objs (fst so)) (s_map st), Some (s_map (fst so)), snd so)
      end
  end.

Fixpoint chk_steps (n0 : nat) (st : stateF) (mb : option (emap V F)) (ops : list kop) (obs : list sobs) : nat :=
  match ops, obs with
  | [], [] => AGREE
  | o :: ops', ob :: obs' =>
      if kop_indet st o then INDET else
      let '(st', mb', r) := kstep st mb o in
      match out_agree st' r (o_out ob) with
      | Some c => c
      | None =>
          if gheap_agree n0 0 (gro (s_heap st)) (gro (s_heap st')) (gexpand (o_g ob)) &&
             theap_agree (top (s_heap st)) (top (s_heap st')) (texpand (o_t ob)) &&
             nat_list_eqb (map fst (e_refsys (s_map st'))) (o_keys ob)
          then chk_steps n0 st' mb' ops' obs' else DISAGREE
      end
  | _, _ => DISAGREE
  end.

(* h is the heap observed BEFORE the map is built.  bobs: None = the construction succeeded, with bg / bt what
   it did to the observable heap (nothing, in the model: every cell must be `Same`), `keys0` the keys of
   _refsystems and `eq0` the anchor of every target atom; Some e = it raised.  rev: a reverse map
   ExchangeMap(tgt, ref, s) is built right after the forward one. *)
Definition chk_c04 (h : heap V) (objs : list mol) (ref tgt : mol) (rev : bool)
    (bobs : option err) (bg : list gobs) (bt : list tobs)
    (keys0 eq0 : list nat) (ops : list kop) (obs : list sobs) : nat :=
  if mol_indet h ref || (rev && mol_indet h tgt) then INDET else
  match buildF h objs ref tgt, bobs with
  | Err e, Some e' => if err_eqb e e' then AGREE else ERRMISMATCH
  | Ok st, None =>
      match mol_positions V h ref, mol_positions V h tgt with
      | Ok rps, Ok tps =>
          if existsb (closest_indet rps (map fst (e_refsys (s_map st)))) tps then INDET else
          let mbr := if rev then
                       match buildF h objs tgt ref with
                       | Ok sb => if existsb (closest_indet tps (map fst (e_refsys (s_map sb)))) rps
                                  then Err EStop else Ok (Some (s_map sb))
                       | Err e => Err e
                       end
                     else Ok None in
          match mbr with
          | Err EStop => INDET
          | Err _ => ERRMISMATCH
          | Ok mb =>
            if gheap_agree (length (gro h)) 0 (gro h) (gro (s_heap st)) (gexpand bg) &&
               theap_agree (top h) (top (s_heap st)) (texpand bt) &&
               nat_list_eqb (map fst (e_refsys (s_map st))) keys0 &&
               nat_list_eqb (map fst (e_ec (s_map st))) eq0
            then chk_steps (length (gro h)) st mb ops obs else DISAGREE
          end
      | _, _ => ERRMISMATCH
      end
  | _, _ => ERRMISMATCH
  end.
End Run.
