(* Correspondence checks for read_topology / MoleculeTop / are_connected (C15). *)
From Coq Require Import List String Ascii ZArith NArith Bool.
From GM Require Import Base.Res Base.StrItp Model.Itp Model.Topology Corr.CheckC16.
Import ListNotations.

Definition obs_top := (string * list (string * string * Z) * list (Z * Z))%type.

Definition info_agree (a : atom_info) (o : string * string * Z) : bool :=
  let '(n, rn, rid) := a in let '(n', rn', rid') := o in seqb n n' && seqb rn rn' && Z.eqb rid rid'.
Definition pair_agree (b : nat * nat) (o : Z * Z) : bool :=
  Z.eqb (Z.of_nat (fst b)) (fst o) && Z.eqb (Z.of_nat (snd b)) (snd o).

Definition top_agree (t : topology) (o : obs_top) : bool :=
  let '(n, infos, bonds) := t in let '(n', infos', bonds') := o in
  seqb n n' && all2 info_agree infos infos' && all2 pair_agree bonds bonds'.

Definition chk_top (text : string) (o : res obs_top) : nat := chk_res top_agree (read_topology (la text)) o.

(* MoleculeTop(path): name, per atom (name, resname, resid, index, sorted(bonds)), are_connected(mol.atoms) *)
Definition obs_atom := (string * string * Z * Z * list Z)%type.
Definition zlist_agree (l : list nat) (o : list Z) : bool := all2 (fun a b => Z.eqb (Z.of_nat a) b) l o.
Definition atom_agree (a : atomtop) (o : obs_atom) : bool :=
  let '(n, rn, rid, idx, bs) := o in
  seqb (at_name a) n && seqb (at_resname a) rn && Z.eqb (at_resid a) rid && Z.eqb (Z.of_nat (at_index a)) idx &&
  zlist_agree (at_bonds a) bs.

Definition mol_conn (text : str) : res (str * list atomtop * bool) :=
  let* m := load_molecule text in
  let* c := are_connected (adj_of (snd m)) in
  Ok (fst m, snd m, c).

Definition chk_mol (text : string) (o : res (string * list obs_atom * bool)) : nat :=
  chk_res (fun m o => let '(n, atoms, c) := m in let '(n', atoms', c') := o in
                      seqb n n' && all2 atom_agree atoms atoms' && Bool.eqb c c')
          (mol_conn (la text)) o.

(* are_connected on an explicit adjacency (bonds in the implementation's own iteration order) *)
Definition chk_conn (adj : list (list Z)) (o : res bool) : nat :=
  chk_res Bool.eqb (are_connected (map (map Z.to_nat) adj)) o.

(* both observations of one file in one case (the text is shipped once) *)
Definition chk_topmol (text : string) (ot : res obs_top) (om : res (string * list obs_atom * bool)) : nat :=
  Nat.max (chk_top text ot) (chk_mol text om).

(* C16: ItpFile observation + written text + read_topology on the same text, in one case *)
Definition chk_itp_top (text : string) (o : res obs_file) (written : string) (ot : res obs_top) : nat :=
  Nat.max (chk_itp text o written) (chk_top text ot).

(* MoleculeTop.copy on the CURRENT state of an object (after mutations through the public API): the heap model
   builds the object graph of the observed current value, copies it, and must give the observed copy
   (name, atoms with bonds) and the observed value of `copy == original`. *)
From GM Require Import Model.TopHeap.
Definition atom_of_obs (o : obs_atom) : atomtop :=
  let '(n, rn, rid, idx, bs) := o in
  {| at_name := la n; at_resname := la rn; at_resid := rid; at_index := Z.to_nat idx; at_bonds := map Z.to_nat bs |}.
Definition chk_copy (name : string) (cur : list obs_atom) (o : res (string * list obs_atom * bool)) : nat :=
  let mh := build_mol [] (la name) (map atom_of_obs cur) [] in
  chk_res (fun v o => let '(n, atoms, e) := v in let '(n', atoms', e') := o in
                      seqb n n' && all2 atom_agree atoms atoms' && Bool.eqb e e')
          (let* ch := mol_copy (snd mh) (fst mh) in
           let* v := view (snd ch) (fst ch) in
           let* e := mol_eq (snd ch) (fst mh) (fst ch) in
           Ok (snd (fst v), snd v, e)) o.
