(* C06 correspondence: Alignment(start, end).align_molecules(...) observed on the implementation against the
   binary64 instance of Model/Align.v fed with the recorded np.random draws.

   Compared: error class | the argument tuple that reached minimize_molecules | per pass of the Monte-Carlo loop the
   measure of the proposal and the decision | the final coordinates and the atom names of both molecules.
   Decision-margin rule: the trace is compared pass by pass up to the first pass in which a comparison made by the
   model (arg-min of a row of the distance matrix, energy_1 <= energy_0, u <= acceptance*factor, chi2 < chi2_min)
   has a relative margin below 2^-30 (9.3e-10); from there on the case is INDET (a one-ulp difference in summation
   order may legitimately flip such a decision).  The same holds for a single-atom move that is ill conditioned (cross
   product of the displacement direction or a pre-move distance close to zero: thresholds of Corr/CheckC07.v).

   Degenerate geometries.  Where numpy divides 0/0 (a zero cross product in find_atom_random_displ, coincident atoms in
   move_mol_atom) no exception is raised: the trial array is nan, its measure is nan, `nan <= chi2` is False,
   factor = chi2/nan = nan, `rand() <= nan` is False: the pass is REJECTED, ONE uniform draw is consumed and the counter
   is incremented.  The model's proposal is `Err EDiv0` there (Model/Transform.v; the theorems speak of runs that return
   Ok).  `run_resume` therefore runs the model loop (MC.mc_loop) up to such a pass, requires the observation "measure
   nan, rejected" for it, and resumes the model loop from the same held state with counter + 1 behind the draws of
   that pass (type, proposal, uniform).  A nan trial that is accepted, or judged without a uniform draw, is a
   disagreement.

   A pass that is NOT in the model's trace.  When the model finds a proposal worse than the configuration held by an
   ulp while the implementation found it equal (and drew no uniform number), the model asks the recorded stream for a
   DRand that is not there and stops with Err EStop BEFORE the pass enters its trace.  `stopped_pass_undecided`
   re-evaluates that pass from the stop point and applies the same margins to it (false alarm of soak seed 32: a
   rotation that leaves the measure unchanged up to one ulp, 2.0259167906114097 vs 2.0259167906114093). *)
From Coq Require Import Bool String.
From GM Require Import Corr.CorrBase Corr.CheckC07 Corr.CheckC08 Model.Aux Model.Transform Model.Chi2 Model.MC Model.Restraints Model.Align.
Open Scope bool_scope.
Open Scope float_scope.

Definition tol_pos : float := 0x1p-30.     (* coordinates, relative to 1 + |x| *)
Definition tol_e : float := 0x1p-30.       (* measures, relative *)
Definition tol_arg : float := 0x1p-40.     (* quantities computed once from the inputs *)

(* np.cos / np.sin of the drawn angles, supplied as data (theta, cos theta, sin theta) *)
Definition cs_table := list (float * float * float).
Fixpoint cs_find (tab : cs_table) (t : float) : float * float :=
  match tab with
  | [] => (nan, nan)
  | (t', c, s) :: rest => if t' =? t then (c, s) else cs_find rest t
  end.
Definition cs_cos (tab : cs_table) (t : float) : float := fst (cs_find tab t).
Definition cs_sin (tab : cs_table) (t : float) : float := snd (cs_find tab t).

(* ---------------------------------------------------------------- observations *)
(* the arguments received by the wrapped gaddlemaps._alignment.minimize_molecules *)
Record oargs := OArgs {
  oa_fixed : list (V3 float); oa_mobile : list (V3 float); oa_com : V3 float; oa_sigma : float;
  oa_steps : Z; oa_restr : list (Z * Z); oa_table : bond_table float; oa_width : float; oa_deform : list Z }.

(* one pass of the loop: second argument and result of accept_metropolis *)
Record ostep := OStep { os_e1 : float; os_acc : bool }.

Inductive oalign :=
| OErr (e : err)                                       (* exception class *)
| OOk (start end_ : list (V3 float))                   (* final positions of Alignment.start / Alignment.end *)
      (names_start names_end : list string)            (* final atom names *)
      (args : option oargs)                            (* None: the optimiser was not called *)
      (steps : list ostep)
      (sigmas : list (nat * float)).                   (* per atom move: (atom drawn, scale passed to normal) *)

(* ---------------------------------------------------------------- comparison helpers *)
Definition zz_eqb (a b : Z * Z) : bool := Z.eqb (fst a) (fst b) && Z.eqb (snd a) (snd b).
Fixpoint table_close (a b : bond_table float) : bool :=
  match a, b with
  | [], [] => true
  | None :: a', None :: b' => table_close a' b'
  | Some la :: a', Some lb :: b' =>
      list_eqb (fun x y : nat * float => Nat.eqb (fst x) (fst y) && rel_close tol_arg (snd x) (snd y)) la lb
      && table_close a' b'
  | _, _ => false
  end.

Definition args_close (m : min_args float) (o : oargs) : bool :=
  list_close tol_arg (ma_fixed m) (oa_fixed o) &&
  list_close tol_arg (ma_mobile m) (oa_mobile o) &&
  v3_close tol_arg (ma_com m) (oa_com o) &&
  (ma_sigma m =? oa_sigma o) &&
  Z.eqb (Z.of_nat (ma_steps m)) (oa_steps o) &&
  list_eqb zz_eqb (ma_restr m) (oa_restr o) &&
  table_close (ma_table m) (oa_table o) &&
  rel_close tol_arg (ma_width m) (oa_width o) &&
  list_eqb Z.eqb (ma_deform m) (oa_deform o).

(* is |a - b| decided with a relative margin >= tol_e ? *)
Definition decided (a b : float) : bool :=
  tol_e * (if abs a <? abs b then abs b else abs a) <? abs (a - b).

(* rows of the distance matrix whose minima the measure of `test` used *)
Definition rows_of (c : chi2_calc float) (test : list (V3 float)) : list (list float) :=
  match c_path c with
  | PathNone => dist_rows (c_mol1 c) test
  | PathWith => dist_rows (c_notr c) test
  | PathOnly => []
  end.
Definition rows_decided (c : chi2_calc float) (test : list (V3 float)) : bool :=
  forallb row_margin_ok (rows_of c test).

(* every comparison of one pass is decided *)
Definition step_decided (c : chi2_calc float) (r : step_rec float (list (V3 float))) : bool :=
  let e0 := e_held (sr_before r) in
  let e1 := sr_e1 r in
  rows_decided c (sr_test r) &&
  decided e1 e0 &&
  (match sr_u r with
   | None => true
   | Some u => decided u (acceptance * (e0 / e1))
   end) &&
  (if sr_acc r then decided e1 (e_min (sr_before r)) else true).

Inductive walk_res := WAgree | WIndet | WBad.

Notation frec := (step_rec float (list (V3 float))).
Notation fstate := (state float (list (V3 float))).

(* a single-atom move whose result is decided by the data (not by rounding noise): thresholds of CheckC07 *)
Definition atom_pass_ok (tb : bond_table float) (ss : float) (held : list (V3 float)) (a : adraw float) : bool :=
  let '(k, u, neg, g) := a in
  let scale := fmax (pos_amax held) (tbl_amax tb) in
  match displ_direction held tb k u neg, find_atom_random_displ held tb k ss u neg g with
  | Ok dir, Ok d =>
      if vnorm dir <? 0x1p-20 * scale * fmin 1 scale then false else
      match move_mol_atom_tr held tb k d (length held) with
      | Ok (out, _, tr) =>
          let '(worst, mmin) := conditioning held out tr k in
          negb ((mmin <? 0x1p-13 * scale) || (0x1p+18 <? worst))
      | Err _ => true          (* the proposal fails in the model: a nan trial, see run_resume *)
      end
  | _, _ => true
  end.

(* draws consumed by the passes of a trace: type + proposal (+ uniform) *)
Definition consumed (tr : list frec) : nat :=
  fold_left (fun n r => (n + match sr_u r with Some _ => 3 | None => 2 end)%nat) tr 0%nat.
Definition last_state (st : fstate) (tr : list frec) : fstate := fold_left (fun _ r => sr_after r) tr st.

(* the model loop, resumed behind every pass whose proposal is Err EDiv0 (None in the result = such a pass) *)
(* where a run of the model loop stopped: the state held and the draws not yet consumed *)
Record stop_point := SP { sp_state : fstate; sp_rest : stream float (pdraw float (adraw float)) }.

Fixpoint run_resume (scos ssin : float -> float) (oc : opt_call float) (rounds : nat) (st : fstate)
    (s : stream float (pdraw float (adraw float))) (fuel : nat)
  : list (option frec) * res (list (V3 float)) * stop_point :=
  let a := oc_args oc in
  let (tr, out) := mc_loop (list (V3 float)) (pdraw float (adraw float)) (chi2_tot (oc_calc oc))
                           (propose scos ssin (oc_calc oc) (ma_table a) (ma_sigma a)) (oc_sim oc) (ma_steps a)
                           fuel st s in
  let st1 := last_state st tr in
  let s1 := skipn (consumed tr) s in
  match out, rounds with
  | Err EDiv0, S rounds' =>
      match s1 with
      | DChoice _ :: DProp _ :: DRand _ :: s2 =>
          let st2 := mkState (held st1) (e_held st1) (e_min st1) (S (counter st1)) in
          let '(tr2, out2, sp) := run_resume scos ssin oc rounds' st2 s2 (fuel - length tr - 1) in
          (map Some tr ++ None :: tr2, out2, sp)
      | _ => (map Some tr, Err EStop, SP st1 s1)
      end
  | _, _ => (map Some tr, out, SP st1 s1)
  end.

(* The run of the model stopped with Err EStop: the next draw of the recorded stream is not the one the model asks
   for.  One cause is legitimate: in the pass that was being executed the model finds the proposal WORSE than the
   configuration held (and asks for the uniform draw) while the implementation found it equal or lower and drew
   nothing - that pass is not in the trace, so its margins are examined here: true = the comparison
   energy_1 <= energy_0 of that pass (or an arg-min / the conditioning of its single-atom move) is undecided. *)
Definition stopped_pass_undecided (scos ssin : float -> float) (oc : opt_call float) (sp : stop_point)
    (o : option ostep) : bool :=
  let a := oc_args oc in
  let st := sp_state sp in
  match sp_rest sp with
  | DChoice i :: DProp p :: _ =>
      match nth_res (oc_sim oc) i with
      | Ok kind =>
          match propose scos ssin (oc_calc oc) (ma_table a) (ma_sigma a) kind p (held st) with
          | Ok test =>
              let e1 := chi2_tot (oc_calc oc) test in
              let cond := match p with PAtom a0 => atom_pass_ok (ma_table a) (ma_sigma a) (held st) a0 | _ => true end in
              negb (rows_decided (oc_calc oc) test && decided e1 (e_held st) && cond)
          | Err EDiv0 =>
              (* the model divides by an exact zero where the implementation evidently did not (its measure is finite,
                 judged without a draw): the two sides stand on different sides of an exact zero; an observed nan
                 measure judged without a draw is a disagreement *)
              match o with Some ob => negb (f_isnan (os_e1 ob)) | None => false end
          | Err _ => false
          end
      | Err _ => false
      end
  | _ => false
  end.

Fixpoint props_of (s : stream float (pdraw float (adraw float))) : list (pdraw float (adraw float)) :=
  match s with
  | [] => []
  | DProp p :: s' => p :: props_of s'
  | _ :: s' => props_of s'
  end.

(* model trace against observed passes *)
Fixpoint walk (c : chi2_calc float) (tb : bond_table float) (ss : float) (tr : list (option frec))
    (props : list (pdraw float (adraw float))) (obs : list ostep) : walk_res :=
  match tr, props, obs with
  | [], _, [] => WAgree
  | Some r :: tr', p :: props', o :: obs' =>
      let cond := match p with PAtom a => atom_pass_ok tb ss (held (sr_before r)) a | _ => true end in
      if negb (step_decided c r && cond) then WIndet
      else if rel_close tol_e (sr_e1 r) (os_e1 o) && Bool.eqb (sr_acc r) (os_acc o) then walk c tb ss tr' props' obs'
      else WBad
  | None :: tr', _ :: props', o :: obs' =>
      (* nan trial: must have been rejected; a finite observed measure means the two sides stand on different
         sides of an exact zero: not comparable *)
      if f_isnan (os_e1 o) then (if os_acc o then WBad else walk c tb ss tr' props' obs') else WIndet
  | _, _, _ => WBad
  end.

(* the scale the code passed to np.random.normal inside move_mol_atom = first tabulated length * sigma_scale *)
Definition sigmas_ok (tb : bond_table float) (ss : float) (l : list (nat * float)) : bool :=
  forallb (fun ks : nat * float =>
             match displ_sigma tb (fst ks) ss with
             | Ok s => rel_close tol_arg s (snd ks)
             | Err _ => false
             end) l.

Definition names_ok (m : amol float) (names : list string) : bool := list_eqb String.eqb (am_names m) names.

Definition chk_align (sf : Z) (start end_ : amol float) (restr : option (list (Z * Z)))
    (deform : option (list Z)) (ign autog : bool) (s : stream float (pdraw float (adraw float)))
    (tab : cs_table) (o : oalign) : nat :=
  let scos := cs_cos tab in
  let ssin := cs_sin tab in
  match align_prep (Z.to_nat sf) start end_ restr deform ign autog, o with
  | Err e, OErr e' => if err_eqb e e' then AGREE else ERRMISMATCH
  | Err _, OOk _ _ _ _ _ _ _ => ERRMISMATCH
  | Ok _, OErr _ => ERRMISMATCH
  | Ok (start1, None), OOk os oe ns ne None _ _ =>
      code (list_close tol_arg (am_pos start1) os && list_close tol_arg (am_pos end_) oe &&
            names_ok start1 ns && names_ok end_ ne)
  | Ok (start1, Some oc), OOk os oe ns ne (Some oa) steps sigmas =>
      let a := oc_args oc in
      let swap := Nat.ltb (am_len start1) (am_len end_) in
      (* the molecule that is not optimised *)
      let fixed_ok := if swap then list_close tol_arg (am_pos end_) oe && names_ok end_ ne
                      else list_close tol_arg (am_pos start1) os && names_ok start1 ns in
      if negb (args_close a oa && fixed_ok && sigmas_ok (ma_table a) (ma_sigma a) sigmas) then DISAGREE
      else if negb (rows_decided (oc_calc oc) (ma_mobile a)) then INDET
      else
        let st0 := init_state (list (V3 float)) (chi2_tot (oc_calc oc)) (ma_mobile a) in
        let '(tr, out, sp) := run_resume scos ssin oc (length steps) st0 s (length steps) in
        let stopped := match out with Err EStop => true | _ => false end in
        let obs_steps := if stopped then firstn (length tr) steps else steps in
        match walk (oc_calc oc) (ma_table a) (ma_sigma a) tr (props_of s) obs_steps with
        | WBad => DISAGREE
        | WIndet => INDET
        | WAgree =>
            match out with
            | Err EStop => if stopped_pass_undecided scos ssin oc sp (nth_error steps (length tr)) then INDET else ERRMISMATCH
            | Err _ => ERRMISMATCH
            | Ok final =>
                if swap then code (list_close tol_pos final os && names_ok start1 ns)
                else code (list_close tol_pos final oe && names_ok end_ ne)
            end
        end
  | Ok _, OOk _ _ _ _ _ _ _ => DISAGREE
  end.
