(* shared helpers for the correspondence checks (float instance) *)
From Coq Require Export ZArith List PrimFloat.
From GM Require Export Base.Res Base.Scalar Base.Vec Inst.FInst.
Export ListNotations.

Definition AGREE := 0%nat.
Definition DISAGREE := 1%nat.
Definition INDET := 2%nat.       (* decision margin too small to compare *)
Definition ERRMISMATCH := 3%nat. (* one side failed, the other did not *)

Definition v3_close (tol : float) (a b : V3 float) : bool :=
  f_close tol (vx a) (vx b) && f_close tol (vy a) (vy b) && f_close tol (vz a) (vz b).
Definition m3_close (tol : float) (a b : M3 float) : bool :=
  v3_close tol (r0 a) (r0 b) && v3_close tol (r1 a) (r1 b) && v3_close tol (r2 a) (r2 b).
Fixpoint list_close (tol : float) (a b : list (V3 float)) : bool :=
  match a, b with
  | [], [] => true
  | x :: xs, y :: ys => v3_close tol x y && list_close tol xs ys
  | _, _ => false
  end.
Fixpoint flist_close (tol : float) (a b : list float) : bool :=
  match a, b with
  | [], [] => true
  | x :: xs, y :: ys => f_close tol x y && flist_close tol xs ys
  | _, _ => false
  end.
Definition code (b : bool) : nat := if b then AGREE else DISAGREE.
