(* Correspondence checks for the ItpFile model (C16, also used by C15): the observation made on the
   implementation is compared with the model evaluated on the same text. Codes: 0 agree, 1 disagree,
   3 error mismatch. *)
From Coq Require Import List String Ascii ZArith NArith Bool.
From GM Require Import Base.Res Base.StrItp Model.Itp.
Import ListNotations.

Definition AGREE := 0%nat.
Definition DISAGREE := 1%nat.
Definition ERRMISMATCH := 3%nat.
Definition code (b : bool) : nat := if b then AGREE else DISAGREE.

Definition seqb (a : str) (b : string) : bool := str_eqb a (la b).

Fixpoint all2 {A B} (f : A -> B -> bool) (xs : list A) (ys : list B) : bool :=
  match xs, ys with
  | [], [] => true
  | x :: xs', y :: ys' => f x y && all2 f xs' ys'
  | _, _ => false
  end.

Definition chk_res {A B} (f : A -> B -> bool) (m : res A) (o : res B) : nat :=
  match m, o with
  | Ok a, Ok b => code (f a b)
  | Err e, Err e' => if err_eqb e e' then AGREE else ERRMISMATCH
  | _, _ => ERRMISMATCH
  end.

(* ---------------------------------------------------------------- string functions *)
Definition chk_strip (s : string) (o : string) : nat := code (seqb (strip (la s)) o).
Definition chk_split (s : string) (o : list string) : nat := code (all2 seqb (split_ws (la s)) o).
Definition chk_int (s : string) (o : res Z) : nat := chk_res Z.eqb (py_int (la s)) o.
Definition chk_float (s : string) (o : bool) : nat := code (Bool.eqb (py_float_ok (la s)) o).
Definition chk_lines (s : string) (o : list string) : nat := code (all2 seqb (lines (la s)) o).

(* ---------------------------------------------------------------- one line in a section *)
Inductive obs_fields :=
| OF_none
| OF_atom (nr : Z) (ty : string) (resid : Z) (resname name : string) (cgnr : Z)
| OF_bond (ai aj f : Z)
| OF_mol (name : string) (n : Z).

Definition fields_agree (f : fields) (o : obs_fields) : bool :=
  match f, o with
  | FNone, OF_none => true
  | FAtom a, OF_atom nr ty resid resname name cgnr =>
      Z.eqb (a_nr a) nr && seqb (a_type a) ty && Z.eqb (a_resid a) resid && seqb (a_resname a) resname &&
      seqb (a_name a) name && Z.eqb (a_cgnr a) cgnr
  | FBond ai aj fu, OF_bond ai' aj' fu' => Z.eqb ai ai' && Z.eqb aj aj' && Z.eqb fu fu'
  | FMol n k, OF_mol n' k' => seqb n n' && Z.eqb k k'
  | _, _ => false
  end.

(* (content, comment, str(line)) *)
Definition obs_line := (string * string * string)%type.
Definition line_agree (p : pline) (o : obs_line) : bool :=
  let '(c, m, l) := o in seqb (content p) c && seqb (comment p) m && seqb (line_of p) l.

Definition chk_line (sec : string) (l : string) (o : res (obs_line * obs_fields)) : nat :=
  chk_res (fun p o => line_agree p (fst o) && fields_agree (p_fields p) (snd o))
          (parse_line (kind_of (la sec)) (la l)) o.

(* ---------------------------------------------------------------- whole file *)
(* per section: name, len(section) (lines with content), `lines` *)
Definition obs_sec := (string * N * list obs_line)%type.
Definition obs_file := (list string * list obs_sec)%type.

Definition sec_agree (kv : str * list pline) (o : obs_sec) : bool :=
  let '(n, k, ls) := o in
  seqb (fst kv) n && N.eqb (N.of_nat (List.length (sec_items (snd kv)))) k && all2 line_agree (snd kv) ls.

Definition file_agree (written : string) (f : itpfile) (o : obs_file) : bool :=
  all2 seqb (f_header f) (fst o) && all2 sec_agree (f_secs f) (snd o) && seqb (itp_write f) written.

(* text as Python's file iterator sees it; obs of ItpFile(text); the text written by .write() *)
Definition chk_itp (text : string) (o : res obs_file) (written : string) : nat :=
  chk_res (file_agree written) (itp_read (la text)) o.
