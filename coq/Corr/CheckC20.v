(* C20 correspondence: model of _cli.py (reference instance of the oracles) against observations. *)
From Coq Require Import String List Bool Arith.
From GM Require Import Base.Res Gen.SrcConsts Model.Cli.
Import ListNotations.
Open Scope string_scope.

Definition AGREE := 0%nat.
Definition DISAGREE := 1%nat.
Definition ERRMISMATCH := 3%nat.
Definition code (b : bool) : nat := if b then AGREE else DISAGREE.

Definition ofile_eqb (a b : option file) : bool :=
  match a, b with
  | Some x, Some y => String.eqb x y
  | None, None => true
  | _, _ => false
  end.

Fixpoint forall2b {A B} (f : A -> B -> bool) (l : list A) (m : list B) : bool :=
  match l, m with
  | [], [] => true
  | x :: xs, y :: ys => f x y && forall2b f xs ys
  | _, _ => false
  end.

(* observed entry: name, top_CG, top_AA, coor_AA (None = key absent), len of the inner dict *)
Definition obs_entry : Type := (string * (option file * option file * option file * nat))%type.

Definition entry_eqb (e : string * idict) (o : obs_entry) : bool :=
  match o with
  | (n, (cg, aa, co, len)) =>
      String.eqb (fst e) n && ofile_eqb (iget TopCG (snd e)) cg && ofile_eqb (iget TopAA (snd e)) aa &&
      ofile_eqb (iget CoorAA (snd e)) co && Nat.eqb (length (snd e)) len
  end.

(* obs = None: sort_molecules raised OSError *)
Definition chk_result (r : res added) (obs : option (list obs_entry)) : nat :=
  match r, obs with
  | Ok d, Some o => code (forall2b entry_eqb d o)
  | Err EIO, None => AGREE
  | _, _ => ERRMISMATCH
  end.

Fixpoint permute (base : list file) (p : list nat) : list file :=
  match p with
  | [] => []
  | i :: r => match nth_error base i with Some f => f :: permute base r | None => permute base r end
  end.

Fixpoint max_code (l : list nat) : nat :=
  match l with [] => AGREE | c :: r => Nat.max c (max_code r) end.

(* one generated directory: the same observation was made under each listed permutation of the file list
   (in-process, forced iteration order) / hash seed (subprocess, identity permutation) *)
Definition chk_sort (stream : cstream) (tbl : list (file * topdata)) (pairs : list (file * file))
           (base : list file) (known : list triple)
           (groups : list (option (list obs_entry) * list (list nat))) : nat :=
  max_code (flat_map (fun g =>
     map (fun p => chk_result (ref_sort_molecules stream tbl pairs (permute base p) known) (fst g)) (snd g)) groups).

Definition triple_eqb (a b : triple) : bool :=
  match a, b with
  | (a1, a2, a3), (b1, b2, b3) => String.eqb a1 b1 && String.eqb a2 b2 && String.eqb a3 b3
  end.

(* main(): the molecules list handed to auto_map (None = main raised OSError) *)
Definition chk_main (stream : cstream) (tbl : list (file * topdata)) (pairs : list (file * file))
           (mol : option (list triple)) (auto : option (list file)) (exclude : option (list string))
           (obs : option (list triple)) : nat :=
  match ref_main_molecules stream tbl pairs mol auto exclude, obs with
  | Ok ms, Some o => code (forall2b triple_eqb ms o)
  | Err EIO, None => AGREE
  | _, _ => ERRMISMATCH
  end.

(* where the mapped system was written *)
Definition chk_out (outfile : option string) (init_coor : string) (obs : string) : nat :=
  code (String.eqb (out_path outfile init_coor) obs).

Fixpoint list_eqb (a b : list string) : bool :=
  match a, b with
  | [], [] => true
  | x :: xs, y :: ys => String.eqb x y && list_eqb xs ys
  | _, _ => false
  end.

(* classify_files: the two sets (given sorted by the harness: sorted(set) in Python = sorted_set) *)
Definition chk_classify (files : list file) (obs_tops obs_coords : list file) : nat :=
  let tc := classify_files files in
  code (list_eqb (sorted_set (fst tc)) obs_tops && list_eqb (sorted_set (snd tc)) obs_coords).
