From GM Require Import Corr.CorrBase Model.Pbc.
Open Scope float_scope.

(* observation: Ok d = the float returned by Residue.distance_to;
   Err EDiv0 = numpy.linalg.LinAlgError, Err EValue = ValueError (empty Residue) *)
Definition tol19 : float := 0x1.12e0be826d695p-30.      (* 1e-9, relative to 1 + |d| *)
Definition margin19 : float := 0x1p-30.                 (* rounding decisions closer than this to a tie are not compared *)

Definition chk_dist (self : list (V3 float)) (other : target float)
           (box : option (M3 float)) (inv : bool) (obs : res float) : nat :=
  match distance_to self other box inv, obs with
  | Ok d, Ok o =>
      match box with
      | None => code (f_close tol19 d o)
      | Some bv =>
          match distance_to_margin self other bv inv with
          | Ok mg => if mg <? margin19 then INDET else code (f_close tol19 d o)
          | Err _ => ERRMISMATCH
          end
      end
  | Err e, Err e' => if err_eqb e e' then AGREE else ERRMISMATCH
  | _, _ => ERRMISMATCH
  end.

(* dyadic inputs on which every operation is exact in binary64: compared even at an exact tie
   (margin 0), so that the tie-break of np.round (half to even) is observed *)
Definition chk_dist_exact (self : list (V3 float)) (other : target float)
           (box : option (M3 float)) (inv : bool) (obs : res float) : nat :=
  match distance_to self other box inv, obs with
  | Ok d, Ok o => code (f_close 0x1p-40 d o)
  | Err e, Err e' => if err_eqb e e' then AGREE else ERRMISMATCH
  | _, _ => ERRMISMATCH
  end.

(* geometric_center alone (np.mean over the atoms) *)
Definition chk_center (atoms : list (V3 float)) (obs : res (V3 float)) : nat :=
  match geometric_center atoms, obs with
  | Ok c, Ok o => code (v3_close 0x1p-40 c o)
  | Err e, Err e' => if err_eqb e e' then AGREE else ERRMISMATCH
  | _, _ => ERRMISMATCH
  end.
