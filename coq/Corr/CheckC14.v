(* Correspondence C14: the reader model's verdict on byte prefixes of complete files and on
   the writer's crash points, against what GroFile(path) / readlines() did on them. *)
From GM Require Export Corr.CheckC13.

(* what the real reader did on one partial file *)
Inductive pobs :=
| PErr (k : nat)                                   (* exception class, see err_match *)
| PAcc (same_atoms : bool) (natoms : Z) (box : list pdec).
   (* accepted; same_atoms: readlines() returned exactly the complete file's records *)

Definition worst (a b : nat) : nat :=
  if (a =? DISAGREE) || (a =? ERRMISMATCH) then a
  else if (b =? AGREE) then a else b.

Definition chk_partial (full_atoms : res (list ratom)) (p : bytes) (o : pobs) : nat :=
  match read_gro p, o with
  | Err EType, _ => INDET
  | Err e, PErr k => code (err_match e k)
  | Ok r, PAcc same n box =>
      match full_atoms with
      | Ok fa =>
          code (Bool.eqb (list_eqb ratom_eqb (r_atoms r) fa) same && (r_natoms r =? n)%Z &&
                list_eqb pdec_eqb (r_box r) box)
      | Err _ => ERRMISMATCH
      end
  | _, _ => ERRMISMATCH
  end.

Definition atoms_of (f : bytes) : res (list ratom) := rmap r_atoms (read_gro f).

(* byte prefixes f[:k] of a complete file; a segment (start, count, obs) says that the real
   reader did obs on every k in start .. start+count-1 *)
Fixpoint chk_seg (fa : res (list ratom)) (f : bytes) (k count : nat) (o : pobs) (acc : nat) : nat :=
  match count with
  | O => acc
  | S c => chk_seg fa f (S k) c o (worst acc (chk_partial fa (firstn k f) o))
  end.
Definition chk_cuts (f : bytes) (cuts : list (N * N * pobs)) : nat :=
  if negb (forallb in_model_char f) then INDET else
  let fa := atoms_of f in
  fold_left (fun acc c => let '(k, n, o) := c in chk_seg fa f (N.to_nat k) (N.to_nat n) o acc)
            cuts AGREE.

(* crash points: the file after the first j operations of the run, as bytes and as verdict *)
Definition chk_crash (c : wconf) (recs : list grec) (snaps : list (nat * bytes * pobs)) : nat :=
  let ops := write_ops recs in
  match write_gro c recs with
  | Err _ => ERRMISMATCH
  | Ok full =>
    let fa := atoms_of full in
    fold_left (fun acc s =>
      let '(j, fo, o) := s in
      worst acc
        match file_after c (firstn j ops) with
        | Ok fj => if negb (forallb in_model_char fo) then INDET else
                   if bytes_eqb fj fo then chk_partial fa fo o else DISAGREE
        | Err _ => ERRMISMATCH
        end) snaps AGREE
  end.

(* a run whose close() fails (announced count different from the records written): the exception class of
   close, the bytes left on disk and the reader's verdict on them *)
Definition chk_failclose (c : wconf) (recs : list grec) (werr : nat) (fo : bytes) (o : pobs) : nat :=
  match file_left c (write_ops recs) with
  | Ok (f, Some e) =>
      if negb (err_match e werr) then DISAGREE else
      if negb (forallb in_model_char fo) then INDET else
      if bytes_eqb f fo then chk_partial (Ok []) fo o else DISAGREE
  | Ok (_, None) => ERRMISMATCH
  | Err _ => ERRMISMATCH
  end.
