(* Correspondence C13: the writer model's bytes and the reader model's values against the
   bytes GroFile wrote and the values GroFile read back. *)
From Coq Require Export List Ascii NArith ZArith Bool Arith.
From Coq Require String.
From GM Require Export Base.Res Base.StrGro Model.GroCodec Model.GroFile.
Export ListNotations.

Definition AGREE := 0%nat.
Definition DISAGREE := 1%nat.
Definition INDET := 2%nat.
Definition ERRMISMATCH := 3%nat.
Definition code (b : bool) : nat := if b then AGREE else DISAGREE.

(* short constructors for the generated case files *)
Definition D (neg : bool) (m : N) : dec := mkdec neg m.
Definition P (neg : bool) (m : N) (k : nat) : pdec := mkpdec neg m k.
Definition B (neg : bool) (m : N) (nz : bool) : bentry := mkbentry (mkdec neg m) nz.
Definition G (a : Z) (rn an : String.string) (b : Z) (p : dec3) (v : option dec3) : grec :=
  mkgrec a (bs rn) (bs an) b p v.
Definition GB (a : Z) (rn an : bytes) (b : Z) (p : dec3) (v : option dec3) : grec :=
  mkgrec a rn an b p v.
Definition A (a : Z) (rn an : String.string) (b : Z) (v : list pdec) : ratom :=
  mkratom a (bs rn) (bs an) b v.

Fixpoint bytes_eqb (a b : bytes) : bool :=
  match a, b with
  | [], [] => true
  | x :: xs, y :: ys => Ascii.eqb x y && bytes_eqb xs ys
  | _, _ => false
  end.

(* same sign and same decimal value (the sign of zero counts) *)
Definition pdec_eqb (a b : pdec) : bool :=
  Bool.eqb (pneg a) (pneg b) &&
  (pmant a * pow10 (pdecs b) =? pmant b * pow10 (pdecs a))%N.

Fixpoint list_eqb {T} (eq : T -> T -> bool) (a b : list T) : bool :=
  match a, b with
  | [], [] => true
  | x :: xs, y :: ys => eq x y && list_eqb eq xs ys
  | _, _ => false
  end.

Definition ratom_eqb (a b : ratom) : bool :=
  (a_resnum a =? a_resnum b)%Z && bytes_eqb (a_resname a) (a_resname b) &&
  bytes_eqb (a_aname a) (a_aname b) && (a_anum a =? a_anum b)%Z &&
  list_eqb pdec_eqb (a_vals a) (a_vals b).

(* exception classes observed: 1 OSError/IOError, 2 IndexError, 3 ValueError, 4 StopIteration *)
Definition err_match (e : err) (k : nat) : bool :=
  match e, k with
  | EIO, 1 | EIndex, 2 | EValue, 3 | EStop, 4 => true
  | _, _ => false
  end.

Inductive robs :=
| ROk (comment : bytes) (natoms : Z) (atoms : list ratom) (box : list pdec)
| RErr (k : nat).

Inductive wobs := WFile (f : bytes) | WErr (k : nat).

Definition chk_read (f : bytes) (o : robs) : nat :=
  if negb (forallb in_model_char f) then INDET else
  match read_gro f, o with
  | Err EType, _ => INDET
  | Ok r, ROk c n atoms box =>
      code (bytes_eqb (r_comment r) c && (r_natoms r =? n)%Z &&
            list_eqb ratom_eqb (r_atoms r) atoms && list_eqb pdec_eqb (r_box r) box)
  | Err e, RErr k => code (err_match e k)
  | _, _ => ERRMISMATCH
  end.

(* writer bytes, then reader values on the observed file *)
Definition chk_c13 (c : wconf) (recs : list grec) (wo : wobs) (ro : robs) : nat :=
  match write_gro c recs, wo with
  | Ok f, WFile fo => if bytes_eqb f fo then chk_read fo ro else DISAGREE
  | Err EType, _ => INDET
  | Err e, WErr k => code (err_match e k)
  | _, _ => ERRMISMATCH
  end.
