(* C09 correspondence: the Monte-Carlo loop of Model/MC.v (float instance) against recorded runs of
   gaddlemaps._backend._minimize_molecules. *)
From GM Require Import Corr.CorrBase Corr.CheckC07 Model.Aux Model.Transform Model.MC.
Open Scope float_scope.

(* ---------------------------------------------------------------- (i) bookkeeping, bit-exact
   The loop is instantiated with "recorded configurations": a configuration is the pair of the
   measure the implementation's Chi2Calculator returned for it and its ordinal (0 = initial array,
   k = the array proposed at step k); the proposal function hands out the recorded proposal of the
   step, provided the generator that produced it is the one belonging to the kind drawn.

   Degenerate geometries (collinear / coincident neighbours in the single-atom move: numpy divides 0/0 without raising):
   the trial array is nan and so is its recorded measure.  No special case is needed here, because the proposals are
   replayed, not recomputed: with e1 = nan the model's accept_metropolis takes `nan <=? e0 = false`, `nan =? 0 = false`,
   consumes the DRand and returns `u <=? acceptance * (e0 / nan) = false` - rejected, one uniform draw, counter + 1,
   exactly what the unchanged code does.  An implementation that accepts such a trial, or judges it without a draw,
   disagrees (the model then finds no DRand / a different decision).  (CheckC06.v, which recomputes the proposals, needs
   its `run_resume` for the same situation.) *)
Definition rconf : Type := (float * Z)%type.
Definition rprop : Type := (nat * rconf)%type.   (* generator tag: 0 normal(0,w,3), 1 uniform+normal, 2 move_mol_atom *)
Definition r_chi2 (c : rconf) : float := fst c.
Definition r_propose (kind : nat) (p : rprop) (_ : rconf) : res rconf :=
  if Nat.eqb kind (fst p) then Ok (snd p) else Err EValue.

(* one recorded pass through the loop body: inputs (draws, recorded measure) and observations *)
Record ostep := OS {
  os_i : nat;              (* index in sim_type of the value np.random.choice returned *)
  os_tag : nat;            (* which proposal generator ran *)
  os_e1 : float;           (* value the Chi2Calculator returned for the proposal *)
  os_u : option float;     (* np.random.rand() inside accept_metropolis, if it was called *)
  (* observations *)
  os_kind : nat;           (* value np.random.choice returned *)
  os_e0 : float;           (* first argument of accept_metropolis *)
  os_cnt : Z;              (* local `counter` when accept_metropolis was called (-1: not observable) *)
  os_emin : float;         (* local `chi2_min` at the same moment (nan: not observable) *)
  os_acc : bool }.         (* what accept_metropolis returned *)

Fixpoint stream_of (l : list ostep) (k : Z) : stream float rprop :=
  match l with
  | [] => []
  | o :: l' =>
      DChoice (os_i o) :: DProp (os_tag o, (os_e1 o, k)) ::
      match os_u o with Some u => DRand u :: stream_of l' (k + 1)%Z | None => stream_of l' (k + 1)%Z end
  end.

Definition feq (a b : float) : bool := orb (a =? b) (andb (f_isnan a) (f_isnan b)).
Definition ofeq (a b : option float) : bool :=
  match a, b with Some x, Some y => feq x y | None, None => true | _, _ => false end.

Definition step_agrees (r : step_rec float rconf) (o : ostep) : bool :=
  Nat.eqb (sr_kind r) (os_kind o) &&
  feq (e_held (sr_before r)) (os_e0 o) &&
  feq (sr_e1 r) (os_e1 o) &&
  ofeq (sr_u r) (os_u o) &&
  Bool.eqb (sr_acc r) (os_acc o) &&
  (if (os_cnt o <? 0)%Z then true else Z.eqb (Z.of_nat (counter (sr_before r))) (os_cnt o)) &&
  (if f_isnan (os_emin o) then true else feq (e_min (sr_before r)) (os_emin o)).

Fixpoint steps_agree (tr : list (step_rec float rconf)) (l : list ostep) : bool :=
  match tr, l with
  | [], [] => true
  | r :: tr', o :: l' => step_agrees r o && steps_agree tr' l'
  | _, _ => false
  end.

(* ret: ordinal of the array the implementation returned *)
Definition chk_run (sim : list nat) (n : Z) (e_init : float) (steps : list ostep) (ret : Z) : nat :=
  let s := stream_of steps 1%Z in
  let (tr, out) := mc_run rconf rprop r_chi2 r_propose sim (Z.to_nat n) (length steps) (e_init, 0%Z) s in
  match out with
  | Ok c => code (Z.eqb (snd c) ret && steps_agree tr steps)
  | Err _ => if steps_agree tr (firstn (length tr) steps) then ERRMISMATCH else DISAGREE
  end.

(* accept_metropolis called directly; obs = None: ZeroDivisionError; Some (decision, rand was called) *)
Definition chk_accept (e0 e1 u : float) (obs : option (bool * bool)) : nat :=
  match accept_metropolis unit e0 e1 [DRand u], obs with
  | Ok (b, ou, _), Some (ob, oused) =>
      code (Bool.eqb b ob && Bool.eqb (match ou with Some _ => true | None => false end) oused)
  | Err EDiv0, None => AGREE
  | _, _ => ERRMISMATCH
  end.

(* ---------------------------------------------------------------- (ii) geometry of the proposals *)
Definition no_atom_move (_ : unit) (_ : list (V3 float)) : res (list (V3 float)) := Err EStop.
Definition geo_tol : float := 0x1p-30.   (* 9.3e-10, relative to 1 + |x| *)

Definition chk_trans (pos : list (V3 float)) (d : V3 float) (obs : list (V3 float)) : nat :=
  match propose_geo unit (fun x => x) (fun x => x) no_atom_move 0 (PTrans d) pos with
  | Ok t => code (list_close geo_tol t obs)
  | Err _ => ERRMISMATCH
  end.

(* c, s: numpy's cos/sin of the drawn angle; obs = None: the implementation produced a non-finite entry *)
Definition chk_rotc (pos : list (V3 float)) (axis : V3 float) (theta c s : float)
    (obs : option (list (V3 float))) : nat :=
  match propose_geo unit (fun _ => c) (fun _ => s) no_atom_move 1 (PRot axis theta) pos, obs with
  | Ok t, Some o => code (list_close geo_tol t o)
  | Err _, None => AGREE
  | _, _ => ERRMISMATCH
  end.

(* the single-atom move proposals: the search's `move_mol_atom(held, bonds, sigma_scale=...)` with the atom and the
   displacement it drew (observed through the module-level `find_atom_random_displ`) against C07's model of
   move_mol_atom on ANY bond graph (trees and graphs with rings), with C07's comparison and conditioning rule
   (code 2 = ill-conditioned pull, not compared).  obs = Err EDiv0: the implementation produced a non-finite array. *)
Definition chk_atom (held : list (V3 float)) (tb : bond_table float) (k : nat) (d : V3 float)
    (obs : res (list (V3 float))) : nat := chk_move held tb k d obs.
