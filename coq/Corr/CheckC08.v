(* C08 correspondence: Chi2Calculator(m1, m2_construction, restr)(m2_eval) observed on the
   implementation vs the float instance of Model/Chi2.v. *)
From GM Require Import Corr.CorrBase Model.Chi2.
Open Scope float_scope.

(* what the implementation did *)
Inductive obs :=
| ObsVal (x : float)     (* returned a float *)
| ObsErrMake             (* IndexError while constructing the calculator *)
| ObsErrCall             (* IndexError while calling it *)
| ObsErrValue.           (* ValueError while calling it (no mobile atom) *)

(* the two smallest entries (at distinct positions) of a row, a <= b *)
Fixpoint two_smallest (a b : float) (l : list float) : float * float :=
  match l with
  | [] => (a, b)
  | x :: xs => if x <? a then two_smallest x a xs
               else if x <? b then two_smallest a x xs
               else two_smallest a b xs
  end.

(* the arg-min of the row is decided with a relative margin >= 2^-30 (9.3e-10) *)
Definition row_margin_ok (l : list float) : bool :=
  match l with
  | [] => true
  | [_] => true
  | x :: y :: xs =>
      let ab := if y <? x then two_smallest y x xs else two_smallest x y xs in
      (0x1p-30 * snd ab <? snd ab - fst ab)
  end.

Definition rel_close (tol a b : float) : bool :=
  if orb (f_isnan a) (f_isnan b) then false else
  (abs (a - b) <=? tol * (if abs a <? abs b then abs b else abs a)).

(* the model's value is exactly 0 (every term of the definition is exactly 0, e.g. mobile atoms sitting
   exactly on the fixed ones): a sum of squares may come out as a tiny positive residue in another
   evaluation order, never as a negative number: 0 <= x <= 2^-60 *)
Definition zero_ok (x : float) : bool := (0 <=? x) && (x <=? 0x1p-60).

(* exact = true: dyadic inputs, all sums exact in binary64: exact ties are compared (no margin
   test); the value must be bit-identical when no 1.1^k factor is applied and within 2^-43
   relative otherwise (pow(1.1,k) vs a k-fold product).
   exact = false: 2^-40 (9.1e-13) relative, rows with an undecided arg-min -> INDET *)
Definition chk_chi2 (exact : bool) (fixed mobile0 : list (V3 float)) (restr : list (nat * nat))
                    (mobile : list (V3 float)) (o : obs) : nat :=
  match chi2_make fixed mobile0 restr with
  | Err EIndex => match o with ObsErrMake => AGREE | _ => ERRMISMATCH end
  | Err _ => ERRMISMATCH
  | Ok c =>
    let rows := match c_path c with
                | PathNone => dist_rows (c_mol1 c) mobile
                | PathWith => dist_rows (c_notr c) mobile
                | PathOnly => []
                end in
    match chi2_call_k c mobile, o with
    | Err EIndex, ObsErrCall => AGREE
    | Err EValue, ObsErrValue => AGREE
    | Ok (v, k), ObsVal x =>
        if exact then
          (if Z.eqb k 0 then code (v =? x) else code (rel_close 0x1p-43 v x))
        else if v =? 0 then code (zero_ok x)
        else if forallb row_margin_ok rows then code (rel_close 0x1p-40 v x)
        else INDET
    | _, _ => ERRMISMATCH
    end
  end.

(* which path the model took: 0 none, 1 only-restraints, 2 with-restraints, 3 construction error
   (used by the harness only to cross-check its own histogram) *)
Definition path_code (fixed mobile0 : list (V3 float)) (restr : list (nat * nat)) : nat :=
  match chi2_make fixed mobile0 restr with
  | Ok c => match c_path c with PathNone => 0 | PathOnly => 1 | PathWith => 2 end
  | Err _ => 3
  end%nat.
