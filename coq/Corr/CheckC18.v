(* K for C18: a recorded run of the implementation (operation sequence on a family of handles,
   exception class of every operation, every observable of every handle after every operation,
   delta-encoded) against the heap model at the float instance.
   Result: 0 agree; otherwise kind + 4 * step with kind 1 = observables differ, 3 = exception
   class differs (step 0 = initial state, step k = after the k-th operation). *)
From Coq Require String.
From GM Require Import Corr.CorrBase Model.Objects.
Open Scope float_scope.

Notation gcell := (grocell float).

(* the getters of a Molecule: resids, resnames, atoms_ids, atoms_velocities is None, geometric_center *)
Definition getters := (list Z * list string * list Z * bool * V3 float)%type.

Record hobs := mkObs {
  o_names : list string;            (* MoleculeTop.name cells reachable from the handle *)
  o_tops : list topcell;            (* AtomTop objects *)
  o_gros : list (list gcell);       (* AtomGro objects, residue by residue *)
  o_get : option getters;
  (* an Alignment: for each end, None or the index in the family of the handle that IS (python `is`)
     the molecule ali.start / ali.end returns *)
  o_ali : option (option nat * option nat) }.

Definition tol : float := 0x1p-30.   (* 9.3e-10, relative to 1 + |value| *)

Definition opt_close (a b : option (V3 float)) : bool :=
  match a, b with
  | None, None => true
  | Some x, Some y => v3_close tol x y
  | _, _ => false
  end.
Definition gro_agree (a b : gcell) : bool :=
  Z.eqb (g_resid a) (g_resid b) && String.eqb (g_resname a) (g_resname b) &&
  String.eqb (g_name a) (g_name b) && Z.eqb (g_atomid a) (g_atomid b) &&
  v3_close tol (g_pos a) (g_pos b) && opt_close (g_vel a) (g_vel b).
Fixpoint list_eqb {A} (eqb : A -> A -> bool) (a b : list A) : bool :=
  match a, b with
  | [], [] => true
  | x :: xs, y :: ys => eqb x y && list_eqb eqb xs ys
  | _, _ => false
  end.
Definition top_agree (a b : topcell) : bool :=
  String.eqb (t_name a) (t_name b) && String.eqb (t_resname a) (t_resname b) &&
  Z.eqb (t_resid a) (t_resid b) && Nat.eqb (t_index a) (t_index b) &&
  list_eqb Nat.eqb (t_bonds a) (t_bonds b).
Definition getters_agree (a b : option getters) : bool :=
  match a, b with
  | None, None => true
  | Some (r1, n1, i1, v1, c1), Some (r2, n2, i2, v2, c2) =>
      list_eqb Z.eqb r1 r2 && list_eqb String.eqb n1 n2 && list_eqb Z.eqb i1 i2 && Bool.eqb v1 v2 &&
      v3_close tol c1 c2
  | _, _ => false
  end.
Definition obs_agree (a b : hobs) : bool :=
  list_eqb String.eqb (o_names a) (o_names b) && list_eqb top_agree (o_tops a) (o_tops b) &&
  list_eqb (list_eqb gro_agree) (o_gros a) (o_gros b) && getters_agree (o_get a) (o_get b).

(* what the model says a handle shows *)
Definition observe (h : heap float) (X : handle float) : res hobs :=
  let* names := read_molname h X in
  let* tops := read_top h X in
  let* gros := mapM (cells (hgro h)) (residues_of X) in
  let* g := match X with
            | HM _ _ _ =>
                let* r := read_resids h X in
                let* n := read_resnames h X in
                let* i := read_ids h X in
                let* v := read_velocities h X in
                let* ps := read_positions h X in
                let* c := geo_center ps in
                Ok (Some (r, n, i, match v with None => true | Some _ => false end, c))
            | _ => Ok None
            end in
  Ok (mkObs names tops gros g None).

(* the molecule an Alignment end refers to must be, location for location, the handle at the
   family index the implementation names *)
Definition end_matches (fam : family float) (m : option mol) (oi : option nat) : bool :=
  match m, oi with
  | None, None => true
  | Some (mt, ts, rs), Some i =>
      match nth_error fam i with
      | Some (_, _, HM mt' ts' rs') =>
          Nat.eqb mt mt' && list_eqb Nat.eqb ts ts' && list_eqb (list_eqb Nat.eqb) rs rs'
      | _ => false
      end
  | _, _ => false
  end.
Definition handle_agrees (h : heap float) (fam : family float) (e : nat * nat * handle float) (o : hobs) : bool :=
  match snd e with
  | HL a =>
      match nth_error (hali h) a, o_ali o with
      | Some (s, e'), Some (os, oe) => end_matches fam s os && end_matches fam e' oe
      | _, _ => false
      end
  | X => match o_ali o with
         | Some _ => false
         | None => match observe h X with
                   | Ok m => obs_agree m o
                   | Err _ => false
                   end
         end
  end.
Fixpoint all_agree_from (h : heap float) (whole fam : family float) (obs : list hobs) : bool :=
  match fam, obs with
  | [], [] => true
  | e :: fs, o :: os => handle_agrees h whole e o && all_agree_from h whole fs os
  | _, _ => false
  end.
Definition all_agree (h : heap float) (fam : family float) (obs : list hobs) : bool := all_agree_from h fam fam obs.

(* exception classes: 0 none, 1 OSError/IOError, 2 ValueError, 3 IndexError, 4 TypeError/AttributeError *)
Definition outcome_matches (r : res unit) (ec : nat) : bool :=
  match r, ec with
  | Ok _, 0%nat => true
  | Err EIO, 1%nat => true
  | Err EValue, 2%nat => true
  | Err EIndex, 3%nat => true
  | Err EType, 4%nat => true
  | _, _ => false
  end.

Definition apply_delta (obs : list hobs) (d : list (nat * hobs)) : list hobs :=
  fold_left (fun acc p => if Nat.ltb (fst p) (length acc) then upd acc (fst p) (snd p) else acc ++ [snd p]) d obs.

Definition rstep := (nat * op float * nat * list (nat * hobs))%type.

Fixpoint chk_steps (n : nat) (st : heap float * family float) (obs : list hobs) (steps : list rstep) : nat :=
  match steps with
  | [] => AGREE
  | (k, o, ec, delta) :: rest =>
      let '(st', r) := step st (k, o) in
      if negb (outcome_matches r ec) then (ERRMISMATCH + 4 * n)%nat else
      let obs' := apply_delta obs delta in
      if all_agree (fst st') (snd st') obs' then chk_steps (S n) st' obs' rest
      else (DISAGREE + 4 * n)%nat
  end.

Definition chk_run (h0 : heap float) (fam0 : family float) (obs0 : list hobs) (steps : list rstep) : nat :=
  if all_agree h0 fam0 obs0 then chk_steps 1 (h0, fam0) obs0 steps else DISAGREE.
