From GM Require Import Corr.CorrBase Model.Aux.
Open Scope float_scope.

(* obs = None : the implementation produced a non-finite entry *)
Definition chk_rot (axis : V3 float) (c s : float) (obs : option (M3 float)) : nat :=
  match rotation_matrix_cs axis c s, obs with
  | Ok m, Some o => code (m3_close 0x1p-40 m o)
  | Err _, None => AGREE
  | _, _ => ERRMISMATCH
  end.

Definition near (x target rel : float) : bool := (abs (x - target) <=? rel * target).

Definition chk_base (p0 p1 p2 : V3 float) (obs : option (V3 float * V3 float * V3 float * V3 float)) : nat :=
  match calcule_base_margin p0 p1 p2 with
  | Ok mg =>
    if andb (0x1p-24 <? mg) (mg <? 0x1p-16) then INDET else   (* 6e-8 .. 1.5e-5 around eps = 1e-6 *)
    match calcule_base_br p0 p1 p2, obs with
    | Ok (F, br), Some (o1, o2, o3, oo) =>
        let q := match br with
                 | CbRegular => 1
                 | _ => vx (f1 F) * vx (f1 F) + vy (f1 F) * vy (f1 F) end in
        if near q 0.5 0x1p-30 then INDET else
        code (v3_close 0x1p-30 (f1 F) o1 && v3_close 0x1p-30 (f2 F) o2 &&
              v3_close 0x1p-30 (f3 F) o3 && v3_close 0x1p-40 (forig F) oo)
    | Err _, None => AGREE
    | _, _ => ERRMISMATCH
    end
  | Err _ => match obs with None => AGREE | Some _ => ERRMISMATCH end
  end.
