(* C12 correspondence: observations of the real SystemGro against Model/SystemGro.v.
   Atom payloads are record identifiers (the harness gives record number k the payload k and maps every
   atom the implementation returns - number, names, coordinates, velocities - back to the identifier of
   the file record with exactly those fields, -1 if there is none). *)
From GM Require Import Corr.CorrBase Model.SystemGro.
From Coq Require Import String.
Open Scope Z_scope.

(* one returned residue: RRun s n = its atoms are the records s, s+1, .., s+n-1 (compressed form) *)
Inductive ores := RRun (s n : Z) | RRaw (ids : list Z).
Inductive oobs := PResidue (r : ores) | PList (l : list ores) | PStop | PUnit | PErr (e : err).

Fixpoint zlist_eqb (a b : list Z) : bool :=
  match a, b with
  | [], [] => true
  | x :: xs, y :: ys => Z.eqb x y && zlist_eqb xs ys
  | _, _ => false
  end.
Fixpoint zrun (s : Z) (n : nat) : list Z :=
  match n with O => [] | S k => s :: zrun (s + 1) k end.

Definition ores_match (r : residue) (o : ores) : bool :=
  match o with
  | RRun s n => zlist_eqb (map a_pay r) (zrun s (Z.to_nat n)) && (0 <=? n)
  | RRaw ids => zlist_eqb (map a_pay r) ids
  end.
Fixpoint olist_match (l : list residue) (o : list ores) : bool :=
  match l, o with
  | [], [] => true
  | r :: rs, x :: xs => ores_match r x && olist_match rs xs
  | _, _ => false
  end.

(* 0 agree / 1 different value / 3 error on one side only or different error class *)
Definition obs_code (m : obs) (o : oobs) : nat :=
  match m, o with
  | OResidue r, PResidue x => code (ores_match r x)
  | OList l, PList x => code (olist_match l x)
  | OStop, PStop => AGREE
  | OUnit, PUnit => AGREE
  | OErr e, PErr e' => if err_eqb e e' then AGREE else ERRMISMATCH
  | OErr _, _ | _, PErr _ => ERRMISMATCH
  | _, _ => DISAGREE
  end.

Fixpoint hist_code (m : list (obs * nat)) (o : list (oobs * option Z)) : nat :=
  match m, o with
  | [], [] => AGREE
  | (mo, mc) :: ms, (oo, oc) :: os =>
      let c := obs_code mo oo in
      if negb (Nat.eqb c 0) then c
      else match oc with
           | Some z => if Z.eqb z (Z.of_nat mc) then hist_code ms os else DISAGREE
           | None => hist_code ms os            (* cursor not observable on this tree *)
           end
  | _, _ => DISAGREE
  end.

Fixpoint pk_eqb (a : list (key * nat)) (b : list (string * Z * Z)) : bool :=
  match a, b with
  | [], [] => true
  | ((n, l), v) :: xs, ((n', l'), v') :: ys =>
      String.eqb n n' && Z.eqb (Z.of_nat l) l' && Z.eqb (Z.of_nat v) v' && pk_eqb xs ys
  | _, _ => false
  end.
Fixpoint comp_eqb (a : list (string * nat)) (b : list (string * Z)) : bool :=
  match a, b with
  | [], [] => true
  | (n, v) :: xs, (n', v') :: ys => String.eqb n n' && Z.eqb (Z.of_nat v) v' && comp_eqb xs ys
  | _, _ => false
  end.

(* what was read from the object right after construction *)
Record ostatic := mkStatic {
  o_templates : list ores;              (* different_molecules *)
  o_pk : list (string * Z * Z);         (* molecules_resname_len_index, insertion order *)
  o_info : list Z;                      (* list(molecules_info_ordered_all) *)
  o_comp : list (string * Z);           (* composition, insertion order *)
  o_len : Z; o_natoms : Z;
  o_box : list Z; o_title : string;
  o_cur : option Z                      (* _current_atom after construction *)
}.

Definition static_ok (f : grofile) (s : sysgro) (st : reader) (o : ostatic) : bool :=
  olist_match (s_templates s) (o_templates o) &&
  pk_eqb (s_pk s) (o_pk o) &&
  zlist_eqb (map Z.of_nat (info_all s)) (o_info o) &&
  match composition s with Ok c => comp_eqb c (o_comp o) | Err _ => false end &&
  Z.eqb (Z.of_nat (sys_len s)) (o_len o) &&
  Z.eqb (Z.of_nat (n_atoms f)) (o_natoms o) &&
  zlist_eqb (box_matrix f) (o_box o) &&
  String.eqb (comment_line f) (o_title o) &&
  match o_cur o with Some z => Z.eqb z (Z.of_nat (r_cur st)) | None => true end.

(* a whole case: construction, static views, then the access history from the reader state
   construction left behind *)
Definition chk_c12 (f : grofile) (o : res ostatic) (ops : list op) (oh : list (oobs * option Z)) : nat :=
  match init f, o with
  | (st, Ok s), Ok os =>
      if static_ok f s st os then hist_code (run_history f s ops (mkH st [])) oh else DISAGREE
  | (_, Err e), Err e' => if err_eqb e e' then AGREE else ERRMISMATCH
  | _, _ => ERRMISMATCH
  end.
