(* Correspondence for C11: observations of gaddlemaps.components.System against Model/SystemRec.v *)
From Coq Require Import List Arith ZArith NArith Bool.
From GM Require Import Base.Res Model.SystemRec.
Import ListNotations.

Definition AGREE := 0%nat.
Definition DISAGREE := 1%nat.
Definition ERRMISMATCH := 3%nat.

(* exception classes: 1 OSError/IOError, 2 ValueError, 3 IndexError, 4 KeyError, 9 anything else *)
Definition err_code (e : err) : nat :=
  match e with EIO => 1 | EValue => 2 | EIndex => 3 | EKey => 4 | _ => 9 end.

Inductive robs (A : Type) := OOk (a : A) | OErr (c : nat).
Arguments OOk {A} _.
Arguments OErr {A} _.

(* one molecule as observed: (name, index of its first atom in the file (0-based), number of atoms,
   residue numbers of its residues) *)
Definition mobs := (nat * nat * nat * list N)%type.   (* residue numbers in N: they reach 99999 *)

Record obs := mkObs {
  o_tab : list mobs;                        (* the distinct molecules seen; the fields below index it *)
  o_iter : robs (list nat);                 (* list(System) *)
  o_len : robs nat;                         (* len(System) *)
  o_comp : robs (list (nat * nat));         (* System.composition items *)
  o_items : list (Z * robs nat);            (* System[i] *)
  o_slices : list ((option Z * option Z * option Z) * robs (list nat))   (* System[a:b:c] *)
}.

Definition gfile := list (N * nat * list nat).    (* (resid, resname, atom names) per residue *)

Definition residues_of (f : gfile) : list residue :=
  map (fun r => match r with (_, rn, names) => mkRes rn names end) f.

Definition natoms_of (f : gfile) : nat :=
  fold_right (fun r n => match r with (_, _, names) => length names + n end) 0 f.

Definition describe (f : gfile) (st : sys) (i : inst) : res mobs :=
  let '(k, a, b) := i in
  let* mi := nth_res (s_mols st) k in
  let win := firstn (b - a) (skipn a f) in
  Ok (top_name (mi_top mi), natoms_of (firstn a f), natoms_of win,
      map (fun r => match r with (rid, _, _) => rid end) win).

Definition mobs_eqb (x y : mobs) : bool :=
  match x, y with
  | (n1, s1, c1, r1), (n2, s2, c2, r2) =>
    (n1 =? n2) && (s1 =? s2) && (c1 =? c2) && list_eqb N.eqb r1 r2
  end.

Definition cmp_res {A B} (eqb : A -> B -> bool) (m : res A) (o : robs B) : nat :=
  match m, o with
  | Ok a, OOk b => if eqb a b then AGREE else DISAGREE
  | Err e, OErr c => if err_code e =? c then AGREE else ERRMISMATCH
  | _, _ => ERRMISMATCH
  end.

Definition first_bad (l : list nat) : nat :=
  match filter (fun c => negb (c =? 0)) l with [] => AGREE | c :: _ => c end.

Definition cmp_list (f : gfile) (st : sys) (m : res (list inst)) (o : robs (list mobs)) : nat :=
  cmp_res (list_eqb mobs_eqb) (let* l := m in mapM (describe f st) l) o.

(* observations that refer to the table of molecules *)
Definition resolve (tab : list mobs) (o : robs nat) : option (robs mobs) :=
  match o with
  | OErr c => Some (OErr c)
  | OOk i => match nth_error tab i with Some m => Some (OOk m) | None => None end
  end.
Fixpoint resolve_all (tab : list mobs) (l : list nat) : option (list mobs) :=
  match l with
  | [] => Some []
  | i :: t => match nth_error tab i, resolve_all tab t with
              | Some m, Some r => Some (m :: r)
              | _, _ => None
              end
  end.
Definition resolve_list (tab : list mobs) (o : robs (list nat)) : option (robs (list mobs)) :=
  match o with
  | OErr c => Some (OErr c)
  | OOk l => match resolve_all tab l with Some r => Some (OOk r) | None => None end
  end.
Definition cmp_list_t (f : gfile) (st : sys) (tab : list mobs) (m : res (list inst)) (o : robs (list nat)) : nat :=
  match resolve_list tab o with Some o' => cmp_list f st m o' | None => 9 end.

Definition comp_agree (m : list (nat * nat)) (o : list (nat * nat)) : bool :=
  (length m =? length o) &&
  forallb (fun p => existsb (fun q => pair_eqb p q) o) m.

Definition tops_of (tops : list top) (ord : list nat) : res (list top) :=
  mapM (nth_res tops) ord.

Definition chk_views (f : gfile) (v : groview) (st : sys) (o : obs) : nat :=
  first_bad (
    cmp_list_t f st (o_tab o) (sys_iter v st) (o_iter o) ::
    cmp_res Nat.eqb (Ok (sys_len st)) (o_len o) ::
    cmp_res comp_agree (composition st) (o_comp o) ::
    map (fun io => match resolve (o_tab o) (snd io) with
                   | Some o' => cmp_res mobs_eqb (let* x := sys_getitem v st (fst io) in describe f st x) o'
                   | None => 9 end)
        (o_items o) ++
    map (fun so => match fst so with (a, b, c) => cmp_list_t f st (o_tab o) (sys_getslice v st a b c) (snd so) end)
        (o_slices o)).

Definition chk_one (f : gfile) (tops : list top) (ord : list nat) (loads : list nat) (o : obs) : nat :=
  match view_of (residues_of f), tops_of tops ord with
  | Ok v, Ok ts =>
    let '(st, outs) := load_session v (sys_init v) ts in
    let codes := map (fun x => match x with None => 0 | Some e => err_code e end) outs in
    if list_eqb Nat.eqb codes loads then chk_views f v st o else ERRMISMATCH
  | _, _ => 9
  end.

(* one generated file, its candidate topologies, and groups ((loading order, outcome of each
   add_molecule_top call: 0 = accepted, else exception class) list, common observation) *)
Definition chk_sys (f : gfile) (tops : list top) (groups : list (list (list nat * list nat) * obs)) : nat :=
  first_bad (flat_map (fun g => map (fun ol => chk_one f tops (fst ol) (snd ol) (snd g)) (fst g)) groups).

(* System(fgro, *ftops): the constructor either raises the class of the first refused topology or
   gives a system whose molecules are observed *)
Definition chk_ctor (f : gfile) (tops : list top) (ord : list nat) (o : robs (list mobs)) : nat :=
  match view_of (residues_of f), tops_of tops ord with
  | Ok v, Ok ts =>
    match load_all v (sys_init v) ts, o with
    | Ok st, _ => cmp_list f st (sys_iter v st) o      (* built; the iteration itself may raise *)
    | Err e, OErr c => if err_code e =? c then AGREE else ERRMISMATCH
    | Err _, OOk _ => ERRMISMATCH
    end
  | _, _ => 9
  end.
