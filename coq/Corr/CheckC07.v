(* C07 correspondence: model (float instance) of move_mol_atom / find_atom_random_displ against the
   observations made on the implementation.  Observation = Ok value | Err class
   (Err EDiv0 = the implementation returned a non-finite array). *)
From Coq Require Import Bool.
From GM Require Import Corr.CorrBase Model.Transform.
Open Scope bool_scope.
Open Scope float_scope.

Definition fmax (a b : float) : float := if a <? b then b else a.
Definition fmin (a b : float) : float := if a <? b then a else b.
Definition v3_amax (v : V3 float) : float := fmax (abs (vx v)) (fmax (abs (vy v)) (abs (vz v))).
Definition pos_amax (l : list (V3 float)) : float := fold_left (fun m v => fmax m (v3_amax v)) l 0.
Definition tbl_amax (tb : bond_table float) : float :=
  fold_left (fun m o => match o with
                        | Some l => fold_left (fun m' jb => fmax m' (abs (snd jb))) l m
                        | None => m end) tb 0.

Definition v3_within (tol : float) (a b : V3 float) : bool :=
  (abs (vx a - vx b) <=? tol) && (abs (vy a - vy b) <=? tol) && (abs (vz a - vz b) <=? tol).
Fixpoint list_within (tol : float) (a b : list (V3 float)) : bool :=
  match a, b with
  | [], [] => true
  | x :: xs, y :: ys => v3_within tol x y && list_within tol xs ys
  | _, _ => false
  end.

Definition getf (l : list float) (i : nat) : float := nth i l 1.
Definition getv (l : list (V3 float)) (i : nat) : V3 float := nth i l (mk3 0 0 0).

(* conditioning of a run, recomputed from the ghost trace: when (p, c, b) is popped, pos[p] is final
   (= out[p]) and pos[c] is still the input position, so mod = |out[p] - pos_in[c]|.
   amp[c] = amp[p] * max(1, |mod - b| / mod) + 1 bounds the growth of a rounding difference along the
   path from the moved atom to c; the smallest mod relative to the coordinate scale is the margin of
   the division. *)
Definition conditioning (pos out : list (V3 float)) (tr : list (edge float)) (k : nat)
  : float * float :=
  let amp0 := map (fun _ => 1) pos in
  let step (acc : list float * float * float) (e : edge float) :=
    let '(amp, worst, mmin) := acc in
    let '(p, c, b) := e in
    let m := vnorm (vsub (getv out p) (getv pos c)) in
    let a := getf amp p * fmax 1 (abs (m - b) / m) + 1 in
    (set_nth amp c a, fmax worst a, fmin mmin m) in
  let '(_, worst, mmin) := fold_left step tr (amp0, 1, infinity) in
  (worst, mmin).

Definition chk_move (pos : list (V3 float)) (tb : bond_table float) (k : nat) (d : V3 float)
  (obs : res (list (V3 float))) : nat :=
  match move_mol_atom_tr pos tb k d (length pos), obs with
  | Ok (out, _, tr), Ok o =>
      let scale := fmax (fmax (pos_amax pos) (v3_amax d)) (tbl_amax tb) in
      let '(worst, mmin) := conditioning pos out tr k in
      if (mmin <? 0x1p-13 * scale) || (0x1p+18 <? worst) then INDET else
      code (list_within (0x1p-30 * scale) out o)
  | Err e, Err e' => if err_eqb e e' then AGREE else ERRMISMATCH
  | _, _ => ERRMISMATCH
  end.

(* find_atom_random_displ: obs_sigma = the scale argument the code passed to np.random.normal
   (None when it was not reached), obs = the returned vector *)
Definition chk_displ (pos : list (V3 float)) (tb : bond_table float) (k : nat) (sigma_scale : float)
  (u : V3 float) (neg : bool) (g : float) (obs_sigma : option float) (obs : res (V3 float)) : nat :=
  let sig_ok :=
    match displ_sigma tb k sigma_scale, obs_sigma with
    | Ok s, Some s' => f_close 0x1p-40 s s'
    | Ok _, None => match displ_direction pos tb k u neg with Ok _ => false | Err _ => true end
    | Err _, None => true
    | Err _, Some _ => false
    end in
  if negb sig_ok then DISAGREE else
  match find_atom_random_displ pos tb k sigma_scale u neg g, obs with
  | Ok v, Ok o =>
      match displ_direction pos tb k u neg with
      | Ok dir =>
          let scale := pos_amax pos in
          (* |cross| relative to the squared coordinate scale (times |u| <= sqrt 3) *)
          if vnorm dir <? 0x1p-20 * scale * fmin 1 scale then INDET else
          code (v3_within (0x1p-30 * abs g) v o)
      | Err _ => DISAGREE
      end
  | Err e, Err e' => if err_eqb e e' then AGREE else ERRMISMATCH
  | _, _ => ERRMISMATCH
  end.

(* move_mol_atom with displ=None and recorded draws: move_mol_atom_default of the model, evaluated through chk_move
   (same comparison and conditioning rule) on the displacement the model draws *)
Definition chk_move_random (pos : list (V3 float)) (tb : bond_table float) (k : nat) (sigma_scale : float)
  (u : V3 float) (neg : bool) (g : float) (obs : res (list (V3 float))) : nat :=
  match find_atom_random_displ pos tb k sigma_scale u neg g with
  | Ok d =>
      match move_mol_atom_default pos tb k sigma_scale u neg g, move_mol_atom pos tb k d with
      | Ok a, Ok b => if list_within 0 a b then chk_move pos tb k d obs else DISAGREE
      | Err e, Err e' => if err_eqb e e' then chk_move pos tb k d obs else DISAGREE
      | _, _ => DISAGREE
      end
  | Err e => match obs with Err e' => if err_eqb e e' then AGREE else ERRMISMATCH | Ok _ => ERRMISMATCH end
  end.
