(* Correspondence checks for C10: model (Model/Restraints.v) vs observations of the implementation.
   Positions are atom tags (nat): tag k = "position of atom k of the start molecule at call time",
   100 + k for the end molecule (999 = no unique match); the harness recovers the tags by exact comparison of the arrays
   received by the wrapped optimiser with the molecules' positions at that moment. *)
From Coq Require Export String ZArith Bool Arith List.   (* List last: `length` must stay List.length for the case files *)
From GM Require Export Base.Res Model.Restraints.
Export ListNotations.

Definition AGREE := 0%nat.
Definition DISAGREE := 1%nat.
Definition ERRMISMATCH := 3%nat.
Definition code (b : bool) : nat := if b then AGREE else DISAGREE.

Definition zz_eqb (a b : Z * Z) : bool := (Z.eqb (fst a) (fst b) && Z.eqb (snd a) (snd b))%bool.
Definition nn_eqb (a b : nat * nat) : bool := (Nat.eqb (fst a) (fst b) && Nat.eqb (snd a) (snd b))%bool.
Definition opt_eqb {A} (eqb : A -> A -> bool) (a b : option A) : bool :=
  match a, b with
  | Some x, Some y => eqb x y
  | None, None => true
  | _, _ => false
  end.

(* ---- Alignment.align_molecules -> arguments of minimize_molecules *)
Inductive obs_align :=
| OAErr (e : err)
| OANoCall
| OACall (fixed_is_start : bool) (fixed mobile : list nat) (restr : list (Z * Z)) (deform : list Z).

Definition cmp_outcome (m : res (outcome nat)) (obs : obs_align) : nat :=
  match m, obs with
  | Err e, OAErr e' => code (err_eqb e e')
  | Ok NoCall, OANoCall => AGREE
  | Ok (Call c), OACall fs f mo r d =>
      code (Bool.eqb (c_fixed_is_start c) fs && list_eqb Nat.eqb (c_fixed_pos c) f &&
            list_eqb Nat.eqb (c_mobile_pos c) mo && list_eqb zz_eqb (c_restr c) r &&
            list_eqb Z.eqb (c_deform c) d)
  | Err _, _ | _, OAErr _ => ERRMISMATCH
  | _, _ => DISAGREE
  end.

Definition chk_align (start end_ : molecule nat) (restr : option (list (Z * Z)))
  (deform : option (list Z)) (ign autog : bool) (obs : obs_align) : nat :=
  cmp_outcome (align_args start end_ restr deform ign autog) obs.

(* ---- a history of align_molecules calls sharing ONE restraint list object: per call the options,
   what the optimiser received, and the caller's list as it is after the call *)
Definition hist_entry : Type := option (list Z) * bool * bool * obs_align * list (Z * Z).

Fixpoint cmp_history (m : list (res (outcome nat) * list (Z * Z))) (o : list hist_entry) : nat :=
  match m, o with
  | [], [] => AGREE
  | (mo, ml) :: mt, (_, _, _, ob, ol) :: ot =>
      match cmp_outcome mo ob with
      | 0 => if list_eqb zz_eqb ml ol then cmp_history mt ot else DISAGREE
      | c => c
      end
  | _, _ => DISAGREE
  end.

Definition chk_history (start end_ : molecule nat) (restr : list (Z * Z)) (entries : list hist_entry) : nat :=
  cmp_history (align_history start end_ restr
                 (map (fun e : hist_entry => match e with (d, i, a, _, _) => (d, i, a) end) entries))
              entries.

(* ---- remove_hydrogens called directly (kept atom tags, new restraints) *)
Definition chk_remove (atoms : list (atom nat)) (restr : list (Z * Z))
  (obs : res (list nat * list (Z * Z))) : nat :=
  match remove_hydrogens atoms restr, obs with
  | Ok (p, r), Ok (p', r') => code (list_eqb Nat.eqb p p' && list_eqb zz_eqb r r')
  | Err e, Err e' => code (err_eqb e e')
  | _, _ => ERRMISMATCH
  end.

(* ---- AtomGro.element *)
Definition chk_element (name : string) (obs : res string) : nat :=
  match element name, obs with
  | Ok a, Ok b => code (String.eqb a b)
  | Err e, Err e' => code (err_eqb e e')
  | _, _ => ERRMISMATCH
  end.

(* ---- _split_list(list(range(n)), parts) *)
Definition chk_split (n parts : nat) (obs : list (list nat)) : nat :=
  code (list_eqb (list_eqb Nat.eqb) (split_list (seq 0 n) parts) obs).

(* ---- guess_residue_restrains *)
Definition chk_residue (n1 n2 o1 o2 : nat) (obs : list (nat * nat)) : nat :=
  code (list_eqb nn_eqb (guess_residue_restrains n1 n2 o1 o2) obs).

(* ---- guess_protein_restrains *)
Definition chk_protein (m1 m2 : molecule nat) (obs : res (list (nat * nat))) : nat :=
  match guess_protein_restrains m1 m2, obs with
  | Ok a, Ok b => code (list_eqb nn_eqb a b)
  | Err e, Err e' => code (err_eqb e e')
  | _, _ => ERRMISMATCH
  end.

(* ---- Manager.align_molecules: trace of Alignment.align_molecules calls + error class *)
Definition mcall_eqb (a b : mcall) : bool :=
  match a, b with
  | (n, r, d, i), (n', r', d', i') =>
      String.eqb n n' && opt_eqb (list_eqb zz_eqb) r r' && opt_eqb (list_eqb Z.eqb) d d' && Bool.eqb i i'
  end.

Definition chk_manager (mc : list species)
  (r : option (list (string * rvalue))) (d : option (list (string * dvalue)))
  (i : option (list (string * ivalue))) (obs_trace : list mcall) (obs_err : option err) : nat :=
  let m := manager_align mc r d i (fun _ => Ok tt) in
  match snd m, obs_err with
  | Ok _, None => code (list_eqb mcall_eqb (fst m) obs_trace)
  | Err e, Some e' => code (err_eqb e e' && list_eqb mcall_eqb (fst m) obs_trace)
  | _, _ => ERRMISMATCH
  end.

(* ---- Manager.align_molecules(parsed, ..., parse_restrictions=False): the restrictions dictionary in
   the caller's key order *)
Definition chk_manager_np (mc : list species)
  (r : option (list (string * option (list (Z * Z))))) (d : option (list (string * dvalue)))
  (i : option (list (string * ivalue))) (obs_trace : list mcall) (obs_err : option err) : nat :=
  let m := manager_align_noparse mc r d i (fun _ => Ok tt) in
  match snd m, obs_err with
  | Ok _, None => code (list_eqb mcall_eqb (fst m) obs_trace)
  | Err e, Some e' => code (err_eqb e e' && list_eqb mcall_eqb (fst m) obs_trace)
  | _, _ => ERRMISMATCH
  end.
