(* Correspondence check shared by C01, C02 and C03: the float instance of Model/ExchangeMap.v
   against ExchangeMap(ref, tgt, s)(ref').atoms_positions and the `equivalences` dict. *)
From GM Require Import Corr.CorrBase Model.Aux Model.ExchangeMap.
Open Scope bool_scope.
Open Scope float_scope.

Inductive em_obs :=
| ObsOk (eq : list nat) (out : list (V3 float))   (* anchor of every target atom; result positions *)
| ObsNonFinite                                    (* the result contains NaN/inf *)
| ObsErr (e : err).                               (* exception class (IndexError = EIndex) *)

Fixpoint nat_list_eqb (a b : list nat) : bool :=
  match a, b with
  | [], [] => true
  | x :: xs, y :: ys => Nat.eqb x y && nat_list_eqb xs ys
  | _, _ => false
  end.

Definition fmin (a b : float) : float := if (b <? a) then b else a.

(* nearest-anchor decision of one target atom: indeterminate when the second smallest distance
   is within 2^-30 (relative) of the smallest *)
Definition closest_indet (ref : list (V3 float)) (keys : list nat) (p : V3 float) : bool :=
  match tagged_distances ref keys p with
  | Ok ds =>
      match map fst ds with
      | [] => false
      | d :: rest =>
          let best := fold_left fmin rest d in
          Nat.ltb 1 (length (filter (fun x => (x - best <=? 0x1p-30 * x)) (d :: rest)))
      end
  | Err _ => false
  end.

Definition near (x target rel : float) : bool := (abs (x - target) <=? rel * target).

(* collinearity decision of one base: indeterminate for a margin in [6e-8, 1.5e-5] around the
   threshold 1e-6, or when the fallback's 0.5 test is within 2^-30 *)
Definition triple_indet (t : res (triple float)) : bool :=
  match t with
  | Ok (p0, p1, p2) =>
      match calcule_base_margin p0 p1 p2, calcule_base_br p0 p1 p2 with
      | Ok mg, Ok (F, br) =>
          (andb (0x1p-24 <? mg) (mg <? 0x1p-16)) ||
          match br with
          | CbRegular => false
          | _ => near (vx (f1 F) * vx (f1 F) + vy (f1 F) * vy (f1 F)) 0.5 0x1p-30
          end
      | _, _ => false
      end
  | Err _ => false
  end.

Definition err_code (e : err) (o : em_obs) : nat :=
  match e, o with
  | EDiv0, ObsNonFinite => AGREE
  | _, ObsErr e' => code (err_eqb e e')
  | _, _ => ERRMISMATCH
  end.

(* exact = true: dyadic stream, binary64 distances are exact so ties are compared as they are *)
Definition chk_em (exact : bool) (g : graph) (ref tgt : list (V3 float)) (s : float)
    (draws_b : list (V3 float)) (ref' : list (V3 float)) (draws_a : list (V3 float))
    (o : em_obs) : nat :=
  match refpoints g ref draws_b with
  | Err e => err_code e o
  | Ok pts =>
    if andb (negb exact) (existsb (closest_indet ref (map fst pts)) tgt) then INDET else
    match build g ref tgt s draws_b with
    | Err e => err_code e o
    | Ok m =>
      match refpoints g ref' draws_a with
      | Err e => err_code e o
      | Ok pts' =>
        let used k := existsb (Nat.eqb k) (em_equiv m) in
        if existsb (fun kt => used (fst kt) && triple_indet (snd kt)) (pts ++ pts') then INDET else
        match apply m g ref' draws_a with
        | Err e => err_code e o
        | Ok out =>
            match o with
            | ObsOk eq oout => code (nat_list_eqb (em_equiv m) eq && list_close 0x1p-30 out oout)
            | _ => ERRMISMATCH
            end
        end
      end
    end
  end.
