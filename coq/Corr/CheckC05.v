(* Correspondence C05: a session on one Manager (add_end_molecule / calculate_exchange_maps /
   extrapolate_system) executed by the model
       Model/Manager.v (effect trace)  o  Model/ExchangeMap.v (binary64 instance)  o  Model/GroFile.v (writer)
   against what the implementation did: exception classes, whether the output path exists, the
   written file byte for byte, and its atom lines as re-read by the harness's own fixed-column reader.

   The only step not executed in Coq is '{:8.3f}'.format(x) (Python's float formatting, trusted as in
   C13): the model's binary64 coordinates are compared with the written decimals to half a unit of
   the last decimal, and the written decimals are then fed to the writer model, whose bytes must be
   the file. *)
From Coq Require Export List Ascii NArith ZArith Bool Arith PrimFloat.
From Coq Require String.
From GM Require Export Base.Res Base.StrGro Base.Scalar Base.Vec Inst.FInst Model.Aux Model.ExchangeMap
  Model.GroCodec Model.GroFile Model.Manager.
From GM Require Import Corr.CheckC01.
Export ListNotations.
Open Scope bool_scope.
Close Scope float_scope.
Open Scope nat_scope.

Definition AGREE := 0%nat.
Definition DISAGREE := 1%nat.
Definition INDET := 2%nat.
Definition ERRMISMATCH := 3%nat.
Definition code (b : bool) : nat := if b then AGREE else DISAGREE.

(* ---------------------------------------------------------------- short constructors *)
Definition D (neg : bool) (m : N) : dec := mkdec neg m.
Definition Bx (neg : bool) (m : N) (nz : bool) : bentry := mkbentry (mkdec neg m) nz.
Definition TA (rn an : String.string) (v : option (V3 float)) : tatom float := mkTatom (bs rn) (bs an) v.
Definition EN (r : list (list (tatom float))) (p : list (V3 float)) : endmol float := mkEnd r p.
Definition MI (s : nat) (rids : list Z) (p : list (V3 float)) : minst (ibody float) :=
  mkInst s rids (mkBody p []).

(* an atom line of the output as the harness's fixed-column reader sees it *)
Record oline := OL {
  o_resid : Z; o_resname : String.string; o_name : String.string; o_anum : Z;
  o_pos : dec3; o_vel : option dec3 }.

Inductive xobs :=
| XNoFile (k : nat)                                              (* exception class k; the path does not exist *)
| XFile (k : nat) (ols : list oline) (lines : list String.string) (tail : String.string).
                                                                 (* k = 0: returned normally *)

Inductive kop :=
| KAddEnd (i : nat) (e : endmol float) (k : nat)
| KRemoveEnd (i : nat) (k : nat)
| KCalc (s : float) (draws : list (V3 float)) (k : nat)
| KExtrap (mols : list (minst (ibody float))) (draws : list (V3 float)) (o : xobs).

(* exception classes: 0 none, 1 OSError, 2 IndexError, 3 ValueError, 5 SystemError, 6 TypeError, 7 KeyError *)
Definition res_match (r : res unit) (k : nat) : bool :=
  match r, k with
  | Ok _, 0 | Err EIO, 1 | Err EIndex, 2 | Err EValue, 3 | Err ESystem, 5 | Err EType, 6 | Err EKey, 7 => true
  | _, _ => false
  end.

Fixpoint bytes_eqb (a b : bytes) : bool :=
  match a, b with
  | [], [] => true
  | x :: xs, y :: ys => Ascii.eqb x y && bytes_eqb xs ys
  | _, _ => false
  end.

(* ---------------------------------------------------------------- distribution of the recorded draws *)
(* ExchangeMap._calculate_refsystems calls np.random.rand 3 - n times for a reference of n <= 2 atoms *)
Definition ndraws (n : nat) : nat := match n with 1 => 2 | 2 => 1 | _ => 0 end.

Definition kstart := (graph * list (V3 float))%type.
Definition ksp := spstate (endmol float) (emobj float).

Definition nref (starts : list kstart) (i : nat) : nat :=
  match nth_error starts i with Some gs => length (snd gs) | None => 0 end.

(* calculate_exchange_maps: complete species in order *)
Fixpoint calc_draws (starts : list kstart) (i : nat) (sps : list ksp) (ds : list (V3 float))
  : list (list (V3 float)) :=
  match sps with
  | [] => []
  | st :: rest =>
      let k := if is_complete st then ndraws (nref starts i) else 0 in
      firstn k ds :: calc_draws starts (S i) rest (skipn k ds)
  end.

(* extrapolate_system: the molecules of complete species in order *)
Fixpoint inst_draws (starts : list kstart) (sps : list ksp) (mols : list (minst (ibody float)))
         (ds : list (V3 float)) : list (minst (ibody float)) :=
  match mols with
  | [] => []
  | m :: rest =>
      let k := match nth_error sps (in_species m) with
               | Some st => if is_complete st then ndraws (nref starts (in_species m)) else 0
               | None => 0 end in
      mkInst (in_species m) (in_resids m) (mkBody (b_pos (in_body m)) (firstn k ds))
        :: inst_draws starts sps rest (skipn k ds)
  end.

(* ---------------------------------------------------------------- indeterminate decisions *)
(* a map construction whose nearest-anchor or collinearity decisions are too close to call *)
Definition build_indet (gs : kstart) (e : endmol float) (draws : list (V3 float)) : bool :=
  match refpoints (fst gs) (snd gs) draws with
  | Ok pts =>
      existsb (closest_indet (snd gs) (map fst pts)) (e_pos e) ||
      existsb (fun kt => triple_indet (snd kt)) pts
  | Err _ => false
  end.
Definition apply_indet (g : graph) (b : ibody float) : bool :=
  match refpoints g (b_pos b) (b_draws b) with
  | Ok pts => existsb (fun kt => triple_indet (snd kt)) pts
  | Err _ => false
  end.

Fixpoint calc_indet (starts : list kstart) (i : nat) (sps : list ksp) (dl : list (list (V3 float))) : bool :=
  match sps with
  | [] => false
  | st :: rest =>
      (match is_complete st, sp_end st, nth_error starts i with
       | true, Some e, Some gs => build_indet gs e (match nth_error dl i with Some d => d | None => [] end)
       | _, _, _ => false
       end) || calc_indet starts (S i) rest dl
  end.

Definition extrap_indet (sps : list ksp) (mols : list (minst (ibody float))) : bool :=
  existsb (fun m => match nth_error sps (in_species m) with
                    | Some st => match is_complete st, sp_map st with
                                 | true, Some mo => apply_indet (eo_graph mo) (in_body m)
                                 | _, _ => false end
                    | None => false end) mols.

(* ---------------------------------------------------------------- the written lines *)
Definition kline := line (cpay float).

Fixpoint lines_of (t : list (effect unit (list bentry) (cpay float))) : list kline :=
  match t with
  | [] => []
  | WriteLine r :: rest => r :: lines_of rest
  | _ :: rest => lines_of rest
  end.

Definition pow10f (d : nat) : float := f_ofZ (Z.of_N (pow10 d)).

(* |x * 10^d - (+-)m| <= 0.5 (+ rounding of the comparison itself) *)
Definition dec_close (d : nat) (x : float) (v : dec) : bool :=
  let m := f_ofZ (Z.of_N (dmant v)) in
  let sm := if dneg v then (- m)%float else m in
  (abs (x * pow10f d - sm) <=? 0x1.00002p-1 + 0x1p-30 * m)%float.

Definition v3_dec_close (d : nat) (p : V3 float) (v : dec3) : bool :=
  let '(a, b, c) := v in dec_close d (vx p) a && dec_close d (vy p) b && dec_close d (vz p) c.

Definition POS_D : nat := 3.    (* GroFile.DEFAULT_POSTION_FORMAT = (8, 3): checked by the writer's bytes *)

Definition line_match (l : kline) (o : oline) : bool :=
  (l_resid l mod 100000 =? o_resid o)%Z && (l_anum l mod 100000 =? o_anum o)%Z &&
  bytes_eqb (l_resname l) (bs (o_resname o)) && bytes_eqb (l_name l) (bs (o_name o)) &&
  v3_dec_close POS_D (fst (l_coords l)) (o_pos o) &&
  match snd (l_coords l), o_vel o with
  | None, None => true
  | Some v, Some ov => v3_dec_close (S POS_D) v ov
  | _, _ => false
  end.

Fixpoint lines_match (ls : list kline) (os : list oline) : bool :=
  match ls, os with
  | [], [] => true
  | l :: lr, o :: orr => line_match l o && lines_match lr orr
  | _, _ => false
  end.

Definition zero3 : dec3 := (mkdec false 0, mkdec false 0, mkdec false 0).

(* the records handed to the writer: labels and numbers of the model, decimals as written *)
Fixpoint recs_of (ls : list kline) (os : list oline) : list grec :=
  match ls with
  | [] => []
  | l :: lr =>
      let '(p, v, orr) := match os with
                          | o :: orr => (o_pos o, o_vel o, orr)
                          | [] => (zero3, None, [])
                          end in
      mkgrec (l_resid l) (l_resname l) (l_name l) (l_anum l) p
             (match snd (l_coords l) with
              | Some _ => Some (match v with Some x => x | None => zero3 end)
              | None => None end)
        :: recs_of lr orr
  end.

(* the first writeline that raises: number of records written before it *)
Fixpoint first_fail (c : wconf) (recs : list grec) (fuel j : nat) : nat :=
  match fuel with
  | O => j
  | S f => match write_gro c (firstn (S j) recs) with
           | Ok _ => first_fail c recs f (S j)
           | Err _ => j
           end
  end.

Definition file_bytes (lines : list String.string) (tail : String.string) : bytes :=
  flat_map (fun l => bs l ++ [NL]) lines ++ bs tail.

Definition chk_extrap (title : bytes) (box : list bentry) (tr : list (effect unit (list bentry) (cpay float)))
           (r : res unit) (o : xobs) : nat :=
  match tr, o with
  | [], XNoFile k => code (res_match r k)
  | [], XFile _ _ _ _ => DISAGREE
  | _ :: _, XNoFile _ => DISAGREE
  | _ :: _, XFile k ols lines tail =>
      let ls := lines_of tr in
      let conf := mkwconf (Some title) None None (BoxMat box) in
      let recs := recs_of ls ols in
      let file := file_bytes lines tail in
      match write_gro conf recs with
      | Ok f => code (lines_match ls ols && bytes_eqb f file && res_match r k)
      | Err e =>
          (* the writer raised inside the loop: `with` closes the file, the writer's exception propagates *)
          let j := first_fail conf recs (length recs) 0 in
          match write_gro conf (firstn j recs) with
          | Ok f => code (lines_match (firstn j ls) ols && bytes_eqb f file && res_match (Err e) k)
          | Err _ => ERRMISMATCH
          end
      end
  end.

(* ---------------------------------------------------------------- the session *)
Definition k_eeq := em_eeq (T := float) bytes_eqb.

Fixpoint krun (starts : list kstart) (title : bytes) (box : list bentry) (sps : list ksp) (ops : list kop)
  : nat :=
  match ops with
  | [] => AGREE
  | KAddEnd i e k :: rest =>
      match add_end k_eeq sps i e with
      | Ok sps' => if Nat.eqb k 0 then krun starts title box sps' rest else ERRMISMATCH
      | Err er => if res_match (Err er) k then krun starts title box sps rest else ERRMISMATCH
      end
  | KRemoveEnd i k :: rest =>
      match remove_end sps i with
      | Ok sps' => if Nat.eqb k 0 then krun starts title box sps' rest else ERRMISMATCH
      | Err er => if res_match (Err er) k then krun starts title box sps rest else ERRMISMATCH
      end
  | KCalc s ds k :: rest =>
      let dl := calc_draws starts 0 sps ds in
      if calc_indet starts 0 sps dl then INDET else
      let (sps', r) := calc (em_build starts) sps (s, dl) in
      if res_match r k then krun starts title box sps' rest else ERRMISMATCH
  | KExtrap mols ds o :: rest =>
      let mols' := inst_draws starts sps mols ds in
      if extrap_indet sps mols' then INDET else
      let (tr, r) := extrapolate (F := unit) em_mapmol tt title box sps mols' in
      match chk_extrap title box tr r o with
      | O => krun starts title box sps rest
      | c => c
      end
  end.

Definition chk_c05 (starts : list kstart) (title : String.string) (box : list bentry) (ops : list kop) : nat :=
  krun starts (bs title ++ [NL]) box (init (length starts)) ops.
