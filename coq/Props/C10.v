(* C10 - Restraint pairs always designate the atoms the user (or the guesser) meant.
   Statements only; proofs are in Proofs/RestraintsFilter.v, RestraintsSplit.v, RestraintsRouting.v.
   Pure list / integer / string logic: every theorem is closed under the global context.

   Vocabulary (defined next to the lemmas, independent of the model's own code paths):
     hyd a            the atom's element (first run of letters of its name) is exactly "H"
     keptb a          negb (hyd a)
     rank atoms i     number of non-hydrogen atoms before position i
     kept_at atoms i  Some (rank atoms i) if i designates a non-hydrogen atom, None otherwise
     route s e ign p  what the pair p = (i, j) (i in start, j in end) becomes on its way to the optimiser
     lex_lt           strict lexicographic order on pairs
     res_index sz i   sequence position of the residue that contains atom i
     restr_spec / deform_spec / ign_spec   what the alignment of a species must receive. *)
From Coq Require Import String Bool Arith ZArith Sorted List.
From GM Require Import Base.Res Model.Restraints.
From GM Require Import Proofs.RestraintsFilter Proofs.RestraintsSplit Proofs.RestraintsRouting.
Import ListNotations.
From GM Require Import Gen.IntKernelsGen Proofs.IntKernelsGenEq.

(* The tie by translation: _split_list and guess_residue_restrains as generated at this run from the CURRENT
   source text of gaddlemaps/_alignment.py (Gen/IntKernelsGen.v, harness/pytrans_int.py) are the model's
   definitions (residues enter only through their lengths, as in the source). *)
Theorem C10_model_is_source_split : forall (l : list nat) (parts : nat),
  split_list_gen l parts = split_list l parts.
Proof. exact split_list_gen_eq. Qed.
Print Assumptions C10_model_is_source_split.

Theorem C10_model_is_source_residue_guess : forall n1 n2 o1 o2 : nat,
  guess_residue_restrains_gen n1 n2 o1 o2 = guess_residue_restrains n1 n2 o1 o2.
Proof. exact guess_residue_restrains_gen_eq. Qed.
Print Assumptions C10_model_is_source_residue_guess.


(* ---- the restraints that reach the optimiser designate the intended atoms, in both role
   assignments, hydrogens filtered or not; a pair is dropped iff filtering is on and its fixed-side
   atom is a hydrogen; the received list is the given (or guessed) list r1 routed pair by pair, in order *)
Theorem C10_designates :
  forall (P : Type) (start end_ : molecule P) (restr : option (list (Z * Z))) (deform : option (list Z))
         (ign autog : bool) (r1 : list (Z * Z)) (c : call P),
  effective_restrictions start end_ restr autog = Ok r1 ->
  align_args start end_ restr deform ign autog = Ok (Call c) ->
  let swap := m_len start <? m_len end_ in
  c_fixed_is_start c = negb swap /\
  c_mobile_pos c = map a_pos (m_atoms (if swap then start else end_)) /\
  c_restr c = filter_map (route start end_ ign) r1 /\
  forall (i j : Z) (a_s a_e : atom P),
    (0 <= i)%Z -> (0 <= j)%Z ->
    nth_error (m_atoms start) (Z.to_nat i) = Some a_s ->
    nth_error (m_atoms end_) (Z.to_nat j) = Some a_e ->
    let a_fixed := if swap then a_e else a_s in
    let a_mobile := if swap then a_s else a_e in
    (route start end_ ign (i, j) = None <-> ign = true /\ hyd a_fixed = true) /\
    forall i' j', route start end_ ign (i, j) = Some (i', j') ->
      (0 <= i')%Z /\ (0 <= j')%Z /\
      nth_error (c_fixed_pos c) (Z.to_nat i') = Some (a_pos a_fixed) /\
      nth_error (c_mobile_pos c) (Z.to_nat j') = Some (a_pos a_mobile).
Proof. exact (@designates). Qed.
Print Assumptions C10_designates.

(* everything the optimiser receives (positions, deformation types, restraints) *)
Theorem C10_call_arguments :
  forall (P : Type) (start end_ : molecule P) (restr : option (list (Z * Z))) (deform : option (list Z))
         (ign autog : bool) (r1 : list (Z * Z)) (c : call P),
  effective_restrictions start end_ restr autog = Ok r1 ->
  align_args start end_ restr deform ign autog = Ok (Call c) ->
  let swap := m_len start <? m_len end_ in
  let fixed := if swap then end_ else start in
  let mobile := if swap then start else end_ in
  c_fixed_is_start c = negb swap /\
  c_fixed_pos c = (if ign then map a_pos (filter keptb (m_atoms fixed)) else map a_pos (m_atoms fixed)) /\
  c_mobile_pos c = map a_pos (m_atoms mobile) /\
  c_deform c = default_deformations start end_ deform /\
  c_restr c = filter_map (route start end_ ign) r1.
Proof. exact (@align_args_call). Qed.
Print Assumptions C10_call_arguments.

(* no pair is invented: every received pair is the image of a given pair *)
Theorem C10_no_invented_pair :
  forall (P : Type) (start end_ : molecule P) (ign : bool) (r1 : list (Z * Z)) (q : Z * Z),
  In q (filter_map (route start end_ ign) r1) <-> exists p, In p r1 /\ route start end_ ign p = Some q.
Proof. exact (@route_preimage). Qed.
Print Assumptions C10_no_invented_pair.

(* ---- remove_hydrogens: positions of the non-hydrogen atoms in order; a pair is kept iff its first
   component designates a non-hydrogen atom, renumbered to that atom's new index, second component
   untouched, order preserved *)
Theorem C10_filter :
  forall (P : Type) (atoms : list (atom P)) (restr : list (Z * Z)) (ps : list P) (rs : list (Z * Z)),
  remove_hydrogens atoms restr = Ok (ps, rs) ->
  ps = map a_pos (filter keptb atoms) /\
  rs = filter_map (fun p : Z * Z =>
                     match kept_at atoms (fst p) with
                     | Some k => Some (Z.of_nat k, snd p)
                     | None => None
                     end) restr.
Proof. exact (@remove_hydrogens_spec). Qed.
Print Assumptions C10_filter.

Theorem C10_filter_index :
  forall (P : Type) (atoms : list (atom P)) (i : Z) (k : nat),
  kept_at atoms i = Some k ->
  (0 <= i)%Z /\ exists a, nth_error atoms (Z.to_nat i) = Some a /\ hyd a = false /\
                          nth_error (map a_pos (filter keptb atoms)) k = Some (a_pos a).
Proof. exact (@kept_at_designates). Qed.
Print Assumptions C10_filter_index.

Theorem C10_filter_dropped :
  forall (P : Type) (atoms : list (atom P)) (i : Z) (a : atom P),
  (0 <= i)%Z -> nth_error atoms (Z.to_nat i) = Some a -> (kept_at atoms i = None <-> hyd a = true).
Proof. exact (@kept_at_none). Qed.
Print Assumptions C10_filter_dropped.

(* it fails (IOError) only when some atom name contains no letter *)
Theorem C10_filter_defined :
  forall (P : Type) (atoms : list (atom P)) (restr : list (Z * Z)),
  Forall (fun a => exists e, element (a_name a) = Ok e) atoms ->
  exists r, remove_hydrogens atoms restr = Ok r.
Proof. exact (@remove_hydrogens_total). Qed.
Print Assumptions C10_filter_defined.

(* ---- _split_list: for every list and every 1 <= parts <= length, the parts are contiguous slices
   with the stated bounds, each NON-EMPTY, and their concatenation is the input *)
Theorem split_list_partition :
  forall (A : Type) (l : list A) (parts : nat),
  1 <= parts <= length l ->
  concat (split_list l parts) = l /\
  length (split_list l parts) = parts /\
  (forall g, In g (split_list l parts) -> g <> []) /\
  (forall k, k < parts ->
     nth_error (split_list l parts) k =
       Some (slice l (k * length l / parts) ((k + 1) * length l / parts)) /\
     k * length l / parts < (k + 1) * length l / parts <= length l).
Proof. exact (@split_list_partition_lem). Qed.
Print Assumptions split_list_partition.

(* ---- guess_residue_restrains: every atom of both residues has a partner, indices in range,
   strictly increasing in lexicographic order, and never crossing (atom order preserved) *)
Theorem C10_residue_guess :
  forall n1 n2 o1 o2 : nat, 1 <= n1 -> 1 <= n2 ->
  let r := guess_residue_restrains n1 n2 o1 o2 in
  (forall i, i < n1 -> exists j, j < n2 /\ In (i + o1, j + o2) r) /\
  (forall j, j < n2 -> exists i, i < n1 /\ In (i + o1, j + o2) r) /\
  (forall a c, In (a, c) r -> o1 <= a < o1 + n1 /\ o2 <= c < o2 + n2) /\
  StronglySorted lex_lt r /\
  (forall p q, In p r -> In q r -> fst p < fst q -> snd p <= snd q).
Proof. exact guess_residue_spec. Qed.
Print Assumptions C10_residue_guess.

(* ---- guess_protein_restrains: same number of residues is necessary; pairs only within residues at
   the same sequence position; in range; every atom of both molecules has a partner; order preserved *)
Theorem C10_protein_guess :
  forall (P : Type) (m1 m2 : molecule P) (r : list (nat * nat)),
  guess_protein_restrains m1 m2 = Ok r ->
  Forall (fun n => 1 <= n) (m_sizes m1) -> Forall (fun n => 1 <= n) (m_sizes m2) ->
  length (m_res m1) = length (m_res m2) /\
  (forall a c, In (a, c) r ->
     a < m_len m1 /\ c < m_len m2 /\
     exists k, res_index (m_sizes m1) a = Some k /\ res_index (m_sizes m2) c = Some k) /\
  (forall a, a < m_len m1 -> exists c, In (a, c) r) /\
  (forall c, c < m_len m2 -> exists a, In (a, c) r) /\
  StronglySorted lex_lt r /\
  (forall p q, In p r -> In q r -> fst p < fst q -> snd p <= snd q).
Proof. exact (@guess_protein_spec). Qed.
Print Assumptions C10_protein_guess.

Theorem C10_protein_guess_counts :
  forall (P : Type) (m1 m2 : molecule P),
  length (m_res m1) <> length (m_res m2) -> guess_protein_restrains m1 m2 = Err EIO.
Proof. exact (@guess_protein_counts). Qed.
Print Assumptions C10_protein_guess_counts.

(* ---- Manager.align_molecules: when the options are accepted, the alignments are called for the
   species with both molecules, in dictionary order, each with exactly the restraints / deformation
   types / hydrogen flag given for its name (defaults None / None / true); every key of every
   dictionary names such a species; the effect trace is always a prefix of that call list *)
Theorem C10_routing :
  forall (mc : list species) (r : option (list (string * option (list rentry))))
         (d : option (list (string * dvalue))) (i : option (list (string * ivalue))) (calls : list mcall),
  parse_options mc r d i = Ok calls ->
  map call_name calls = map fst (complete mc) /\
  (forall n ns ne, In (n, (ns, ne)) (complete mc) ->
     exists rv dv iv, In (n, rv, dv, iv) calls /\
       restr_spec r n ns ne rv /\ deform_spec d n dv /\ ign_spec i n iv) /\
  (forall result, (forall c, In c calls -> result c = Ok tt) ->
     manager_align mc r d i result = (calls, Ok tt)) /\
  (forall result, exists k, fst (manager_align mc r d i result) = firstn k calls) /\
  (forall dd, r = Some dd -> forall k, In k (map fst dd) -> In k (map fst (complete mc))) /\
  (forall dd, d = Some dd -> forall k, In k (map fst dd) -> In k (map fst (complete mc))) /\
  (forall dd, i = Some dd -> forall k, In k (map fst dd) -> In k (map fst (complete mc))).
Proof. exact routing_ok. Qed.
Print Assumptions C10_routing.

(* species names are unique (a Python dict) -> exactly one call per species *)
Theorem C10_routing_unique :
  forall (mc : list species) (r : option (list (string * option (list rentry))))
         (d : option (list (string * dvalue))) (i : option (list (string * ivalue))) (calls : list mcall),
  NoDup (map sp_name mc) -> parse_options mc r d i = Ok calls -> NoDup (map call_name calls).
Proof. exact routing_unique. Qed.
Print Assumptions C10_routing_unique.

(* rejection happens before any alignment: ZERO calls in the effect trace, KeyError or ValueError *)
Theorem C10_routing_rejects :
  forall (mc : list species) (r : option (list (string * option (list rentry))))
         (d : option (list (string * dvalue))) (i : option (list (string * ivalue))) (e : err),
  parse_options mc r d i = Err e ->
  (e = EKey \/ e = EValue) /\ forall result, manager_align mc r d i result = ([], Err e).
Proof. exact routing_rejects. Qed.
Print Assumptions C10_routing_rejects.

(* an unknown species name in any dictionary is rejected - with Err EKey, unless a dictionary parsed
   earlier (restrictions, then deformation types) is itself rejected first *)
Theorem C10_routing_unknown :
  forall (mc : list species) (r : option (list (string * option (list rentry))))
         (d : option (list (string * dvalue))) (i : option (list (string * ivalue))),
  (exists dd k, r = Some dd /\ In k (map fst dd) /\ ~ In k (map fst (complete mc))) \/
  (exists dd k, d = Some dd /\ In k (map fst dd) /\ ~ In k (map fst (complete mc))) \/
  (exists dd k, i = Some dd /\ In k (map fst dd) /\ ~ In k (map fst (complete mc))) ->
  (exists e, parse_options mc r d i = Err e) /\
  ((exists dd k, r = Some dd /\ In k (map fst dd) /\ ~ In k (map fst (complete mc))) ->
     parse_options mc r d i = Err EKey) /\
  (forall pr, parse_restrictions (complete mc) r = Ok pr ->
     (exists dd k, d = Some dd /\ In k (map fst dd) /\ ~ In k (map fst (complete mc))) ->
     parse_options mc r d i = Err EKey) /\
  (forall pr pd, parse_restrictions (complete mc) r = Ok pr -> parse_deformations (complete mc) d = Ok pd ->
     (exists dd k, i = Some dd /\ In k (map fst dd) /\ ~ In k (map fst (complete mc))) ->
     parse_options mc r d i = Err EKey).
Proof. exact routing_unknown. Qed.
Print Assumptions C10_routing_unknown.

(* a malformed value for a species with both molecules is rejected (by C10_routing_rejects: zero calls) *)
Theorem C10_routing_malformed :
  forall (mc : list species) (r : option (list (string * option (list rentry))))
         (d : option (list (string * dvalue))) (i : option (list (string * ivalue)))
         (n : string) (ns ne : nat),
  In (n, (ns, ne)) (complete mc) -> NoDup (map sp_name mc) ->
  (exists dd l, r = Some dd /\ lookup n dd = Some (Some l) /\ l <> [] /\
                forall v, validate_index ns ne l <> Ok v) \/
  (exists dd v, d = Some dd /\ lookup n dd = Some v /\ forall dv, parse_deformation v <> Ok dv) \/
  (exists dd, i = Some dd /\ lookup n dd = Some IOther) ->
  exists e, parse_options mc r d i = Err e.
Proof. exact routing_malformed. Qed.
Print Assumptions C10_routing_malformed.

(* a restraint list is well-formed exactly when it is a list of 2-tuples indexing both molecules *)
Theorem C10_validate_index :
  forall (ns ne : nat) (l : list rentry) (v : list (Z * Z)),
  validate_index ns ne l = Ok v <->
  l = map tuple_of v /\
  Forall (fun p => valid_index ns (fst p) = true /\ valid_index ne (snd p) = true) v.
Proof. exact validate_index_ok. Qed.
Print Assumptions C10_validate_index.

(* known names and well-formed values are never rejected *)
Theorem C10_routing_accepts :
  forall (mc : list species) (r : option (list (string * option (list rentry))))
         (d : option (list (string * dvalue))) (i : option (list (string * ivalue))),
  (forall dd, r = Some dd ->
     (forall k, In k (map fst dd) -> In k (map fst (complete mc))) /\
     (forall n ns ne l, In (n, (ns, ne)) (complete mc) -> lookup n dd = Some (Some l) -> l <> [] ->
        exists v, validate_index ns ne l = Ok v)) ->
  (forall dd, d = Some dd ->
     (forall k, In k (map fst dd) -> In k (map fst (complete mc))) /\
     (forall n v, lookup n dd = Some v -> exists dv, parse_deformation v = Ok dv)) ->
  (forall dd, i = Some dd ->
     (forall k, In k (map fst dd) -> In k (map fst (complete mc))) /\
     (forall n, lookup n dd <> Some IOther)) ->
  exists calls, parse_options mc r d i = Ok calls.
Proof. exact routing_accepts. Qed.
Print Assumptions C10_routing_accepts.

(* ---- histories: k-th of several alignments made with ONE restraint list object (rigid pre-alignment
   then the full one; a parsed dictionary reused).  The caller's list is the same after every call, and
   every call designates the atoms of the list the caller built *)
Theorem C10_history :
  forall (P : Type) (start end_ : molecule P) (restr : list (Z * Z))
         (calls : list (option (list Z) * bool * bool)) (k : nat) (c : call P) (l' : list (Z * Z)),
  nth_error (align_history start end_ restr calls) k = Some (Ok (Call c), l') ->
  l' = restr /\
  exists d ign a, nth_error calls k = Some (d, ign, a) /\
  let swap := m_len start <? m_len end_ in
  c_fixed_is_start c = negb swap /\
  c_mobile_pos c = map a_pos (m_atoms (if swap then start else end_)) /\
  c_restr c = filter_map (route start end_ ign) restr /\
  forall (i j : Z) (a_s a_e : atom P),
    (0 <= i)%Z -> (0 <= j)%Z ->
    nth_error (m_atoms start) (Z.to_nat i) = Some a_s ->
    nth_error (m_atoms end_) (Z.to_nat j) = Some a_e ->
    let a_fixed := if swap then a_e else a_s in
    let a_mobile := if swap then a_s else a_e in
    (route start end_ ign (i, j) = None <-> ign = true /\ hyd a_fixed = true) /\
    forall i' j', route start end_ ign (i, j) = Some (i', j') ->
      (0 <= i')%Z /\ (0 <= j')%Z /\
      nth_error (c_fixed_pos c) (Z.to_nat i') = Some (a_pos a_fixed) /\
      nth_error (c_mobile_pos c) (Z.to_nat j') = Some (a_pos a_mobile).
Proof. exact (@history_designates). Qed.
Print Assumptions C10_history.

(* ---- Manager.align_molecules(parsed, ..., parse_restrictions=False): the restrictions dictionary is
   used in ITS key order (any permutation or subset of the species); the calls follow that order, each
   with the restraints stored under its own name and the deformation types / hydrogen flag given for
   that NAME (never by position) *)
Theorem C10_routing_noparse :
  forall (mc : list species) (pr : list (string * option (list (Z * Z))))
         (d : option (list (string * dvalue))) (i : option (list (string * ivalue)))
         (pd : list (string * option (list Z))) (pi : list (string * bool)) (result : mcall -> res unit),
  parse_deformations (complete mc) d = Ok pd -> parse_ignore_hydrogens (complete mc) i = Ok pi ->
  (forall n, In n (map fst pr) -> In n (map fst (complete mc))) ->
  (forall c, result c = Ok tt) ->
  exists calls, manager_align_noparse mc (Some pr) d i result = (calls, Ok tt) /\
    map (fun c => (call_name c, call_restr c)) calls = pr /\
    forall c, In c calls -> deform_spec d (call_name c) (call_deform c) /\ ign_spec i (call_name c) (call_ign c).
Proof. exact routing_noparse. Qed.
Print Assumptions C10_routing_noparse.

Theorem C10_routing_noparse_rejects :
  forall (mc : list species) (pr : list (string * option (list (Z * Z))))
         (d : option (list (string * dvalue))) (i : option (list (string * ivalue))) (e : err)
         (result : mcall -> res unit),
  parse_deformations (complete mc) d = Err e \/
  (exists pd, parse_deformations (complete mc) d = Ok pd /\ parse_ignore_hydrogens (complete mc) i = Err e) ->
  manager_align_noparse mc (Some pr) d i result = ([], Err e).
Proof. exact routing_noparse_rejects. Qed.
Print Assumptions C10_routing_noparse_rejects.

(* ---- non-vacuity: the hypotheses are met by concrete, non-trivial inputs *)
Open Scope string_scope.

(* start smaller than end (roles swap), hydrogens in the end molecule, one pair dropped, one renumbered *)
Example C10_nonvacuous_designates :
  align_args (mkMol [mkRes "R" [mkAtom "B0" 0; mkAtom "H1" 1; mkAtom "B2" 2]] true : molecule nat) (mkMol [mkRes "R" [mkAtom "H0" 100; mkAtom "C1" 101; mkAtom "1H" 102; mkAtom "C3" 103; mkAtom "HA4" 104]] true : molecule nat) (Some [(0, 1); (1, 3); (2, 0); (2, 4)]%Z) None true true =
  Ok (Call (mkCall false [101; 103; 104] [0; 1; 2] [(0, 0); (1, 1); (2, 2)]%Z [0; 1; 2]%Z)).
Proof. reflexivity. Qed.

Example C10_nonvacuous_filter :
  remove_hydrogens (m_atoms (mkMol [mkRes "R" [mkAtom "H0" 100; mkAtom "C1" 101; mkAtom "1H" 102; mkAtom "C3" 103; mkAtom "HA4" 104]] true : molecule nat)) [(1, 7); (0, 7); (4, 8); (-1, 9); (5, 9)]%Z =
  Ok ([101; 103; 104], [(0, 7); (2, 8)]%Z).
Proof. reflexivity. Qed.

Example C10_nonvacuous_split : split_list [1; 2; 3; 4; 5; 6; 7] 3 = [[1; 2]; [3; 4]; [5; 6; 7]].
Proof. reflexivity. Qed.

Example C10_nonvacuous_residue :
  guess_residue_restrains 3 2 5 10 = [(5, 10); (6, 11); (7, 11)].
Proof. reflexivity. Qed.

Example C10_nonvacuous_protein :
  guess_protein_restrains (mkMol [mkRes "ALA" [mkAtom "C0" 0; mkAtom "C1" 1; mkAtom "C2" 2]; mkRes "GLY" [mkAtom "C3" 3; mkAtom "C4" 4]] true : molecule nat) (mkMol [mkRes "AL" [mkAtom "B0" 0]; mkRes "GLY" [mkAtom "B1" 1; mkAtom "B2" 2; mkAtom "B3" 3]] true : molecule nat) = Ok [(0, 0); (1, 0); (2, 0); (3, 1); (4, 2); (4, 3)].
Proof. reflexivity. Qed.

Example C10_nonvacuous_routing :
  parse_options ([mkSpecies "AAA" 4 (Some 2); mkSpecies "BBB" 2 None; mkSpecies "CCC" 3 (Some 5)] : list species) (Some [("AAA", Some [RTuple [0; 1]%Z; RTuple [3; 0]%Z])])
                (Some [("CCC", DSeq [1]%Z)]) (Some [("AAA", IBool false)]) =
  Ok [("AAA", Some [(0, 1); (3, 0)]%Z, None, false); ("CCC", None, Some [1]%Z, true)].
Proof. reflexivity. Qed.
Example C10_nonvacuous_unknown :
  manager_align ([mkSpecies "AAA" 4 (Some 2); mkSpecies "BBB" 2 None; mkSpecies "CCC" 3 (Some 5)] : list species) (Some [("BBB", None)]) None None (fun _ => Ok tt) = ([], Err EKey).
Proof. reflexivity. Qed.
Example C10_nonvacuous_malformed :
  manager_align ([mkSpecies "AAA" 4 (Some 2); mkSpecies "BBB" 2 None; mkSpecies "CCC" 3 (Some 5)] : list species) (Some [("AAA", Some [RTuple [0; 2]%Z])]) None None (fun _ => Ok tt) = ([], Err EValue).
Proof. reflexivity. Qed.

(* one list used for a rigid pre-alignment and the full alignment (start smaller: roles swap) *)
Example C10_nonvacuous_history :
  map snd (align_history
    (mkMol [mkRes "R" [mkAtom "B0" 0; mkAtom "H1" 1; mkAtom "B2" 2]] true : molecule nat)
    (mkMol [mkRes "R" [mkAtom "H0" 100; mkAtom "C1" 101; mkAtom "1H" 102; mkAtom "C3" 103; mkAtom "HA4" 104]] true : molecule nat)
    [(0, 1); (2, 4)]%Z [(Some [0; 1]%Z, false, true); (None, false, true)]) = [[(0, 1); (2, 4)]%Z; [(0, 1); (2, 4)]%Z] /\
  map (fun x => match fst x with Ok (Call c) => c_restr c | _ => [] end) (align_history
    (mkMol [mkRes "R" [mkAtom "B0" 0; mkAtom "H1" 1; mkAtom "B2" 2]] true : molecule nat)
    (mkMol [mkRes "R" [mkAtom "H0" 100; mkAtom "C1" 101; mkAtom "1H" 102; mkAtom "C3" 103; mkAtom "HA4" 104]] true : molecule nat)
    [(0, 1); (2, 4)]%Z [(Some [0; 1]%Z, false, true); (None, false, true)]) = [[(1, 0); (4, 2)]%Z; [(1, 0); (4, 2)]%Z].
Proof. split; reflexivity. Qed.

(* the parsed dictionary lists CCC before AAA; options are given for AAA only *)
Example C10_nonvacuous_noparse :
  manager_align_noparse ([mkSpecies "AAA" 4 (Some 2); mkSpecies "BBB" 2 None; mkSpecies "CCC" 3 (Some 5)] : list species)
    (Some [("CCC", Some [(0, 0)]%Z); ("AAA", Some [(0, 1); (3, 0)]%Z)])
    (Some [("AAA", DSeq [0; 1]%Z)]) (Some [("AAA", IBool false)]) (fun _ => Ok tt) =
  ([("CCC", Some [(0, 0)]%Z, None, true); ("AAA", Some [(0, 1); (3, 0)]%Z, Some [0; 1]%Z, false)], Ok tt).
Proof. reflexivity. Qed.
