(* C17 - Rotation matrices are proper rotations; local frames are orthonormal.
   Statements only; proofs are in Proofs/AuxR.v.  T := R. *)
From GM Require Import Proofs.RTac Model.Aux Proofs.AuxR Gen.KernelsGen Proofs.KernelsGenEq.
Local Open Scope R_scope.

(* The tie by translation: the definitions generated at this run from the CURRENT source text of
   gaddlemaps/_auxilliary.py (Gen/KernelsGen.v, by harness/pytrans.py) are the model definitions the
   theorems below are about - for every Scalar instance, hence for R and for binary64. *)
Theorem C17_model_is_source_rotation : forall (T : Type) (H : Scalar T) (axis : V3 T) (theta c s : T),
  rotation_matrix_gen axis theta c s = rotation_matrix_cs axis c s.
Proof. exact (@rotation_matrix_gen_eq). Qed.
Print Assumptions C17_model_is_source_rotation.

Theorem C17_model_is_source_frame : forall (T : Type) (H : Scalar T) (p0 p1 p2 : V3 T),
  calcule_base_gen p0 p1 p2 = rmap frame_tuple (calcule_base p0 p1 p2).
Proof. exact (@calcule_base_gen_eq). Qed.
Print Assumptions C17_model_is_source_frame.

Theorem C17_rotation_proper : forall (axis : V3 R) (theta : R), axis <> vzero ->
  exists M, rotation_matrix axis theta = Ok M /\
    mmul M (mtrans M) = mid /\ mmul (mtrans M) M = mid /\ mdet M = 1 /\
    mvec M axis = axis /\ vecm axis M = axis /\ mtrace M = 1 + 2 * cos theta.
Proof. exact rotation_proper. Qed.
Print Assumptions C17_rotation_proper.

Theorem C17_rotation_inverse : forall (axis : V3 R) (theta : R) (M : M3 R), axis <> vzero ->
  rotation_matrix axis theta = Ok M -> rotation_matrix axis (- theta) = Ok (mtrans M).
Proof. exact rotation_inverse. Qed.
Print Assumptions C17_rotation_inverse.

Theorem C17_rotation_compose : forall (axis : V3 R) (a b : R) (Ma Mb : M3 R), axis <> vzero ->
  rotation_matrix axis a = Ok Ma -> rotation_matrix axis b = Ok Mb ->
  rotation_matrix axis (a + b) = Ok (mmul Ma Mb).
Proof. exact rotation_compose. Qed.
Print Assumptions C17_rotation_compose.

Theorem C17_rotation_axis_length : forall (axis : V3 R) (theta k : R), axis <> vzero -> 0 < k ->
  rotation_matrix (vscale k axis) theta = rotation_matrix axis theta.
Proof. exact rotation_axis_length. Qed.
Print Assumptions C17_rotation_axis_length.

(* the error branch: a zero axis is rejected, never silently totalised *)
Theorem C17_rotation_zero_axis : forall theta, rotation_matrix vzero theta = Err EDiv0.
Proof. exact rotation_zero_axis. Qed.
Print Assumptions C17_rotation_zero_axis.

(* Any three points with first and third distinct (collinear in any direction and a
   coincident middle point included): right-handed orthonormal frame, first vector from the
   first to the third point, origin the first point, third vector normal to p2-p0 and
   normal to p1-p0 up to the collinearity threshold 1e-6 (exactly normal in the regular branch). *)
Theorem C17_frame : forall p0 p1 p2 : V3 R, p0 <> p2 ->
  exists F, calcule_base p0 p1 p2 = Ok F /\ frame_good F p0 p1 p2 /\
    Rabs (vdot (f3 F) (vsub p1 p0)) <= (1/1000000) * vnorm (vsub p1 p0).
Proof. exact calcule_base_frame. Qed.
Print Assumptions C17_frame.

Theorem C17_frame_regular : forall (p0 p1 p2 : V3 R) F,
  calcule_base_br p0 p1 p2 = Ok (F, CbRegular) -> p0 <> p2 ->
  vdot (f3 F) (vsub p1 p0) = 0 /\ vdot (f3 F) (vsub p2 p0) = 0.
Proof. exact calcule_base_regular. Qed.
Print Assumptions C17_frame_regular.

Theorem C17_frame_coincident : forall p0 p1 : V3 R, calcule_base p0 p1 p0 = Err EDiv0.
Proof. exact calcule_base_coincident. Qed.
Print Assumptions C17_frame_coincident.

(* non-vacuity: the hypotheses are met by concrete inputs, including the exactly collinear
   z-aligned triple on which the code before the repair produced NaN *)
Example C17_nonvacuous_axis : (mk3 0 0 2 : V3 R) <> vzero.
Proof. intros E; inversion E; lra. Qed.
Example C17_nonvacuous_collinear_z : (mk3 0 0 0 : V3 R) <> mk3 0 0 2.
Proof. intros E; inversion E; lra. Qed.
