(* C20 - Command-line mapping equals the library workflow; discovery is deterministic.
   Statements only; proofs are in Proofs/Cli*.v.  Model: Model/Cli.v (gaddlemaps/_cli.py as repaired by
   5e430aa, c1cd81f, 2ddd5fd).  All theorems hold for EVERY instance of the oracles
   (sys, init_system, try_add, name_of, pairs_with) unless a hypothesis names them.
   The clause "command-line output = library workflow output for the same seed" is NOT a theorem (in the model the
   command line is the composition of the library calls); it is decided by the executed checks K/S only. *)
From Coq Require Import String Ascii List Bool Arith Permutation.
From GM Require Import Base.Res Gen.SrcConsts Model.Cli
     Proofs.CliSort Proofs.CliInv Proofs.CliPath Proofs.CliExact Proofs.CliExamples.
Import ListNotations.
Open Scope string_scope.

(* The result of the discovery - the whole dictionary, order of the entries included - does not depend on the order
   in which the candidate files are listed.  No hypothesis on the oracles: the system object may well answer
   differently depending on what it consumed before (it does), but the scan order is fixed by sorted(). *)
Theorem C20_discovery_perm :
  forall (sys : Type) (init_system : list file -> res sys) (try_add : sys -> file -> option sys)
         (name_of : file -> option string) (pairs_with : file -> file -> bool)
         (files files' : list file) (known : list triple),
    Permutation files files' ->
    sort_molecules sys init_system try_add name_of pairs_with files known =
    sort_molecules sys init_system try_add name_of pairs_with files' known.
Proof. exact sort_molecules_perm. Qed.
Print Assumptions C20_discovery_perm.

(* ... nor on anything but the SET of listed files (a Python set has no order and no duplicates: every iteration
   order under every hash seed is an enumeration of the same set) *)
Theorem C20_discovery_set :
  forall (sys : Type) (init_system : list file -> res sys) (try_add : sys -> file -> option sys)
         (name_of : file -> option string) (pairs_with : file -> file -> bool)
         (files files' : list file) (known : list triple),
    (forall x, In x files <-> In x files') ->
    sort_molecules sys init_system try_add name_of pairs_with files known =
    sort_molecules sys init_system try_add name_of pairs_with files' known.
Proof. exact sort_molecules_set. Qed.
Print Assumptions C20_discovery_set.

(* the candidate lists that are scanned are strictly increasing in code-point order and contain exactly the listed
   files (so "sorted_set" is sorted(set(...))) *)
Theorem C20_scan_sorted :
  forall l : list string,
    Sorted.Sorted OrdersEx.String_as_OT.lt (sorted_set l) /\ NoDup (sorted_set l) /\
    (forall x, In x (sorted_set l) <-> In x l).
Proof. exact (fun l => conj (sorted_set_sorted l) (conj (sorted_set_NoDup l) (sorted_set_In l))). Qed.
Print Assumptions C20_scan_sorted.

(* hence the molecules main() hands to auto_map do not depend on the listing order either *)
Theorem C20_main_perm :
  forall (sys : Type) (init_system : list file -> res sys) (try_add : sys -> file -> option sys)
         (name_of : file -> option string) (pairs_with : file -> file -> bool)
         (mol : option (list triple)) (files files' : list file) (exclude : option (list string)),
    Permutation files files' ->
    main_molecules sys init_system try_add name_of pairs_with mol (Some files) exclude =
    main_molecules sys init_system try_add name_of pairs_with mol (Some files') exclude.
Proof. exact main_molecules_perm. Qed.
Print Assumptions C20_main_perm.

(* Exactness.  ground_truth (Proofs/CliExact.v) is the property's domain: species with distinct names, each with its
   start topology among the parsed candidates; during the scan the start system accepts exactly the species' start
   topologies (this is where System's behaviour enters: C11 under pairwise disjoint residue signatures, and an end
   topology that does not load into the start system); the only other candidate topology carrying a species' name is
   its end topology; the only candidate coordinate file that pairs with that topology is its end coordinate file.
   Then every species gets exactly its own triple (a missing end topology / end coordinate file is simply absent),
   nothing else is reported, for every listing order. *)
Theorem C20_discovery_exact :
  forall (sys : Type) (try_add : sys -> file -> option sys)
         (name_of : file -> option string) (pairs_with : file -> file -> bool)
         (init_system : list file -> res sys) (files files' : list file) (known : list triple) (s0 : sys) (sp : list species),
    Permutation files files' ->
    init_system (map (fun k : triple => fst (fst k)) known) = Ok s0 ->
    ground_truth sys try_add name_of pairs_with s0
                 (fst (candidates files known)) (snd (candidates files known)) sp ->
    exists d, sort_molecules sys init_system try_add name_of pairs_with files' known = Ok d /\
              (forall x, In x sp -> exists i, dget (sname x) d = Some i /\ entry_is x i) /\
              (forall n, dget n d <> None -> exists x, In x sp /\ sname x = n).
Proof. exact sort_molecules_exact. Qed.
Print Assumptions C20_discovery_exact.

(* Files of explicitly given species are removed before the discovery and never come back: every file in the result
   was listed, has the right kind, and is none of the explicit files of that kind. *)
Theorem C20_no_readd :
  forall (sys : Type) (init_system : list file -> res sys) (try_add : sys -> file -> option sys)
         (name_of : file -> option string) (pairs_with : file -> file -> bool)
         (files : list file) (known : list triple) (d : added) (n : string) (i : idict) (k : ikey) (f : file),
    sort_molecules sys init_system try_add name_of pairs_with files known = Ok d ->
    dget n d = Some i -> iget k i = Some f ->
    In f files /\
    match k with
    | CoorAA => is_coord f = true /\ forall a b c, In (a, b, c) known -> f <> b
    | _ => is_top f = true /\ forall a b c, In (a, b, c) known -> f <> a /\ f <> c
    end.
Proof. exact sort_molecules_provenance. Qed.
Print Assumptions C20_no_readd.

(* main() with --auto: it fails exactly when sort_molecules fails; otherwise the molecules handed to auto_map are the
   explicit triples, unchanged and first, followed by the triples of exactly those discovered entries that are
   complete (three files) and whose name is not excluded.  In particular no KeyError can arise. *)
Theorem C20_exclude :
  forall (sys : Type) (init_system : list file -> res sys) (try_add : sys -> file -> option sys)
         (name_of : file -> option string) (pairs_with : file -> file -> bool)
         (mol : option (list triple)) (files : list file) (exclude : option (list string)),
    match sort_molecules sys init_system try_add name_of pairs_with files (mol_list mol) with
    | Err e => main_molecules sys init_system try_add name_of pairs_with mol (Some files) exclude = Err e
    | Ok d => exists ds,
        main_molecules sys init_system try_add name_of pairs_with mol (Some files) exclude
        = Ok (mol_list mol ++ ds)%list /\
        forall t, In t ds <->
                  exists n i, In (n, i) d /\ full i = true /\ excluded exclude n = false /\ triple_of i = Ok t
    end.
Proof. exact main_molecules_spec. Qed.
Print Assumptions C20_exclude.

(* Totality (D11): the three loops never fail, whatever the candidates and whatever the oracles answer - a species
   with a start topology but no end topology is not an error ... *)
Theorem C20_discovery_total :
  forall (sys : Type) (try_add : sys -> file -> option sys)
         (name_of : file -> option string) (pairs_with : file -> file -> bool)
         (s0 : sys) (tops coords : list file),
    exists d, discover sys try_add name_of pairs_with s0 tops coords = Ok d.
Proof. exact discover_total. Qed.
Print Assumptions C20_discovery_total.

(* ... the only failure of sort_molecules is the start system refusing an explicitly given start topology ... *)
Theorem C20_sort_errors :
  forall (sys : Type) (init_system : list file -> res sys) (try_add : sys -> file -> option sys)
         (name_of : file -> option string) (pairs_with : file -> file -> bool)
         (files : list file) (known : list triple) (e : err),
    sort_molecules sys init_system try_add name_of pairs_with files known = Err e ->
    init_system (map (fun k : triple => fst (fst k)) known) = Err e.
Proof. exact sort_molecules_err. Qed.
Print Assumptions C20_sort_errors.

(* ... and an entry without end topology or without end coordinates is skipped by main (it is not complete) *)
Theorem C20_incomplete_skipped :
  forall (sys : Type) (init_system : list file -> res sys) (try_add : sys -> file -> option sys)
         (name_of : file -> option string) (pairs_with : file -> file -> bool)
         (files : list file) (known : list triple) (d : added) (n : string) (i : idict),
    sort_molecules sys init_system try_add name_of pairs_with files known = Ok d -> In (n, i) d ->
    iget TopAA i = None \/ iget CoorAA i = None -> full i = false.
Proof. exact incomplete_not_full. Qed.
Print Assumptions C20_incomplete_skipped.

(* Output path: the requested one, else mapped_<name> in the directory of the input. *)
Theorem C20_out_given : forall o p : string, out_path (Some o) p = o.
Proof. exact out_path_given. Qed.
Print Assumptions C20_out_given.

Theorem C20_default_out :
  forall d b : string, has_char slash b = false -> d <> "" -> ends_with slash d = false ->
    out_path None (d ++ "/" ++ b) = d ++ "/mapped_" ++ b.
Proof. exact out_path_dir. Qed.
Print Assumptions C20_default_out.

Theorem C20_default_out_bare :
  forall b : string, has_char slash b = false -> out_path None b = "mapped_" ++ b.
Proof. exact out_path_bare. Qed.
Print Assumptions C20_default_out_bare.

Theorem C20_default_out_root :
  forall b : string, has_char slash b = false -> out_path None ("/" ++ b) = "/mapped_" ++ b.
Proof. exact out_path_root. Qed.
Print Assumptions C20_default_out_root.

(* beside the input: same directory component, name mapped_<name> (posixpath.split of both) *)
Theorem C20_default_out_beside :
  forall d b : string, has_char slash b = false -> d <> "" -> ends_with slash d = false ->
    os_split (out_path None (d ++ "/" ++ b)) =
    (fst (os_split (d ++ "/" ++ b)), "mapped_" ++ snd (os_split (d ++ "/" ++ b))).
Proof. exact out_path_beside. Qed.
Print Assumptions C20_default_out_beside.

(* ------------------------------------------------------------------ non-vacuity / concrete instances
   (reference instance of the oracles: the start system is a stream of residue kinds that topologies consume) *)

(* the domain of C20_discovery_exact is inhabited: MOLA complete, NA with a start topology only (D11), a force-field
   include among the candidates (F3), a distractor text file; listed in an arbitrary order *)
Example C20_nonvacuous_ground_truth :
  ground_truth cstream (ref_try_add ex_tbl) (ref_name_of ex_tbl) (ref_pairs ex_pairs) ex_stream
               (fst (candidates ex_files [])) (snd (candidates ex_files [])) ex_species.
Proof. exact ex_ground_truth. Qed.

Example C20_example_result :
  ref_sort_molecules ex_stream ex_tbl ex_pairs ex_files [] =
  Ok [("MOLA", [(TopCG, "MOLA_CG.itp"); (TopAA, "MOLA_AA.itp"); (CoorAA, "MOLA_AA.gro")]);
      ("NA", [(TopCG, "NA_CG.itp")])].
Proof. exact ex_result. Qed.

Example C20_example_exclude :
  ref_main_molecules ex_stream ex_tbl ex_pairs None (Some ex_files) (Some ["NA"]) =
  Ok [("MOLA_CG.itp", "MOLA_AA.gro", "MOLA_AA.itp")].
Proof. exact ex_main. Qed.

Example C20_example_explicit_not_readded :
  ref_sort_molecules ex_stream ex_tbl ex_pairs ex_files [("MOLA_CG.itp", "MOLA_AA.gro", "MOLA_AA.itp")] =
  Ok [("NA", [(TopCG, "NA_CG.itp")])].
Proof. exact ex_known. Qed.

Example C20_nonvacuous_perm : Permutation ex_files (rev ex_files).
Proof. exact ex_perm. Qed.

(* the oracle really is order dependent (a species with the same signature at both resolutions: both topologies
   load, the first one tried consumes the residues): the three loops on the two orders disagree, which is why the
   scan must be sorted; with the sort every listing order gives the same answer *)
Example C20_unsorted_scan_is_order_dependent :
  discover cstream (ref_try_add f1_tbl) (ref_name_of f1_tbl) (ref_pairs f1_pairs) ex_stream
           ["NA_CG.itp"; "NA_AA.itp"] ["NA_AA.gro"] <>
  discover cstream (ref_try_add f1_tbl) (ref_name_of f1_tbl) (ref_pairs f1_pairs) ex_stream
           ["NA_AA.itp"; "NA_CG.itp"] ["NA_AA.gro"].
Proof. exact f1_unsorted_scan_is_order_dependent. Qed.

Example C20_same_signature_any_order :
  ref_sort_molecules ex_stream f1_tbl f1_pairs ["NA_CG.itp"; "NA_AA.itp"; "NA_AA.gro"] [] =
  Ok [("NA", [(TopCG, "NA_AA.itp"); (TopAA, "NA_CG.itp"); (CoorAA, "NA_AA.gro")])] /\
  ref_sort_molecules ex_stream f1_tbl f1_pairs ["NA_AA.gro"; "NA_AA.itp"; "NA_CG.itp"] [] =
  Ok [("NA", [(TopCG, "NA_AA.itp"); (TopAA, "NA_CG.itp"); (CoorAA, "NA_AA.gro")])].
Proof. exact f1_result_any_order. Qed.

Example C20_nonvacuous_out :
  has_char slash "system_cg.gro" = false /\ "/data/run1" <> "" /\ ends_with slash "/data/run1" = false.
Proof. exact ex_out_hyp. Qed.
