(* C12 - Coordinate-file view (SystemGro) tiles the file into residues with stable random access.
   Statements only; proofs are in Proofs/SystemGro{Init,Access,Main}.v.  Model: Model/SystemGro.v
   (an opened .gro file = its parsed atom records + title + box; the reader cursor is explicit state).
   All statements are discrete and hold for every file / every reader state / every access history.

   akey a = (a_resid a, a_resname a);  init f = SystemGro(f);  iter_all f s = list(system);
   a "reader" is the pair (file-handle line, GroFile._current_atom). *)
From Coq Require Import ZArith String List.
From GM Require Import Base.Res Model.SystemGro Proofs.SystemGroInit Proofs.SystemGroAccess Proofs.SystemGroMain
  Proofs.SystemGroComp Proofs.SystemGroSlice Proofs.SystemGroExamples Gen.SysGen Proofs.SysGenEq.
Import ListNotations.
Local Open Scope nat_scope.

(* Invariant of _add_residue_init (one step): on a well-formed state every non-empty residue is
   accepted; the index appended to the run-length list designates a template with the residue's
   (name, size) key - hence its length - even when an older template with the same key but other
   atom names was overwritten in the key map.  wf (Proofs/SystemGroInit.v): the key map points to
   templates carrying that key, every template's key is in the map, all run lengths are >= 1. *)
Theorem C12_template_len_step : forall (s : sysgro) (r : residue), wf s -> r <> [] ->
  exists s' idx t, add_residue_init s r = Ok s' /\ wf s' /\
    info_all s' = info_all s ++ [idx] /\
    nth_error (s_templates s') idx = Some t /\ length t = length r /\ residue_key t = residue_key r.
Proof. exact add_residue_step. Qed.
Print Assumptions C12_template_len_step.

(* ... and for a constructed system: the k-th triple the offset generator yields is
   (index of a template with the k-th residue's key and length, number of atoms before it, its length) *)
Theorem C12_template_len : forall f st s st0 st1 rs,
  init f = (st, Ok s) -> iter_all f s st0 = (st1, Ok rs) ->
  exists es, entries s = Ok es /\ length es = length rs /\
    forall k idx start len r, nth_error es k = Some (idx, start, len) -> nth_error rs k = Some r ->
      exists t, nth_error (s_templates s) idx = Some t /\
                length t = len /\ len = length r /\ residue_key t = residue_key r /\
                start = length (concat (firstn k rs)).
Proof. exact template_len. Qed.
Print Assumptions C12_template_len.

(* Every file with at least one atom record loads; iterating it - from ANY reader state - succeeds and
   the residues, concatenated, are exactly the file's records in order; counts agree. *)
Theorem C12_tiling : forall f, g_records f <> [] ->
  exists st s rs, init f = (st, Ok s) /\
    (forall st0, exists st1, iter_all f s st0 = (st1, Ok rs)) /\
    concat rs = g_records f /\ sys_len s = length rs /\ n_atoms f = length (concat rs).
Proof. exact tiling. Qed.
Print Assumptions C12_tiling.

(* A residue starts exactly where (number, name) changes - no hypothesis on the names (D9 repaired). *)
Theorem C12_boundaries : forall f st s st0 st1 rs,
  init f = (st, Ok s) -> iter_all f s st0 = (st1, Ok rs) ->
  (forall r, In r rs -> r <> [] /\ forall a b, In a r -> In b r -> akey a = akey b) /\
  (forall k r r', nth_error rs k = Some r -> nth_error rs (S k) = Some r' ->
     forall a b, In a r -> In b r' -> akey a <> akey b) /\
  (forall p, p < length (g_records f) -> (In p (starts rs) <-> p = 0 \/ changes (g_records f) p)).
Proof. exact boundaries. Qed.
Print Assumptions C12_boundaries.

(* For EVERY access history (index / negative index / slice with any bounds and step / partial fresh
   iteration / live iterators stepped between other accesses) started from ANY reader state and any table
   of live iterators, every observation equals what the plain list of iterated residues answers
   (spec_op in Model/SystemGro.v: Python list semantics, no file, no cursor). *)
Theorem C12_random_access : forall f st s st0 st1 rs,
  init f = (st, Ok s) -> iter_all f s st0 = (st1, Ok rs) ->
  forall ops h, map fst (run_history f s ops h) = spec_history rs ops (h_iters h).
Proof. exact random_access. Qed.
Print Assumptions C12_random_access.

(* the two plainest instances, without spec_op: system[k] and system[k - len] are the k-th iterated residue *)
Theorem C12_random_access_index : forall f st s st0 st1 rs,
  init f = (st, Ok s) -> iter_all f s st0 = (st1, Ok rs) ->
  forall k r, nth_error rs k = Some r -> forall stx,
    (exists sty, getitem_int f s (Z.of_nat k) stx = (sty, Ok r)) /\
    (exists sty, getitem_int f s (Z.of_nat k - Z.of_nat (length rs)) stx = (sty, Ok r)).
Proof. exact index_access. Qed.
Print Assumptions C12_random_access_index.

(* out of range: IndexError and the reader is left as it was *)
Theorem C12_index_out_of_range : forall f st s st0 st1 rs,
  init f = (st, Ok s) -> iter_all f s st0 = (st1, Ok rs) ->
  forall i stx, (Z.of_nat (length rs) <= i \/ i < - Z.of_nat (length rs))%Z ->
    getitem_int f s i stx = (stx, Err EIndex).
Proof. exact index_out_of_range. Qed.
Print Assumptions C12_index_out_of_range.

(* A slice with a non-zero step never fails: it returns the iterated residues at the positions Python's
   slice arithmetic designates (py_slice_indices), all inside the list, from any reader state. *)
Theorem C12_slice_total : forall f st s st0 st1 rs,
  init f = (st, Ok s) -> iter_all f s st0 = (st1, Ok rs) ->
  forall a b c stx, c <> Some 0%Z ->
  exists idxs l sty, py_slice_indices (length rs) a b c = Ok idxs /\
    getitem_slice f s a b c stx = (sty, Ok l) /\ length l = length idxs /\
    forall j k, nth_error idxs j = Some k -> k < length rs /\ nth_error l j = nth_error rs k.
Proof. exact slice_total. Qed.
Print Assumptions C12_slice_total.

(* ... and the everyday case needs no trust in the slice arithmetic: system[a:b] with 0 <= a <= b <= len
   is the block of iterated residues a .. b-1 *)
Theorem C12_slice_block : forall f st s st0 st1 rs,
  init f = (st, Ok s) -> iter_all f s st0 = (st1, Ok rs) ->
  forall a b stx, a <= b -> b <= length rs ->
  exists sty, getitem_slice f s (Some (Z.of_nat a)) (Some (Z.of_nat b)) None stx =
              (sty, Ok (firstn (b - a) (skipn a rs))).
Proof. exact slice_block. Qed.
Print Assumptions C12_slice_block.

(* len = number of residues, n_atoms = number of records = total size of the residues; the run-length
   expansion lists the template index of every generator entry; box and title are the file's. *)
Theorem C12_counts : forall f st s st0 st1 rs,
  init f = (st, Ok s) -> iter_all f s st0 = (st1, Ok rs) ->
  sys_len s = length rs /\ n_atoms f = length (g_records f) /\ n_atoms f = list_sum (map (@length atom) rs) /\
  info_all s = map (fun e => fst (fst e)) (match entries s with Ok es => es | Err _ => [] end) /\
  box_matrix f = g_box f /\ comment_line f = g_title f.
Proof. exact counts. Qed.
Print Assumptions C12_counts.

(* composition[name] = number of iterated residues with that name (templates are looked up through the
   run-length list; a template always carries the name of the residues recorded under it) *)
Theorem C12_composition : forall f st s st0 st1 rs,
  init f = (st, Ok s) -> iter_all f s st0 = (st1, Ok rs) ->
  exists c, composition s = Ok c /\ forall name, counter_get name c = count_name name rs.
Proof. exact composition_counts. Qed.
Print Assumptions C12_composition.

(* the model is the source (DESIGN.md 4.6): Gen/SysGen.v is re-translated from the text of
   SystemGro._molecules_ordered_all_gen in gaddlemaps/components/_system.py at every run (harness/pytrans_gen.py): the
   accumulator loops `start_atom = 0; for index, ammount in ...: len_mol = len(different_molecules[index]);
   for _ in range(ammount): yield (index, start_atom, len_mol); start_atom += len_mol` yield, for every view, exactly the
   offset list `entries` that every access theorem of this file is about *)
Theorem C12_model_is_source_offsets : forall s : sysgro,
  molecules_ordered_all_gen (map (@length _) (s_templates s)) (s_ordered s) = entries s.
Proof. exact molecules_ordered_all_gen_eq. Qed.
Print Assumptions C12_model_is_source_offsets.

(* ---- non-vacuity: the hypotheses are met by concrete files (Proofs/SystemGroExamples.v) ---- *)
(* D9: (1,"2AB") next to (12,"AB") - both have residname "12AB" - are two residues *)
Example C12_nonvacuous_D9 : exists st s st1,
  init d9_file = (st, Ok s) /\
  iter_all d9_file s st = (st1, Ok [[d9_a1; d9_a2]; [d9_b1; d9_b2; d9_b3]]) /\
  residname d9_a1 = residname d9_b1.
Proof. eexists; eexists; eexists. split; [vm_compute; reflexivity | split; vm_compute; reflexivity]. Qed.

(* equal name and size, other atom names: three templates, the key ("LIG",2) points to the newer one and
   the third residue (equal to the OLDER template) is recorded under the newer index; the data read is right *)
Example C12_nonvacuous_equal_key : exists st s st1,
  init lig_file = (st, Ok s) /\
  s_pk s = [(("LIG"%string, 2), 1); (("SOL"%string, 1), 2)] /\ info_all s = [0; 1; 1; 2] /\
  iter_all lig_file s st = (st1, Ok [[lig_a1; lig_a2]; [lig_b1; lig_b2]; [lig_c1; lig_c2]; [lig_s]]).
Proof. eexists; eexists; eexists. split; [vm_compute; reflexivity | repeat split; vm_compute; reflexivity]. Qed.

(* a 12-operation history (live iterator interleaved with indices, slices, an out-of-range index) started from
   a reader parked at line 99 with _current_atom = 3 *)
Example C12_nonvacuous_history : exists st s,
  init lig_file = (st, Ok s) /\
  map fst (run_history lig_file s lig_history odd_state) =
  [OUnit; OResidue [lig_a1; lig_a2]; OResidue [lig_s]; OResidue [lig_b1; lig_b2]; OResidue [lig_a1; lig_a2];
   OList [[lig_c1; lig_c2]; [lig_s]]; OResidue [lig_c1; lig_c2]; OList [[lig_s]; [lig_b1; lig_b2]];
   OList [[lig_a1; lig_a2]; [lig_b1; lig_b2]]; OErr EIndex; OResidue [lig_s]; OStop].
Proof. eexists; eexists. split; vm_compute; reflexivity. Qed.
