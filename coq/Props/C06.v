(* C06 - Alignment moves molecules only by structure-preserving transformations.
   Statements only; proofs are in Proofs/AlignBase.v (every Scalar instance), Proofs/AlignR.v and
   Proofs/AlignMain.v (T := R); examples in Proofs/AlignExample.v (R) and Proofs/AlignExampleF.v (binary64).

   Model: Model/Align.v, `align_with cos sin sf start end_ restr deform ignore_hydrogens auto_guess stream fuel`
   = Alignment(start, end).align_molecules(restr, deform, ignore_hydrogens, auto_guess) with
   Alignment.STEPS_FACTOR = sf, on values, composed of the models of C07 (single-atom move), C08 (measure),
   C09 (Monte-Carlo loop, translation, centroid rotation), C10 (roles, hydrogen filter), C15 (connectivity), C17.
   Every theorem quantifies over the step factor, both molecules, the restraints, the deformation types, the two
   flags, the stream of random draws and the fuel; `= Ok r` is "the call returned" (no exception, stream long
   enough, no coincident atoms in a single-atom move).

   Vocabulary (Proofs/AlignMain.v, Proofs/AlignR.v):
     displacement s e          centre(e) - centre(s), the vector of start.move_to(end.geometric_center)
     mobile_of s e x y         x when s has fewer atoms than e, else y  (ties: y, the end molecule is the mobile one)
     same_labels m m'          same atom names in the same order, same residues, same bonds, same number of positions
     tree_graph adj n          n neighbour lists, symmetric, every atom reachable from atom 0, 2(n-1) entries
     bonded_dists_kept adj p q every bonded pair of adj has in q the distance it has in p
     dists_kept p q            every pair of atoms has in q the distance it has in p
     eff_deform s e d          the deformation types in force: d, or by default (0,) if a molecule has one atom else (0,1,2)

   NOT proved here (decided by K/S of harness/c06.py only, C06 is PARTIAL on them): bit-identical repetition
   (the model is a function of inputs and stream by construction - that is not a proof about CPython),
   finiteness of binary64 coordinates, and that the caller's Molecule objects are untouched (heap side, C18). *)
From GM Require Import Model.Restraints.
From GM Require Import Proofs.RTac Model.Aux Model.Transform Model.Chi2 Model.MC Proofs.MCR Proofs.TransformR
  Model.Align Proofs.AlignBase Proofs.AlignR Proofs.AlignMain Proofs.AlignExample Inst.FInst Proofs.AlignExampleF.
From GM Require Proofs.MC.
Import ListNotations.
Local Open Scope R_scope.

(* The molecule with more atoms (ties: start) is only translated: when it is `end` it is returned untouched
   (the whole value: positions, names, bonds); when it is `start` it is its input with the positions setter applied
   to p + d for the single vector d = centre(end) - centre(start). *)
Theorem C06_fixed_only_translated :
  forall (sf : nat) (start end_ : amol R) (restr : option (list (Z * Z))) (deform : option (list Z))
         (ign autog : bool) (s : stream R (pdraw R (adraw R))) (fuel : nat) (r : align_result R),
    align_with cos sin sf start end_ restr deform ign autog s fuel = Ok r ->
    ((am_len start < am_len end_)%nat -> ar_end r = end_) /\
    ((am_len end_ <= am_len start)%nat ->
       set_positions start (translate (am_pos start) (displacement start end_)) = Ok (ar_start r) /\
       am_pos (ar_start r) = map (fun p => vadd p (displacement start end_)) (am_pos start)).
Proof. exact fixed_only_translated. Qed.
Print Assumptions C06_fixed_only_translated.

(* Mobile molecule (the other one) with a tree-shaped bond graph: for EVERY stream and EVERY fuel, every bonded
   distance of the result equals its value in the caller's geometry.  (Loop invariant: the bond table is the
   geometry the optimiser starts from - distances are translation invariant -, translations and centroid
   rotations are isometries, the single-atom move restores every tree edge to the table by C07_tree.) *)
Theorem C06_tree_bonds :
  forall (sf : nat) (start end_ : amol R) (restr : option (list (Z * Z))) (deform : option (list Z))
         (ign autog : bool) (s : stream R (pdraw R (adraw R))) (fuel : nat) (r : align_result R),
    align_with cos sin sf start end_ restr deform ign autog s fuel = Ok r ->
    tree_graph (am_adj (mobile_of start end_ start end_)) (am_len (mobile_of start end_ start end_)) ->
    bonded_dists_kept (am_adj (mobile_of start end_ start end_))
                      (am_pos (mobile_of start end_ start end_))
                      (am_pos (mobile_of start end_ (ar_start r) (ar_end r))).
Proof. exact tree_bonds_kept. Qed.
Print Assumptions C06_tree_bonds.

(* Single-atom moves not enabled: ALL pairwise distances of the mobile molecule are preserved (any bond graph). *)
Theorem C06_rigid_when_no_atom_moves :
  forall (sf : nat) (start end_ : amol R) (restr : option (list (Z * Z))) (deform : option (list Z))
         (ign autog : bool) (s : stream R (pdraw R (adraw R))) (fuel : nat) (r : align_result R),
    align_with cos sin sf start end_ restr deform ign autog s fuel = Ok r ->
    ~ In 2%Z (eff_deform start end_ deform) ->
    dists_kept (am_pos (mobile_of start end_ start end_))
               (am_pos (mobile_of start end_ (ar_start r) (ar_end r))).
Proof. exact rigid_when_no_atom_moves. Qed.
Print Assumptions C06_rigid_when_no_atom_moves.

(* Atom order, count, names, residues and bonds of both molecules are unchanged: only positions are written. *)
Theorem C06_order_names :
  forall (sf : nat) (start end_ : amol R) (restr : option (list (Z * Z))) (deform : option (list Z))
         (ign autog : bool) (s : stream R (pdraw R (adraw R))) (fuel : nat) (r : align_result R),
    align_with cos sin sf start end_ restr deform ign autog s fuel = Ok r ->
    same_labels start (ar_start r) /\ same_labels end_ (ar_end r).
Proof. exact order_names. Qed.
Print Assumptions C06_order_names.

(* The shape of every successful call: start is first moved onto end's centre; then either the optimiser is not
   called at all (single-atom end molecule) and nothing else changes, or its result (for the mobile molecule as it
   is after that translation, with the bond table of that geometry and the budget sf * atoms) is written to the
   mobile molecule ONLY - to start iff start has fewer atoms than end - through the positions setter. *)
Theorem C06_write_back :
  forall (sf : nat) (start end_ : amol R) (restr : option (list (Z * Z))) (deform : option (list Z))
         (ign autog : bool) (s : stream R (pdraw R (adraw R))) (fuel : nat) (r : align_result R),
    align_with cos sin sf start end_ restr deform ign autog s fuel = Ok r ->
    exists start1,
      set_positions start (translate (am_pos start) (displacement start end_)) = Ok start1 /\
      am_len start1 = am_len start /\
      ((ar_start r = start1 /\ ar_end r = end_ /\ ar_args r = None /\ ar_trace r = []) \/
       exists oc final,
         ar_args r = Some (oc_args oc) /\
         run_opt cos sin oc s fuel = (ar_trace r, Ok final) /\
         ma_mobile (oc_args oc) = am_pos (mobile_of start end_ start1 end_) /\
         bonds_distance (ma_mobile (oc_args oc)) (am_adj (mobile_of start end_ start1 end_)) = Ok (ma_table (oc_args oc)) /\
         mapM kind_of (eff_deform start end_ deform) = Ok (oc_sim oc) /\
         ma_steps (oc_args oc) = (sf * length (ma_mobile (oc_args oc)))%nat /\
         mobile_of start end_
           (set_positions start1 final = Ok (ar_start r) /\ ar_end r = end_)
           (set_positions end_ final = Ok (ar_end r) /\ ar_start r = start1)).
Proof. exact run_shape. Qed.
Print Assumptions C06_write_back.

(* What the optimiser did (C09 and C07 tied in): every pass proposed, for the configuration held, a move of an
   enabled type that is a translation, a rotation about the centroid by a proper rotation, or
   find_atom_random_displ + move_mol_atom with the bond table of the starting geometry; the positions written back
   are the last accepted proposal (the starting geometry if none was accepted). *)
Theorem C06_optimiser_passes :
  forall (sf : nat) (start end_ : amol R) (restr : option (list (Z * Z))) (deform : option (list Z))
         (ign autog : bool) (s : stream R (pdraw R (adraw R))) (fuel : nat) (r : align_result R),
    align_with cos sin sf start end_ restr deform ign autog s fuel = Ok r ->
    forall a : min_args R, ar_args r = Some a ->
      Forall (fun st : step_rec R (list (V3 R)) =>
                (exists z, In z (eff_deform start end_ deform) /\ kind_of z = Ok (sr_kind st)) /\
                is_proposal (adraw R) (atom_move (ma_table a) (ma_sigma a)) (sr_kind st)
                            (held (sr_before st)) (sr_test st))
             (ar_trace r) /\
      am_pos (mobile_of start end_ (ar_start r) (ar_end r)) =
      Proofs.MC.last_accepted (list (V3 R)) (ma_mobile a) (ar_trace r).
Proof. exact optimiser_passes. Qed.
Print Assumptions C06_optimiser_passes.

(* The bond table handed to the optimiser IS the geometry it was computed from (Molecule.bonds_distance). *)
Theorem C06_table_is_geometry :
  forall (ps : list (V3 R)) (adj : list (list nat)) (tb : bond_table R),
    bonds_distance ps adj = Ok tb ->
    forall i j b, bonded tb i j b -> bond_len ps i j b.
Proof. exact table_is_geometry. Qed.
Print Assumptions C06_table_is_geometry.

(* ------------------------------------------------------------------ non-vacuity *)
(* a concrete pair (three atoms each: a tie, the end molecule is the mobile one; its bond graph is the chain
   0 - 1 - 2; one hydrogen in the start molecule, filtered; two restraints): the bond graph is a tree, the call
   returns, and [0; 1] is a selection without single-atom moves while the default selection has them *)
Example C06_nonvacuous_tree : tree_graph (am_adj ex_end) (am_len ex_end).
Proof. exact ex_tree. Qed.
Example C06_nonvacuous_run : exists r,
  align_with cos sin 0 ex_start ex_end (Some ex_restr) (Some [0%Z]) true true [] 0 = Ok r.
Proof. exact ex_run_ok. Qed.
(* the same pair with STEPS_FACTOR 1 (budget 3 passes without improvement) and a stream of three null
   translations: three passes are executed, each accepted as "equal measure", and the call returns *)
Example C06_nonvacuous_run_passes : exists r,
  align_with cos sin 1 ex_start ex_end (Some ex_restr) (Some [0%Z]) true true ex_stream3 3 = Ok r /\
  map sr_acc (ar_trace r) = [true; true; true] /\ map sr_kind (ar_trace r) = [0; 0; 0]%nat.
Proof. exact ex_run3_ok. Qed.
Example C06_nonvacuous_deform :
  eff_deform ex_start ex_end None = [0; 1; 2]%Z /\ ~ In 2%Z (eff_deform ex_start ex_end (Some [0; 1]%Z)).
Proof. exact ex_deform. Qed.
(* a complete run recorded from the implementation, executed on the binary64 instance of the same model:
   nine passes (single-atom moves then translations; accepted and rejected), the two bonds of the mobile
   molecule kept to 2^-40, the mobile molecule moved, names unchanged *)
Example C06_concrete_run_float :
  exf_summary = Some ([2; 2; 2; 2; 0; 0; 0; 0; 0]%nat,
                      [true; false; true; false; false; true; false; true; false], true, true, true).
Proof. exact exf_run_ok. Qed.
