(* C03 - Exchange map is local and shape-preserving under deformation.
   Statements only; proofs are in Proofs/ExchangeMapR.v.  T := R.
   ref' is an ARBITRARY new conformation of the reference (conf_ok g ref': one position per atom,
   >= 3 atoms, pairwise distinct), unrelated to the construction-time ref.
   The laws are stated with |s| (= s on the property's range s > 0). *)
From GM Require Import Proofs.RTac Model.Aux Proofs.AuxR Model.ExchangeMap Proofs.ExchangeMapL Proofs.ExchangeMapR
  Proofs.ExchangeMapEx.
Import ListNotations.
Local Open Scope R_scope.

(* each mapped atom lies at |s| times its construction-time distance from its anchor *)
Theorem C03_radius : forall g (ref tgt ref' : list (V3 R)) s db da m out k p,
  graph_wf g -> conf_ok g ref -> anchors g <> [] -> conf_ok g ref' ->
  build g ref tgt s db = Ok m -> apply m g ref' da = Ok out -> nth_error tgt k = Some p ->
  exists a ra ra' x, nth_error (em_equiv m) k = Some a /\ nth_error ref a = Some ra /\
    nth_error ref' a = Some ra' /\ nth_error out k = Some x /\
    vdist x ra' = Rabs s * vdist p ra.
Proof. exact em_radius. Qed.
Print Assumptions C03_radius.

(* atoms sharing an anchor keep their mutual distance times |s| *)
Theorem C03_cluster : forall g (ref tgt ref' : list (V3 R)) s db da m out j k pj pk a,
  graph_wf g -> conf_ok g ref -> anchors g <> [] -> conf_ok g ref' ->
  build g ref tgt s db = Ok m -> apply m g ref' da = Ok out ->
  nth_error tgt j = Some pj -> nth_error tgt k = Some pk ->
  nth_error (em_equiv m) j = Some a -> nth_error (em_equiv m) k = Some a ->
  exists xj xk, nth_error out j = Some xj /\ nth_error out k = Some xk /\
    vdist xj xk = Rabs s * vdist pj pk.
Proof. exact em_cluster. Qed.
Print Assumptions C03_cluster.

(* locality: for ANY map value m (not only one produced by build) and any two conformations of
   >= 3 atoms that agree at the anchor a of target atom k and at a's two lowest bonded atoms
   n1 < n2, the k-th results coincide exactly.  No hypothesis on the geometry. *)
Theorem C03_local : forall (m : emap R) g (ref' ref'' : list (V3 R)) da da' out' out'' k a l n1 n2,
  (3 <= length ref')%nat -> (3 <= length ref'')%nat ->
  apply m g ref' da = Ok out' -> apply m g ref'' da' = Ok out'' ->
  nth_error (em_equiv m) k = Some a -> In a (anchors g) ->
  nth_error g a = Some l -> lowest2 l = Some (n1, n2) ->
  nth_error ref' a = nth_error ref'' a -> nth_error ref' n1 = nth_error ref'' n1 ->
  nth_error ref' n2 = nth_error ref'' n2 ->
  nth_error out' k = nth_error out'' k.
Proof. exact em_local. Qed.
Print Assumptions C03_local.

(* lowest2 is "the two lowest bonded indices" (AtomTop.closest_atoms on a set of >= 2 indices) *)
Theorem C03_frame_atoms_meaning : forall l, NoDup l -> (2 <= length l)%nat ->
  exists n1 n2, lowest2 l = Some (n1, n2) /\ In n1 l /\ In n2 l /\ (n1 < n2)%nat /\
    forall y, In y l -> y = n1 \/ (n2 <= y)%nat.
Proof. exact lowest2_spec. Qed.
Print Assumptions C03_frame_atoms_meaning.

(* every anchor a map built by `build` uses is an atom with two bonds, so C03_local applies to it *)
Theorem C03_equiv_are_anchors : forall g (ref tgt : list (V3 R)) s db m a,
  graph_wf g -> conf_ok g ref -> anchors g <> [] ->
  build g ref tgt s db = Ok m -> In a (em_equiv m) -> In a (anchors g).
Proof. exact em_equiv_anchors. Qed.
Print Assumptions C03_equiv_are_anchors.

(* non-vacuity: construction on the collinear z-aligned chain, call on the bent chain *)
Example C03_nonvacuous_graph : graph_wf ex_g3.
Proof. exact ex_g3_wf. Qed.
Example C03_nonvacuous_ref : conf_ok ex_g3 ex_ref_z.
Proof. exact ex_ref_z_ok. Qed.
Example C03_nonvacuous_ref' : conf_ok ex_g3 ex_ref_bent.
Proof. exact ex_ref_bent_ok. Qed.
Example C03_nonvacuous_anchor : anchors ex_g3 <> [].
Proof. exact ex_g3_anchors. Qed.
