(* C01 - Exchange map reproduces the aligned target (anchor-and-scale law).
   Statements only; proofs are in Proofs/ExchangeMapL.v, Proofs/ExchangeMapR.v.  T := R.

   g    : bond graph, for every atom the collection of its bonded indices (graph_wf: no duplicate,
          no self bond, indices in range);
   ref  : reference positions, conf_ok g ref : one per atom, >= 3 atoms, pairwise distinct
          (no other condition: anchors exactly collinear with their neighbours, or parallel to a
          coordinate axis, are included);
   anchors g : the atoms with >= 2 bonds, in index order;  closest_to ref keys p a : a is a key at
          minimal distance from p and the lowest index among the equidistant ones;
   db, da : values returned by np.random.rand (not used for >= 3 atoms: universally quantified).
   A reference of >= 3 atoms with anchors g = [] makes the real code raise IndexError (model:
   Err EIndex); it is outside the property's domain (">= 1 atom with two bonds"). *)
From GM Require Import Proofs.RTac Model.Aux Proofs.AuxR Model.ExchangeMap Proofs.ExchangeMapL Proofs.ExchangeMapR
  Proofs.ExchangeMapEx.
From GM Require Import Gen.KernelsGen Proofs.KernelsGenEq.
Import ListNotations.
Local Open Scope R_scope.

(* The tie by translation: ExchangeMap._proyect_point and _restore_point as generated at this run from the
   CURRENT source text of gaddlemaps/_exchage_map.py (Gen/KernelsGen.v, harness/pytrans.py), applied to the
   frame stored for the anchor (origin, three row vectors), are the model's project / restore - for every
   Scalar instance.  (The frames themselves: C17_model_is_source_frame.) *)
Theorem C01_model_is_source_project : forall (T : Type) (H : Scalar T) (F : frame T) (p : V3 T) (s : T),
  proyect_point_gen (forig F) (fmat F) p s = Ok (project F p s).
Proof. exact (@proyect_point_gen_eq). Qed.
Print Assumptions C01_model_is_source_project.

Theorem C01_model_is_source_restore : forall (T : Type) (H : Scalar T) (F : frame T) (c : V3 T),
  restore_point_gen c (forig F) (fmat F) = Ok (restore F c).
Proof. exact (@restore_point_gen_eq). Qed.
Print Assumptions C01_model_is_source_restore.

(* construction succeeds, and the call succeeds on every conformation with distinct positions *)
Theorem C01_total : forall g (ref tgt : list (V3 R)) s db,
  graph_wf g -> conf_ok g ref -> anchors g <> [] ->
  exists m, build g ref tgt s db = Ok m /\
    forall ref' da, conf_ok g ref' ->
      exists out, apply m g ref' da = Ok out /\ length out = length tgt.
Proof. exact em_total. Qed.
Print Assumptions C01_total.

(* applied to the construction-time reference: target atom k (at p) goes to a + s (p - a), a the
   position of the closest anchor (ties: lowest index) *)
Theorem C01_anchor_scale : forall g (ref tgt : list (V3 R)) s db da m out k p,
  graph_wf g -> conf_ok g ref -> anchors g <> [] ->
  build g ref tgt s db = Ok m -> apply m g ref da = Ok out -> nth_error tgt k = Some p ->
  exists a ra, nth_error (em_equiv m) k = Some a /\ closest_to ref (anchors g) p a /\
    nth_error ref a = Some ra /\ nth_error out k = Some (vadd ra (vscale s (vsub p ra))).
Proof. exact em_anchor_scale. Qed.
Print Assumptions C01_anchor_scale.

(* s = 1: the target is reproduced exactly *)
Theorem C01_s1 : forall g (ref tgt : list (V3 R)) db da m,
  graph_wf g -> conf_ok g ref -> anchors g <> [] ->
  build g ref tgt 1 db = Ok m -> apply m g ref da = Ok tgt.
Proof. exact em_s1. Qed.
Print Assumptions C01_s1.

(* what closest_to says, spelled out: membership, minimality, tie rule *)
Theorem C01_closest_meaning : forall (ref : list (V3 R)) keys p a, closest_to ref keys p a ->
  In a keys /\ exists ra, nth_error ref a = Some ra /\
    forall b rb, In b keys -> nth_error ref b = Some rb ->
      vdist p ra <= vdist p rb /\ (vdist p ra = vdist p rb -> (a <= b)%nat).
Proof. exact (fun ref keys p a H => H). Qed.
Print Assumptions C01_closest_meaning.

(* the anchors are exactly the atoms with at least two bonds *)
Theorem C01_anchors_meaning : forall g a,
  In a (anchors g) <-> exists l, nth_error g a = Some l /\ (2 <= length l)%nat.
Proof. exact anchors_In. Qed.
Print Assumptions C01_anchors_meaning.

(* non-vacuity: the chain 0-1-2 at (0,0,0),(0,0,1),(0,0,2), exactly collinear and z-aligned
   (the input on which the code before the repair produced NaN) meets every hypothesis *)
Example C01_nonvacuous_graph : graph_wf ex_g3.
Proof. exact ex_g3_wf. Qed.
Example C01_nonvacuous_conf : conf_ok ex_g3 ex_ref_z.
Proof. exact ex_ref_z_ok. Qed.
Example C01_nonvacuous_anchor : anchors ex_g3 <> [].
Proof. exact ex_g3_anchors. Qed.
