(* C13 - Writing then reading a .gro file returns the same system.
   Statements only; proofs in Proofs/GroStr.v, GroCodecP.v, GroReadP.v, GroWriteP.v, GroMain.v.
   Model: Base/StrGro.v (Python string/number text), Model/GroCodec.v (line codec),
   Model/GroFile.v (writer state machine over a byte file with a cursor; reader).
   Decimal values are scaled integers (sign, mantissa, decimals), never floats. *)
From Coq Require Import List Ascii NArith ZArith Bool Arith Lia.

From GM Require Import Base.Res Base.StrGro Gen.SrcConsts Model.GroCodec Model.GroFile
  Proofs.GroStr Proofs.GroCodecP Proofs.GroReadP Proofs.GroWriteP Proofs.GroMain
  Gen.GroKernelsGen Proofs.GroKernelsGenEq Gen.AtomLineGen Proofs.AtomLineGenEq.
Import ListNotations.

(* '{:5d}' then int(): every number of at most five digits, in exactly five columns *)
Theorem fmt_int5_roundtrip : forall z : Z, (0 <= z < 100000)%Z ->
  py_int (lpad 5 (fmt_Z z)) = Ok z /\ length (lpad 5 (fmt_Z z)) = 5.
Proof. exact int5_roundtrip. Qed.
Print Assumptions fmt_int5_roundtrip.

(* '{:w.df}' then float(): a value that fits the field ([fits]: mantissa < 10^(w-1-sign)) comes
   back with the same sign (of zero too), mantissa and number of decimals, in exactly w columns *)
Theorem fmt_fixed_roundtrip : forall (w d : nat) (v : dec), 1 <= d -> d + 3 <= w -> fits w v ->
  parse_float (fmt_f w d v) = Ok (mkpdec (dneg v) (dmant v) d) /\ length (fmt_f w d v) = w.
Proof. exact fixed_roundtrip. Qed.
Print Assumptions fmt_fixed_roundtrip.

(* every atom line has 20 + 3w(1+vel) bytes: any residue/atom numbers (wrapped), any names
   (cut to five characters), coordinates and velocities that fit their field *)
Theorem C13_line_length : forall (w d : nat) (fv : bool) (r : grec) (line : bytes),
  parse_atomlist w d fv r = Ok line -> 1 <= d -> d + 4 <= w -> rec_fits w r ->
  length line = 20 + w * 3 * (1 + (if fv then 1 else 0)).
Proof. exact atomline_length. Qed.
Print Assumptions C13_line_length.

(* the two number fields of ANY written line (any integers, negative included) occupy exactly
   columns 0-5 and 15-20 and hold n mod 10^5; numbers of at most five digits are unchanged *)
Theorem C13_wrap : forall (w d : nat) (fv : bool) (r : grec) (line : bytes),
  parse_atomlist w d fv r = Ok line ->
  let f_res := firstn 5 line in
  let f_num := firstn 5 (skipn 15 line) in
  length f_res = 5 /\ length f_num = 5 /\
  py_int f_res = Ok (g_resnum r mod 100000)%Z /\ py_int f_num = Ok (g_anum r mod 100000)%Z /\
  ((0 <= g_resnum r < 100000)%Z -> py_int f_res = Ok (g_resnum r)) /\
  ((0 <= g_anum r < 100000)%Z -> py_int f_num = Ok (g_anum r)).
Proof. exact wrap_fields. Qed.
Print Assumptions C13_wrap.

(* The whole file.  [run_ok c w d vel recs] (Proofs/GroMain.v) is the domain of the property:
     the position format in force is (w, d) with 1 <= d and d + 4 <= w  (every (d+5, d) and the default),
     the title is the default one or any string without newline, the EMPTY string included (the title
     line is then a bare newline); the box is the default, a 3-vector or 9 entries,
     the count is declared equal to the number of records, or left to close() and below 10^9,
     the record list is non-empty; every record has names of 1-5 characters without whitespace,
     values that fit their fields, and all records have velocities or none has.
   Then the writer state machine (first-record set-up, count placeholder, records, back-fill by
   seek, box line) succeeds, and the reader on the bytes it produced returns: the title line, the
   number of records, every record with wrapped numbers, identical names and identical decimal
   values (d decimals for positions, d+1 for velocities), and the box decimals (3 numbers when all
   off-diagonal floats are zero, otherwise 9).  The size hypothesis excludes files of 2^62 bytes. *)
Theorem C13_roundtrip : forall (c : wconf) (w d : nat) (vel : bool) (recs : list grec),
  run_ok c w d vel recs ->
  exists f, write_gro c recs = Ok f /\
    ((Z.of_nat (length f) < SEEK_LIMIT)%Z ->
     read_gro f = Ok (mkrresult (title_of c ++ [NL]) (Z.of_nat (length recs))
                        (map (expected_atom d) recs) (expected_box (box_of (c_box c))))).
Proof. exact roundtrip. Qed.
Print Assumptions C13_roundtrip.

(* ---------------------------------------------------------------- the model is the source (DESIGN.md 4.6)
   Gen/GroKernelsGen.v is re-translated from the text of gaddlemaps/parsers/__init__.py at every run
   (harness/pytrans_str.py); these theorems state that what the source says now IS the model the theorems above
   are about: validate_string, _validate_res_atom_numbers (and its use by the line parser), determine_format,
   the wrap modulus of the two number fields, and the index permutations of the box line. *)
Theorem C13_model_is_source_validate_string : forall s : bytes,
  validate_string_gen s = Ok (validate_string s).
Proof. exact validate_string_gen_eq. Qed.
Print Assumptions C13_model_is_source_validate_string.

Theorem C13_model_is_source_wrap : WRAP = WRAP_RESNUM_GEN /\ WRAP = WRAP_ATOMNUM_GEN.
Proof. exact wrap_is_source. Qed.
Print Assumptions C13_model_is_source_wrap.

Theorem C13_model_is_source_numbers : forall (fmt : nat * bool) (line : bytes),
  parse_atomline_body fmt line =
  (let (w, vel) := fmt in
   let l := drop_final_nl line in
   if negb (length l =? 20 + w * 3 * (1 + (if vel then 1 else 0))) then Err EIO else
   let* nums := validate_res_atom_numbers_gen l in
   let* vals := mapM parse_float (chop_fields (if vel then 6 else 3) w (skipn 20 l)) in
   Ok (mkratom (fst nums) (strip_py (firstn 5 (skipn 5 l))) (strip_py (firstn 5 (skipn 10 l))) (snd nums) vals)).
Proof. exact parse_atomline_body_uses_gen. Qed.
Print Assumptions C13_model_is_source_numbers.

Theorem C13_model_is_source_format : forall line : bytes,
  determine_format_gen line =
  rmap (fun p : nat * bool => (Z.of_nat (fst p), (Z.of_nat (fst p) - 5)%Z, snd p)) (determine_format line).
Proof. exact determine_format_gen_eq. Qed.
Print Assumptions C13_model_is_source_format.

Theorem C13_model_is_source_box_dump : forall box : list bentry, length box = 9 ->
  dump_lattice_gro box =
  (let nv := map (fun i => nth i box bzero) LATTICE_INDEX_DUMP_GEN in
   let lim := if existsb b_nz (skipn 3 nv) then 9 else 3 in
   Ok (join_sp (map (fun e => fmt_f BOX_W BOX_D (b_dec e)) (firstn lim nv)))).
Proof. exact dump_lattice_uses_index. Qed.
Print Assumptions C13_model_is_source_box_dump.

Theorem C13_model_is_source_box_extract : forall line : bytes,
  extract_lattice_gro line =
  (let* vals := mapM parse_float (firstn 9 (split_ws line)) in
   Ok (scatter pzero LATTICE_INDEX_EXTRACT_GEN vals)).
Proof. exact extract_lattice_uses_index. Qed.
Print Assumptions C13_model_is_source_box_extract.

(* the whole line parser of the reader, GroFile.parse_atomline, as the source says it now (harness/pytrans_atomline.py ->
   Gen/AtomLineGen.v, for a given format of non-negative width): final newline, length test, number fields, names from
   columns 5-10 and 10-15, three or six fixed-width floats - equal to the model's parse_atomline on every line *)
Theorem C13_model_is_source_atomline : forall (line : bytes) (w d : nat) (vel : bool),
  parse_atomline_gen line (w, d, vel) =
  rmap (fun a : ratom => (a_resnum a, a_resname a, a_aname a, a_anum a, a_vals a)) (parse_atomline (w, vel) line).
Proof. exact parse_atomline_gen_eq. Qed.
Print Assumptions C13_model_is_source_atomline.

(* ---------------------------------------------------------------- non-vacuity *)
Local Open Scope char_scope.
Definition ex_rec1 : grec :=
  mkgrec 100001 ["S"; "O"; "L"] ["O"; "W"] 99999
         (mkdec false 1234, mkdec true 999999, mkdec true 0) (Some (mkdec false 5, mkdec true 12345, mkdec false 0)).
Definition ex_rec2 : grec :=
  mkgrec 7 ["e"; "5"] ["1"; "2"] 200000
         (mkdec false 9999999, mkdec false 0, mkdec true 1) (Some (mkdec true 999999, mkdec false 1, mkdec false 2)).
Definition ex_conf : wconf :=
  mkwconf (Some ["t"; "i"; "t"; " "; "l"; "e"]) None None
          (BoxMat [mkbentry (mkdec false 300000) true; bzero; bzero;
                   mkbentry (mkdec true 50000) true; mkbentry (mkdec false 300000) true; bzero;
                   bzero; mkbentry (mkdec true 0) false; mkbentry (mkdec false 300000) true]).

Example C13_nonvacuous_domain : run_ok ex_conf 8 3 true [ex_rec1; ex_rec2].
Proof.
  constructor; try reflexivity; try (simpl; lia); try discriminate.
  - repeat constructor; simpl; try lia; try reflexivity.
Qed.

(* the conclusion on that run, by evaluation of the model *)
Example C13_nonvacuous_run :
  match write_gro ex_conf [ex_rec1; ex_rec2] with
  | Ok f => read_gro f = Ok (mkrresult (title_of ex_conf ++ [NL]) 2
                               (map (expected_atom 3) [ex_rec1; ex_rec2]) (expected_box (box_of (c_box ex_conf))))
  | Err _ => False
  end.
Proof. vm_compute. reflexivity. Qed.

Example C13_nonvacuous_fits : fits 8 (mkdec true 999999) /\ fits 8 (mkdec false 9999999) /\ ~ fits 8 (mkdec true 1000000).
Proof. unfold fits. simpl. repeat split; try (vm_compute; reflexivity). vm_compute. discriminate. Qed.

(* the empty title is in the domain; its file starts with a bare newline and reads back as such *)
Definition ex_conf_empty : wconf := mkwconf (Some []) (Some 2%Z) None BoxDefault.
Example C13_nonvacuous_empty_title :
  run_ok ex_conf_empty 8 3 true [ex_rec1; ex_rec2] /\
  match write_gro ex_conf_empty [ex_rec1; ex_rec2] with
  | Ok f => hd_error f = Some NL /\ rmap r_comment (read_gro f) = Ok [NL]
  | Err _ => False
  end.
Proof.
  split.
  - constructor; try reflexivity; try (simpl; lia); try discriminate.
    repeat constructor; simpl; try lia; try reflexivity.
  - vm_compute. split; reflexivity.
Qed.

(* the translated kernels on concrete text: a six-character name is cut, a 44-column line has format (8, 3, no velocities) *)
Example C13_nonvacuous_gen :
  validate_string_gen ["A"; "B"; "C"; "D"; "E"; "F"] = Ok ["A"; "B"; "C"; "D"; "E"] /\
  determine_format_gen GenExamples.ex_line_novel = Ok (8%Z, 3%Z, false) /\
  validate_res_atom_numbers_gen GenExamples.ex_line_nums = Ok (12%Z, 34%Z) /\
  validate_res_atom_numbers_gen GenExamples.ex_line_badnum = Err EIO.
Proof. vm_compute. repeat split; reflexivity. Qed.
