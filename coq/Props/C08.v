(* C08 - the overlap measure chi2 equals its reference definition for all restraint sets.
   Statements only; proofs are in Proofs/Chi2R.v, Chi2Rigid.v, Chi2Relabel.v, Chi2RelabelFixed.v.  T := R.
   chi2_eval fixed mobile0 restr mobile  models  Chi2Calculator(fixed, mobile0, restr)(mobile);
   chi2_spec is the sentence of the property (Model/Chi2.v).  Restraint indices are naturals
   (numpy's wrap-around of negative indices is outside the model). *)
From GM Require Import Proofs.RTac Model.Chi2 Proofs.Chi2Lists Proofs.Chi2R Proofs.Chi2Rigid Proofs.Chi2Relabel
  Proofs.Chi2RelabelFixed.
From Coq Require Import Permutation.
From GM Require Import Gen.Chi2Gen Proofs.Chi2GenEq.
Import ListNotations.
Local Open Scope R_scope.

(* The tie by translation: the four methods that EVALUATE the measure (chi2_molecules,
   _chi2_molecules_restrains_contrib, _chi2_molecules_only_restrains, _chi2_molecules_with_restrains), as generated
   at this run from the CURRENT source text of gaddlemaps/_backend.py (Gen/Chi2Gen.v, harness/pytrans_arr.py; numpy's
   cdist / min / argmin / sum / fancy indexing / set keep their hand-written models), are the model's three paths -
   for every Scalar instance and every calculator state.  The constructor is tied by K only. *)
Theorem C08_model_is_source_none : forall (T : Type) (H : Scalar T) (c : chi2_calc T) (mobile : list (V3 T)),
  chi2_molecules_gen (c_mol1 c) mobile = chi2_none c mobile.
Proof. exact (@chi2_molecules_gen_eq). Qed.
Print Assumptions C08_model_is_source_none.

Theorem C08_model_is_source_only : forall (T : Type) (H : Scalar T) (c : chi2_calc T) (mobile : list (V3 T)),
  only_restrains_gen (c_mol1_r c) (c_restr2 c) (c_fact c) mobile = chi2_only c mobile.
Proof. exact (@only_restrains_gen_eq). Qed.
Print Assumptions C08_model_is_source_only.

Theorem C08_model_is_source_with : forall (T : Type) (H : Scalar T) (c : chi2_calc T) (mobile : list (V3 T)),
  with_restrains_gen (c_mol1_r c) (c_restr2 c) (c_notr c) (c_set2 c) (Z.of_nat (c_len2 c)) mobile
  = chi2_with c mobile.
Proof. exact (@with_restrains_gen_eq). Qed.
Print Assumptions C08_model_is_source_with.

(* All fixed/mobile lists with at least one mobile atom, every restraint list with indices in range
   (empty, partial, duplicated, complete), every evaluation configuration `mobile` with the
   construction-time number of atoms - in particular one different from `mobile0`: the calculator
   returns a value and it is the reference value. *)
Theorem C08_equals_spec : forall (fixed mobile0 mobile : list (V3 R)) (restr : list (nat * nat)),
  mobile <> [] -> length mobile = length mobile0 ->
  (forall i j, In (i, j) restr -> (i < length fixed)%nat /\ (j < length mobile)%nat) ->
  exists v, chi2_eval fixed mobile0 restr mobile = Ok v /\ chi2_spec fixed mobile restr = Ok v.
Proof. exact chi2_equals_spec. Qed.
Print Assumptions C08_equals_spec.

(* Whichever of the three methods was selected at construction, it returns what the general
   with-restraints formula returns on the same calculator; in particular the no-restraint method
   (empty list) and the only-restraints method (every fixed atom restrained) agree with it. *)
Theorem C08_path_independent : forall (fixed mobile0 mobile : list (V3 R)) restr c,
  chi2_make fixed mobile0 restr = Ok c ->
  mobile <> [] -> length mobile = length mobile0 ->
  chi2_call c mobile = chi2_with c mobile /\
  (restr = [] -> chi2_none c mobile = chi2_with c mobile) /\
  ((forall i, (i < length fixed)%nat -> In i (map fst restr)) -> restr <> [] ->
     chi2_only c mobile = chi2_with c mobile).
Proof. exact chi2_path_independent. Qed.
Print Assumptions C08_path_independent.

(* no hypothesis at all: whenever a value is returned it is non-negative *)
Theorem C08_nonneg : forall (fixed mobile0 mobile : list (V3 R)) restr v,
  chi2_eval fixed mobile0 restr mobile = Ok v -> 0 <= v.
Proof. exact chi2_nonneg. Qed.
Print Assumptions C08_nonneg.

(* a common isometry p -> Q p + t (Q orthogonal, reflections included) of the fixed molecule, of the
   construction-time and of the evaluation configuration changes nothing: same value, same error *)
Theorem C08_rigid_invariant : forall (Q : M3 R) (t : V3 R) (fixed mobile0 : list (V3 R)) restr (mobile : list (V3 R)),
  orthogonal Q ->
  chi2_eval (map (rigid Q t) fixed) (map (rigid Q t) mobile0) restr (map (rigid Q t) mobile)
  = chi2_eval fixed mobile0 restr mobile.
Proof. exact chi2_rigid_invariant. Qed.
Print Assumptions C08_rigid_invariant.

(* Consistent relabelling of the mobile atoms (new label s j for atom j, restraints relabelled) leaves
   the value unchanged WHEN every unrestrained fixed atom has a unique nearest mobile atom. *)
Theorem C08_relabel : forall (fixed mobile0 mobile mobile0' mobile' : list (V3 R)) restr (s : nat -> nat),
  relabelling s mobile mobile' -> length mobile0' = length mobile0 ->
  mobile <> [] -> length mobile = length mobile0 ->
  (forall i j, In (i, j) restr -> (i < length fixed)%nat /\ (j < length mobile)%nat) ->
  unique_nearest fixed mobile restr ->
  chi2_eval fixed mobile0' (map (fun ij => (fst ij, s (snd ij))) restr) mobile'
  = chi2_eval fixed mobile0 restr mobile.
Proof. exact chi2_relabel. Qed.
Print Assumptions C08_relabel.

(* Consistent relabelling of the fixed atoms (new label t i for atom i), restraints relabelled and
   listed in any order: the value is unchanged, ties or not. *)
Theorem C08_relabel_fixed : forall (fixed fixed' mobile0 mobile : list (V3 R)) restr restr' (t : nat -> nat),
  relabelling t fixed fixed' ->
  Permutation restr' (map (fun ij => (t (fst ij), snd ij)) restr) ->
  mobile <> [] -> length mobile = length mobile0 ->
  (forall i j, In (i, j) restr -> (i < length fixed)%nat /\ (j < length mobile)%nat) ->
  chi2_eval fixed' mobile0 restr' mobile = chi2_eval fixed mobile0 restr mobile.
Proof. exact chi2_relabel_fixed. Qed.
Print Assumptions C08_relabel_fixed.

(* ... and the hypothesis of C08_relabel is needed: with two equidistant mobile atoms the first-arg-min rule makes
   k depend on the labels (the real code returns 2.2 and 2.0 on these two inputs) *)
Example C08_relabel_needs_unique :
  let fixed := [mk3 0 0 0; mk3 2 0 0] in
  let mobile := [mk3 1 0 0; mk3 (-1) 0 0] in
  let mobile' := [mk3 (-1) 0 0; mk3 1 0 0] in
  let s := fun j : nat => (1 - j)%nat in
  relabelling s mobile mobile' /\
  chi2_eval fixed mobile [] mobile = Ok (2 * (11 / 10)) /\
  chi2_eval fixed mobile' [] mobile' = Ok 2.
Proof. exact relabel_counterexample. Qed.

(* non-vacuity: a concrete input with a partial, duplicated restraint list, evaluated on a
   configuration different from the construction one, meets every hypothesis above (two restrained
   pairs 10 + 1, two unrestrained fixed atoms 2 + 2, one mobile atom left alone: k = 1) *)
Example C08_nonvacuous :
  let fixed := [mk3 0 0 0; mk3 1 0 0; mk3 2 0 0] in
  let mobile0 := [mk3 9 9 9; mk3 8 8 8; mk3 7 7 7] in
  let mobile := [mk3 0 0 1; mk3 3 0 1; mk3 9 9 9] in
  let restr := [(0, 1); (0, 0)]%nat in
  mobile <> mobile0 /\ mobile <> [] /\ length mobile = length mobile0 /\
  (forall i j, In (i, j) restr -> (i < length fixed)%nat /\ (j < length mobile)%nat) /\
  unique_nearest fixed mobile restr /\
  chi2_eval fixed mobile0 restr mobile = Ok ((10 + 1 + 2 + 2) * (11 / 10)).
Proof. exact chi2_nonvacuous. Qed.
