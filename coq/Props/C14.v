(* C14 - Incomplete or truncated .gro output is never accepted as a valid system.
   Statements only; proofs in Proofs/Gro*.v.  Same model as C13. *)
From Coq Require Import List Ascii NArith ZArith Bool Arith Lia.
From GM Require Import Base.Res Base.StrGro Gen.SrcConsts Model.GroCodec Model.GroFile
  Proofs.GroStr Proofs.GroCodecP Proofs.GroReadP Proofs.GroWriteP Proofs.GroMain Proofs.GroPrefixP Proofs.GroFailClose
  Gen.GroKernelsGen Proofs.GroKernelsGenEq Gen.AtomLineGen Proofs.AtomLineGenEq.
Import ListNotations.

(* Crash points at operation granularity.  The operations of a run are
     write_ops recs = OpRec r1; ...; OpRec rn; OpCount; OpSeek; OpBox
   (writeline per record - the first one also writes title and count line -, then the file
   operations of close(): count check / seek + back-fill of the count, seek_atom(natoms), and ONE
   write of the box text together with its end of line).
   For every run in the domain of C13 and EVERY PROPER PREFIX of its operation list - before each
   record (j = 0 is the empty file that open() created), before close (j = n), after the count
   step (n + 1), after the seek (n + 2) - the bytes on disk are rejected by the reader with
   IOError:  count not declared: the count line is blank until the back-fill and int() fails;
   declared or back-filled: seek_atom(natoms) lands at or beyond the end of the file and
   readline() returns ''. *)
Theorem C14_crash_points : forall (c : wconf) (w d : nat) (vel : bool) (recs : list grec),
  run_ok c w d vel recs ->
  exists f, write_gro c recs = Ok f /\
    ((Z.of_nat (length f) < SEEK_LIMIT)%Z ->
     forall j, j < length (write_ops recs) ->
       exists fj, file_after c (firstn j (write_ops recs)) = Ok fj /\ read_gro fj = Err EIO).
Proof. exact crash_points. Qed.
Print Assumptions C14_crash_points.

(* "Part-way through closing" with a close() that FAILS: the count was announced as N, fewer than N
   records were written (none included) and close() was reached.  [file_left c ops] = (bytes on disk in the
   last good state, exception): close raises IOError in its count check, before any seek or write, and the
   file it leaves is rejected by the reader (empty file, or the box seek lands beyond the end of the data).
   More records than announced: see C14_overfull_refused below. *)
Theorem C14_failing_close : forall (c : wconf) (w d : nat) (vel : bool) (recs : list grec) (N : Z),
  wd_of c = (w, d) -> 1 <= d -> d + 4 <= w -> title_ok c -> box_ok (c_box c) ->
  Forall (rec_ok w vel) recs ->
  c_natoms c = Some N -> (Z.of_nat (length recs) < N)%Z ->
  exists f, file_left c (write_ops recs) = Ok (f, Some EIO) /\
    ((Z.of_nat (length f) + N * Z.of_nat (line_len w vel + 1) < SEEK_LIMIT)%Z -> read_gro f = Err EIO).
Proof. exact failing_close. Qed.
Print Assumptions C14_failing_close.

(* D18.  More records than announced cannot reach the file: once the announced count N is on disk, writeline
   refuses the next record with IOError and writes nothing ([w_record]: count_reached).  For every run of the
   domain with the count announced (N = number of records) and ANY continuation of its record writes by a further
   record and further operations, the run stops at that record with IOError and leaves the N records without
   box line - the crash point "before close" of C14_crash_points -, which the reader rejects.  Together with
   C14_crash_points and C14_failing_close: no history of writer operations leaves an accepted file except a
   close() that completed. *)
Theorem C14_overfull_refused : forall (c : wconf) (w d : nat) (vel : bool) (recs : list grec)
                                      (extra : grec) (more : list wop),
  run_ok c w d vel recs -> c_natoms c = Some (Z.of_nat (length recs)) ->
  exists f0, write_gro c recs = Ok f0 /\
    ((Z.of_nat (length f0) < SEEK_LIMIT)%Z ->
     exists f, file_left c (map OpRec recs ++ OpRec extra :: more) = Ok (f, Some EIO) /\
               read_gro f = Err EIO).
Proof. exact overfull_refused. Qed.
Print Assumptions C14_overfull_refused.

(* [rejected r]: r = Err e with e <> EType, i.e. a definite exception of the reader (IOError,
   IndexError or ValueError), never the model's "text outside the modelled subset" verdict.

   Byte level.  The complete file is  pre ++ boxline ++ [NL]  where boxline is the text
   dump_lattice_gro gives for the box; every prefix of k <= |pre| bytes - every truncation that
   ends at or before the first byte of the box line - is rejected: cut in the title (no count
   line: int('') fails), in the count line (int() fails, or the atom line is ''), in the first
   atom line (the inferred line size b' <= b still gives init + n b' >= k, readline() = ''),
   later (init + n b = start of the box line >= k). *)
Theorem C14_byte_prefix : forall (c : wconf) (w d : nat) (vel : bool) (recs : list grec),
  run_ok c w d vel recs ->
  exists pre boxline,
    write_gro c recs = Ok (pre ++ boxline ++ [NL]) /\
    dump_lattice_gro (box_of (c_box c)) = Ok boxline /\
    ((Z.of_nat (length (pre ++ boxline ++ [NL])) < SEEK_LIMIT)%Z ->
     forall k, k <= length pre -> rejected (read_gro (firstn k (pre ++ boxline ++ [NL])))).
Proof. exact byte_prefix. Qed.
Print Assumptions C14_byte_prefix.

(* any byte prefix that IS accepted (it then ends inside or after the box line) returns exactly
   the atom records of the complete file (the records that were written, numbers wrapped) *)
Theorem C14_accepted_same_atoms : forall (c : wconf) (w d : nat) (vel : bool) (recs : list grec),
  run_ok c w d vel recs ->
  exists f, write_gro c recs = Ok f /\
    ((Z.of_nat (length f) < SEEK_LIMIT)%Z ->
     forall k r, read_gro (firstn k f) = Ok r ->
       r_atoms r = map (expected_atom d) recs /\
       exists rf, read_gro f = Ok rf /\ r_atoms r = r_atoms rf).
Proof. exact accepted_same. Qed.
Print Assumptions C14_accepted_same_atoms.

(* ---------------------------------------------------------------- the model is the source (DESIGN.md 4.6)
   the two text kernels the READER's accept/reject decision rests on, re-translated from the current text of
   gaddlemaps/parsers/__init__.py at every run (harness/pytrans_str.py -> Gen/GroKernelsGen.v): the format
   detection on the first atom line and the number fields of every atom line *)
Theorem C14_model_is_source_format : forall line : bytes,
  determine_format_gen line =
  rmap (fun p : nat * bool => (Z.of_nat (fst p), (Z.of_nat (fst p) - 5)%Z, snd p)) (determine_format line).
Proof. exact determine_format_gen_eq. Qed.
Print Assumptions C14_model_is_source_format.

Theorem C14_model_is_source_numbers : forall (fmt : nat * bool) (line : bytes),
  parse_atomline_body fmt line =
  (let (w, vel) := fmt in
   let l := drop_final_nl line in
   if negb (length l =? 20 + w * 3 * (1 + (if vel then 1 else 0))) then Err EIO else
   let* nums := validate_res_atom_numbers_gen l in
   let* vals := mapM parse_float (chop_fields (if vel then 6 else 3) w (skipn 20 l)) in
   Ok (mkratom (fst nums) (strip_py (firstn 5 (skipn 5 l))) (strip_py (firstn 5 (skipn 10 l))) (snd nums) vals)).
Proof. exact parse_atomline_body_uses_gen. Qed.
Print Assumptions C14_model_is_source_numbers.

(* the whole line parser of the reader, GroFile.parse_atomline, as the source says it now (harness/pytrans_atomline.py ->
   Gen/AtomLineGen.v, for a given format of non-negative width): final newline, length test, number fields, names from
   columns 5-10 and 10-15, three or six fixed-width floats - equal to the model's parse_atomline on every line *)
Theorem C14_model_is_source_atomline : forall (line : bytes) (w d : nat) (vel : bool),
  parse_atomline_gen line (w, d, vel) =
  rmap (fun a : ratom => (a_resnum a, a_resname a, a_aname a, a_anum a, a_vals a)) (parse_atomline (w, vel) line).
Proof. exact parse_atomline_gen_eq. Qed.
Print Assumptions C14_model_is_source_atomline.

(* ---------------------------------------------------------------- non-vacuity *)
Local Open Scope char_scope.
Definition ex_rec (k : Z) : grec :=
  mkgrec k ["S"; "O"; "L"] ["O"; "W"] k (mkdec false 1234, mkdec true 999999, mkdec true 0) None.
Definition ex_conf (declared : bool) : wconf :=
  mkwconf None (if declared then Some 3%Z else None) (Some (10, 5)) (BoxVec (mkbentry (mkdec false 100000) true)
          (mkbentry (mkdec false 200000) true) (mkbentry (mkdec false 300000) true)).

Example C14_nonvacuous_domain : forall b, run_ok (ex_conf b) 10 5 false [ex_rec 1; ex_rec 2; ex_rec 3].
Proof.
  intros b. constructor; try reflexivity; try (simpl; lia); try discriminate.
  - destruct b; vm_compute; reflexivity.
  - repeat constructor; simpl; try lia; try reflexivity.
Qed.

(* every prefix of the operation lists of the two runs, by evaluation: the six proper prefixes
   are rejected, the complete run (j = 6) is accepted *)
Example C14_nonvacuous_run : forall b,
  length (write_ops [ex_rec 1; ex_rec 2; ex_rec 3]) = 6 /\
  map (fun j => match file_after (ex_conf b) (firstn j (write_ops [ex_rec 1; ex_rec 2; ex_rec 3])) with
                | Ok f => is_ok (read_gro f) | Err _ => true end) [0; 1; 2; 3; 4; 5; 6]
  = [false; false; false; false; false; false; true].
Proof. intros [|]; vm_compute; split; reflexivity. Qed.

(* every byte prefix of the complete file of the undeclared run: rejected up to the start of the
   box line (byte 218), and the accepted ones return the three records *)
Example C14_nonvacuous_prefixes :
  match write_gro (ex_conf false) [ex_rec 1; ex_rec 2; ex_rec 3] with
  | Ok f =>
      forallb (fun k => negb (is_ok (read_gro (firstn k f)))) (seq 0 219) = true /\
      existsb (fun k => is_ok (read_gro (firstn k f))) (seq 219 30) = true
  | Err _ => False
  end.
Proof. vm_compute. split; reflexivity. Qed.

(* announced 3, wrote 2 (and 0): close fails with IOError and the file left is rejected; announced 3 and
   wrote 3: close succeeds *)
Example C14_nonvacuous_failing_close :
  (forall k, In k [0; 1; 2] ->
     match file_left (ex_conf true) (write_ops (firstn k [ex_rec 1; ex_rec 2; ex_rec 3])) with
     | Ok (f, Some EIO) => is_ok (read_gro f) = false
     | _ => False
     end) /\
  match file_left (ex_conf true) (write_ops [ex_rec 1; ex_rec 2; ex_rec 3]) with
  | Ok (f, None) => is_ok (read_gro f) = true
  | _ => False
  end.
Proof.
  split.
  - intros k [<-|[<-|[<-|[]]]]; vm_compute; reflexivity.
  - vm_compute. reflexivity.
Qed.

(* the D18 witness: announced 1, a second record made of numeric tokens only ('1e5' names, velocities).  The
   second writeline is refused, the file left holds one record and no box line, and is rejected; a with block
   that then closes the file leaves the complete one-atom file *)
Definition d18_conf : wconf :=
  mkwconf None (Some 1%Z) None (BoxVec (mkbentry (mkdec false 300000) true)
          (mkbentry (mkdec false 400000) true) (mkbentry (mkdec false 500000) true)).
Definition d18_rec1 : grec :=
  mkgrec 1 ["S"; "O"; "L"] ["O"; "W"] 1 (mkdec false 100, mkdec false 200, mkdec false 300)
         (Some (mkdec false 100, mkdec false 200, mkdec false 300)).
Definition d18_rec2 : grec :=
  mkgrec 1 ["1"; "e"; "5"] ["1"; "e"; "5"] 2 (mkdec false 400, mkdec false 500, mkdec false 600)
         (Some (mkdec false 400, mkdec false 500, mkdec false 600)).
Example C14_d18_witness :
  match file_left d18_conf (write_ops [d18_rec1; d18_rec2]) with
  | Ok (f, Some EIO) => read_gro f = Err EIO /\ Ok f = file_after d18_conf [OpRec d18_rec1]
  | _ => False
  end /\
  run_ok d18_conf 8 3 true [d18_rec1] /\ c_natoms d18_conf = Some (Z.of_nat (length [d18_rec1])).
Proof.
  split; [vm_compute; split; reflexivity|]. split; [|reflexivity].
  constructor; try reflexivity; try (simpl; lia); try discriminate.
  repeat constructor; simpl; try lia; try reflexivity.
Qed.
