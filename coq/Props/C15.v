(* C15 - Topology reader yields exactly the file's atoms and bond graph.
   Statements only; proofs in Proofs/TopologyGraph.v, TopHeapProofs.v, TopologyParse.v.
   Everything here is discrete: each theorem is closed under the global context (no axioms). *)
From Coq Require Import List Arith ZArith Sorted.
From GM Require Import Base.Res Base.StrItp Model.Itp Model.Topology Model.TopHeap
  Proofs.TopologyGraph Proofs.TopHeapProofs.
Import ListNotations.

(* Bond graph after MoleculeTop.__init__: for every atom position i the bonds set is duplicate-free and
   contains j exactly when (i,j) or (j,i) is a listed pair (so a self entry only if (i,i) is listed). *)
Theorem C15_graph : forall (name : str) (infos : list atom_info) (bonds : list (nat * nat)),
  (forall b, In b bonds -> fst b < List.length infos /\ snd b < List.length infos) ->
  exists atoms, molecule_top (name, infos, bonds) = Ok (name, atoms) /\ List.length atoms = List.length infos /\
    forall i info, nth_error infos i = Some info ->
      exists a, nth_error atoms i = Some a /\ at_name a = fst (fst info) /\ at_resname a = snd (fst info) /\
        at_resid a = snd info /\ at_index a = i /\ StronglySorted lt (at_bonds a) /\
        (forall j, In j (at_bonds a) <-> (In (i, j) bonds \/ In (j, i) bonds)).
Proof. exact molecule_top_graph. Qed.
Print Assumptions C15_graph.

Theorem C15_graph_symmetric : forall (name name' : str) (infos : list atom_info) (bonds : list (nat * nat))
    (atoms : list atomtop),
  (forall b, In b bonds -> fst b < List.length infos /\ snd b < List.length infos) ->
  molecule_top (name, infos, bonds) = Ok (name', atoms) ->
  (forall i j a b, nth_error atoms i = Some a -> nth_error atoms j = Some b ->
     (In j (at_bonds a) <-> In i (at_bonds b))) /\ adj_wf (adj_of atoms).
Proof. exact molecule_top_symmetric. Qed.
Print Assumptions C15_graph_symmetric.

(* are_connected (the iterative walk; the fuel S (S (number of directed edges)) always suffices) answers
   true exactly when every atom is reachable from atom 0, for EVERY adjacency (any size, any iteration
   order of the bond sets, duplicates, self loops). *)
Theorem C15_connected : forall adj, adj <> [] -> adj_wf adj ->
  exists b, are_connected adj = Ok b /\ (b = true <-> graph_connected adj).
Proof. exact are_connected_correct. Qed.
Print Assumptions C15_connected.

Theorem C15_connected_empty : are_connected [] = Err EIndex.
Proof. exact are_connected_empty. Qed.
Print Assumptions C15_connected_empty.

(* MoleculeTop.copy in the heap model: the copy has the same deep value, is == in both directions, ... *)
Theorem C15_copy_equal : forall h m v, view h m = Ok v ->
  exists m' h', mol_copy h m = Ok (m', h') /\ view h' m' = Ok v /\ view h' m = Ok v /\
    mol_eq h' m m' = Ok true /\ mol_eq h' m' m = Ok true.
Proof. exact copy_view_equal. Qed.
Print Assumptions C15_copy_equal.

(* ... lives entirely in newly allocated cells (no mutable cell is shared with the original), ... *)
Theorem C15_copy_fresh : forall h m v, view h m = Ok v ->
  exists m' h' fp fp', mol_copy h m = Ok (m', h') /\
    footprint h' m' = Ok fp' /\ (forall l, In l fp' -> List.length h <= l) /\
    footprint h m = Ok fp /\ footprint h' m = Ok fp /\ (forall l, In l fp -> l < List.length h) /\
    (forall l, In l fp -> ~ In l fp') /\ m' <> m.
Proof. exact copy_fresh. Qed.
Print Assumptions C15_copy_fresh.

(* ... and arbitrary writes into cells of the copy never change the original, and vice versa. *)
Theorem C15_copy_independent : forall h m v m' h', view h m = Ok v -> mol_copy h m = Ok (m', h') ->
  (forall ws, (forall w, In w ws -> List.length h <= fst w) -> view (stores ws h') m = Ok v) /\
  (forall ws, (forall w, In w ws -> fst w < List.length h) -> view (stores ws h') m' = Ok v).
Proof. exact copy_independent_both. Qed.
Print Assumptions C15_copy_independent.

(* non-vacuity: a 3-atom chain is a well-formed non-empty adjacency, and it is connected *)
Example C15_nonvacuous_chain : are_connected [[1]; [0; 2]; [1]] = Ok true.
Proof. reflexivity. Qed.
Example C15_nonvacuous_cut : are_connected [[1]; [0]; []] = Ok false.
Proof. reflexivity. Qed.
