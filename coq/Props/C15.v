(* C15 - Topology reader yields exactly the file's atoms and bond graph.
   Statements only; proofs in Proofs/TopologyGraph.v, TopHeapProofs.v, TopologyParse.v.
   Everything here is discrete: each theorem is closed under the global context (no axioms). *)
From Coq Require Import List Arith ZArith Sorted.
From GM Require Import Base.Res Base.StrItp Model.Itp Model.Topology Model.TopHeap
  Proofs.ItpSpec Proofs.TopologyGraph Proofs.TopHeapProofs Proofs.TopologyParse Proofs.TopologyExample Proofs.TopologyLoad.
From GM Require Import Gen.ItpGen Proofs.ItpGenEq Gen.WalkGen Proofs.WalkGenEq.
Import ListNotations.

(* Reading.  `file_denotes ls t` (Proofs/TopologyParse.v) says that the lines ls CARRY the topology t under any
   decoration: sections moleculetype / atoms / bonds / constraints / pairs in any order and any number of
   occurrences, other sections of plain kind, header text, comment, blank and preprocessor lines anywhere,
   any white space, trailing comments, any spelling of the integers that int() accepts; t lists the atoms
   (number, name, residue name, residue number) and the numbered pairs of the three bond sections.
   Then read_topology returns the name, the atoms in file order and the pairs of constraints, bonds, pairs
   (in that order) translated to the 0-based positions of the atoms carrying those numbers.
   Domain: ASCII text, pairwise distinct atom numbers (strictly increasing in particular), every pair
   refers to listed numbers, no section literally named 'header'. *)
Theorem C15_parse_render : forall text t,
  file_denotes (lines text) t ->
  ts_atoms t <> [] -> NoDup (map as_nr (ts_atoms t)) ->
  (forall b, In b (ts_cons t ++ ts_bonds t ++ ts_pairs t) ->
     In (fst b) (map as_nr (ts_atoms t)) /\ In (snd b) (map as_nr (ts_atoms t))) ->
  exists bonds,
    read_topology text = Ok (ts_name t, map info_of (ts_atoms t), bonds) /\
    Forall2 (bond_at (map as_nr (ts_atoms t))) (ts_cons t ++ ts_bonds t ++ ts_pairs t) bonds /\
    (forall b, In b bonds -> fst b < List.length (ts_atoms t) /\ snd b < List.length (ts_atoms t)).
Proof. exact read_topology_render. Qed.
Print Assumptions C15_parse_render.

(* End to end (reader + MoleculeTop.__init__): under the same hypotheses the loaded molecule has the atoms of
   the file in order (name, residue name, residue number, index = position) and atom j is in the bonds set of
   atom i exactly when some listed pair names the numbers of atoms i and j, in either orientation. *)
Theorem C15_load : forall text t,
  file_denotes (lines text) t ->
  ts_atoms t <> [] -> NoDup (map as_nr (ts_atoms t)) ->
  (forall b, In b (ts_cons t ++ ts_bonds t ++ ts_pairs t) ->
     In (fst b) (map as_nr (ts_atoms t)) /\ In (snd b) (map as_nr (ts_atoms t))) ->
  exists atoms,
    load_molecule text = Ok (ts_name t, atoms) /\ List.length atoms = List.length (ts_atoms t) /\
    forall i a, nth_error (ts_atoms t) i = Some a ->
      exists at_, nth_error atoms i = Some at_ /\ at_name at_ = as_name a /\ at_resname at_ = as_resname a /\
        at_resid at_ = as_resid a /\ at_index at_ = i /\ StronglySorted lt (at_bonds at_) /\
        forall j, In j (at_bonds at_) <->
                  listed (map as_nr (ts_atoms t)) (ts_cons t ++ ts_bonds t ++ ts_pairs t) i j.
Proof. exact load_molecule_render. Qed.
Print Assumptions C15_load.

(* Bond graph after MoleculeTop.__init__: for every atom position i the bonds set is duplicate-free and
   contains j exactly when (i,j) or (j,i) is a listed pair (so a self entry only if (i,i) is listed). *)
Theorem C15_graph : forall (name : str) (infos : list atom_info) (bonds : list (nat * nat)),
  (forall b, In b bonds -> fst b < List.length infos /\ snd b < List.length infos) ->
  exists atoms, molecule_top (name, infos, bonds) = Ok (name, atoms) /\ List.length atoms = List.length infos /\
    forall i info, nth_error infos i = Some info ->
      exists a, nth_error atoms i = Some a /\ at_name a = fst (fst info) /\ at_resname a = snd (fst info) /\
        at_resid a = snd info /\ at_index a = i /\ StronglySorted lt (at_bonds a) /\
        (forall j, In j (at_bonds a) <-> (In (i, j) bonds \/ In (j, i) bonds)).
Proof. exact molecule_top_graph. Qed.
Print Assumptions C15_graph.

Theorem C15_graph_symmetric : forall (name name' : str) (infos : list atom_info) (bonds : list (nat * nat))
    (atoms : list atomtop),
  (forall b, In b bonds -> fst b < List.length infos /\ snd b < List.length infos) ->
  molecule_top (name, infos, bonds) = Ok (name', atoms) ->
  (forall i j a b, nth_error atoms i = Some a -> nth_error atoms j = Some b ->
     (In j (at_bonds a) <-> In i (at_bonds b))) /\ adj_wf (adj_of atoms).
Proof. exact molecule_top_symmetric. Qed.
Print Assumptions C15_graph_symmetric.

(* are_connected (the iterative walk; the fuel S (S (number of directed edges)) always suffices) answers
   true exactly when every atom is reachable from atom 0, for EVERY adjacency (any size, any iteration
   order of the bond sets, duplicates, self loops). *)
Theorem C15_connected : forall adj, adj <> [] -> adj_wf adj ->
  exists b, are_connected adj = Ok b /\ (b = true <-> graph_connected adj).
Proof. exact are_connected_correct. Qed.
Print Assumptions C15_connected.

Theorem C15_connected_empty : are_connected [] = Err EIndex.
Proof. exact are_connected_empty. Qed.
Print Assumptions C15_connected_empty.

(* MoleculeTop.copy in the heap model: the copy has the same deep value, is == in both directions, ... *)
Theorem C15_copy_equal : forall h m v, view h m = Ok v ->
  exists m' h', mol_copy h m = Ok (m', h') /\ view h' m' = Ok v /\ view h' m = Ok v /\
    mol_eq h' m m' = Ok true /\ mol_eq h' m' m = Ok true.
Proof. exact copy_view_equal. Qed.
Print Assumptions C15_copy_equal.

(* ... lives entirely in newly allocated cells (no mutable cell is shared with the original), ... *)
Theorem C15_copy_fresh : forall h m v, view h m = Ok v ->
  exists m' h' fp fp', mol_copy h m = Ok (m', h') /\
    footprint h' m' = Ok fp' /\ (forall l, In l fp' -> List.length h <= l) /\
    footprint h m = Ok fp /\ footprint h' m = Ok fp /\ (forall l, In l fp -> l < List.length h) /\
    (forall l, In l fp -> ~ In l fp') /\ m' <> m.
Proof. exact copy_fresh. Qed.
Print Assumptions C15_copy_fresh.

(* ... and arbitrary writes into cells of the copy never change the original, and vice versa. *)
Theorem C15_copy_independent : forall h m v m' h', view h m = Ok v -> mol_copy h m = Ok (m', h') ->
  (forall ws, (forall w, In w ws -> List.length h <= fst w) -> view (stores ws h') m = Ok v) /\
  (forall ws, (forall w, In w ws -> fst w < List.length h) -> view (stores ws h') m' = Ok v).
Proof. exact copy_independent_both. Qed.
Print Assumptions C15_copy_independent.

(* the model is the source (DESIGN.md 4.6): Gen/ItpGen.v is re-translated from the text of ItpLine.parse_itp_line in
   gaddlemaps/parsers/_itp_parse.py at every run (harness/pytrans_itp.py); for every line, what the source says now
   IS the line parser the theorems of this file are about (blank / header / '#' / ';' / first ';' / final ';' / plain) *)
Theorem C15_model_is_source_line : forall l : str, parse_itp_line_gen l = parse_itp_line l.
Proof. exact parse_itp_line_gen_eq. Qed.
Print Assumptions C15_model_is_source_line.

(* the model is the source (DESIGN.md 4.6): Gen/WalkGen.v is re-translated from the text of are_connected and
   _find_connected_atoms in gaddlemaps/components/__init__.py at every run (harness/pytrans_walk.py), in Python's own
   orientation (append and pop at the END of `stack` and `connected`).  The loop as written in the source computes, from any
   start atom, any list already collected and with any fuel, the reverse of what the model's walk computes, and
   are_connected as written in the source IS the model's are_connected, to which C15_connected applies. *)
Theorem C15_model_is_source_walk : forall (fuel : nat) (adj : list (list nat)) (index : nat) (mc : list nat),
  find_connected_atoms_gen fuel adj index (rev mc) = rmap (@rev nat) (walk fuel adj [index] mc).
Proof. exact find_connected_atoms_gen_eq. Qed.
Print Assumptions C15_model_is_source_walk.

Theorem C15_model_is_source_connected : forall adj : list (list nat),
  are_connected_gen (walk_fuel adj) adj = are_connected adj.
Proof. exact are_connected_gen_eq. Qed.
Print Assumptions C15_model_is_source_connected.

(* non-vacuity of C15_parse_render: a concrete decorated text (gapped numbers 7, 12, 40; [ pairs ] before the
   atoms; a repeated [ atoms ]; '+12', '4_0'; a comment glued to the moleculetype fields) meets the hypotheses *)
Example C15_nonvacuous_text : file_denotes (lines ex_text) ex_topo /\
  (ts_atoms ex_topo <> [] /\ NoDup (map as_nr (ts_atoms ex_topo)) /\
   (forall b, In b (ts_cons ex_topo ++ ts_bonds ex_topo ++ ts_pairs ex_topo) ->
      In (fst b) (map as_nr (ts_atoms ex_topo)) /\ In (snd b) (map as_nr (ts_atoms ex_topo)))).
Proof. exact (conj ex_denotes ex_side). Qed.

(* non-vacuity: a 3-atom chain is a well-formed non-empty adjacency, and it is connected *)
Example C15_nonvacuous_chain : are_connected [[1]; [0; 2]; [1]] = Ok true.
Proof. reflexivity. Qed.
Example C15_nonvacuous_cut : are_connected [[1]; [0]; []] = Ok false.
Proof. reflexivity. Qed.
