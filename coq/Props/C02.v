(* C02 - Exchange map commutes with rigid motion of the reference.
   Statements only; proofs are in Proofs/ExchangeMapRigid.v.  T := R.
   SO3 Q : Q Q^T = I and det Q = 1;  rigid Q t p = Q p + t;  unitv v = v / |v|;
   axis_dist d u = sqrt(|d|^2 - (d.u)^2), the distance of a + d from the line a + R u (|u| = 1);
   regular_at g ps a : the anchor a of conformation ps is in the regular branch of calcule_base
   (relative collinearity above the 1e-6 threshold). *)
From GM Require Import Proofs.RTac Model.Aux Proofs.AuxR Model.ExchangeMap Proofs.ExchangeMapL Proofs.ExchangeMapR
  Proofs.ExchangeMapRigid Proofs.ExchangeMapEx.
Import ListNotations.
Local Open Scope R_scope.

Theorem C02_cross_equivariant : forall Q a b, SO3 Q ->
  mvec Q (vcross a b) = vcross (mvec Q a) (mvec Q b).
Proof. exact cross_equivariant. Qed.
Print Assumptions C02_cross_equivariant.

(* the base of a non-collinear triple moves with the triple *)
Theorem C02_frame_equivariant : forall Q t p0 p1 p2 F, SO3 Q ->
  calcule_base_br p0 p1 p2 = Ok (F, CbRegular) ->
  calcule_base_br (rigid Q t p0) (rigid Q t p1) (rigid Q t p2) =
    Ok (mkFrame (mvec Q (f1 F)) (mvec Q (f2 F)) (mvec Q (f3 F)) (rigid Q t p0), CbRegular).
Proof. exact calcule_base_br_rigid. Qed.
Print Assumptions C02_frame_equivariant.

(* being in the regular branch is itself invariant under rigid motions (over R) *)
Theorem C02_regular_invariant : forall Q t p0 p1 p2, SO3 Q ->
  (regular_triple (rigid Q t p0) (rigid Q t p1) (rigid Q t p2) <-> regular_triple p0 p1 p2).
Proof. exact regular_triple_rigid. Qed.
Print Assumptions C02_regular_invariant.

(* map(Q ref' + t) = Q map(ref') + t when every anchor the map uses is non-collinear in ref';
   all proper rotations, all translations, all scale factors, all targets *)
Theorem C02_equivariant : forall g (ref tgt ref' : list (V3 R)) s db da da' m out Q t,
  graph_wf g -> conf_ok g ref -> anchors g <> [] -> conf_ok g ref' -> SO3 Q ->
  build g ref tgt s db = Ok m -> apply m g ref' da = Ok out ->
  (forall a, In a (em_equiv m) -> regular_at g ref' a) ->
  apply m g (map (rigid Q t) ref') da' = Ok (map (rigid Q t) out).
Proof. exact em_equivariant. Qed.
Print Assumptions C02_equivariant.

(* every anchor, collinear ones (fallback branch of calcule_base) included, every new conformation
   ref' with distinct positions - in particular ref' and Q ref' + t: the mapped atom x keeps
   (times s) its distance to the anchor, its coordinate along the axis anchor -> second frame atom,
   and its distance from that axis.  The three right-hand sides depend on the construction only. *)
Theorem C02_axis : forall g (ref tgt ref' : list (V3 R)) s db da m out k p,
  graph_wf g -> conf_ok g ref -> anchors g <> [] -> conf_ok g ref' ->
  build g ref tgt s db = Ok m -> apply m g ref' da = Ok out -> nth_error tgt k = Some p ->
  exists a l n1 n2 ra rb ra' rb' x,
    nth_error (em_equiv m) k = Some a /\ nth_error g a = Some l /\ lowest2 l = Some (n1, n2) /\
    nth_error ref a = Some ra /\ nth_error ref n2 = Some rb /\
    nth_error ref' a = Some ra' /\ nth_error ref' n2 = Some rb' /\ nth_error out k = Some x /\
    vdist x ra' = Rabs s * vdist p ra /\
    vdot (vsub x ra') (unitv (vsub rb' ra')) = s * vdot (vsub p ra) (unitv (vsub rb ra)) /\
    axis_dist (vsub x ra') (unitv (vsub rb' ra')) = Rabs s * axis_dist (vsub p ra) (unitv (vsub rb ra)).
Proof. exact em_axis. Qed.
Print Assumptions C02_axis.

(* two-atom reference [p0; p1] mapped on [q0; q1]: the same three invariants about the bond axis,
   for EVERY value d1 (construction) and e1 (call) of the random completion point *)
Theorem C02_two_atoms : forall g (p0 p1 q0 q1 d1 e1 : V3 R) (dr er tgt : list (V3 R)) s,
  p0 <> p1 -> q0 <> q1 ->
  exists m, build g [p0; p1] tgt s (d1 :: dr) = Ok m /\
  exists out, apply m g [q0; q1] (e1 :: er) = Ok out /\ length out = length tgt /\
    forall k p, nth_error tgt k = Some p ->
      exists x, nth_error out k = Some x /\
        vdist x q0 = Rabs s * vdist p p0 /\
        vdot (vsub x q0) (unitv (vsub q1 q0)) = s * vdot (vsub p p0) (unitv (vsub p1 p0)) /\
        axis_dist (vsub x q0) (unitv (vsub q1 q0)) = Rabs s * axis_dist (vsub p p0) (unitv (vsub p1 p0)).
Proof. exact em_two_atoms. Qed.
Print Assumptions C02_two_atoms.

(* one-atom reference: only the distance to the atom is determined, and it is preserved, for all
   draws whose second vector is not exactly zero (the base needs p0 + rand2 <> p0) *)
Theorem C02_one_atom : forall g (p0 q0 d1 d2 e1 e2 : V3 R) (dr er tgt : list (V3 R)) s,
  d2 <> vzero -> e2 <> vzero ->
  exists m, build g [p0] tgt s (d1 :: d2 :: dr) = Ok m /\
  exists out, apply m g [q0] (e1 :: e2 :: er) = Ok out /\ length out = length tgt /\
    forall k p, nth_error tgt k = Some p ->
      exists x, nth_error out k = Some x /\ vdist x q0 = Rabs s * vdist p p0.
Proof. exact em_one_atom. Qed.
Print Assumptions C02_one_atom.

(* a rigid image of a valid conformation is a valid conformation (so C02_axis applies to both) *)
Theorem C02_rigid_conf : forall g ps Q t, SO3 Q -> conf_ok g ps -> conf_ok g (map (rigid Q t) ps).
Proof. exact conf_ok_rigid. Qed.
Print Assumptions C02_rigid_conf.

(* non-vacuity *)
Example C02_nonvacuous_rotation : SO3 ex_Q.
Proof. exact ex_Q_so3. Qed.
Example C02_nonvacuous_graph : graph_wf ex_g3.
Proof. exact ex_g3_wf. Qed.
Example C02_nonvacuous_conf : conf_ok ex_g3 ex_ref_bent.
Proof. exact ex_ref_bent_ok. Qed.
Example C02_nonvacuous_collinear_conf : conf_ok ex_g3 ex_ref_z.
Proof. exact ex_ref_z_ok. Qed.
Example C02_nonvacuous_regular : forall a, In a (anchors ex_g3) -> regular_at ex_g3 ex_ref_bent a.
Proof. exact ex_bent_regular. Qed.
Example C02_nonvacuous_two_atoms : (mk3 0 0 0 : V3 R) <> mk3 0 0 1.
Proof. exact ex_two_atoms. Qed.
Example C02_nonvacuous_draw : (mk3 (1/2) (1/4) (3/4) : V3 R) <> vzero.
Proof. exact ex_draw. Qed.
