(* C09 - Monte-Carlo search: consistent energies, Metropolis rule, exact stop.
   Statements only; proofs are in Proofs/MC.v (every Scalar instance) and Proofs/MCR.v (T := R).

   A run `mc_run conf P chi2 propose sim n fuel init s` returns (tr, out): the trace of the loop passes it
   executed (records with the state before/after, the type drawn, the proposal, its measure, the uniform
   draw consumed if any, the decision) and the result (Ok configuration | Err EFuel | Err EStop ...).
   Every theorem quantifies over the overlap measure `chi2`, the proposal function `propose`, the enabled
   types, the budget n, the fuel, the initial configuration and the stream of draws: they are invariants of
   every step of every complete or interrupted run.  No termination claim (an adversarial stream that keeps
   producing new minima never stops).  The first four theorems hold for every Scalar instance T, hence
   also for the binary64 instance that is executed against the implementation. *)
From GM Require Import Proofs.RTac Model.Aux Proofs.AuxR Model.MC Proofs.MC Proofs.MCR Inst.FInst Proofs.MCExample.
From GM Require Import Gen.KernelsGen Proofs.KernelsGenEq.

(* The tie by translation: accept_metropolis as generated at this run from the CURRENT source text of
   gaddlemaps/_backend.py (Gen/KernelsGen.v, harness/pytrans.py) is the model's accept_metropolis (decision
   on the recorded uniform draw), and its keyword default is the model's acceptance constant. *)
Theorem C09_model_is_source_accept : forall (T : Type) (H : Scalar T) (P : Type) (e0 e1 u : T) (st : stream T P),
  accept_metropolis_gen e0 e1 acceptance u
  = rmap (fun r => fst (fst r)) (@accept_metropolis T _ P e0 e1 (DRand u :: st)).
Proof. exact (@accept_metropolis_gen_eq). Qed.
Print Assumptions C09_model_is_source_accept.

Theorem C09_model_is_source_acceptance_default : forall (T : Type) (H : Scalar T),
  accept_metropolis_gen_default_acceptance = acceptance (T := T).
Proof. exact (@accept_default_eq). Qed.
Print Assumptions C09_model_is_source_acceptance_default.

Import ListNotations.
Local Open Scope R_scope.

(* The trace is the chain of loop states starting from (init, chi2 init, chi2 init, 0); in every state the
   measure carried along is the measure of the configuration held, every proposal is measured by chi2 and
   judged (see `judged` in Proofs/MC.v) against the measure of the configuration currently held. *)
Theorem C09_energy_consistent :
  forall (T : Type) (H : Scalar T) (conf P : Type) (chi2 : conf -> T)
         (propose : nat -> P -> conf -> res conf) (sim : list nat) (n fuel : nat) (init : conf)
         (s : stream T P) (tr : list (step_rec T conf)) (out : res conf),
    mc_run conf P chi2 propose sim n fuel init s = (tr, out) ->
    chained conf (st0 conf chi2 init) tr /\
    e_held (st0 conf chi2 init) = chi2 init /\
    Forall (fun r : step_rec T conf =>
              e_held (sr_before r) = chi2 (held (sr_before r)) /\
              sr_e1 r = chi2 (sr_test r) /\
              judged (chi2 (held (sr_before r))) (chi2 (sr_test r)) (sr_u r) (sr_acc r) /\
              e_held (sr_after r) = chi2 (held (sr_after r))) tr.
Proof. exact (@run_energy_consistent). Qed.
Print Assumptions C09_energy_consistent.

(* A rejected proposal leaves the held configuration, its measure and the best measure unchanged
   (and counts as one step). *)
Theorem C09_reject_keeps :
  forall (T : Type) (H : Scalar T) (conf P : Type) (chi2 : conf -> T)
         (propose : nat -> P -> conf -> res conf) (sim : list nat) (n fuel : nat) (init : conf)
         (s : stream T P) (tr : list (step_rec T conf)) (out : res conf),
    mc_run conf P chi2 propose sim n fuel init s = (tr, out) ->
    Forall (fun r : step_rec T conf =>
              sr_acc r = false ->
              held (sr_after r) = held (sr_before r) /\
              e_held (sr_after r) = e_held (sr_before r) /\
              e_min (sr_after r) = e_min (sr_before r) /\
              counter (sr_after r) = S (counter (sr_before r))) tr.
Proof. exact (@run_reject_keeps). Qed.
Print Assumptions C09_reject_keeps.

(* After every prefix of the run the configuration held is the last accepted proposal (the initial one
   if none was accepted); the configuration returned is the one held at exit. *)
Theorem C09_returns_held :
  forall (T : Type) (H : Scalar T) (conf P : Type) (chi2 : conf -> T)
         (propose : nat -> P -> conf -> res conf) (sim : list nat) (n fuel : nat) (init : conf)
         (s : stream T P) (tr : list (step_rec T conf)) (out : res conf),
    mc_run conf P chi2 propose sim n fuel init s = (tr, out) ->
    (forall tr1 tr2 : list (step_rec T conf), tr = tr1 ++ tr2 ->
       held (final_state conf (st0 conf chi2 init) tr1) = last_accepted conf init tr1) /\
    (forall c : conf, out = Ok c ->
       c = held (final_state conf (st0 conf chi2 init) tr) /\ c = last_accepted conf init tr).
Proof. exact (@run_returns_held). Qed.
Print Assumptions C09_returns_held.

(* what `last_accepted` is *)
Theorem C09_last_accepted_spec :
  forall (T conf : Type) (init : conf),
    (forall tr : list (step_rec T conf),
       Forall (fun r : step_rec T conf => sr_acc r = false) tr -> last_accepted conf init tr = init) /\
    (forall (tr1 : list (step_rec T conf)) (r : step_rec T conf) (tr2 : list (step_rec T conf)),
       sr_acc r = true -> Forall (fun r0 : step_rec T conf => sr_acc r0 = false) tr2 ->
       last_accepted conf init (tr1 ++ r :: tr2) = sr_test r).
Proof.
  exact (fun T conf init => conj (fun tr => @last_accepted_none T conf tr init)
                                 (fun tr1 r tr2 => @last_accepted_last T conf tr1 r tr2 init)).
Qed.
Print Assumptions C09_last_accepted_spec.

(* After every prefix the counter is the number of steps since the last strict new minimum (since the start
   if there was none); a pass is executed only while the counter is below the budget; the counter never
   exceeds the budget; the run returns exactly when the counter equals the budget. *)
Theorem C09_exact_stop :
  forall (T : Type) (H : Scalar T) (conf P : Type) (chi2 : conf -> T)
         (propose : nat -> P -> conf -> res conf) (sim : list nat) (n fuel : nat) (init : conf)
         (s : stream T P) (tr : list (step_rec T conf)) (out : res conf),
    mc_run conf P chi2 propose sim n fuel init s = (tr, out) ->
    (forall tr1 tr2 : list (step_rec T conf), tr = tr1 ++ tr2 ->
       counter (final_state conf (st0 conf chi2 init) tr1) = since_newmin conf 0 tr1) /\
    Forall (fun r : step_rec T conf =>
              sr_newmin r = (sr_acc r && (sr_e1 r <? e_min (sr_before r))%S)%bool) tr /\
    Forall (fun r : step_rec T conf => (counter (sr_before r) < n)%nat) tr /\
    (counter (final_state conf (st0 conf chi2 init) tr) <= n)%nat /\
    ((exists c : conf, out = Ok c) <-> counter (final_state conf (st0 conf chi2 init) tr) = n).
Proof. exact (@run_exact_stop). Qed.
Print Assumptions C09_exact_stop.

(* what `since_newmin` is *)
Theorem C09_since_newmin_spec :
  forall (T conf : Type) (c0 : nat),
    (forall tr : list (step_rec T conf),
       Forall (fun r : step_rec T conf => sr_newmin r = false) tr ->
       since_newmin conf c0 tr = (c0 + length tr)%nat) /\
    (forall (tr1 : list (step_rec T conf)) (r : step_rec T conf) (tr2 : list (step_rec T conf)),
       sr_newmin r = true -> Forall (fun r0 : step_rec T conf => sr_newmin r0 = false) tr2 ->
       since_newmin conf c0 (tr1 ++ r :: tr2) = length tr2).
Proof.
  exact (fun T conf c0 => conj (fun tr => @since_newmin_none T conf tr c0)
                               (fun tr1 r tr2 => @since_newmin_last T conf tr1 r tr2 c0)).
Qed.
Print Assumptions C09_since_newmin_spec.

(* ------------------------------------------------------------------ T := R *)

(* The rule: for a positive new measure, accepted iff  E_new <= E_held  or  u <= 0.01 * E_held / E_new
   (the literal 1/100 is the property's constant: the proof breaks if the code's default changes);
   the uniform draw is consumed exactly when the proposal is worse. *)
Theorem C09_accept_rule :
  forall (P : Type) (e0 e1 u : R) (s : stream R P), 0 < e1 ->
    exists (b : bool) (ou : option R) (s' : stream R P),
      accept_metropolis P e0 e1 (DRand u :: s) = Ok (b, ou, s') /\
      (b = true <-> e1 <= e0 \/ u <= 1 / 100 * (e0 / e1)) /\
      (e1 <= e0 -> ou = None /\ s' = DRand u :: s) /\
      (e0 < e1 -> ou = Some u /\ s' = s).
Proof. exact accept_fn_R. Qed.
Print Assumptions C09_accept_rule.

(* the same on every step of every run, against the measure held *)
Theorem C09_accept_rule_run :
  forall (conf P : Type) (chi2 : conf -> R) (propose : nat -> P -> conf -> res conf)
         (sim : list nat) (n fuel : nat) (init : conf) (s : stream R P)
         (tr : list (step_rec R conf)) (out : res conf),
    mc_run conf P chi2 propose sim n fuel init s = (tr, out) ->
    Forall (fun r : step_rec R conf =>
              e_held (sr_before r) = chi2 (held (sr_before r)) /\
              sr_e1 r = chi2 (sr_test r) /\
              (sr_acc r = true <->
                 sr_e1 r <= e_held (sr_before r) \/
                 (exists u : R, sr_u r = Some u /\ u <= 1 / 100 * (e_held (sr_before r) / sr_e1 r))) /\
              (sr_u r = None <-> sr_e1 r <= e_held (sr_before r))) tr.
Proof. exact run_accept_rule. Qed.
Print Assumptions C09_accept_rule_run.

(* An equal or lower measure is always accepted, without a draw - including E_held = E_new = 0. *)
Theorem C09_accept_equal_or_lower :
  forall (P : Type) (e0 e1 : R) (s : stream R P),
    e1 <= e0 -> accept_metropolis P e0 e1 s = Ok (true, None, s).
Proof. exact accept_equal_or_lower_R. Qed.
Print Assumptions C09_accept_equal_or_lower.

Theorem C09_accept_equal_or_lower_run :
  forall (conf P : Type) (chi2 : conf -> R) (propose : nat -> P -> conf -> res conf)
         (sim : list nat) (n fuel : nat) (init : conf) (s : stream R P)
         (tr : list (step_rec R conf)) (out : res conf),
    mc_run conf P chi2 propose sim n fuel init s = (tr, out) ->
    Forall (fun r : step_rec R conf =>
              sr_e1 r <= e_held (sr_before r) ->
              sr_acc r = true /\ sr_u r = None /\
              held (sr_after r) = sr_test r /\ e_held (sr_after r) = sr_e1 r) tr.
Proof. exact run_accept_equal_or_lower. Qed.
Print Assumptions C09_accept_equal_or_lower_run.

(* the counter is reset exactly by an accepted proposal strictly below the best measure so far *)
Theorem C09_newmin_strict :
  forall (conf P : Type) (chi2 : conf -> R) (propose : nat -> P -> conf -> res conf)
         (sim : list nat) (n fuel : nat) (init : conf) (s : stream R P)
         (tr : list (step_rec R conf)) (out : res conf),
    mc_run conf P chi2 propose sim n fuel init s = (tr, out) ->
    Forall (fun r : step_rec R conf =>
              sr_newmin r = true <-> sr_acc r = true /\ sr_e1 r < e_min (sr_before r)) tr.
Proof. exact run_newmin_R. Qed.
Print Assumptions C09_newmin_strict.

(* the best measure is the minimum of the initial and the accepted measures so far, and never exceeds
   the measure held *)
Theorem C09_emin :
  forall (conf P : Type) (chi2 : conf -> R) (propose : nat -> P -> conf -> res conf)
         (sim : list nat) (n fuel : nat) (init : conf) (s : stream R P)
         (tr : list (step_rec R conf)) (out : res conf),
    mc_run conf P chi2 propose sim n fuel init s = (tr, out) ->
    forall tr1 tr2 : list (step_rec R conf), tr = tr1 ++ tr2 ->
      e_min (final_state conf (st0 conf chi2 init) tr1) = min_accepted conf (chi2 init) tr1 /\
      e_min (final_state conf (st0 conf chi2 init) tr1) <= e_held (final_state conf (st0 conf chi2 init) tr1).
Proof. exact run_emin. Qed.
Print Assumptions C09_emin.

(* Each proposal has a type among the enabled ones and is: the held configuration translated by the drawn
   vector; or rotated about its centroid (recomputed from the held configuration) by the matrix
   rotation_matrix(axis, theta) of a non-zero axis, which is a proper rotation (C17); or the result of the
   single-atom move (abstract here: property C07) applied to the held configuration. *)
Theorem C09_proposal_kinds :
  forall (AD : Type) (atom_move : AD -> list (V3 R) -> res (list (V3 R)))
         (chi2 : list (V3 R) -> R) (sim : list nat) (n fuel : nat) (init : list (V3 R))
         (s : stream R (pdraw R AD)) (tr : list (step_rec R (list (V3 R)))) (out : res (list (V3 R))),
    minimize AD cos sin atom_move chi2 sim n fuel init s = (tr, out) ->
    Forall (fun r : step_rec R (list (V3 R)) =>
              In (sr_kind r) sim /\
              is_proposal AD atom_move (sr_kind r) (held (sr_before r)) (sr_test r)) tr.
Proof. exact run_proposal_kinds. Qed.
Print Assumptions C09_proposal_kinds.

(* what the two geometric kinds preserve: a translation keeps every difference vector; a rotation about the
   centroid by an orthogonal matrix keeps every pairwise distance and the centroid *)
Theorem C09_translation_rigid :
  forall p q d : V3 R, vsub (vadd p d) (vadd q d) = vsub p q.
Proof. exact translate_rigid. Qed.
Print Assumptions C09_translation_rigid.

Theorem C09_rotation_rigid :
  forall (M : M3 R) (pos : list (V3 R)), mmul M (mtrans M) = mid ->
    (forall c p q : V3 R, vdist2 (vadd (vecm (vsub p c) M) c) (vadd (vecm (vsub q c) M) c) = vdist2 p q) /\
    (pos <> [] ->
     vmean (map (fun p => vadd (vecm (vsub p (vmean pos)) M) (vmean pos)) pos) = vmean pos).
Proof.
  exact (fun M pos HM => conj (fun c p q => rotate_isometry M c p q HM) (rotate_keeps_centroid M pos)).
Qed.
Print Assumptions C09_rotation_rigid.

(* ------------------------------------------------------------------ non-vacuity *)

(* D10 witness: equal measures, both zero (0/0 before the repair) - over R and on the binary64 instance *)
Example C09_zero_zero_R : accept_metropolis unit 0 0 [] = Ok (true, None, []).
Proof. apply accept_equal_or_lower_R. lra. Qed.
Example C09_zero_zero_float : ex_accept_zero = Ok (true, None, []).
Proof. vm_compute. reflexivity. Qed.

(* a complete run on the binary64 instance (the first theorems hold for every instance): measures 4, 2, 8, 3,
   budget 2 (data in Proofs/MCExample.v); step 1 lower (accepted, new minimum, counter 0), step 2 worse with u = 0.5 > 0.01*2/8 (rejected,
   counter 1), step 3 worse with u = 2^-10 <= 0.01*2/3 (accepted, not a new minimum, counter 2): stop,
   returns configuration 3 *)
Example C09_concrete_run :
  snd ex_run = Ok 3%nat /\
  map sr_acc (fst ex_run) = [true; false; true] /\
  map (fun r => counter (sr_after r)) (fst ex_run) = [0%nat; 1%nat; 2%nat] /\
  map sr_kind (fst ex_run) = [0%nat; 1%nat; 0%nat].
Proof. vm_compute. repeat split; reflexivity. Qed.

(* a translation and a rotation proposal exist (T := R) *)
Example C09_translation_exists :
  propose_geo unit cos sin (fun _ _ => Err EStop) 0 (PTrans (mk3 1 2 3)) [mk3 0 0 0; mk3 1 0 0]
  = Ok [vadd (mk3 0 0 0) (mk3 1 2 3); vadd (mk3 1 0 0) (mk3 1 2 3)].
Proof. reflexivity. Qed.
Example C09_rotation_exists :
  exists test, propose_geo unit cos sin (fun _ _ => Err EStop) 1 (PRot (mk3 0 0 2) 1) [mk3 1 0 0; mk3 0 1 0] = Ok test.
Proof.
  cbn [propose_geo]. unfold rotate_cs, centroid.
  rewrite rotation_matrix_cs_ok by (intros E; inversion E; lra).
  cbn [bind]. eexists; reflexivity.
Qed.
