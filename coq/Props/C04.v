(* C04 - Applying an exchange map is pure, history-independent and species-checked.
   Statements only; proofs are in Proofs/EMState.v, Proofs/EMStateCore.v.

   The theorems are about the state machine of Model/EMState.v (heap of AtomGro / AtomTop cells, the
   ExchangeMap object holding references to its construction molecules, `_refsystems` with Python dict
   semantics) and hold for EVERY geometric core (frames_of, project_all, restore) that satisfies the two key
   laws KEYS (the keys written by _calculate_refsystems are the anchors of the bond graph, whatever the
   coordinates) and PROJ (every target atom is assigned to one of those keys).  The concrete core executed by
   the correspondence check satisfies both (C04_core_keys, C04_core_proj), for every Scalar instance.

   Operations `ops` range over: Call h (any handle: a valid argument, another species, a returned molecule),
   CallNonMolecule, PokeRef / PokeTgt (coordinates of the construction molecules), PokeObj (coordinates of any
   handle: a previous argument or a previously returned molecule), RenumRef / RenumTgt / RenumObj (`mol.resids =
   [...]`: residue numbers, gro and topology, of a construction molecule or of any handle, e.g. a molecule sharing
   the reference's topology).  Renaming atoms / residues / molecules is not an operation. *)
From Coq Require Import String.
From Coq Require Import List ZArith PrimFloat.
Import ListNotations.
From GM Require Import Base.Res Base.Scalar Base.Vec Inst.FInst Model.Aux Model.EMState.
From GM Require Import Proofs.EMStateBase Proofs.EMState Proofs.EMStateCore.
Local Open Scope list_scope.

(* --- history independence: after ANY operation list, a call on an argument that passes the species test and
   has the species' bond graph returns `result_of`, a function of construction-time data (projections, bond
   graph, labels of the target's cells) and of the argument's coordinates and residue numbers NOW. *)
Theorem C04_history :
  forall (vec fr : Type) (frames_of : graph -> list vec -> res (list (nat * fr)))
    (project_all : list (nat * fr) -> list vec -> list vec -> res (list (nat * vec)))
    (restore : fr -> vec -> vec),
  (forall g ps frs, frames_of g ps = Ok frs -> map fst frs = anchors g) ->
  (forall rs ps tps ec, project_all rs ps tps = Ok ec ->
     forall ac, In ac ec -> In (fst ac) (map fst rs)) ->
  forall (hp : heap vec) (objs : list mol) (ref tgt : mol) (st0 : state vec fr)
    (tcells0 : list (list (gcell vec))) (g0 : graph),
  build vec fr frames_of project_all hp objs ref tgt = Ok st0 ->
  mapM (read_g vec hp) (m_res tgt) = Ok tcells0 ->
  length (m_top tgt) = length (m_atoms tgt) ->
  mol_graph vec hp ref = Ok g0 ->
  forall (ops : list (op vec)) (h : nat) (arg : mol) (ps : list vec) (rids : list Z),
  let st := run vec fr frames_of restore st0 ops in
  nth_error (s_objs st) h = Some arg ->
  mol_eq vec (s_heap st) ref arg = Ok true ->
  mol_graph vec (s_heap st) arg = Ok g0 ->
  mol_positions vec (s_heap st) arg = Ok ps ->
  mol_resids vec (s_heap st) arg = Ok rids ->
  snd (step vec fr frames_of restore st (Call h)) =
  OCall (result_of vec fr frames_of restore (e_ec (s_map st0)) g0 tcells0 ps rids).
Proof. exact history. Qed.
Print Assumptions C04_history.

(* two arbitrary histories of the same map, two arguments with the same content now: same outcome *)
Theorem C04_history_independent :
  forall (vec fr : Type) (frames_of : graph -> list vec -> res (list (nat * fr)))
    (project_all : list (nat * fr) -> list vec -> list vec -> res (list (nat * vec)))
    (restore : fr -> vec -> vec),
  (forall g ps frs, frames_of g ps = Ok frs -> map fst frs = anchors g) ->
  (forall rs ps tps ec, project_all rs ps tps = Ok ec ->
     forall ac, In ac ec -> In (fst ac) (map fst rs)) ->
  forall (hp : heap vec) (objs : list mol) (ref tgt : mol) (st0 : state vec fr)
    (tcells0 : list (list (gcell vec))) (g0 : graph),
  build vec fr frames_of project_all hp objs ref tgt = Ok st0 ->
  mapM (read_g vec hp) (m_res tgt) = Ok tcells0 ->
  length (m_top tgt) = length (m_atoms tgt) ->
  mol_graph vec hp ref = Ok g0 ->
  forall (ops1 ops2 : list (op vec)) (h1 h2 : nat) (arg1 arg2 : mol) (ps : list vec) (rids : list Z),
  let s1 := run vec fr frames_of restore st0 ops1 in
  let s2 := run vec fr frames_of restore st0 ops2 in
  nth_error (s_objs s1) h1 = Some arg1 -> nth_error (s_objs s2) h2 = Some arg2 ->
  mol_eq vec (s_heap s1) ref arg1 = Ok true -> mol_eq vec (s_heap s2) ref arg2 = Ok true ->
  mol_graph vec (s_heap s1) arg1 = Ok g0 -> mol_graph vec (s_heap s2) arg2 = Ok g0 ->
  mol_positions vec (s_heap s1) arg1 = Ok ps -> mol_positions vec (s_heap s2) arg2 = Ok ps ->
  mol_resids vec (s_heap s1) arg1 = Ok rids -> mol_resids vec (s_heap s2) arg2 = Ok rids ->
  snd (step vec fr frames_of restore s1 (Call h1)) = snd (step vec fr frames_of restore s2 (Call h2)).
Proof. exact history_indep. Qed.
Print Assumptions C04_history_independent.

(* --- equals a freshly built map: a second world (hp', ref', tgt') holding SNAPSHOTS of the construction
   molecules (same reference coordinates and bond graph, same target coordinates and labels), a map built
   there and called at once on a molecule with the argument's content, gives the outcome of the used map. *)
Theorem C04_fresh_equal :
  forall (vec fr : Type) (frames_of : graph -> list vec -> res (list (nat * fr)))
    (project_all : list (nat * fr) -> list vec -> list vec -> res (list (nat * vec)))
    (restore : fr -> vec -> vec),
  (forall g ps frs, frames_of g ps = Ok frs -> map fst frs = anchors g) ->
  (forall rs ps tps ec, project_all rs ps tps = Ok ec ->
     forall ac, In ac ec -> In (fst ac) (map fst rs)) ->
  forall (hp : heap vec) (objs : list mol) (ref tgt : mol) (st0 : state vec fr)
    (tcells0 : list (list (gcell vec))) (g0 : graph)
    (hp' : heap vec) (objs' : list mol) (ref' tgt' : mol) (st0' : state vec fr)
    (tcells0' : list (list (gcell vec))),
  build vec fr frames_of project_all hp objs ref tgt = Ok st0 ->
  mapM (read_g vec hp) (m_res tgt) = Ok tcells0 ->
  length (m_top tgt) = length (m_atoms tgt) ->
  mol_graph vec hp ref = Ok g0 ->
  build vec fr frames_of project_all hp' objs' ref' tgt' = Ok st0' ->
  mapM (read_g vec hp') (m_res tgt') = Ok tcells0' ->
  length (m_top tgt') = length (m_atoms tgt') ->
  mol_positions vec hp' ref' = mol_positions vec hp ref ->
  mol_graph vec hp' ref' = Ok g0 ->
  mol_positions vec hp' tgt' = mol_positions vec hp tgt ->
  map (map (glab vec)) tcells0' = map (map (glab vec)) tcells0 ->
  forall (ops : list (op vec)) (h : nat) (arg : mol) (h' : nat) (arg' : mol) (ps : list vec) (rids : list Z),
  let st := run vec fr frames_of restore st0 ops in
  nth_error (s_objs st) h = Some arg -> nth_error objs' h' = Some arg' ->
  mol_eq vec (s_heap st) ref arg = Ok true -> mol_eq vec hp' ref' arg' = Ok true ->
  mol_graph vec (s_heap st) arg = Ok g0 -> mol_graph vec hp' arg' = Ok g0 ->
  mol_positions vec (s_heap st) arg = Ok ps -> mol_positions vec hp' arg' = Ok ps ->
  mol_resids vec (s_heap st) arg = Ok rids -> mol_resids vec hp' arg' = Ok rids ->
  snd (step vec fr frames_of restore st (Call h)) = snd (step vec fr frames_of restore st0' (Call h')).
Proof. exact fresh_equal. Qed.
Print Assumptions C04_fresh_equal.

(* --- a valid argument stays valid under calls, rejected calls, coordinate changes and renumbering of the
   target (so C04_history applies after every such history), provided the target's topology is not the same
   object as the reference's / the argument's topology: a call writes top_resid of the TARGET's topology
   (C04_pure), which Molecule.__eq__ reads.  Without the proviso the real code changes its verdict
   (docs/design_notes/C04.md, F3).  Renumbering the reference or a molecule sharing its topology (RenumRef,
   RenumObj) legitimately changes what the species IS (top_resid is part of Molecule.__eq__): after those the
   verdict is the one of a map built at that moment, C04_verdict_fresh_now. *)
Theorem C04_valid_stable :
  forall (vec fr : Type) (frames_of : graph -> list vec -> res (list (nat * fr)))
    (project_all : list (nat * fr) -> list vec -> list vec -> res (list (nat * vec)))
    (restore : fr -> vec -> vec),
  (forall g ps frs, frames_of g ps = Ok frs -> map fst frs = anchors g) ->
  (forall rs ps tps ec, project_all rs ps tps = Ok ec ->
     forall ac, In ac ec -> In (fst ac) (map fst rs)) ->
  forall (hp : heap vec) (objs : list mol) (ref tgt : mol) (st0 : state vec fr) (g0 : graph)
    (arg : mol) (v : bool),
  build vec fr frames_of project_all hp objs ref tgt = Ok st0 ->
  mol_graph vec hp ref = Ok g0 ->
  (forall l, In l (m_top tgt) -> ~ In l (m_top ref) /\ ~ In l (m_top arg)) ->
  mol_eq vec hp ref arg = Ok v ->
  forall ops : list (op vec), Forall (no_foreign_renum vec) ops ->
  mol_eq vec (s_heap (run vec fr frames_of restore st0 ops)) ref arg = Ok v.
Proof. exact valid_stable. Qed.
Print Assumptions C04_valid_stable.

(* --- the accept / reject decision consults nothing stored in the map: after ANY history (renumbering of the
   construction molecules and of molecules sharing their topology included) it is the decision of a map built at
   that moment, in the current world, from the same reference molecule; a rejected handle gets TypeError from
   both.  (For an accepted handle C04_history gives the result.) *)
Theorem C04_verdict_fresh_now :
  forall (vec fr : Type) (frames_of : graph -> list vec -> res (list (nat * fr)))
    (project_all : list (nat * fr) -> list vec -> list vec -> res (list (nat * vec)))
    (restore : fr -> vec -> vec),
  (forall g ps frs, frames_of g ps = Ok frs -> map fst frs = anchors g) ->
  (forall rs ps tps ec, project_all rs ps tps = Ok ec ->
     forall ac, In ac ec -> In (fst ac) (map fst rs)) ->
  forall (hp : heap vec) (objs : list mol) (ref tgt : mol) (st0 : state vec fr) (g0 : graph)
    (tgt2 : mol) (stf : state vec fr),
  build vec fr frames_of project_all hp objs ref tgt = Ok st0 ->
  mol_graph vec hp ref = Ok g0 ->
  forall ops : list (op vec),
  let st := run vec fr frames_of restore st0 ops in
  build vec fr frames_of project_all (s_heap st) (s_objs st) ref tgt2 = Ok stf ->
  forall (h : nat) (arg : mol), nth_error (s_objs st) h = Some arg ->
  nth_error (s_objs stf) h = Some arg /\
  mol_eq vec (s_heap stf) (e_ref (s_map stf)) arg = mol_eq vec (s_heap st) (e_ref (s_map st)) arg /\
  (mol_eq vec (s_heap st) (e_ref (s_map st)) arg = Ok false ->
     snd (step vec fr frames_of restore st (Call h)) = OCall (Err EType) /\
     snd (step vec fr frames_of restore stf (Call h)) = OCall (Err EType)).
Proof. exact verdict_fresh_now. Qed.
Print Assumptions C04_verdict_fresh_now.

(* --- the keys of _refsystems are the species' anchors after every history in which every accepted argument
   has the species' bond graph (Molecule.__eq__ does not compare bonds: design note, F1) *)
Theorem C04_keys :
  forall (vec fr : Type) (frames_of : graph -> list vec -> res (list (nat * fr)))
    (project_all : list (nat * fr) -> list vec -> list vec -> res (list (nat * vec)))
    (restore : fr -> vec -> vec),
  (forall g ps frs, frames_of g ps = Ok frs -> map fst frs = anchors g) ->
  (forall rs ps tps ec, project_all rs ps tps = Ok ec ->
     forall ac, In ac ec -> In (fst ac) (map fst rs)) ->
  forall (hp : heap vec) (objs : list mol) (ref tgt : mol) (st0 : state vec fr) (g0 : graph),
  build vec fr frames_of project_all hp objs ref tgt = Ok st0 ->
  mol_graph vec hp ref = Ok g0 ->
  forall ops : list (op vec),
  good_ops vec fr frames_of restore g0 st0 ops ->
  map fst (e_refsys (s_map (run vec fr frames_of restore st0 ops))) = anchors g0.
Proof. exact keys_invariant. Qed.
Print Assumptions C04_keys.

(* --- purity of a call, in ANY state, for ANY handle (no hypothesis at all):
   the gro heap is only EXTENDED (every existing AtomGro cell - of the argument, of the construction
   molecules, of every molecule returned so far - keeps every field); the topology heap keeps its length and
   every field but resid, and changes only at cells of the target's topology; at most one molecule is added,
   made of freshly allocated gro cells and of the target's topology. *)
Theorem C04_pure :
  forall (vec fr : Type) (frames_of : graph -> list vec -> res (list (nat * fr)))
    (restore : fr -> vec -> vec) (st : state vec fr) (h : nat),
  let st' := fst (step vec fr frames_of restore st (Call h)) in
  (exists e, gro (s_heap st') = gro (s_heap st) ++ e) /\
  length (top (s_heap st')) = length (top (s_heap st)) /\
  map tlab (top (s_heap st')) = map tlab (top (s_heap st)) /\
  (forall l, ~ In l (m_top (e_tgt (s_map st))) ->
     nth_error (top (s_heap st')) l = nth_error (top (s_heap st)) l) /\
  (s_objs st' = s_objs st \/
   exists nm, s_objs st' = s_objs st ++ [nm] /\ m_top nm = m_top (e_tgt (s_map st)) /\
     forall l, In l (m_atoms nm) -> length (gro (s_heap st)) <= l).
Proof. exact pure. Qed.
Print Assumptions C04_pure.

Theorem C04_pure_cells :
  forall (vec fr : Type) (frames_of : graph -> list vec -> res (list (nat * fr)))
    (restore : fr -> vec -> vec) (st : state vec fr) (h l : nat) (c : gcell vec),
  nth_error (gro (s_heap st)) l = Some c ->
  nth_error (gro (s_heap (fst (step vec fr frames_of restore st (Call h))))) l = Some c.
Proof. exact pure_cells. Qed.
Print Assumptions C04_pure_cells.

(* --- labels: names, residue names, atom ids, velocities, count and order of the target's cells; the
   argument's residue numbers residue by residue; another number of residues is ValueError *)
Theorem C04_labels :
  forall (vec fr : Type) (frames_of : graph -> list vec -> res (list (nat * fr)))
    (restore : fr -> vec -> vec) (ec : list (nat * vec)) (g : graph)
    (tcells : list (list (gcell vec))) (ps : list vec) (rids : list Z) (d : dump vec),
  result_of vec fr frames_of restore ec g tcells ps rids = Ok d ->
  length rids = length tcells /\
  map (map (glab_nr vec)) d = map (map (glab_nr vec)) tcells /\
  map (map (@g_resid vec)) d =
    map (fun rc => map (fun _ => snd rc) (fst rc)) (combine tcells rids).
Proof. exact labels. Qed.
Print Assumptions C04_labels.

Theorem C04_labels_residue_mismatch :
  forall (vec fr : Type) (frames_of : graph -> list vec -> res (list (nat * fr)))
    (restore : fr -> vec -> vec) (ec : list (nat * vec)) (g : graph)
    (tcells : list (list (gcell vec))) (ps : list vec) (rids : list Z)
    (frs : list (nat * fr)) (ps' : list vec),
  frames_of g ps = Ok frs -> restore_all vec fr restore frs ec = Ok ps' ->
  length ps' = length (concat tcells) -> length rids <> length tcells ->
  result_of vec fr frames_of restore ec g tcells ps rids = Err EValue.
Proof. exact labels_residue_mismatch. Qed.
Print Assumptions C04_labels_residue_mismatch.

(* --- rejection: TypeError and the WHOLE state (heap, handles, map) is unchanged *)
Theorem C04_reject_nonmolecule :
  forall (vec fr : Type) (frames_of : graph -> list vec -> res (list (nat * fr)))
    (restore : fr -> vec -> vec) (st : state vec fr),
  step vec fr frames_of restore st CallNonMolecule = (st, OCall (Err EType)).
Proof. exact reject_nonmolecule. Qed.
Print Assumptions C04_reject_nonmolecule.

Theorem C04_reject_other_species :
  forall (vec fr : Type) (frames_of : graph -> list vec -> res (list (nat * fr)))
    (restore : fr -> vec -> vec) (st : state vec fr) (h : nat) (arg : mol),
  nth_error (s_objs st) h = Some arg ->
  mol_eq vec (s_heap st) (e_ref (s_map st)) arg = Ok false ->
  step vec fr frames_of restore st (Call h) = (st, OCall (Err EType)).
Proof. exact reject_other_species. Qed.
Print Assumptions C04_reject_other_species.

Theorem C04_other_name_is_other_species :
  forall (vec : Type) (h : heap vec) (a b : mol), m_name b <> m_name a -> mol_eq vec h a b = Ok false.
Proof. exact mol_eq_other_name. Qed.
Print Assumptions C04_other_name_is_other_species.

(* --- the concrete core (the one executed against the implementation) meets KEYS and PROJ *)
Theorem C04_core_keys :
  forall (T : Type) (H : Scalar T) (g : graph) (ps : list (V3 T)) (frs : list (nat * frame T)),
  c_frames_of g ps = Ok frs -> map fst frs = anchors g.
Proof. exact @c_frames_keys. Qed.
Print Assumptions C04_core_keys.

Theorem C04_core_proj :
  forall (T : Type) (H : Scalar T) (s : T) (rs : list (nat * frame T)) (ps tps : list (V3 T))
    (ec : list (nat * V3 T)),
  c_project_all s rs ps tps = Ok ec -> forall ac, In ac ec -> In (fst ac) (map fst rs).
Proof. exact @c_project_keys. Qed.
Print Assumptions C04_core_proj.

(* --- non-vacuity: a concrete world (binary64 core): reference A0-A1-A2 (anchor 1), target of two atoms in two
   residues with its own topology, one argument = copy of the reference (shared topology) elsewhere with its
   own gro residue numbers, one molecule of another name.  After the history
   [call arg; poke ref; non-molecule; call other; poke target; poke the returned molecule; renumber the
   reference (the argument shares its topology and stays valid); renumber the target]
   every hypothesis of C04_history / C04_valid_stable / C04_keys holds and the call returns a molecule. *)
Local Open Scope string_scope.
Example C04_nonvacuous :
  let V := V3 float in
  let p (x y z : nat) : V := mk3 (f_ofZ (Z.of_nat x)) (f_ofZ (Z.of_nat y)) (f_ofZ (Z.of_nat z)) in
  let g (r : Z) rn n (i : Z) pos : gcell V := mkG r rn n i pos None in
  let hp : heap V := mkHeap
    [ g 1%Z "RA" "A0" 1%Z (p 0 0 0); g 2%Z "RB" "A1" 2%Z (p 1 0 0); g 2%Z "RB" "A2" 3%Z (p 1 1 0);
      g 5%Z "TA" "B0" 1%Z (p 1 1 2); g 6%Z "TB" "B1" 2%Z (p 1 1 1);
      g 7%Z "RA" "A0" 1%Z (p 3 3 3); g 8%Z "RB" "A1" 2%Z (p 3 4 3); g 8%Z "RB" "A2" 3%Z (p 3 4 5);
      g 1%Z "RA" "A0" 1%Z (p 0 0 0); g 2%Z "RB" "A1" 2%Z (p 1 0 0); g 2%Z "RB" "A2" 3%Z (p 1 1 0) ]
    [ mkT "A0" "RA" 1%Z 0 [1]; mkT "A1" "RB" 2%Z 1 [0; 2]; mkT "A2" "RB" 2%Z 2 [1];
      mkT "B0" "TA" 1%Z 0 [1]; mkT "B1" "TB" 2%Z 1 [0];
      mkT "A0" "RA" 1%Z 0 [1]; mkT "A1" "RB" 2%Z 1 [0; 2]; mkT "A2" "RB" 2%Z 2 [1] ] in
  let ref := mkMol "REF" [0; 1; 2] [[0]; [1; 2]] in
  let tgt := mkMol "TGT" [3; 4] [[3]; [4]] in
  let arg := mkMol "REF" [0; 1; 2] [[5]; [6; 7]] in
  let other := mkMol "QEF" [5; 6; 7] [[8]; [9; 10]] in
  let fo := @c_frames_of float FScalar in
  let pa := @c_project_all float FScalar 0.5%float in
  let rs := @c_restore float FScalar in
  let ops := [Call 0; PokeRef 1 (p 9 9 9); CallNonMolecule; Call 1; PokeTgt 0 (p 2 2 2); PokeObj 2 0 (p 7 7 7);
              RenumRef [3%Z; 4%Z]; RenumTgt [11%Z; 12%Z]] in
  let g0 := [[1]; [0; 2]; [1]] in
  match build V (frame float) fo pa hp [arg; other] ref tgt with
  | Err _ => False
  | Ok st0 =>
      let st := run V (frame float) fo rs st0 ops in
      is_ok (mapM (read_g V hp) (m_res tgt)) = true /\
      length (m_top tgt) = length (m_atoms tgt) /\
      mol_graph V hp ref = Ok g0 /\
      nth_error (s_objs st) 0 = Some arg /\
      length (s_objs st) = 3 /\
      mol_eq V (s_heap st) ref arg = Ok true /\
      mol_eq V (s_heap st) ref other = Ok false /\
      mol_graph V (s_heap st) arg = Ok g0 /\
      is_ok (mol_positions V (s_heap st) arg) = true /\
      mol_resids V (s_heap st) arg = Ok [7%Z; 8%Z] /\
      (forall l, In l (m_top tgt) -> ~ In l (m_top ref) /\ ~ In l (m_top arg)) /\
      map fst (e_refsys (s_map st)) = [1] /\
      match snd (step V (frame float) fo rs st (Call 0)) with
      | OCall (Ok d) => map (map (@g_resid V)) d = [[7%Z]; [8%Z]] /\ map (map (@g_name V)) d = [["B0"]; ["B1"]]
      | _ => False
      end
  end.
Proof.
  vm_compute. repeat split; try reflexivity;
    intros; repeat match goal with
                   | H : _ \/ _ |- _ => destruct H
                   | H : False |- _ => destruct H
                   end; subst; discriminate.
Qed.

(* the same world with a one-residue target: the call returns a molecule carrying the argument's residue
   number 7 and the target's names *)
Example C04_nonvacuous_ok :
  let V := V3 float in
  let p (x y z : nat) : V := mk3 (f_ofZ (Z.of_nat x)) (f_ofZ (Z.of_nat y)) (f_ofZ (Z.of_nat z)) in
  let g (r : Z) rn n (i : Z) pos : gcell V := mkG r rn n i pos None in
  let hp : heap V := mkHeap
    [ g 1%Z "REF" "A0" 1%Z (p 0 0 0); g 1%Z "REF" "A1" 2%Z (p 1 0 0); g 1%Z "REF" "A2" 3%Z (p 1 1 0);
      g 5%Z "TA" "B0" 1%Z (p 1 1 2); g 5%Z "TA" "B1" 2%Z (p 1 1 1);
      g 7%Z "REF" "A0" 1%Z (p 3 3 3); g 7%Z "REF" "A1" 2%Z (p 3 4 3); g 7%Z "REF" "A2" 3%Z (p 3 4 5) ]
    [ mkT "A0" "REF" 1%Z 0 [1]; mkT "A1" "REF" 1%Z 1 [0; 2]; mkT "A2" "REF" 1%Z 2 [1];
      mkT "B0" "TA" 1%Z 0 [1]; mkT "B1" "TA" 1%Z 1 [0] ] in
  let ref := mkMol "REF" [0; 1; 2] [[0; 1; 2]] in
  let tgt := mkMol "TGT" [3; 4] [[3; 4]] in
  let arg := mkMol "REF" [0; 1; 2] [[5; 6; 7]] in
  let fo := @c_frames_of float FScalar in
  let pa := @c_project_all float FScalar 0.5%float in
  let rs := @c_restore float FScalar in
  let ops := [Call 0; PokeRef 1 (p 9 9 9); CallNonMolecule; PokeTgt 0 (p 2 2 2); PokeObj 1 0 (p 7 7 7)] in
  match build V (frame float) fo pa hp [arg] ref tgt with
  | Err _ => False
  | Ok st0 =>
      let st := run V (frame float) fo rs st0 ops in
      mol_eq V (s_heap st) ref arg = Ok true /\
      match snd (step V (frame float) fo rs st (Call 0)), snd (step V (frame float) fo rs st0 (Call 0)) with
      | OCall (Ok d), OCall (Ok d0) =>
          map (map (@g_resid V)) d = [[7%Z; 7%Z]] /\ map (map (@g_name V)) d = [["B0"; "B1"]] /\
          map (map (@g_resid V)) d0 = [[7%Z; 7%Z]]
      | _, _ => False
      end
  end.
Proof. vm_compute. repeat split; reflexivity. Qed.
