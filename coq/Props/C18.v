(* C18 - Copies are isolated, views write through, rigid operations preserve shape.
   Statements only; proofs are in Proofs/Objects{Frame,Iso,Live,R,Demo}.v.
   The heap model is Model/Objects.v: `exec X o` runs operation o on the handle X, `step`/`run`
   run operations on a family of handles whose entries carry two ghost labels (coordinate group,
   topology group): a copy-like operation starts a new coordinate group, a deep copy also a new
   topology group, a view stays in the groups of its parent (copy_starts_new_group below).
   Theorems 1-8 (and 3b) hold for every Scalar instance (reals and binary64 alike); 9-12 are at T := R. *)
From Coq Require Import String.
From GM Require Import Proofs.RTac Model.Objects Proofs.ObjectsFrame Proofs.ObjectsIso Proofs.ObjectsLive
  Proofs.ObjectsR Proofs.ObjectsDemo.
Import ListNotations.

(* 1. footprint: whatever the operation, whether it returns or raises (the heap reached is kept),
      the only cells that existed before and may differ afterwards are coordinate atoms, topology
      atoms and name cells OF THE HANDLE OPERATED ON; stores only grow. *)
Theorem C18_footprint : forall (T : Type) (S : Scalar T) (X : handle T) (o : op T) (h : heap T),
  ext (inG X) (inT X) (inMt X) h (fst (exec X o h)).
Proof. exact (@exec_framed). Qed.
Print Assumptions C18_footprint.

(* 2. where returned handles live: a view inside its parent; copy / atoms / Alignment / system
      hand-out in freshly allocated coordinate atoms (topology shared); deep_copy all fresh. *)
Theorem C18_fresh_handles : forall (T : Type) (S : Scalar T) (X : handle T) (o : op T) (h h' : heap T) k Y,
  exec X o h = (h', Ok (Some (k, Y))) -> k = op_kind o /\ result_spec h h' X k Y.
Proof. exact (@exec_result). Qed.
Print Assumptions C18_fresh_handles.

(* 3. the invariant (handles valid; different coordinate groups have disjoint coordinate atoms;
      different topology groups disjoint topology atoms and name cells) is kept by every step *)
Theorem C18_family_invariant : forall (T : Type) (S : Scalar T) (h : heap T) (fam : family T) ko h' fam' r,
  wf h fam -> step (h, fam) ko = ((h', fam'), r) -> wf h' fam'.
Proof. exact (@step_wf). Qed.
Print Assumptions C18_family_invariant.

Theorem C18_copy_starts_new_group :
  forall (T : Type) (S : Scalar T) (h : heap T) (fam : family T) i g tg (X : handle T) o h1 fam1,
  wf h fam -> nth_error fam i = Some (g, tg, X) -> op_kind o <> NewView ->
  step (h, fam) (i, o) = ((h1, fam1), Ok tt) ->
  exists Y, fam1 = fam ++ [(length fam, (if match op_kind o with NewDeep => true | _ => false end then length fam else tg), Y)] /\
            wf h1 fam1 /\ length fam <> g /\
            (op_kind o = NewDeep -> length fam <> tg) /\
            fresh_in (length (hgro h)) (length (hgro h1)) (gro_locs Y).
Proof. exact (@copy_starts_new_group). Qed.
Print Assumptions C18_copy_starts_new_group.

(* 3b. Alignment objects (a cell holding what _start and _end refer to).  `ali.start = fam[j]` /
      `ali.end = fam[j]` / `= None`, in every branch - first assignment, RE-assignment of an equal
      molecule when both ends are set, ValueError for a non-matching one - writes no coordinate atom,
      topology atom or name cell that existed: it only allocates and updates the Alignment's own cell. *)
Theorem C18_alignment_footprint :
  forall (T : Type) (S : Scalar T) (h : heap T) (fam : family T) k side oj h' fam' r,
  step_ali (h, fam) k side oj = ((h', fam'), r) -> ext nonep nonep nonep h h'.
Proof. exact (fun T _ => @step_ali_ext T). Qed.
Print Assumptions C18_alignment_footprint.

(*    ... and whenever such an assignment does not raise, what the Alignment stores (and hands back as
      ali.start / ali.end) is a molecule on fam[j]'s topology whose coordinate atoms are freshly
      allocated, appended to the family in a NEW coordinate group: by C18_isolation below, the stored
      molecule and the molecule passed in are isolated from each other in both directions. *)
Theorem C18_alignment_stores_a_copy :
  forall (T : Type) (S : Scalar T) (h : heap T) (fam : family T) k side j h1 fam1,
  wf h fam -> step (h, fam) (k, OAliSet side (Some j)) = ((h1, fam1), Ok tt) ->
  exists gj tj mt ts rs rs',
    nth_error fam j = Some (gj, tj, HM mt ts rs) /\
    fam1 = fam ++ [(length fam, tj, HM mt ts rs')] /\ wf h1 fam1 /\ length fam <> gj /\
    fresh_in (length (hgro h)) (length (hgro h1)) (concat rs').
Proof. exact (@ali_assign_new_group). Qed.
Print Assumptions C18_alignment_stores_a_copy.

(* 3c. `fam[k].copy(new_residues)` / `fam[k].deep_copy(new_residues)` with residues supplied by another
      handle (its own Residue objects, a list of copies of them, the residues of a system instance):
      no existing cell is written, and when it does not raise the new molecule's coordinate atoms are
      ALL freshly allocated and it starts a new coordinate group (a deep copy a new topology group too),
      so supplier and new molecule are isolated both ways by C18_isolation. *)
Theorem C18_graft_footprint :
  forall (T : Type) (S : Scalar T) (h : heap T) (fam : family T) k deep mode j i h' fam' r,
  step_graft (h, fam) k deep mode j i = ((h', fam'), r) -> ext nonep nonep nonep h h'.
Proof. exact (fun T _ => @step_graft_ext T). Qed.
Print Assumptions C18_graft_footprint.

Theorem C18_graft_copies_the_residues :
  forall (T : Type) (S : Scalar T) (h : heap T) (fam : family T) k deep mode j i h1 fam1,
  wf h fam -> step (h, fam) (k, OCopyWith deep mode j i) = ((h1, fam1), Ok tt) ->
  exists g tg mt ts rs mt' ts' rs' gj tj src,
    nth_error fam k = Some (g, tg, HM mt ts rs) /\ nth_error fam j = Some (gj, tj, src) /\
    fam1 = fam ++ [(length fam, (if deep then length fam else tg), HM mt' ts' rs')] /\ wf h1 fam1 /\
    length fam <> gj /\ length fam <> g /\
    fresh_in (length (hgro h)) (length (hgro h1)) (concat rs').
Proof. exact (@graft_new_group). Qed.
Print Assumptions C18_graft_copies_the_residues.

(* 4. ISOLATION.  For EVERY operation sequence (any length, exceptions included) none of whose
      operations is applied to a handle of X's coordinate group - i.e. all of them on copies of X,
      on copies of copies, on their views ... or, vice versa, on the original and its views when X
      is the copy; assignments to Alignment ends are operations of the sequence like any other -
      X's coordinates, velocities, atom ids, residue numbers (resids getter: first
      coordinate atom of every residue), and also the resnames getter and the coordinate-side
      names, read exactly what they read before. *)
Theorem C18_isolation : forall (T : Type) (S : Scalar T) (h : heap T) (fam : family T) i g tg (X : handle T) ops,
  wf h fam -> nth_error fam i = Some (g, tg, X) ->
  avoids (fun e => fst (fst e) <> g) (h, fam) ops ->
  gro_reads_equal h (fst (run (h, fam) ops)) X /\
  nth_error (snd (run (h, fam) ops)) i = Some (g, tg, X).
Proof. exact (@isolation). Qed.
Print Assumptions C18_isolation.

(* 5. DEEP ISOLATION: if moreover no operation touches X's topology group (all of them on deep
      copies and their descendants), the topology atoms (names, residue labels, topology residue
      numbers) and the molecule name are unchanged too. *)
Theorem C18_deep_isolation : forall (T : Type) (S : Scalar T) (h : heap T) (fam : family T) i g tg (X : handle T) ops,
  wf h fam -> nth_error fam i = Some (g, tg, X) ->
  avoids (fun e => fst (fst e) <> g /\ snd (fst e) <> tg) (h, fam) ops ->
  gro_reads_equal h (fst (run (h, fam) ops)) X /\ top_reads_equal h (fst (run (h, fam) ops)) X.
Proof. exact (@deep_isolation). Qed.
Print Assumptions C18_deep_isolation.

(* 6. what is NOT isolated for a plain copy (shared topology, by design): after
      `copy.resnames = "XX"` the original still READS its old resnames (coordinate side, covered
      by C18_isolation) but its topology atoms carry the new labels and building any view of the
      original - mol[0], iteration, hence move and copy - raises IOError. *)
Theorem C18_shared_top_documented : forall (T : Type) (S : Scalar T),
  avoids (fun e => fst (fst e) <> 0%nat) (@demo_heap T S, demo_fam) demo_ops /\
  let h' := fst (run (@demo_heap T S, demo_fam) demo_ops) in
  read_resnames h' demo_orig = Ok ["RA"; "RB"]%string /\
  read_resnames demo_heap demo_orig = Ok ["RA"; "RB"]%string /\
  rmap (map t_resname) (read_top demo_heap demo_orig) = Ok ["RA"; "RB"]%string /\
  rmap (map t_resname) (read_top h' demo_orig) = Ok ["XX"; "XX"]%string /\
  snd (exec demo_orig (OIndex 0) demo_heap) = Ok (Some (NewView, HA 0%nat 0%nat)) /\
  snd (exec demo_orig (OIndex 0) h') = Err EIO /\
  snd (exec demo_orig (OMove vzero) h') = Err EIO /\
  snd (exec demo_orig OCopy h') = Err EIO.
Proof. exact (@shared_top_not_isolated). Qed.
Print Assumptions C18_shared_top_documented.

(* 7. VIEWS ARE LIVE: mol[i], or the i-th atom of an iteration, allocates nothing and is the pair of
      the molecule's own i-th topology atom and i-th coordinate atom; a position / atom id /
      velocity assigned through it is what the molecule reads at index i afterwards. *)
Theorem C18_views_live : forall (T : Type) (S : Scalar T) mt ts rs i (h h1 : heap T) k Y (viaiter : bool),
  exec (HM mt ts rs) (if viaiter then OIter i else OIndex i) h = (h1, Ok (Some (k, Y))) ->
  NoDup (concat rs) ->
  h1 = h /\ k = NewView /\
  (forall p h2 ps, exec Y (OSetPos p) h = (h2, Ok None) -> read_positions h (HM mt ts rs) = Ok ps ->
                   read_positions h2 (HM mt ts rs) = Ok (upd ps i p)) /\
  (forall z h2 ids, exec Y (OSetAtomId z) h = (h2, Ok None) -> read_ids h (HM mt ts rs) = Ok ids ->
                    read_ids h2 (HM mt ts rs) = Ok (upd ids i z)) /\
  (forall v h2 vs, exec Y (OSetVel v) h = (h2, Ok None) ->
                   rmap (map g_vel) (cells (hgro h) (concat rs)) = Ok vs ->
                   rmap (map g_vel) (cells (hgro h2) (concat rs)) = Ok (upd vs i v)).
Proof. exact (@views_live). Qed.
Print Assumptions C18_views_live.

(* 8. ONE BODY: a successful move / move_to / rotate of a Residue or a Molecule replaces the list of
      ALL its atoms' coordinates (residue after residue) by the geometry function of that whole list:
      one centre for the whole multi-residue molecule. *)
Theorem C18_rigid_one_body : forall (T : Type) (S : Scalar T) (X : handle T) (o : op T) (h h' : heap T),
  (match o with OMove _ | OMoveTo _ | ORotate _ => True | _ => False end) ->
  exec X o h = (h', Ok None) -> shaped X -> NoDup (gro_locs X) ->
  exists ps ps', read_positions h X = Ok ps /\ geo_of o ps = Ok ps' /\ read_positions h' X = Ok ps'.
Proof. exact (@rigid_op_spec). Qed.
Print Assumptions C18_rigid_one_body.

Local Open Scope R_scope.

(* 9-11. over the reals: all pairwise distances kept; the centre moves by exactly d / to exactly p /
      not at all *)
Theorem C18_rigid_move : forall (d : V3 R) (ps : list (V3 R)), ps <> [] ->
  same_shape ps (geo_move d ps) /\
  exists c, geo_center ps = Ok c /\ geo_center (geo_move d ps) = Ok (vadd c d).
Proof. exact rigid_move. Qed.
Print Assumptions C18_rigid_move.

Theorem C18_rigid_move_to : forall (p : V3 R) (ps : list (V3 R)), ps <> [] ->
  exists ps', geo_move_to p ps = Ok ps' /\ same_shape ps ps' /\ geo_center ps' = Ok p.
Proof. exact rigid_move_to. Qed.
Print Assumptions C18_rigid_move_to.

Theorem C18_rigid_rotate : forall (Q : M3 R) (ps : list (V3 R)), ps <> [] -> mmul (mtrans Q) Q = mid ->
  exists ps', geo_rotate Q ps = Ok ps' /\ same_shape ps ps' /\ geo_center ps' = geo_center ps.
Proof. exact rigid_rotate. Qed.
Print Assumptions C18_rigid_rotate.

(* 12. the centre of nothing is an error, never 0/0 totalised *)
Theorem C18_no_centre_of_nothing : forall (p : V3 R) (Q : M3 R),
  geo_move_to p [] = Err EDiv0 /\ geo_rotate Q [] = Err EDiv0.
Proof. exact (fun p Q => conj eq_refl eq_refl). Qed.
Print Assumptions C18_no_centre_of_nothing.

(* ---- non-vacuity ---- *)
(* a well-formed family with an original and its plain copy (hypotheses of 3-5), and one with a deep copy
   on which a renaming / re-naming / moving run avoids the original's two groups (hypothesis of 5) *)
Example C18_nonvacuous_wf : wf (@demo_heap R _) demo_fam.
Proof. exact demo_wf. Qed.
Example C18_nonvacuous_single : forall (h : heap R) (X : handle R), valid h X -> wf h [(0%nat, 0%nat, X)].
Proof. exact wf_single. Qed.
Example C18_nonvacuous_deep : wf (@demo_deep_heap R _) demo_deep_fam /\
  avoids (fun e => fst (fst e) <> 0%nat /\ snd (fst e) <> 0%nat) (@demo_deep_heap R _, demo_deep_fam)
         [(1%nat, OSetResnamesAll "XX"%string); (1%nat, OSetMolName "NEW"%string); (1%nat, OMove vzero)].
Proof. exact (conj demo_deep_wf demo_deep_avoids). Qed.
(* an Alignment with both ends set: re-assignment of an equal molecule goes through and appends the stored copy *)
Example C18_nonvacuous_alignment : wf (@demo_ali_heap R _) demo_ali_fam /\
  snd (step (@demo_ali_heap R _, demo_ali_fam) (2%nat, OAliSet true (Some 0%nat))) = Ok tt.
Proof. exact (conj demo_ali_wf (proj1 demo_ali_steps)). Qed.
(* grafting the copy's residues onto the original goes through (plain and deep) *)
Example C18_nonvacuous_graft :
  snd (step (@demo_heap R _, demo_fam) (0%nat, OCopyWith false 0 1 0)) = Ok tt.
Proof. exact (proj1 demo_graft_steps). Qed.
(* an orthogonal matrix that is not the identity (quarter turn about z), a non-empty body *)
Example C18_nonvacuous_rotation :
  mmul (mtrans (mkM (mk3 0 (-1) 0) (mk3 1 0 0) (mk3 0 0 1))) (mkM (mk3 0 (-1) 0) (mk3 1 0 0) (mk3 0 0 1)) = (mid : M3 R).
Proof. apply M3_eq; apply V3_eq; runfold; simpl; ring. Qed.
Example C18_nonvacuous_body : [mk3 0 0 0; mk3 1 2 3] <> ([] : list (V3 R)).
Proof. discriminate. Qed.
(* the demo molecule meets the hypotheses of 7 and 8 *)
Example C18_nonvacuous_shape : shaped (@demo_orig R) /\ NoDup (gro_locs (@demo_orig R)).
Proof. split; [apply shaped_HM; reflexivity | repeat constructor; simpl; intuition lia]. Qed.
