(* C16 - ItpFile read-write-read loses no section, line or comment.
   Statements only; proofs in Proofs/ItpLine.v, ItpCore.v, ItpText.v, ItpRound.v.  All theorems are closed
   under the global context (no axioms).

   Vocabulary (Proofs/ItpSpec.v, written without the parser's control flow): `lines text` is what the file
   iterator yields; `is_hdr l` a section-header line, `hdr_name l` its name; `sec_names ls` the names in order
   of first appearance; `lines_in n ls` the lines of ALL occurrences of section n in file order;
   `spec_entry l` = (white-space tokens before the first ';', stripped text after it), or ([], text) for a
   preprocessor line ('#' in column 0); `spec_abs ls` = (header lines, per name the non-blank entries).
   `abs f` (Model/Itp.v) is the same abstraction read off the parsed object through the API
   (`content.split()`, `comment`).  Domain: ASCII; no section literally named 'header' (`no_header_sec`);
   a trailing comment on a section-header line and blank lines are not part of the abstraction. *)
From Coq Require Import List Ascii.
From GM Require Import Base.Res Base.StrItp Model.Itp Proofs.ItpSpec Proofs.ItpCore Proofs.ItpLine Proofs.ItpText
  Proofs.ItpRound Proofs.TopologyParse Proofs.ItpExample.
From GM Require Import Gen.ItpGen Proofs.ItpGenEq.
Import ListNotations.
Local Open Scope char_scope.

(* the reading loop: header lines, names, and for every name the parsed lines of all its occurrences *)
Theorem C16_parse_sections : forall ls f,
  itp_parse ls = Ok f -> no_header_sec ls ->
  f_header f = header_lines ls /\
  map fst (f_secs f) = sec_names ls /\
  f_secs f = map (fun n => (n, sec_lines n (f_secs f))) (sec_names ls) /\
  forall n, Forall2 (fun l p => parse_line (kind_of n) l = Ok p) (lines_in n ls) (sec_lines n (f_secs f)).
Proof. exact itp_parse_spec. Qed.
Print Assumptions C16_parse_sections.

(* what one parsed line carries is exactly what its text carries *)
Theorem C16_line_entry : forall k l p, parse_line k l = Ok p ->
  entry_of p = spec_entry l /\ fields_of k (fst (spec_entry l)) = Ok (p_fields p) /\
  p_directive p = startswith "#" l /\ parse_itp_line l = Ok (p_content p, p_comment p) /\ re_header l = false.
Proof. exact parse_line_entry. Qed.
Print Assumptions C16_line_entry.

(* the first parse is complete: every content, comment and preprocessor line of the text is in the parsed
   object, grouped by section name in order of first appearance - also for repeated names *)
Theorem C16_first_parse_complete : forall ls f,
  itp_parse ls = Ok f -> no_header_sec ls -> abs f = spec_abs ls.
Proof. exact first_parse_complete. Qed.
Print Assumptions C16_first_parse_complete.

(* one line written back: nothing is written for a line that carries nothing, otherwise a proper line that
   ends with a newline iff the source did, is not taken for a section header, and carries the same entry *)
Theorem C16_line_roundtrip : forall k l p, line_ok l -> is_hdr l = false -> parse_line k l = Ok p ->
  let l' := line_of p in
  (l' = [] /\ entry_nonblank (spec_entry l) = false) \/
  (l' <> [] /\ ~ In ch_nl (removelast l') /\ last_is ch_nl l' = last_is ch_nl l /\ is_hdr l' = false /\
   re_header l' = false /\ spec_entry l' = spec_entry l).
Proof. exact line_roundtrip. Qed.
Print Assumptions C16_line_roundtrip.

Theorem C16_line_reparse : forall k l p, line_ok l -> is_hdr l = false -> parse_line k l = Ok p ->
  line_of p <> [] ->
  exists p', parse_line k (line_of p) = Ok p' /\ entry_of p' = entry_of p /\ p_fields p' = p_fields p.
Proof. exact line_reparse. Qed.
Print Assumptions C16_line_reparse.

(* the whole file: whatever parses is written to a text that parses again to the same abstraction (same
   header text, same section names in the same order, same entries), again inside the domain *)
Theorem C16_roundtrip : forall text f,
  itp_read text = Ok f -> no_header_sec (lines text) ->
  exists f', itp_read (itp_write f) = Ok f' /\ abs f' = abs f /\ no_header_sec (lines (itp_write f)).
Proof. exact roundtrip. Qed.
Print Assumptions C16_roundtrip.

(* a second write / read carries the same content again *)
Theorem C16_stable : forall text f,
  itp_read text = Ok f -> no_header_sec (lines text) ->
  exists f' f'', itp_read (itp_write f) = Ok f' /\ abs f' = abs f /\
                 itp_read (itp_write f') = Ok f'' /\ abs f'' = abs f.
Proof. exact stable. Qed.
Print Assumptions C16_stable.

(* the model is the source (DESIGN.md 4.6): Gen/ItpGen.v is re-translated from the text of ItpLine.parse_itp_line in
   gaddlemaps/parsers/_itp_parse.py at every run (harness/pytrans_itp.py); for every line, what the source says now
   IS the line parser the theorems of this file are about (blank / header / '#' / ';' / first ';' / final ';' / plain) *)
Theorem C16_model_is_source_line : forall l : str, parse_itp_line_gen l = parse_itp_line l.
Proof. exact parse_itp_line_gen_eq. Qed.
Print Assumptions C16_model_is_source_line.

(* non-vacuity: a text with a repeated [ dihedrals ], `1 2 3 ;`, a '#'-leading trailing comment, several
   trailing comments, a preprocessor line and no final newline is inside the domain and parses, with both
   occurrences of dihedrals merged in file order *)
Example C16_nonvacuous_domain : no_header_sec (lines ex16_text).
Proof. exact ex16_domain. Qed.
Example C16_nonvacuous_parse : ex16_claim.
Proof. exact ex16_parses. Qed.
