(* C05 - System extrapolation conserves molecules, order, numbering, box and title.
   Statements only; proofs in Proofs/ManagerP.v (abstract manager), Proofs/ManagerEM.v (ExchangeMap instance),
   Proofs/ManagerFile.v (composition with the .gro writer of C13), Proofs/ManagerEx.v (examples).
   Model: Model/Manager.v.

   Vocabulary
     sps : list (spstate E M)   one Alignment per loaded species (index = position in System.different_molecules):
                                start flag, end molecule (option), exchange map object (option);
     is_complete st             both resolutions attached;
     mols : list (minst I)      the molecules System.__iter__ yields, in file order (that these are exactly the
                                molecules of the loaded species is C11): species index, residue numbers, body
                                (coordinates and the random draws its call consumes);
     mapmol : M -> I -> res (mapped C)    ANY per-molecule map (every theorem of the first part quantifies over it);
     extrapolate mapmol f title box sps mols = (effect trace, outcome)     Manager.extrapolate_system;
     frame f title box ls = Open f :: SetComment title :: SetBox box :: map WriteLine ls ++ [Close];
     written t                  the WriteLine payloads of a trace, in order;
     selected sps mols          the input molecules whose species is complete, in input order;
     maps_to mapmol sps m atoms the call for molecule m returned: atoms = the atoms of map(m) (names and payload of
                                the map's output), residue k of it carrying the k-th residue number of m
                                (spelled out by C05_maps_to_meaning);
     numbered atoms k0          the lines of these atoms with atom numbers k0, k0+1, ... *)
From Coq Require Import List Ascii NArith ZArith Bool Arith.
Import ListNotations.
From GM Require Import Base.Res Base.StrGro Base.Scalar Base.Vec Model.ExchangeMap Model.GroCodec Model.GroFile
  Model.Manager Proofs.GroStr Proofs.GroCodecP Proofs.ManagerP Proofs.ManagerEM Proofs.ManagerFile Proofs.ManagerEx.

(* no complete species, or a complete species whose map does not exist (whatever the other species have):
   SystemError, and the trace is empty - no Open, hence no file *)
Theorem C05_preflight : forall (E M I C F B : Type) (mapmol : M -> I -> res (mapped C))
    (f : F) (title : bytes) (box : B) (sps : list (spstate E M)) (mols : list (minst I)),
  (forall st, In st sps -> is_complete st = false) \/
  (exists st, In st sps /\ is_complete st = true /\ sp_map st = None) ->
  extrapolate mapmol f title box sps mols = ([], Err ESystem).
Proof. exact (@preflight_thm). Qed.
Print Assumptions C05_preflight.

(* the only two shapes of a trace: empty with SystemError (pre-flight), or Open first, title, box, lines, Close last -
   Close also when the loop raised *)
Theorem C05_opened : forall (E M I C F B : Type) (mapmol : M -> I -> res (mapped C))
    (f : F) (title : bytes) (box : B) (sps : list (spstate E M)) (mols : list (minst I)) t r,
  extrapolate mapmol f title box sps mols = (t, r) ->
  (t = [] /\ r = Err ESystem /\ preflight sps = Err ESystem) \/
  (preflight sps = Ok tt /\ exists ls, t = frame f title box ls).
Proof. exact (@opened_thm). Qed.
Print Assumptions C05_opened.

(* what the pre-flight accepts *)
Theorem C05_preflight_meaning : forall (E M : Type) (sps : list (spstate E M)),
  preflight sps = Ok tt <->
  (exists st, In st sps /\ is_complete st = true) /\
  (forall st, In st sps -> is_complete st = true -> sp_map st <> None).
Proof. exact (@preflight_ok_iff). Qed.
Print Assumptions C05_preflight_meaning.

(* the trace: for each input molecule in order whose species is complete, the atoms of its mapped molecule with that
   molecule's residue numbers; nothing for the other species; numbered from 1 *)
Theorem C05_trace : forall (E M I C F B : Type) (mapmol : M -> I -> res (mapped C))
    (f : F) (title : bytes) (box : B) (sps : list (spstate E M)) (mols : list (minst I)) blocks,
  preflight sps = Ok tt ->
  Forall2 (maps_to mapmol sps) (selected sps mols) blocks ->
  extrapolate mapmol f title box sps mols = (frame f title box (numbered (concat blocks) 1%Z), Ok tt).
Proof. exact (@trace_thm). Qed.
Print Assumptions C05_trace.

Theorem C05_maps_to_meaning : forall (E M I C : Type) (mapmol : M -> I -> res (mapped C))
    (sps : list (spstate E M)) (m : minst I) atoms,
  maps_to mapmol sps m atoms ->
  exists st mp mm, nth_error sps (in_species m) = Some st /\ is_complete st = true /\ sp_map st = Some mp /\
    mapmol mp (in_body m) = Ok mm /\ length (in_resids m) = length mm /\
    atoms = flatten_res (combine (in_resids m) mm).
Proof. exact (@mol_atoms_ok). Qed.
Print Assumptions C05_maps_to_meaning.

(* a molecule whose call raises (e) stops the loop: the molecules before it are written, the file is closed, e
   propagates *)
Theorem C05_trace_error : forall (E M I C F B : Type) (mapmol : M -> I -> res (mapped C))
    (f : F) (title : bytes) (box : B) (sps : list (spstate E M)) (pre : list (minst I)) (m : minst I)
    (post : list (minst I)) blocks e,
  preflight sps = Ok tt ->
  Forall2 (maps_to mapmol sps) (selected sps pre) blocks ->
  mol_atoms mapmol sps m = Some (Err e) ->
  extrapolate mapmol f title box sps (pre ++ m :: post) = (frame f title box (numbered (concat blocks) 1%Z), Err e).
Proof. exact (@trace_error_thm). Qed.
Print Assumptions C05_trace_error.

(* in particular when the two resolutions have different numbers of residues: ValueError from the resids setter
   (outside the property's domain) *)
Theorem C05_residue_mismatch : forall (E M I C : Type) (mapmol : M -> I -> res (mapped C))
    (sps : list (spstate E M)) (m : minst I) st mp mm,
  nth_error sps (in_species m) = Some st -> is_complete st = true -> sp_map st = Some mp ->
  mapmol mp (in_body m) = Ok mm -> in_resids m <> [] -> length (in_resids m) <> length mm ->
  mol_atoms mapmol sps m = Some (Err EValue).
Proof. exact (@mol_atoms_residue_mismatch). Qed.
Print Assumptions C05_residue_mismatch.

(* number of lines = sum, over the input molecules of complete species, of the size of what their species' map
   produces *)
Theorem C05_count : forall (E M I C F B : Type) (mapmol : M -> I -> res (mapped C))
    (f : F) (title : bytes) (box : B) (sps : list (spstate E M)) (mols : list (minst I)) blocks (tsize : nat -> nat),
  preflight sps = Ok tt ->
  Forall2 (maps_to mapmol sps) (selected sps mols) blocks ->
  (forall m atoms, In m mols -> maps_to mapmol sps m atoms -> length atoms = tsize (in_species m)) ->
  length (written (fst (extrapolate mapmol f title box sps mols))) =
    list_sum (map (fun m => tsize (in_species m)) (selected sps mols)).
Proof. exact (@count_sizes_thm). Qed.
Print Assumptions C05_count.

(* with the ExchangeMap instance (any Scalar) the size hypothesis is a theorem: the sum of the TARGET sizes *)
Theorem C05_count_em : forall (T : Type) (HS : Scalar T) (F B : Type) (f : F) (title : bytes) (box : B)
    (sps : list (spstate (endmol T) (emobj T))) (mols : list (minst (ibody T))) blocks,
  preflight sps = Ok tt ->
  Forall2 (maps_to em_mapmol sps) (selected sps mols) blocks ->
  length (written (fst (extrapolate em_mapmol f title box sps mols))) =
    list_sum (map (fun m => tsize sps (in_species m)) (selected sps mols)).
Proof. exact (@count_em_thm). Qed.
Print Assumptions C05_count_em.

(* and each written molecule is the output of `apply` (the C01-C03 model) on its input molecule's coordinates, with
   the names and velocities of the target, residue by residue *)
Theorem C05_map_is_apply : forall (T : Type) (HS : Scalar T) (mo : emobj T) (b : ibody T) mm,
  em_mapmol mo b = Ok mm ->
  exists out, apply (eo_map mo) (eo_graph mo) (b_pos b) (b_draws b) = Ok out /\
    map (fun a => fst (ma_coords a)) (concat mm) = out /\
    map (map mlabel) mm = map (map tlabel) (eo_tgt mo) /\
    length (concat mm) = length (concat (eo_tgt mo)).
Proof. exact (@em_mapmol_spec). Qed.
Print Assumptions C05_map_is_apply.

(* numbering: the k-th line issued (k from 0) carries atom number k + 1 - for EVERY state, input and outcome *)
Theorem C05_numbering : forall (E M I C F B : Type) (mapmol : M -> I -> res (mapped C))
    (f : F) (title : bytes) (box : B) (sps : list (spstate E M)) (mols : list (minst I)) k l,
  nth_error (written (fst (extrapolate mapmol f title box sps mols))) k = Some l ->
  l_anum l = (Z.of_nat k + 1)%Z.
Proof. exact (@numbering_thm). Qed.
Print Assumptions C05_numbering.

(* ... and after the writer's wrap (C13) the file shows (k + 1) mod 100000 in columns 15-20 and the residue number
   mod 100000 in columns 0-5, for any format in force *)
Theorem C05_numbering_wrap : forall (E M I F : Type) (mapmol : M -> I -> res (mapped dpay))
    (f : F) (title : bytes) (box : list bentry) (sps : list (spstate E M)) (mols : list (minst I)) k l w d fv text,
  nth_error (written (fst (extrapolate mapmol f title box sps mols))) k = Some l ->
  parse_atomlist w d fv (to_grec l) = Ok text ->
  py_int (firstn 5 (skipn 15 text)) = Ok ((Z.of_nat k + 1) mod 100000)%Z /\
  py_int (firstn 5 text) = Ok (l_resid l mod 100000)%Z.
Proof. exact (@wrap_thm). Qed.
Print Assumptions C05_numbering_wrap.

(* order and residue numbers: cut at the sizes of the blocks, the written lines are one block per input molecule of a
   complete species, in input order; block j is the mapped molecule of the j-th such molecule atom by atom, residue
   k of it carrying that molecule's k-th residue number *)
Theorem C05_order_resids : forall (E M I C F B : Type) (mapmol : M -> I -> res (mapped C))
    (f : F) (title : bytes) (box : B) (sps : list (spstate E M)) (mols : list (minst I)) blocks,
  preflight sps = Ok tt ->
  Forall2 (maps_to mapmol sps) (selected sps mols) blocks ->
  let ls := written (fst (extrapolate mapmol f title box sps mols)) in
  ls = numbered (concat blocks) 1%Z /\
  Forall2 (fun m lb => exists mm, (exists st mp, nth_error sps (in_species m) = Some st /\ sp_map st = Some mp /\
                                     mapmol mp (in_body m) = Ok mm) /\
                                  length (in_resids m) = length mm /\
                                  map unnum lb = flatten_res (combine (in_resids m) mm))
          (selected sps mols) (split_blocks (map (@length _) blocks) ls).
Proof. exact (@order_resids_thm). Qed.
Print Assumptions C05_order_resids.

(* title and box: whenever anything is issued, the input's title line and the input's box are set, once each, right
   after Open and before the first line *)
Theorem C05_title_box : forall (E M I C F B : Type) (mapmol : M -> I -> res (mapped C))
    (f : F) (title : bytes) (box : B) (sps : list (spstate E M)) (mols : list (minst I)) t r,
  extrapolate mapmol f title box sps mols = (t, r) -> t <> [] ->
  exists ls, t = Open f :: SetComment title :: SetBox box :: map WriteLine ls ++ [Close].
Proof. exact (@title_box_thm). Qed.
Print Assumptions C05_title_box.

(* the file: the writer model run on the trace succeeds, and the reader model on its bytes returns the input's title
   line, count = number of lines, the k-th atom = k-th mapped atom with (resid mod 10^5, (k+1) mod 10^5) and its
   decimals, and the box.  Hypotheses: title line t ++ "\n" (t may be empty), 9 box entries, all lines inside the
   writer's domain of C13 (rec_ok: names of 1-5 characters, values that fit their fields, all or none with
   velocities), at least one line, fewer than 10^9 *)
Theorem C05_file : forall (E M I F : Type) (mapmol : M -> I -> res (mapped dpay))
    (f : F) (t : bytes) (box : list bentry) (sps : list (spstate E M)) (mols : list (minst I)) blocks vel,
  preflight sps = Ok tt ->
  Forall2 (maps_to mapmol sps) (selected sps mols) blocks ->
  no_nl t -> length box = 9 ->
  let ls := numbered (concat blocks) 1%Z in
  ls <> [] -> Forall (rec_ok 8 vel) (map to_grec ls) -> (Z.of_nat (length ls) < 1000000000)%Z ->
  exists file, trace_file (fst (extrapolate mapmol f (t ++ [NL]) box sps mols)) = Ok file /\
    ((Z.of_nat (length file) < SEEK_LIMIT)%Z ->
     read_gro file = Ok (mkrresult (t ++ [NL]) (Z.of_nat (length ls))
                                   (map (expected_atom 3) (map to_grec ls)) (expected_box box))).
Proof. exact (@file_thm). Qed.
Print Assumptions C05_file.

(* the call sequence "maps calculated, then an end molecule for one more species, then extrapolate":
   add_end_molecule never creates a map, so the request is refused, whatever maps the other species have *)
Theorem C05_end_after_maps : forall (E M I C F B : Type) (mapmol : M -> I -> res (mapped C)) (eeq : E -> E -> bool)
    (sps : list (spstate E M)) (i : nat) (e : E) sps' st (f : F) (title : bytes) (box : B) (mols : list (minst I)),
  nth_error sps i = Some st -> sp_start st = true -> sp_map st = None ->
  add_end eeq sps i e = Ok sps' ->
  extrapolate mapmol f title box sps' mols = ([], Err ESystem).
Proof. exact (@end_after_maps_thm). Qed.
Print Assumptions C05_end_after_maps.

(* detaching an end molecule (`molecule_correspondence[name].end = None`): nothing is written for that species from
   then on, whatever map object it still holds - the selection depends on the CURRENT attachments only *)
Theorem C05_end_removed : forall (E M I C : Type) (mapmol : M -> I -> res (mapped C))
    (sps : list (spstate E M)) (i : nat) sps' (m : minst I),
  remove_end sps i = Ok sps' -> in_species m = i -> sel sps' m = false /\ mol_atoms mapmol sps' m = None.
Proof. exact (@end_removed_thm). Qed.
Print Assumptions C05_end_removed.

(* ---------------------------------------------------------------- non-vacuity *)
(* three species (both resolutions + map / loaded only / both + map), file order A B C A, residue numbers
   (7,8) (9) (99999) (0,1): the hypotheses of C05_trace, C05_count, C05_order_resids and C05_file hold *)
Example C05_nonvacuous_preflight : preflight ex_sps = Ok tt.
Proof. exact ex_preflight. Qed.
Example C05_nonvacuous_maps : Forall2 (maps_to ex_mapmol ex_sps) (selected ex_sps ex_mols) ex_blocks.
Proof. exact ex_maps. Qed.
Example C05_nonvacuous_selected : map in_resids (selected ex_sps ex_mols) = [[7; 8]; [99999]; [0; 1]]%Z.
Proof. exact ex_selected. Qed.
Example C05_nonvacuous_file :
  no_nl ex_title /\ length ex_box = 9 /\
  numbered (concat ex_blocks) 1%Z <> [] /\
  Forall (rec_ok 8 false) (map to_grec (numbered (concat ex_blocks) 1%Z)) /\
  (Z.of_nat (length (numbered (concat ex_blocks) 1%Z)) < 1000000000)%Z.
Proof. exact ex_file_hyps. Qed.
Example C05_nonvacuous_trace :
  map (fun l => (l_resid l, l_anum l))
      (written (fst (extrapolate ex_mapmol tt (ex_title ++ [NL]) ex_box ex_sps ex_mols)))
  = [(7, 1); (8, 2); (8, 3); (99999, 4); (0, 5); (1, 6); (1, 7)]%Z.
Proof. exact ex_trace. Qed.
(* an empty title line in the input is copied like any other (the defect repaired by /repo efbff8f) *)
Example C05_nonvacuous_empty_title :
  match trace_file (fst (extrapolate ex_mapmol tt ([] ++ [NL]) ex_box ex_sps ex_mols)) with
  | Ok file => rmap (fun r => (r_comment r, r_natoms r, length (r_atoms r))) (read_gro file) = Ok ([NL], 7%Z, 7)
  | Err _ => False
  end.
Proof. exact ex_empty_title. Qed.
(* the session add_end 0; calc; add_end 1; extrapolate (refused, empty trace); calc; extrapolate (written) *)
Example C05_nonvacuous_late_end :
  fst (run ex_eeq ex_build ex_mapmol (ex_title ++ [NL]) ex_box (init 2)
           [OAddEnd 0 tt; OCalc tt; OAddEnd 1 tt; OExtrap tt ex_mols; OCalc tt; OExtrap tt [mkInst 1 [9]%Z tt]])
  = [ORes (Ok tt); ORes (Ok tt); ORes (Ok tt); OTrace [] (Err ESystem); ORes (Ok tt);
     OTrace (frame tt (ex_title ++ [NL]) ex_box
               [mkLine 9%Z ["I"; "O"; "N"]%char ["N"; "A"]%char 1%Z (ex_pay 0 0 5)]) (Ok tt)].
Proof. exact ex_late_end. Qed.
Example C05_nonvacuous_residue_mismatch :
  extrapolate ex_mapmol tt (ex_title ++ [NL]) ex_box ex_sps [mkInst 2 [5]%Z tt; mkInst 0 [7]%Z tt; mkInst 2 [6]%Z tt]
  = (frame tt (ex_title ++ [NL]) ex_box [mkLine 5%Z ["I"; "O"; "N"]%char ["N"; "A"]%char 1%Z (ex_pay 0 0 5)], Err EValue).
Proof. exact ex_residue_mismatch. Qed.
