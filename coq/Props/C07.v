(* C07 - Single-atom move restores every bond length on acyclic molecules.
   Statements only; proofs are in Proofs/TransformComb.v (combinatorics of the wait list / LIFO stack,
   any Scalar) and Proofs/TransformR.v (geometry).  T := R.
   Model: Model/Transform.v (move_mol_atom, find_atom_random_displ of gaddlemaps/_transform_molecule.py).
   `move_mol_atom pos tb k d = Ok out` is the "generic coordinates" hypothesis: the only failure on a
   well-formed table is a zero distance between an atom and its parent (C07_only_failure_is_coincidence). *)
From GM Require Import Proofs.RTac Model.Transform Proofs.TransformComb Proofs.TransformR.
From GM Require Import Gen.KernelsGen Proofs.KernelsGenEq.

(* The tie by translation: the arithmetic of one repositioning in the bond-restoring loop of move_mol_atom
   (the four statements from `diferencia = ...` to `atoms_pos[ind2] = ...`), as generated at this run from the
   CURRENT source text of gaddlemaps/_transform_molecule.py (Gen/KernelsGen.v, harness/pytrans.py), is the
   model's `pull` - for every Scalar instance.  The queue discipline of the loop is tied by K only. *)
Theorem C07_model_is_source_pull : forall (T : Type) (H : Scalar T) (p1 p2 : V3 T) (bond : T),
  pull_gen p1 p2 bond = pull p1 p2 bond.
Proof. exact (@pull_gen_eq). Qed.
Print Assumptions C07_model_is_source_pull.

Import ListNotations.
Local Open Scope R_scope.

(* (1) the moved atom is displaced by exactly d; the output has the input's length.  The input list is
   an immutable value here (purity of the numpy code, i.e. the np.copy, is checked by K and S). *)
Theorem C07_moved_atom : forall (pos : list (V3 R)) (tb : bond_table R) k d out,
  move_mol_atom pos tb k d = Ok out ->
  length out = length pos /\
  exists pk, nth_error pos k = Some pk /\ nth_error out k = Some (vadd pk d).
Proof. exact moved_atom. Qed.
Print Assumptions C07_moved_atom.

(* the fuel passed by move_mol_atom (the number of atoms) is never exhausted *)
Theorem C07_fuel_suffices : forall (pos : list (V3 R)) (tb : bond_table R) k d,
  move_mol_atom pos tb k d <> Err EFuel.
Proof. exact fuel_suffices. Qed.
Print Assumptions C07_fuel_suffices.

(* (2) ANY graph (cycles, asymmetric or wrong tables included): the popped entries form a tree rooted at
   the moved atom made of table entries, and every one of them has exactly its tabulated length in the
   output (|b| in general, b when b >= 0). *)
Theorem C07_traversal_tree : forall (pos : list (V3 R)) (tb : bond_table R) k d out tr,
  move_mol_atom pos tb k d = Ok out -> move_traversal pos tb k d = Ok tr ->
  traversal_tree tb k tr /\
  (forall p c b, In (p, c, b) tr -> bond_len out p c (Rabs b)) /\
  (forall p c b, In (p, c, b) tr -> 0 <= b -> bond_len out p c b).
Proof. exact traversal_bonds. Qed.
Print Assumptions C07_traversal_tree.

(* what being a rooted tree gives: no atom is the child of two bonds, the root is nobody's child, a bond
   is never traversed in both directions, no bond joins an atom to itself *)
Theorem C07_traversal_tree_shape : forall (tb : bond_table R) k (tr : list (edge R)),
  traversal_tree tb k tr ->
  NoDup (children tr) /\ ~ In k (children tr) /\
  (forall p c b1 b2, In (p, c, b1) tr -> In (c, p, b2) tr -> False) /\
  (forall p c b, In (p, c, b) tr -> p <> c).
Proof. exact traversal_tree_shape. Qed.
Print Assumptions C07_traversal_tree_shape.

(* loop invariant made explicit: every atom is either the moved one, or never reached (unchanged), or
   repositioned exactly once - from its INPUT position, against the FINAL position of its parent *)
Theorem C07_visits_once : forall (pos : list (V3 R)) (tb : bond_table R) k d out,
  move_mol_atom pos tb k d = Ok out ->
  exists wf tr, move_traversal pos tb k d = Ok tr /\
  forall i, (i < length pos)%nat ->
    (i = k /\ exists pk, nth_error pos k = Some pk /\ nth_error out k = Some (vadd pk d)) \/
    (In i wf /\ nth_error out i = nth_error pos i) \/
    (exists p b p1 p2 p2', In (p, i, b) tr /\ p <> i /\ nth_error out p = Some p1 /\ nth_error pos i = Some p2 /\
       pull p1 p2 b = Ok p2' /\ nth_error out i = Some p2').
Proof. exact visits_once. Qed.
Print Assumptions C07_visits_once.

(* (3) tree-shaped table (one entry list per atom, symmetric with equal lengths, every atom reachable from
   the moved one, 2(n-1) directed entries = n-1 bonds): EVERY bond of the table has its tabulated length *)
Theorem C07_tree : forall (pos : list (V3 R)) (tb : bond_table R) k d out,
  length tb = length pos ->
  (forall i j b, bonded tb i j b -> bonded tb j i b) ->
  (forall i, (i < length pos)%nat -> reach tb k i) ->
  length (entries tb) = (2 * (length pos - 1))%nat ->
  move_mol_atom pos tb k d = Ok out ->
  (forall i j b, bonded tb i j b -> bond_len out i j (Rabs b)) /\
  (forall i j b, bonded tb i j b -> 0 <= b -> bond_len out i j b).
Proof. exact tree_bonds. Qed.
Print Assumptions C07_tree.

(* one repositioning: defined exactly when the two atoms do not coincide *)
Theorem C07_pull_defined : forall (p1 p2 : V3 R) (b : R),
  (p1 <> p2 -> exists p2', pull p1 p2 b = Ok p2') /\ pull p1 p1 b = Err EDiv0.
Proof. exact pull_defined. Qed.
Print Assumptions C07_pull_defined.

(* on a table with an entry for every atom whose moved atom has distinct in-range neighbours, the only
   possible failure is such a coincidence (nan in numpy) *)
Theorem C07_only_failure_is_coincidence : forall (pos : list (V3 R)) (tb : bond_table R) k d,
  table_ok (length pos) tb k ->
  (exists out, move_mol_atom pos tb k d = Ok out) \/ move_mol_atom pos tb k d = Err EDiv0.
Proof. exact move_total. Qed.
Print Assumptions C07_only_failure_is_coincidence.

(* (4) the random displacement (draws u, neg, g explicit): length |g|, perpendicular to the bond
   (1 neighbour), to n0 - n1 (2 neighbours), to the plane through n0, n1, n2 and parallel to its normal
   (3 or more) *)
Theorem C07_displ_perp : forall (pos : list (V3 R)) (tb : bond_table R) k sigma_scale u neg g v,
  find_atom_random_displ pos tb k sigma_scale u neg g = Ok v ->
  vnorm v = Rabs g /\
  exists nb, tbl_get tb k = Ok nb /\ displ_perp_spec pos k nb v.
Proof. exact displ_perp. Qed.
Print Assumptions C07_displ_perp.

(* Ok iff the cross product is non-zero (given valid indices and sigma >= 0); Err EDiv0 (nan) otherwise *)
Theorem C07_displ_ok_iff : forall (pos : list (V3 R)) (tb : bond_table R) k sigma_scale u neg g sigma dir,
  displ_sigma tb k sigma_scale = Ok sigma -> displ_direction pos tb k u neg = Ok dir -> 0 <= sigma ->
  (dir <> vzero -> exists v, find_atom_random_displ pos tb k sigma_scale u neg g = Ok v) /\
  (dir = vzero -> find_atom_random_displ pos tb k sigma_scale u neg g = Err EDiv0).
Proof. exact find_ok_iff. Qed.
Print Assumptions C07_displ_ok_iff.

Theorem C07_displ_direction : forall (pos : list (V3 R)) (tb : bond_table R) k u neg dir,
  displ_direction pos tb k u neg = Ok dir ->
  exists nb, tbl_get tb k = Ok nb /\
  match nb with
  | [] => False
  | [(j0, _)] => exists p0 pk, nth_error pos j0 = Some p0 /\ nth_error pos k = Some pk /\
                   (dir = vzero <-> vcross u (vsub p0 pk) = vzero)
  | [(j0, _); (j1, _)] => exists p0 p1, nth_error pos j0 = Some p0 /\ nth_error pos j1 = Some p1 /\
                   (dir = vzero <-> vcross u (vsub p0 p1) = vzero)
  | (j0, _) :: (j1, _) :: (j2, _) :: _ =>
      exists p0 p1 p2, nth_error pos j0 = Some p0 /\ nth_error pos j1 = Some p1 /\ nth_error pos j2 = Some p2 /\
                   (dir = vzero <-> vcross (vsub p0 p2) (vsub p0 p1) = vzero)
  end.
Proof. exact displ_direction_zero. Qed.
Print Assumptions C07_displ_direction.

(* displ=None: the atom is moved by a drawn displacement that satisfies the perpendicularity clause with respect to
   the INPUT positions of its neighbours, whatever the table says about lengths; every theorem above applies to the
   run with that displacement *)
Theorem C07_default_displ : forall (pos : list (V3 R)) (tb : bond_table R) k sigma_scale u neg g out,
  move_mol_atom_default pos tb k sigma_scale u neg g = Ok out ->
  exists d, find_atom_random_displ pos tb k sigma_scale u neg g = Ok d /\ move_mol_atom pos tb k d = Ok out /\
    vnorm d = Rabs g /\
    (exists nb, tbl_get tb k = Ok nb /\ displ_perp_spec pos k nb d) /\
    exists pk, nth_error pos k = Some pk /\ nth_error out k = Some (vadd pk d).
Proof. exact default_displ. Qed.
Print Assumptions C07_default_displ.

(* ---------------------------------------------------------------- non-vacuity *)
(* a branched four-atom tree (atom 1 bonded to 0, 2, 3), generic coordinates, table disagreeing with the
   geometry, atom 0 moved: all hypotheses of C07_tree hold and the run returns Ok *)
Example C07_nonvacuous_tree :
  length ex_tb = length ex_pos /\
  (forall i j b, bonded ex_tb i j b -> bonded ex_tb j i b) /\
  (forall i, (i < length ex_pos)%nat -> reach ex_tb 0 i) /\
  length (entries ex_tb) = (2 * (length ex_pos - 1))%nat /\
  table_ok (length ex_pos) ex_tb 0.
Proof. exact ex_tree_hyps. Qed.
Example C07_nonvacuous_run : exists out, move_mol_atom ex_pos ex_tb 0 ex_d = Ok out.
Proof. exact ex_run_ok. Qed.
(* a displacement with one neighbour is defined for a draw u not parallel to the bond *)
Example C07_nonvacuous_displ :
  exists v, find_atom_random_displ ex_pos ex_tb 0 (1/2) (mk3 0 1 0) false 1 = Ok v.
Proof. exact ex_displ_ok. Qed.
