(* C19 - Periodic distance is the minimum-image distance.
   Statements only; proofs are in Proofs/PbcR.v (PbcRound.v: round-half-even, PbcLin.v: inverse).
   T := R.  Model: Model/Pbc.v (Residue.distance_to, geometric_center).
   Vocabulary (Proofs/PbcR.v): tcenter o = the centre a Residue/point argument stands for,
   target_ok o = a Residue argument has atoms, lattice n B = n1 b1 + n2 b2 + n3 b3 (rows of B),
   target_shift / shift_atoms = translate every atom (or the point) by a vector,
   frac_not_half v Bi = no fractional coordinate of v is exactly half-way between two integers. *)
From GM Require Import Proofs.RTac Model.Pbc Proofs.PbcRound Proofs.PbcLin Proofs.PbcR.
From GM Require Import Gen.KernelsGen Proofs.KernelsGenEq.
Import ListNotations.
Local Open Scope R_scope.

(* The tie by translation: Residue.distance_to as generated at this run from the CURRENT source text of
   gaddlemaps/components/_residue.py (Gen/KernelsGen.v, harness/pytrans.py; np.linalg.inv and np.round keep
   their hand-written models minv / vround) is the model's pbc_dist applied to the separation of the two
   centres - for every Scalar instance. *)
Theorem C19_model_is_source : forall (T : Type) (H : Scalar T) (residue c : V3 T) (box : option (M3 T)) (inv : bool),
  distance_to_gen residue box inv c = pbc_dist (vsub residue c) box inv.
Proof. exact (@distance_to_gen_eq). Qed.
Print Assumptions C19_model_is_source.

(* orthorhombic box: the result is the length of a periodic image of the separation and no
   periodic image (over ALL integer triples) is shorter *)
Theorem C19_min_image : forall Lx Ly Lz : R, 0 < Lx -> 0 < Ly -> 0 < Lz ->
  forall (self : list (V3 R)) (other : target R), self <> [] -> target_ok other ->
  let v := vsub (tcenter other) (vmean self) in
  exists d : R, distance_to self other (Some (mdiag Lx Ly Lz)) false = Ok d /\
    (exists n : Z * Z * Z, d = vnorm (vsub v (lattice n (mdiag Lx Ly Lz)))) /\
    (forall m : Z * Z * Z, d <= vnorm (vsub v (lattice m (mdiag Lx Ly Lz)))).
Proof. exact distance_min_image. Qed.
Print Assumptions C19_min_image.

(* ... hence it never exceeds the non-periodic distance (distance_to without box) *)
Theorem C19_le_free : forall Lx Ly Lz : R, 0 < Lx -> 0 < Ly -> 0 < Lz ->
  forall (self : list (V3 R)) (other : target R) (inv : bool), self <> [] -> target_ok other ->
  exists d d0 : R, distance_to self other (Some (mdiag Lx Ly Lz)) false = Ok d /\
    distance_to self other None inv = Ok d0 /\ d <= d0.
Proof. exact distance_le_free. Qed.
Print Assumptions C19_le_free.

(* any non-singular box: the result is the length of some periodic image of the separation *)
Theorem C19_is_image : forall (self : list (V3 R)) (other : target R) (B : M3 R),
  self <> [] -> target_ok other -> mdet B <> 0 ->
  exists n : Z * Z * Z,
    distance_to self other (Some B) false
      = Ok (vnorm (vsub (vsub (tcenter other) (vmean self)) (lattice n B))).
Proof. exact distance_is_image. Qed.
Print Assumptions C19_is_image.

(* symmetry, for every box argument (none, singular, non-singular), both flags, ties included *)
Theorem C19_symmetric : forall (a b : list (V3 R)) (box : option (M3 R)) (inv : bool),
  distance_to a (TResidue b) box inv = distance_to b (TResidue a) box inv.
Proof. exact distance_symmetric. Qed.
Print Assumptions C19_symmetric.

Theorem C19_symmetric_point : forall (a : list (V3 R)) (p : V3 R) (box : option (M3 R)) (inv : bool),
  distance_to a (TPoint p) box inv = distance_to [p] (TResidue a) box inv.
Proof. exact distance_symmetric_point. Qed.
Print Assumptions C19_symmetric_point.

(* any non-singular box, any integer triple, either argument shifted: unchanged, provided no
   fractional coordinate of the separation is a half-integer *)
Theorem C19_lattice_invariant : forall (self : list (V3 R)) (other : target R) (B Bi : M3 R) (n : Z * Z * Z),
  self <> [] -> target_ok other -> minv B = Ok Bi ->
  frac_not_half (vsub (tcenter other) (vmean self)) Bi ->
  distance_to self (target_shift other (lattice n B)) (Some B) false
    = distance_to self other (Some B) false /\
  distance_to (shift_atoms self (lattice n B)) other (Some B) false
    = distance_to self other (Some B) false.
Proof. exact distance_lattice_invariant. Qed.
Print Assumptions C19_lattice_invariant.

(* orthorhombic boxes: no condition on ties is needed *)
Theorem C19_lattice_invariant_ortho : forall Lx Ly Lz : R, 0 < Lx -> 0 < Ly -> 0 < Lz ->
  forall (self : list (V3 R)) (other : target R) (n : Z * Z * Z), self <> [] -> target_ok other ->
  distance_to self (target_shift other (lattice n (mdiag Lx Ly Lz))) (Some (mdiag Lx Ly Lz)) false
    = distance_to self other (Some (mdiag Lx Ly Lz)) false /\
  distance_to (shift_atoms self (lattice n (mdiag Lx Ly Lz))) other (Some (mdiag Lx Ly Lz)) false
    = distance_to self other (Some (mdiag Lx Ly Lz)) false.
Proof. exact distance_lattice_invariant_ortho. Qed.
Print Assumptions C19_lattice_invariant_ortho.

(* the half-integer hypothesis of C19_lattice_invariant cannot be dropped for a skewed box:
   round-half-even gives round(1/2) = 0 and round(3/2) = 2, and the two tied images differ in length *)
Theorem C19_lattice_tie_counterexample :
  let p : V3 R := mk3 1 (/2) 0 in
  distance_to [mk3 0 0 0] (TPoint p) (Some tric_example) false = Ok (sqrt (5/4)) /\
  distance_to [mk3 0 0 0] (target_shift (TPoint p) (lattice (1, 0, 0)%Z tric_example))
              (Some tric_example) false = Ok (/2) /\
  sqrt (5/4) <> /2.
Proof. exact lattice_tie_counterexample. Qed.
Print Assumptions C19_lattice_tie_counterexample.

(* the inverse flag: passing inv(B) with inv=True is passing B (inv(inv(B)) = B) *)
Theorem C19_inv_flag : forall (self : list (V3 R)) (other : target R) (B Bi : M3 R),
  minv B = Ok Bi ->
  distance_to self other (Some Bi) true = distance_to self other (Some B) false.
Proof. exact distance_inv_flag. Qed.
Print Assumptions C19_inv_flag.

Theorem C19_inverse_involutive : forall B Bi : M3 R, minv B = Ok Bi -> minv Bi = Ok B.
Proof. exact minv_minv. Qed.
Print Assumptions C19_inverse_involutive.

(* the error branch: a singular box is rejected (LinAlgError), never silently totalised *)
Theorem C19_singular : forall (self : list (V3 R)) (other : target R) (B : M3 R) (inv : bool),
  self <> [] -> target_ok other -> mdet B = 0 ->
  distance_to self other (Some B) inv = Err EDiv0.
Proof. exact distance_singular. Qed.
Print Assumptions C19_singular.

(* non-vacuity: concrete inputs meet the hypotheses and give the expected numbers.
   box diag(3,4,5), separation (1,0,0) is the witness of the repaired defect D3 (the old code gave 1/9) *)
Example C19_example_sep1 :
  distance_to [mk3 0 0 0] (TPoint (mk3 1 0 0)) (Some (mdiag 3 4 5)) false = Ok 1.
Proof. exact example_d3_sep1. Qed.
Example C19_example_sep2 :
  distance_to [mk3 0 0 0] (TPoint (mk3 2 0 0)) (Some (mdiag 3 4 5)) false = Ok 1.
Proof. exact example_d3_sep2. Qed.
Example C19_nonvacuous_triclinic :
  exists Bi, minv tric_example = Ok Bi /\
    frac_not_half (vsub (tcenter (TPoint (mk3 (/4) 0 0))) (vmean [mk3 0 0 0])) Bi.
Proof. exact example_tric_hyp. Qed.
Example C19_nonvacuous_singular : mdet (mkM (mk3 1 2 3) (mk3 2 4 6) (mk3 0 1 5) : M3 R) = 0.
Proof. exact example_singular. Qed.
