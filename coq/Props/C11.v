(* C11 - System recognises exactly the molecule instances present, in file order.
   Statements only; proofs are in Proofs/SystemRec*.v.  Discrete model (Model/SystemRec.v).

   Vocabulary (Proofs/SystemRecDomain.v, SystemRecLoad.v):
   - the file is its list of maximal runs: [RInst s m] = S m consecutive whole instances of species s,
     [ROther k] = one residue of a kind no species uses; neighbouring runs are of different species;
   - [domain v tops pats runs]: the view [v] SystemGro gives of that file numbers the residue kinds so that
     species s has the pattern [pat pats s] (non-empty, pairwise disjoint sets of kinds, disjoint from the kinds
     of the other residues), the (resname, size) keys of topology s resolve to that pattern, and every instance
     window has the atoms of its topology name by name.  This is the property's "whole molecules of species with
     distinct residue signatures (plus unrelated residues)" seen through the (resname, size) -> kind map of the
     file, which is taken as given (its construction is modelled and executed, Model/SystemRec.v [view_of]). *)
From Coq Require Import List Arith ZArith Bool Sorting.Permutation.
Import ListNotations.
From GM Require Import Base.Res Model.SystemRec Proofs.SystemRecScan Proofs.SystemRecDomain Proofs.SystemRecSort
     Proofs.SystemRecLoad Proofs.SystemRecExact Proofs.SystemRecViews Proofs.SystemRecNoMatch Proofs.SystemRecCheck
     Proofs.SystemRecFile Proofs.SystemRecFileExact Proofs.SystemRecExample.

(* Loading the topologies of any duplicate-free list [order] of species present in the file, in that order:
   every topology is accepted and the system consists of exactly the instances of the loaded species, in file
   order, each with its exact residue range [a, b) (hence contiguous and pairwise disjoint); iteration hands each
   of them out after the atom-by-atom check against its topology; the residues of all other species and the
   unrelated residues are still available. *)
Theorem C11_exact : forall (v : groview) (tops : list top) (pats : list (list nat)) (runs : list run),
  domain v tops pats runs ->
  forall (order : list nat) (ts : list top),
  NoDup order -> Forall (fun s => present s runs) order ->
  Forall2 (fun s t => nth_error tops s = Some t) order ts ->
  exists st, load_all v (sys_init v) ts = Ok st /\
             instances st = Ok (expected pats (index_of order) runs 0) /\
             sys_iter v st = Ok (expected pats (index_of order) runs 0) /\
             s_avail st = stream pats (loaded_of order) runs.
Proof. exact exact_kinds. Qed.
Print Assumptions C11_exact.

(* The same on the file itself (Proofs/SystemRecFile.v).  [file_domain tops frs]: the file is [file_of tops frs], the
   concatenation of maximal runs [FInst s m] of S m whole molecules of species s (residues as its topology describes
   them, every species of [tops] present) and of other residues [FOther r]; the (resname, size) signature sets of the
   species are pairwise disjoint and contain no signature of the other residues; residues of the file with equal
   signature are equal (name and atom names).  Then SystemGro's view exists and, for every duplicate-free list of
   species in every order, all topologies are accepted and the molecules are exactly [fexpected]: the molecules of the
   loaded species, in file order, each with its residue range, each passing the atom-by-atom check. *)
Theorem C11_exact_file : forall (tops : list top) (frs : list frun) (order : list nat) (ts : list top),
  file_domain tops frs ->
  NoDup order -> Forall (fun s => s < length tops) order ->
  Forall2 (fun s t => nth_error tops s = Some t) order ts ->
  exists v st, view_of (file_of tops frs) = Ok v /\
               load_all v (sys_init v) ts = Ok st /\
               instances st = Ok (fexpected tops (index_of order) frs 0) /\
               sys_iter v st = Ok (fexpected tops (index_of order) frs 0).
Proof. exact exact_file. Qed.
Print Assumptions C11_exact_file.

(* Two loading orders of the same species give the same molecules (species, residue range), in the same order *)
Theorem C11_order_independent : forall (pats : list (list nat)) (o1 o2 : list nat) (runs : list run),
  Permutation o1 o2 ->
  by_species o1 (expected pats (index_of o1) runs 0) = by_species o2 (expected pats (index_of o2) runs 0).
Proof. exact order_independent. Qed.
Print Assumptions C11_order_independent.

(* For EVERY state (no domain hypothesis): len, composition, System[i] (negative i, the special case -1 and the
   out-of-range errors included), System[a:b:c] and iteration are all determined by the one list [instances st].
   The clause about slices holds by definition of the model (islice_extended = list slicing is assumed). *)
Theorem C11_views_agree : forall (v : groview) (st : sys) (l : list inst), instances st = Ok l ->
  sys_len st = length l /\
  (exists c, composition st = Ok c /\ forall nm, counter_get c nm = count_name (s_mols st) nm l) /\
  (forall i, getitem_info st i = getitem_spec l i) /\
  (forall i, sys_getitem v st i = (let* x := getitem_spec l i in mol_of v st x)) /\
  (forall a b c, sys_getslice v st a b c = (let* s := py_slice l a b c in mapM (mol_of v st) s)) /\
  sys_iter v st = mapM (mol_of v st) l.
Proof. exact views_agree. Qed.
Print Assumptions C11_views_agree.

(* A topology whose pattern of kinds occurs in no window of the available array is refused, in any state:
   IOError, or the ValueError numpy raises for a window cut short by the end of the array.  The last hypothesis
   excludes that the single last residue has as many atoms as a whole topology of >= 2 residues (numpy broadcasts a
   window of length 1; the atom-by-atom check then refuses). *)
Theorem C11_no_match : forall (v : groview) (st : sys) (t : top) (pat : list nat),
  lookup_pattern v t = Ok pat ->
  length (gv_res v) = length (s_avail st) ->
  (forall a, firstn (length pat) (skipn a (s_avail st)) <> map Some pat) ->
  (2 <= length pat -> forall r, In r (gv_res v) -> length (res_atoms r) < length (top_atoms t)) ->
  exists e, add_top v st t = Err e /\ (e = EIO \/ e = EValue).
Proof. exact no_match. Qed.
Print Assumptions C11_no_match.

(* a (resname, size) key of the topology that the file does not have: refused before any search *)
Theorem C11_no_pattern : forall (v : groview) (st : sys) (t : top) (e : err),
  lookup_pattern v t = Err e -> add_top v st t = Err e.
Proof. exact no_pattern. Qed.
Print Assumptions C11_no_pattern.

(* The hypothesis [domain] is decidable: the boolean checker the correspondence evaluates on every generated
   in-domain file (ground truth of the generator -> runs; kinds and patterns read off the model's view of the file)
   is sound, so C11_exact applies to each of those files by computation. *)
Theorem C11_domain_check_sound : forall (file : list residue) (tops : list top) (hs : list hrun),
  domain_check_truth file tops hs = true ->
  exists v pats runs, view_of file = Ok v /\ domain v tops pats runs.
Proof. exact domain_check_truth_sound. Qed.
Print Assumptions C11_domain_check_sound.

(* non-vacuity: the file C C D D D W A (C = residues P,Q,P: self-overlapping; D = two identical residues, three
   adjacent instances) with the view computed by the model of SystemGro satisfies [domain] *)
Example C11_nonvacuous_domain : domain ex_view ex_tops ex_pats ex_runs.
Proof. exact ex_domain. Qed.
Example C11_nonvacuous_order : NoDup [2; 0; 1] /\ Forall (fun s => present s ex_runs) [2; 0; 1] /\
  Forall2 (fun s t => nth_error ex_tops s = Some t) [2; 0; 1] [topD; topA; topC].
Proof. exact ex_order. Qed.
Example C11_nonvacuous_file_domain : file_domain ex_tops ex_frs /\ file_of ex_tops ex_frs = ex_file.
Proof. exact (conj ex_file_domain ex_file_of). Qed.
Example C11_nonvacuous_result :
  by_species [2; 0; 1] (expected ex_pats (index_of [2; 0; 1]) ex_runs 0) =
  [(1, 0, 3); (1, 3, 6); (2, 6, 8); (2, 8, 10); (2, 10, 12); (0, 13, 14)].
Proof. exact ex_expected. Qed.
