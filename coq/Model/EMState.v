(* gaddlemaps/_exchage_map.py : the ExchangeMap OBJECT as a state machine on a small heap
   (DESIGN 3.2 / 5-C04).  Python reference semantics is what C04 is about, so molecules are lists of
   locations of mutable cells:

     gro cell  = one AtomGro   (resid, resname, name, atomid, position, velocity)
     top cell  = one AtomTop   (name, resname, resid, index, bonds)
     molecule  = one Molecule  : its MoleculeTop (name + list of top-cell locations) and its residues
                                 (lists of gro-cell locations).  Molecule.copy() allocates fresh gro cells
                                 and SHARES the top cells; the ExchangeMap keeps REFERENCES (the same
                                 locations) to the two molecules it was built from.

   Positions stored in cells are immutable values (numpy row-view aliasing is outside the model: no
   operation of the alphabet mutates an array in place).  The heap is a pair of lists (location = index,
   allocation = append), so that "state unchanged" is plain equality.

   The geometry (frames of a conformation, projection of the target at construction, restoring a point) is
   a parameter of the Section `Machine`: every theorem of C04 holds for every such core.  A concrete core
   over a Scalar (references of >= 3 atoms, `calcule_base` of Model/Aux.v) is given in Section `Core` below
   and is what the correspondence check executes; it is meant to be swapped for Model/ExchangeMap.v.

   What is NOT in the operation alphabet (and therefore constant in every run of the machine): names,
   residue names, atom ids, velocities, indices and bonds of existing cells, the molecule name, the
   residue structure of a molecule.  Coordinates and residue NUMBERS (gro and topology) of every live
   molecule can be changed by operations.  In particular the
   consistency test of the Atom / Molecule constructors (gro name = top name, same number of atoms) is not
   re-evaluated by the model: its operands cannot change. *)
From Coq Require Import String.
From Coq Require Import List ZArith Arith Bool.
Import ListNotations.
Local Open Scope list_scope.
From GM Require Import Base.Res Base.Scalar Base.Vec Model.Aux.

(* ------------------------------------------------------------------------------------------------ *)
(* bond graph of a species: for every atom the collection of bonded indices (a Python set)             *)
Definition graph := list (list nat).

(* AtomTop.closest_atoms(): sorted(self.bonds)[:2] for a set of >= 2 indices *)
Fixpoint list_min (x : nat) (l : list nat) : nat :=
  match l with
  | [] => x
  | y :: t => list_min (Nat.min x y) t
  end.

Definition lowest2 (l : list nat) : option (nat * nat) :=
  match l with
  | [] => None
  | x :: t =>
      let m1 := list_min x t in
      match filter (fun y => negb (Nat.eqb y m1)) l with
      | [] => None
      | y :: t' => Some (m1, list_min y t')
      end
  end.

(* `for atom in molecule: if len(atom.bonds) >= 2: self._refsystems[hash(atom)] = ...` : keys written *)
Fixpoint anchors_from (i : nat) (g : graph) : list nat :=
  match g with
  | [] => []
  | l :: g' => if Nat.leb 2 (length l) then i :: anchors_from (S i) g' else anchors_from (S i) g'
  end.
Definition anchors (g : graph) : list nat := anchors_from 0 g.

(* ---- Python dict keyed by int, as an association list in insertion order ---- *)
Fixpoint dict_get {A} (d : list (nat * A)) (k : nat) : res A :=
  match d with
  | [] => Err EKey
  | (k', v) :: d' => if Nat.eqb k' k then Ok v else dict_get d' k
  end.

(* d[k] = v : an existing key is overwritten in place (keeps its position), a new key is appended *)
Fixpoint dict_set {A} (d : list (nat * A)) (k : nat) (v : A) : list (nat * A) :=
  match d with
  | [] => [(k, v)]
  | (k', v') :: d' => if Nat.eqb k' k then (k', v) :: d' else (k', v') :: dict_set d' k v
  end.

Definition dict_update {A} (d : list (nat * A)) (kvs : list (nat * A)) : list (nat * A) :=
  fold_left (fun d kv => dict_set d (fst kv) (snd kv)) kvs d.

(* ---- list cells ---- *)
Fixpoint upd {A} (l : list A) (i : nat) (f : A -> A) : list A :=
  match l, i with
  | [], _ => []
  | x :: t, O => f x :: t
  | x :: t, S j => x :: upd t j f
  end.

Definition loc := nat.

Section Machine.
Variable vec : Type.                       (* a position / a coefficient triple *)
Variable fr : Type.                        (* the value stored per anchor in _refsystems *)
(* _calculate_refsystems on a conformation of the species with bond graph g: the (key, frame) pairs in
   the order the dict entries are written.  Err = the conformation is outside the core's domain. *)
Variable frames_of : graph -> list vec -> res (list (nat * fr)).
(* _make_map: for every target atom (anchor key, scaled projection), from the construction frames, the
   reference positions and the target positions *)
Variable project_all : list (nat * fr) -> list vec -> list vec -> res (list (nat * vec)).
(* _restore_point *)
Variable restore : fr -> vec -> vec.

Record gcell := mkG { g_resid : Z; g_resname : string; g_name : string; g_atomid : Z;
                      g_pos : vec; g_vel : option vec }.
Record tcell := mkT { t_name : string; t_resname : string; t_resid : Z; t_index : nat;
                      t_bonds : list nat }.

Record heap := mkHeap { gro : list gcell; top : list tcell }.

(* a Molecule object.  m_name and m_top are the MoleculeTop it holds (shared by copy()). *)
Record mol := mkMol { m_name : string; m_top : list loc; m_res : list (list loc) }.

Definition set_pos (v : vec) (c : gcell) : gcell :=
  mkG (g_resid c) (g_resname c) (g_name c) (g_atomid c) v (g_vel c).
Definition set_gresid (z : Z) (c : gcell) : gcell :=
  mkG z (g_resname c) (g_name c) (g_atomid c) (g_pos c) (g_vel c).
Definition set_tresid (z : Z) (c : tcell) : tcell :=
  mkT (t_name c) (t_resname c) z (t_index c) (t_bonds c).

Definition m_atoms (m : mol) : list loc := concat (m_res m).     (* gro cells in molecule order *)

Definition read_g (h : heap) (ls : list loc) : res (list gcell) := mapM (nth_res (gro h)) ls.
Definition read_t (h : heap) (ls : list loc) : res (list tcell) := mapM (nth_res (top h)) ls.

(* Molecule.atoms_positions *)
Definition mol_positions (h : heap) (m : mol) : res (list vec) :=
  rmap (map g_pos) (read_g h (m_atoms m)).
(* the bond sets of the molecule's topology, atom by atom *)
Definition mol_graph (h : heap) (m : mol) : res graph :=
  rmap (map t_bonds) (read_t h (m_top m)).
(* Molecule.resids : [res.resid for res in self._residues], res.resid = res[0].resid *)
Definition mol_resids (h : heap) (m : mol) : res (list Z) :=
  mapM (fun r => match r with
                 | [] => Err EIndex
                 | l :: _ => rmap g_resid (nth_res (gro h) l)
                 end) (m_res m).

(* iterating a Molecule: Atom(self.molecule_top[index], atom_gro) for the gro atoms in order *)
Fixpoint zip_res {A B} (a : list A) (b : list B) : res (list (A * B)) :=
  match a, b with
  | [], [] => Ok []
  | x :: a', y :: b' => let* t := zip_res a' b' in Ok ((x, y) :: t)
  | _, _ => Err EIndex
  end.

Definition mol_views (h : heap) (m : mol) : res (list (tcell * gcell)) :=
  let* ts := read_t h (m_top m) in
  let* gs := read_g h (m_atoms m) in
  zip_res ts gs.

(* Atom.__eq__: resname and name resolve to the gro part (Atom.__getattr__ asks the gro atom first),
   index and top_resid to the topology part *)
Definition atom_eq (a b : tcell * gcell) : bool :=
  String.eqb (g_resname (snd a)) (g_resname (snd b)) &&
  String.eqb (g_name (snd a)) (g_name (snd b)) &&
  Nat.eqb (t_index (fst a)) (t_index (fst b)) &&
  Z.eqb (t_resid (fst a)) (t_resid (fst b)).

Fixpoint all2 {A} (f : A -> A -> bool) (a b : list A) : bool :=
  match a, b with
  | x :: a', y :: b' => f x y && all2 f a' b'
  | _, _ => true                                  (* zip stops at the shorter one *)
  end.

(* Molecule.__eq__ (self = a, molecule = b) *)
Definition mol_eq (h : heap) (a b : mol) : res bool :=
  if negb (String.eqb (m_name b) (m_name a)) then Ok false else
  if negb (Nat.eqb (length (m_atoms b)) (length (m_atoms a))) then Ok false else
  let* va := mol_views h a in
  let* vb := mol_views h b in
  Ok (all2 atom_eq va vb).

(* ---- the ExchangeMap object ---- *)
Record emap := mkEM {
  e_ref : mol;                     (* self._refmolecule    (a reference, not a copy) *)
  e_tgt : mol;                     (* self._targetmolecule (a reference, not a copy) *)
  e_refsys : list (nat * fr);      (* self._refsystems *)
  e_ec : list (nat * vec)          (* _equivalences / _target_coordinates by target atom index *)
}.

(* the whole world: heap, the molecules the caller can reach (handles = positions in this list: the
   arguments, molecules of other species, and every molecule returned so far, in order), the map *)
Record state := mkSt { s_heap : heap; s_objs : list mol; s_map : emap }.

(* ExchangeMap(ref, tgt, scale) *)
Definition build (h : heap) (objs : list mol) (ref tgt : mol) : res state :=
  let* ps := mol_positions h ref in
  let* g := mol_graph h ref in
  let* frs := frames_of g ps in
  let rs := dict_update [] frs in
  let* tps := mol_positions h tgt in
  let* ec := project_all rs ps tps in
  Ok (mkSt h objs (mkEM ref tgt rs ec)).

(* Molecule.copy(): Molecule(self._molecule_top, self._residues) -> res.copy() -> AtomGro.copy() for every
   atom: fresh gro cells with the CURRENT content of the old ones; same top cells *)
Fixpoint alloc_res (g : list gcell) (rs : list (list gcell)) : list gcell * list (list loc) :=
  match rs with
  | [] => (g, [])
  | r :: rs' =>
      let n := length g in
      let '(g', ls) := alloc_res (g ++ r) rs' in
      (g', seq n (length r) :: ls)
  end.

Definition copy_mol (h : heap) (m : mol) : res (heap * mol) :=
  let* cells := mapM (read_g h) (m_res m) in
  let '(g', rs) := alloc_res (gro h) cells in
  Ok (mkHeap g' (top h), mkMol (m_name m) (m_top m) rs).

Definition write_g (g : list gcell) (lws : list (loc * (gcell -> gcell))) : list gcell :=
  fold_left (fun g lw => upd g (fst lw) (snd lw)) lws g.
Definition write_t (t : list tcell) (lws : list (loc * (tcell -> tcell))) : list tcell :=
  fold_left (fun t lw => upd t (fst lw) (snd lw)) lws t.

(* `for atom, res_index in zip(self, self._each_atom_resid): ... new_resids[res_index]` : the value written
   to every atom is the one of its residue (_each_atom_resid = [k] * len(residue k), by construction);
   used after the length test len(new_resids) == len(self.resids) *)
Definition per_atom {A} (rs : list (list A)) (rids : list Z) : list Z :=
  concat (map (fun p => map (fun _ => snd p) (fst p)) (combine rs rids)).

(* what the caller observes of a molecule: the content of its gro cells, residue by residue *)
Definition dump := list (list gcell).
Definition dump_mol (h : heap) (m : mol) : res dump := mapM (read_g h) (m_res m).

(* _restore_point for every target atom, in order (reads self._refsystems[_equivalences[k]]) *)
Definition restore_all (rs : list (nat * fr)) (ec : list (nat * vec)) : res (list vec) :=
  mapM (fun ac => let* F := dict_get rs (fst ac) in Ok (restore F (snd ac))) ec.

(* ExchangeMap.__call__(arg).  Returns the new state and the outcome.
   Every exit before `Commit` leaves the state untouched (both type tests precede any write).
   frames_of = Err stands for a conformation the core does not cover (for the concrete core: a NaN frame,
   where the real code goes on silently with NaN coordinates): the machine stops there, before any write. *)
Definition call (st : state) (harg : nat) : state * res dump :=
  let em := s_map st in
  let h := s_heap st in
  match nth_error (s_objs st) harg with
  | None => (st, Err EIndex)                             (* not a handle: never generated *)
  | Some arg =>
    (* if self._refmolecule != refmolecule: raise TypeError *)
    match mol_eq h (e_ref em) arg with
    | Err e => (st, Err e)
    | Ok false => (st, Err EType)
    | Ok true =>
      (* self._calculate_refsystems(refmolecule): frames from the ARGUMENT's coordinates and bonds *)
      match (let* ps := mol_positions h arg in let* g := mol_graph h arg in frames_of g ps) with
      | Err e => (st, Err e)
      | Ok frs =>
        (* Commit 1: the dict entries are overwritten *)
        let rs' := dict_update (e_refsys em) frs in
        let em' := mkEM (e_ref em) (e_tgt em) rs' (e_ec em) in
        (* new_mol = self._targetmolecule.copy() *)
        match copy_mol h (e_tgt em) with
        | Err e => (mkSt h (s_objs st) em', Err e)
        | Ok (h1, nm) =>
          (* for atom in new_mol: atom.position = self._restore_point(equiv, proyection) *)
          match (let* ps' := restore_all rs' (e_ec em) in zip_res (m_atoms nm) ps') with
          | Err e => (mkSt h1 (s_objs st) em', Err e)
          | Ok lps =>
            let h2 := mkHeap (write_g (gro h1) (map (fun lp => (fst lp, set_pos (snd lp))) lps)) (top h1) in
            (* new_mol.resids = refmolecule.resids *)
            match mol_resids h2 arg with
            | Err e => (mkSt h2 (s_objs st) em', Err e)
            | Ok rids =>
              if negb (Nat.eqb (length rids) (length (m_res nm))) then
                (mkSt h2 (s_objs st) em', Err EValue)      (* ValueError: nothing written by the setter *)
              else
                match (let per := per_atom (m_res nm) rids in
                       let* a := zip_res (m_atoms nm) per in
                       let* b := zip_res (m_top nm) per in Ok (a, b)) with
                | Err e => (mkSt h2 (s_objs st) em', Err e)
                | Ok (gw, tw) =>
                  (* atom.top_resid = r (the SHARED topology of the target); atom.gro_resid = r *)
                  let h3 := mkHeap (write_g (gro h2) (map (fun lz => (fst lz, set_gresid (snd lz))) gw))
                                   (write_t (top h2) (map (fun lz => (fst lz, set_tresid (snd lz))) tw)) in
                  (mkSt h3 (s_objs st ++ [nm]) em', dump_mol h3 nm)
                end
            end
          end
        end
      end
    end
  end.

(* mol[i].position = v through the public API (Molecule.__getitem__ -> Atom.__setattr__ -> AtomGro) *)
Definition poke (h : heap) (m : mol) (i : nat) (v : vec) : res heap :=
  let* l := nth_res (m_atoms m) i in
  let* _ := nth_res (gro h) l in
  Ok (mkHeap (upd (gro h) l (set_pos v)) (top h)).

(* mol.resids = [r0; r1; ...] through the public API (list form of the Molecule.resids setter) on an EXISTING
   molecule: every atom gets the number of its residue, in its gro cell AND in its (possibly shared) top cell *)
Definition renumber (h : heap) (m : mol) (rids : list Z) : res heap :=
  match rids with
  | [] => Err EIndex                                   (* new_resids[0] *)
  | _ :: _ =>
    let* cur := mol_resids h m in
    if negb (Nat.eqb (length rids) (length cur)) then Err EValue else
    let per := per_atom (m_res m) rids in
    let* a := zip_res (m_atoms m) per in
    let* b := zip_res (m_top m) per in
    Ok (mkHeap (write_g (gro h) (map (fun lz => (fst lz, set_gresid (snd lz))) a))
               (write_t (top h) (map (fun lz => (fst lz, set_tresid (snd lz))) b)))
  end.

Inductive op :=
| Call (h : nat)               (* map(objs[h]) : a valid argument or a molecule of another species *)
| CallNonMolecule              (* map(x) for x not a Molecule *)
| PokeRef (i : nat) (v : vec)  (* construction reference: ref[i].position = v *)
| PokeTgt (i : nat) (v : vec)  (* construction target:    tgt[i].position = v *)
| PokeObj (h i : nat) (v : vec)  (* a previous argument or a previously returned molecule *)
| RenumRef (rids : list Z)     (* construction reference: ref.resids = rids (gro and topology numbers) *)
| RenumTgt (rids : list Z)     (* construction target *)
| RenumObj (h : nat) (rids : list Z). (* any handle, e.g. a molecule sharing the reference's topology *)

Inductive out :=
| OCall (r : res dump)
| OPoke (r : res unit).

Definition with_heap (st : state) (r : res heap) : state * out :=
  match r with
  | Ok h' => (mkSt h' (s_objs st) (s_map st), OPoke (Ok tt))
  | Err e => (st, OPoke (Err e))
  end.

Definition step (st : state) (o : op) : state * out :=
  match o with
  | Call h => let '(st', r) := call st h in (st', OCall r)
  | CallNonMolecule => (st, OCall (Err EType))       (* isinstance test, first statement of __call__ *)
  | PokeRef i v => with_heap st (poke (s_heap st) (e_ref (s_map st)) i v)
  | PokeTgt i v => with_heap st (poke (s_heap st) (e_tgt (s_map st)) i v)
  | PokeObj h i v =>
      match nth_error (s_objs st) h with
      | None => (st, OPoke (Err EIndex))
      | Some m => with_heap st (poke (s_heap st) m i v)
      end
  | RenumRef rids => with_heap st (renumber (s_heap st) (e_ref (s_map st)) rids)
  | RenumTgt rids => with_heap st (renumber (s_heap st) (e_tgt (s_map st)) rids)
  | RenumObj h rids =>
      match nth_error (s_objs st) h with
      | None => (st, OPoke (Err EIndex))
      | Some m => with_heap st (renumber (s_heap st) m rids)
      end
  end.

Definition run (st : state) (ops : list op) : state :=
  fold_left (fun st o => fst (step st o)) ops st.

(* outputs of a whole run, for the correspondence check *)
Fixpoint trace (st : state) (ops : list op) : list (state * out) :=
  match ops with
  | [] => []
  | o :: ops' => let so := step st o in so :: trace (fst so) ops'
  end.

(* ---- the history-free description of a call's outcome (specification side of C04_history) ----
   ec, g, tcells: construction-time projections, the species' bond graph, the content of the target's
   gro cells residue by residue; ps, rids: the argument's coordinates and residue numbers now. *)
Fixpoint set_positions (cs : list (list gcell)) (ps : list vec) : list (list gcell) :=
  match cs with
  | [] => []
  | r :: cs' => map (fun cp => set_pos (snd cp) (fst cp)) (combine r (firstn (length r) ps))
                :: set_positions cs' (skipn (length r) ps)
  end.

Definition result_of (ec : list (nat * vec)) (g : graph) (tcells : list (list gcell))
    (ps : list vec) (rids : list Z) : res dump :=
  let* frs := frames_of g ps in
  let* ps' := restore_all frs ec in
  if negb (Nat.eqb (length ps') (length (concat tcells))) then Err EIndex else
  if negb (Nat.eqb (length rids) (length tcells)) then Err EValue else
  Ok (map (fun rc => map (set_gresid (snd rc)) (fst rc)) (combine (set_positions tcells ps') rids)).

End Machine.

Arguments mkG {vec}. Arguments mkHeap {vec}. Arguments mkEM {vec fr}. Arguments mkSt {vec fr}.
Arguments g_resid {vec}. Arguments g_resname {vec}. Arguments g_name {vec}. Arguments g_atomid {vec}.
Arguments g_pos {vec}. Arguments g_vel {vec}. Arguments gro {vec}. Arguments top {vec}.
Arguments s_heap {vec fr}. Arguments s_objs {vec fr}. Arguments s_map {vec fr}.
Arguments e_ref {vec fr}. Arguments e_tgt {vec fr}. Arguments e_refsys {vec fr}. Arguments e_ec {vec fr}.
Arguments Call {vec}. Arguments CallNonMolecule {vec}. Arguments PokeRef {vec}. Arguments PokeTgt {vec}.
Arguments PokeObj {vec}. Arguments RenumRef {vec}. Arguments RenumTgt {vec}. Arguments RenumObj {vec}.
Arguments OCall {vec}. Arguments OPoke {vec}.

(* ------------------------------------------------------------------------------------------------ *)
(* A concrete core over a Scalar, for references of >= 3 atoms (the quantifier of C04):
   frame of anchor a = calcule_base [pos[a], pos[n1], pos[n2]] with n1 < n2 the two lowest bonded indices;
   nearest anchor = head of sorted((euclidean(p, ref[i]), i) for i in keys); projection = (F . (p - o)) * s;
   restore = o + c . F.   Same definitions as Model/ExchangeMap.v (general case), kept here so that this
   file does not depend on it. *)
Section Core.
Context {T : Type} `{Scalar T}.
Local Open Scope scalar_scope.

Definition c_frame_at (g : graph) (ps : list (V3 T)) (a : nat) : res (nat * frame T) :=
  let* l := nth_res g a in
  match lowest2 l with
  | None => Err EIndex
  | Some (n1, n2) =>
      let* p0 := nth_res ps a in
      let* p1 := nth_res ps n1 in
      let* p2 := nth_res ps n2 in
      let* F := calcule_base p0 p1 p2 in
      Ok (a, F)
  end.

Definition c_frames_of (g : graph) (ps : list (V3 T)) : res (list (nat * frame T)) :=
  if Nat.ltb (length ps) 3 then Err EStop           (* 1- and 2-atom references: not covered here *)
  else mapM (c_frame_at g ps) (anchors g).

Definition pair_lt (c b : T * nat) : bool :=
  if fst c =? fst b then Nat.ltb (snd c) (snd b) else fst c <? fst b.

Definition c_closest (ref : list (V3 T)) (keys : list nat) (p : V3 T) : res nat :=
  let* ds := mapM (fun i => let* r := nth_res ref i in Ok (vdist p r, i)) keys in
  match ds with
  | [] => Err EIndex                                (* sorted([])[0] : IndexError *)
  | d :: rest => Ok (snd (fold_left (fun b c => if pair_lt c b then c else b) rest d))
  end.

Definition c_fmat (F : frame T) : M3 T := mkM (f1 F) (f2 F) (f3 F).
Definition c_project (s : T) (F : frame T) (p : V3 T) : V3 T :=
  vscaler (mvec (c_fmat F) (vsub p (forig F))) s.
Definition c_restore (F : frame T) (c : V3 T) : V3 T := vadd (forig F) (vecm c (c_fmat F)).

Definition c_project_all (s : T) (rs : list (nat * frame T)) (ref tgt : list (V3 T))
  : res (list (nat * V3 T)) :=
  mapM (fun p => let* a := c_closest ref (map fst rs) p in
                 let* F := dict_get rs a in
                 Ok (a, c_project s F p)) tgt.

End Core.
