(* Model of gaddlemaps.components._system.SystemGro (C12) on an abstract opened GroFile.

   The byte-level .gro codec is modelled elsewhere (C13/C14).  Here an opened file is the list
   of its parsed atom records (+ title, box); `natoms` is the number of records (what
   GroFile._load_and_verify established when it found the box line behind the last record).
   The READER is explicit state:
     r_pos  the line (in atom-line units after the header) the file handle points to,
     r_cur  GroFile._current_atom.
   Everything that touches the file is written in a state monad over `reader`, statement by
   statement as in /repo/gaddlemaps/components/_system.py and parsers/__init__.py.
   No proofs in this file. *)
From Coq Require Import ZArith String Bool Arith DecimalString List.
From GM Require Import Base.Res.
Import ListNotations.
Local Open Scope Z_scope.

(* ------------------------------------------------------------------ data *)
(* one parsed atom line; a_pay stands for the coordinates and velocities (opaque payload) *)
Record atom := mkAtom { a_resid : Z; a_resname : string; a_name : string; a_atomid : Z; a_pay : Z }.
Definition residue := list atom.

Record grofile := mkGro { g_title : string; g_records : list atom; g_box : list Z }.
Definition natoms (f : grofile) : nat := length (g_records f).

Record reader := mkReader { r_pos : nat; r_cur : nat }.
(* GroFile.__init__ ends with seek_atom(0) *)
Definition open_reader : reader := mkReader 0 0.

(* ------------------------------------------------------------------ state monad over the reader *)
Definition M (A : Type) : Type := reader -> reader * res A.
Definition ret {A} (a : A) : M A := fun st => (st, Ok a).
Definition fail {A} (e : err) : M A := fun st => (st, Err e).
Definition lift {A} (r : res A) : M A := fun st => (st, r).
Definition bindM {A B} (m : M A) (k : A -> M B) : M B :=
  fun st => match m st with
            | (st', Ok a) => k a st'
            | (st', Err e) => (st', Err e)
            end.
Notation "'do*' x '<-' c1 ';' c2" := (bindM c1 (fun x => c2))
  (at level 61, x pattern, c1 at next level, right associativity).

Fixpoint mapMM {A B} (g : A -> M B) (l : list A) : M (list B) :=
  match l with
  | [] => ret []
  | x :: xs => do* y <- g x; do* ys <- mapMM g xs; ret (y :: ys)
  end.

(* ------------------------------------------------------------------ GroFile, reader side *)
(* def seek_atom(self, index):
       self._current_atom = index
       if index > self.natoms: raise IndexError
       self._file.seek(self._init_position + index * self._atomline_bytesize) *)
Definition seek_atom (f : grofile) (i : nat) : M unit :=
  fun st => if (natoms f <? i)%nat then (mkReader (r_pos st) i, Err EIndex)
            else (mkReader i i, Ok tt).

(* def readline(self):                      (next = __next__ = readline)
       info = self._readline()              the handle advances one line whatever happens next
       if self._current_atom >= self.natoms: raise StopIteration
       self._current_atom += 1
       return self.parse_atomline(info, self._format)
   A line that is not one of the natoms atom lines (the box line, end of file) does not parse:
   Err EIO.  That branch needs r_cur < natoms <= r_pos, which no operation of this model produces. *)
Definition next_rec (f : grofile) : M atom :=
  fun st => if (natoms f <=? r_cur st)%nat then (mkReader (S (r_pos st)) (r_cur st), Err EStop)
            else match nth_error (g_records f) (r_pos st) with
                 | Some a => (mkReader (S (r_pos st)) (S (r_cur st)), Ok a)
                 | None => (mkReader (S (r_pos st)) (S (r_cur st)), Err EIO)
                 end.

(* [next(f) for _ in range(n)] *)
Fixpoint read_n (f : grofile) (n : nat) : M (list atom) :=
  match n with
  | O => ret []
  | S n' => do* a <- next_rec f; do* rest <- read_n f n'; ret (a :: rest)
  end.

(* ------------------------------------------------------------------ AtomGro / Residue *)
Definition str_of_Z (z : Z) : string := NilEmpty.string_of_int (Z.to_int z).
(* AtomGro.residname = '{}{}'.format(resid, resname) *)
Definition residname (a : atom) : string := (str_of_Z (a_resid a) ++ a_resname a)%string.

(* Residue.__init__: ValueError for an empty list or more than one distinct residname *)
Definition mk_residue (atoms : list atom) : res residue :=
  match atoms with
  | [] => Err EValue
  | a :: rest => if forallb (fun b => String.eqb (residname b) (residname a)) rest
                 then Ok atoms else Err EValue
  end.

(* AtomGro.__eq__: same resname and same atom name (numbers and coordinates are not compared) *)
Definition atom_eqb (x y : atom) : bool :=
  String.eqb (a_resname x) (a_resname y) && String.eqb (a_name x) (a_name y).

(* all(at1 == at2 for at1, at2 in zip(element, self)) *)
Fixpoint all2 (l1 l2 : list atom) : bool :=
  match l1, l2 with
  | x :: xs, y :: ys => atom_eqb x y && all2 xs ys
  | _, _ => true
  end.
(* Residue.__eq__ *)
Definition residue_eqb (t r : residue) : bool :=
  Nat.eqb (length t) (length r) && all2 r t.

(* ------------------------------------------------------------------ SystemGro state *)
Definition key := (string * nat)%type.
Definition key_eqb (k1 k2 : key) : bool :=
  String.eqb (fst k1) (fst k2) && Nat.eqb (snd k1) (snd k2).

(* dict with insertion order (an overwritten key keeps its place) *)
Fixpoint pk_get (k : key) (d : list (key * nat)) : option nat :=
  match d with
  | [] => None
  | (k', v) :: t => if key_eqb k k' then Some v else pk_get k t
  end.
Fixpoint pk_set (k : key) (v : nat) (d : list (key * nat)) : list (key * nat) :=
  match d with
  | [] => [(k, v)]
  | (k', v') :: t => if key_eqb k k' then (k', v) :: t else (k', v') :: pk_set k v t
  end.

Record sysgro := mkSys {
  s_templates : list residue;          (* different_molecules *)
  s_pk : list (key * nat);             (* _molecules_pk *)
  s_ordered : list (nat * nat)         (* _molecules_ordered, as (index, amount) pairs *)
}.
Definition empty_sys : sysgro := mkSys [] [] [].

(* if not self._molecules_ordered or self._molecules_ordered[-2] != index: += [index, 1]
   else: self._molecules_ordered[-1] += 1 *)
Fixpoint bump (idx : nat) (l : list (nat * nat)) : list (nat * nat) :=
  match l with
  | [] => [(idx, 1%nat)]
  | [(i, c)] => if Nat.eqb i idx then [(i, S c)] else [(i, c); (idx, 1%nat)]
  | x :: t => x :: bump idx t
  end.

(* key = (residue.resname, len(residue)); residue.resname = self[0].resname *)
Definition residue_key (r : residue) : res key :=
  match r with
  | [] => Err EIndex
  | a :: _ => Ok (a_resname a, length r)
  end.

(* def _add_residue_init(self, residue):
       key = (residue.resname, len(residue))
       if residue not in self.different_molecules:
           self.different_molecules.append(residue)
           index = len(self.different_molecules) - 1
           self._molecules_pk[key] = index
       index = self._molecules_pk[key]
       ... run-length list *)
Definition add_residue_init (s : sysgro) (r : residue) : res sysgro :=
  let* k := residue_key r in
  let s1 := if existsb (fun t => residue_eqb t r) (s_templates s) then s
            else mkSys (s_templates s ++ [r]) (pk_set k (length (s_templates s)) (s_pk s))
                       (s_ordered s) in
  match pk_get k (s_pk s1) with
  | None => Err EKey
  | Some idx => Ok (mkSys (s_templates s1) (s_pk s1) (bump idx (s_ordered s1)))
  end.

Definition same_res (a : atom) (prev : Z * string) : bool :=
  Z.eqb (a_resid a) (fst prev) && String.eqb (a_resname a) (snd prev).

Definition close_residue (s : sysgro) (cur : list atom) : res sysgro :=
  let* r := mk_residue cur in add_residue_init s r.

(* for line in self._open_fgro:        GroFile.__iter__ = next until StopIteration
       atom = AtomGro(line)
       if (atom.resid, atom.resname) == prev_atom_residname: current_residue.append(atom)
       else: self._add_residue_init(Residue(current_residue)); current_residue = [atom]; prev = ...
   self._add_residue_init(Residue(current_residue))
   The `while True` of __iter__ runs on fuel. *)
Fixpoint parse_loop (f : grofile) (fuel : nat) (cur : list atom) (prev : Z * string) (s : sysgro)
  : M sysgro :=
  fun st =>
  match fuel with
  | O => (st, Err EFuel)
  | S fuel' =>
    match next_rec f st with
    | (st', Err EStop) => (st', close_residue s cur)
    | (st', Err e) => (st', Err e)
    | (st', Ok a) =>
        if same_res a prev then parse_loop f fuel' (cur ++ [a]) prev s st'
        else match close_residue s cur with
             | Err e => (st', Err e)
             | Ok s' => parse_loop f fuel' [a] (a_resid a, a_resname a) s' st'
             end
    end
  end.

(* current_residue = [AtomGro(next(self._open_fgro))]; prev = (resid, resname); the loop *)
Definition parse_gro (f : grofile) : M sysgro :=
  do* a <- next_rec f;
  parse_loop f (S (natoms f)) [a] (a_resid a, a_resname a) empty_sys.

(* SystemGro(fgro): open, then _parse_gro *)
Definition init (f : grofile) : reader * res sysgro := parse_gro f open_reader.

(* ------------------------------------------------------------------ the offset generator *)
(* one run of `amount` residues of length len starting at atom `start` *)
Fixpoint emit_run (idx len amount start : nat) : list (nat * nat * nat) :=
  match amount with
  | O => []
  | S c => (idx, start, len) :: emit_run idx len c (start + len)
  end.

(* def _molecules_ordered_all_gen(self):
       start_atom = 0
       for index, ammount in self._pk_ammount_ordered_gen():
           len_mol = len(self.different_molecules[index])
           for _ in range(ammount): yield (index, start_atom, len_mol); start_atom += len_mol
   The generator has no effect on the file; it is modelled by the list of what it yields
   (a template index out of range would raise lazily in Python, here for the whole list). *)
Fixpoint entries_from (tpl : list residue) (ordered : list (nat * nat)) (start : nat)
  : res (list (nat * nat * nat)) :=
  match ordered with
  | [] => Ok []
  | (idx, c) :: t =>
      let* tp := nth_res tpl idx in
      let len := length tp in
      let* rest := entries_from tpl t (start + c * len) in
      Ok (emit_run idx len c start ++ rest)
  end.
Definition entries (s : sysgro) : res (list (nat * nat * nat)) :=
  entries_from (s_templates s) (s_ordered s) 0.

(* self._open_fgro.seek_atom(start)
   Residue([AtomGro(next(self._open_fgro)) for _ in range(len_mol)]) *)
Definition access (f : grofile) (e : nat * nat * nat) : M residue :=
  let '(_, start, len) := e in
  do* _ <- seek_atom f start;
  do* atoms <- read_n f len;
  lift (mk_residue atoms).

(* __getitem__: except StopIteration: raise IndexError *)
Definition stop_to_index {A} (m : M A) : M A :=
  fun st => match m st with
            | (st', Err EStop) => (st', Err EIndex)
            | x => x
            end.
(* a StopIteration escaping the body of the generator __iter__ becomes RuntimeError (PEP 479);
   the error enumeration has no RuntimeError: ESystem stands for it here *)
Definition stop_to_runtime {A} (m : M A) : M A :=
  fun st => match m st with
            | (st', Err EStop) => (st', Err ESystem)
            | x => x
            end.

(* next(islice_extended(gen, i, i + 1)) for i <> -1 : None = StopIteration.
   i >= 0: the i-th element; i <= -2: more_itertools consumes the generator, then slices *)
Definition islice_one {A} (es : list A) (i : Z) : option A :=
  if 0 <=? i then nth_error es (Z.to_nat i)
  else let k := Z.of_nat (length es) + i in
       if 0 <=? k then nth_error es (Z.to_nat k) else None.

Fixpoint last_opt {A} (l : list A) : option A :=
  match l with
  | [] => None
  | [x] => Some x
  | _ :: t => last_opt t
  end.

(* __getitem__(int):  index == -1 -> last(gen) (ValueError on an empty generator) *)
Definition getitem_int (f : grofile) (s : sysgro) (i : Z) : M residue :=
  stop_to_index (
    do* es <- lift (entries s);
    if i =? -1 then
      match last_opt es with
      | None => fail EValue
      | Some e => access f e
      end
    else
      match islice_one es i with
      | None => fail EStop
      | Some e => access f e
      end).

(* range over slice(a, b, c).indices(len) -- the positions islice_extended(gen, a, b, c) yields,
   in the order it yields them (more_itertools documents list-slice semantics; compared with
   list slicing exhaustively for len <= 7 when the model was written, and by K on every run) *)
Definition py_slice_indices (len : nat) (a b c : option Z) : res (list nat) :=
  let step := match c with None => 1 | Some z => z end in
  if step =? 0 then Err EValue else
  let L := Z.of_nat len in
  let neg := step <? 0 in
  let lower := if neg then -1 else 0 in
  let upper := if neg then L - 1 else L in
  let clamp (x : Z) := if x <? 0 then Z.max (x + L) lower else Z.min x upper in
  let start := match a with None => if neg then upper else lower | Some x => clamp x end in
  let stop := match b with None => if neg then lower else upper | Some x => clamp x end in
  let n := if neg then (if stop <? start then (start - stop - 1) / (- step) + 1 else 0)
           else (if start <? stop then (stop - start - 1) / step + 1 else 0) in
  Ok (map (fun i => Z.to_nat (start + Z.of_nat i * step)) (seq 0 (Z.to_nat n))).

(* __getitem__(slice) *)
Definition getitem_slice (f : grofile) (s : sysgro) (a b c : option Z) : M (list residue) :=
  stop_to_index (
    do* es <- lift (entries s);
    do* idxs <- lift (py_slice_indices (length es) a b c);
    do* sel <- lift (mapM (nth_res es) idxs);
    mapMM (access f) sel).

(* the first n steps of a fresh `iter(system)` (all of them when n >= len), then abandoned *)
Definition iter_prefix (f : grofile) (s : sysgro) (n : nat) : M (list residue) :=
  do* es <- lift (entries s);
  mapMM (fun e => stop_to_runtime (access f e)) (firstn n es).
(* list(system) *)
Definition iter_all (f : grofile) (s : sysgro) : M (list residue) :=
  do* es <- lift (entries s);
  mapMM (fun e => stop_to_runtime (access f e)) es.
(* step number k of a live generator; None = exhausted (StopIteration for the caller) *)
Definition iter_step (f : grofile) (s : sysgro) (k : nat) : M (option residue) :=
  do* es <- lift (entries s);
  match nth_error es k with
  | None => ret None
  | Some e => do* r <- stop_to_runtime (access f e); ret (Some r)
  end.

(* __len__, n_atoms, box_matrix, comment_line, molecules_info_ordered_all, composition *)
Definition sys_len (s : sysgro) : nat := fold_right (fun p acc => (snd p + acc)%nat) 0%nat (s_ordered s).
Definition n_atoms (f : grofile) : nat := natoms f.
Definition box_matrix (f : grofile) : list Z := g_box f.
Definition comment_line (f : grofile) : string := g_title f.
Definition info_all (s : sysgro) : list nat :=
  flat_map (fun p => repeat (fst p) (snd p)) (s_ordered s).

Fixpoint counter_add (name : string) (n : nat) (c : list (string * nat)) : list (string * nat) :=
  match c with
  | [] => [(name, n)]
  | (m, v) :: t => if String.eqb name m then (m, (v + n)%nat) :: t else (m, v) :: counter_add name n t
  end.
Fixpoint composition_from (tpl : list residue) (ordered : list (nat * nat)) (acc : list (string * nat))
  : res (list (string * nat)) :=
  match ordered with
  | [] => Ok acc
  | (idx, c) :: t =>
      let* tp := nth_res tpl idx in
      let* k := residue_key tp in
      composition_from tpl t (counter_add (fst k) c acc)
  end.
Definition composition (s : sysgro) : res (list (string * nat)) :=
  composition_from (s_templates s) (s_ordered s) [].

(* ------------------------------------------------------------------ access histories *)
Inductive op :=
| Index (i : Z)                       (* system[i] *)
| Slice (a b c : option Z)            (* system[a:b:c] *)
| IterPrefix (n : nat)                (* it = iter(system); n times next(it) (until exhausted); dropped *)
| IterNew                             (* a live iterator is created and kept *)
| IterStep (j : nat).                 (* next() on the j-th live iterator *)

Inductive obs :=
| OResidue (r : residue)
| OList (l : list residue)
| OStop                               (* StopIteration from an exhausted iterator *)
| OUnit
| OErr (e : err).

(* live iterators: Some k = has yielded k residues; None = finished *)
Record hstate := mkH { h_reader : reader; h_iters : list (option nat) }.

Fixpoint set_nth {A} (l : list A) (j : nat) (x : A) : list A :=
  match l, j with
  | [], _ => []
  | _ :: t, O => x :: t
  | y :: t, S j' => y :: set_nth t j' x
  end.

Definition run_op (f : grofile) (s : sysgro) (o : op) (h : hstate) : hstate * obs :=
  match o with
  | Index i =>
      match getitem_int f s i (h_reader h) with
      | (st, Ok r) => (mkH st (h_iters h), OResidue r)
      | (st, Err e) => (mkH st (h_iters h), OErr e)
      end
  | Slice a b c =>
      match getitem_slice f s a b c (h_reader h) with
      | (st, Ok l) => (mkH st (h_iters h), OList l)
      | (st, Err e) => (mkH st (h_iters h), OErr e)
      end
  | IterPrefix n =>
      match iter_prefix f s n (h_reader h) with
      | (st, Ok l) => (mkH st (h_iters h), OList l)
      | (st, Err e) => (mkH st (h_iters h), OErr e)
      end
  | IterNew => (mkH (h_reader h) (h_iters h ++ [Some 0%nat]), OUnit)
  | IterStep j =>
      match nth_error (h_iters h) j with
      | None => (h, OErr EKey)            (* no such iterator object: not a Python behaviour *)
      | Some None => (h, OStop)
      | Some (Some k) =>
          match iter_step f s k (h_reader h) with
          | (st, Ok (Some r)) => (mkH st (set_nth (h_iters h) j (Some (S k))), OResidue r)
          | (st, Ok None) => (mkH st (set_nth (h_iters h) j None), OStop)
          | (st, Err e) => (mkH st (set_nth (h_iters h) j None), OErr e)
          end
      end
  end.

(* observations of a whole history, with the value of _current_atom after each operation *)
Fixpoint run_history (f : grofile) (s : sysgro) (ops : list op) (h : hstate) : list (obs * nat) :=
  match ops with
  | [] => []
  | o :: rest => let '(h', ob) := run_op f s o h in (ob, r_cur (h_reader h')) :: run_history f s rest h'
  end.

(* ------------------------------------------------------------------ reference semantics
   What a plain list `rs` of residues answers to the same operations - no file, no cursor.
   C12_random_access states that run_op agrees with it from every reader state. *)
Definition norm_index (len : nat) (i : Z) : option nat :=
  if 0 <=? i then (if i <? Z.of_nat len then Some (Z.to_nat i) else None)
  else (if 0 <=? Z.of_nat len + i then Some (Z.to_nat (Z.of_nat len + i)) else None).

Definition spec_op (rs : list residue) (o : op) (its : list (option nat)) : list (option nat) * obs :=
  match o with
  | Index i =>
      match norm_index (length rs) i with
      | Some k => match nth_error rs k with
                  | Some r => (its, OResidue r)
                  | None => (its, OErr EIndex)
                  end
      | None => (its, OErr (if (i =? -1) then EValue else EIndex))
      end
  | Slice a b c =>
      match py_slice_indices (length rs) a b c with
      | Err e => (its, OErr e)
      | Ok idxs => match mapM (nth_res rs) idxs with
                   | Ok l => (its, OList l)
                   | Err e => (its, OErr e)
                   end
      end
  | IterPrefix n => (its, OList (firstn n rs))
  | IterNew => (its ++ [Some 0%nat], OUnit)
  | IterStep j =>
      match nth_error its j with
      | None => (its, OErr EKey)
      | Some None => (its, OStop)
      | Some (Some k) =>
          match nth_error rs k with
          | Some r => (set_nth its j (Some (S k)), OResidue r)
          | None => (set_nth its j None, OStop)
          end
      end
  end.

Fixpoint spec_history (rs : list residue) (ops : list op) (its : list (option nat)) : list obs :=
  match ops with
  | [] => []
  | o :: rest => let '(its', ob) := spec_op rs o its in ob :: spec_history rs rest its'
  end.

(* reference semantics of composition: how many residues of the list carry a given name *)
Fixpoint counter_get (name : string) (c : list (string * nat)) : nat :=
  match c with
  | [] => 0%nat
  | (m, v) :: t => if String.eqb name m then v else counter_get name t
  end.
Definition has_name (name : string) (r : residue) : bool :=
  match r with
  | [] => false
  | a :: _ => String.eqb name (a_resname a)
  end.
Definition count_name (name : string) (rs : list residue) : nat := length (filter (has_name name) rs).
