(* Model of class GroFile (gaddlemaps/parsers/__init__.py) as a writer state machine over an
   explicit byte file with a cursor, and of the reader (_load_and_verify, _load_box_matrix,
   seek_atom, readline/next/readlines).  Definitions only; lemmas in Proofs/Gro*.v.
   Text-mode file, ASCII, "\n" line ends: tell/seek are byte offsets. *)
From Coq Require Import List Ascii NArith ZArith Bool Arith.
From GM Require Import Base.Res Base.StrGro Gen.SrcConsts Model.GroCodec.
Import ListNotations.


(* ================================================================== writer *)
Inductive boxin :=
| BoxDefault                       (* numpy.zeros((3,3)) of __init__ *)
| BoxVec (a b c : bentry)          (* box_matrix = 3-vector -> numpy.diag *)
| BoxMat (m : list bentry).        (* box_matrix = 3x3, row major *)

(* what the caller sets on the fresh GroFile(path, 'w') before the first writeline *)
Record wconf := mkwconf {
  c_title : option bytes;          (* .comment = s *)
  c_natoms : option Z;             (* .natoms = n *)
  c_fmt : option (nat * nat);      (* .position_format = (w, d) *)
  c_box : boxin
}.

Record wsetup := mkwsetup { s_init : nat; s_w : nat; s_d : nat; s_vel : bool }.

Record wstate := mkwstate {
  wf : bytes;                      (* file content *)
  wpos : nat;                      (* cursor *)
  wtitle : bytes;                  (* value of the comment property *)
  wnat : option Z;                 (* _natoms *)
  wfmt : option (nat * nat);       (* _format['position'] *)
  wset : option wsetup;            (* _init_position and the format fixed by the first record *)
  wbsz : option nat;               (* _atomline_bytesize *)
  wbox : list bentry;              (* _box_matrix, row major *)
  wcur : nat;                      (* _current_atom *)
  wclosed : bool                   (* close returned early ("Closing an empty file") *)
}.

Definition fwrite (st : wstate) (data : bytes) : wstate :=
  mkwstate (write_at (wpos st) data (wf st)) (wpos st + length data) (wtitle st) (wnat st)
           (wfmt st) (wset st) (wbsz st) (wbox st) (wcur st) (wclosed st).
Definition fseek (st : wstate) (p : nat) : wstate :=
  mkwstate (wf st) p (wtitle st) (wnat st) (wfmt st) (wset st) (wbsz st) (wbox st) (wcur st)
           (wclosed st).

Definition set_box (b : boxin) : res (list bentry) :=
  match b with
  | BoxDefault => Ok (repeat bzero 9)
  | BoxVec a b c => Ok [a; bzero; bzero; bzero; b; bzero; bzero; bzero; c]
  | BoxMat m => if length m =? 9 then Ok m else Err EValue
  end.

(* comment setter: value.endswith('\n') -> value[:-1]; the empty string is a title like any other *)
Definition set_comment (t : bytes) : res bytes := Ok (drop_final_nl t).

Definition w_start (c : wconf) : res wstate :=
  let* title := match c_title c with
                | None => Ok (bs DEFAULT_COMMENT)
                | Some t => set_comment t end in
  let* box := set_box (c_box c) in
  Ok (mkwstate [] 0 title (c_natoms c) (c_fmt c) None None box 0 false).


Definition set_cur (st : wstate) (k : nat) : wstate :=
  mkwstate (wf st) (wpos st) (wtitle st) (wnat st) (wfmt st) (wset st) (wbsz st) (wbox st) k
           (wclosed st).
Definition set_setup (st : wstate) (s : wsetup) : wstate :=
  mkwstate (wf st) (wpos st) (wtitle st) (wnat st) (Some (s_w s, s_d s)) (Some s) (wbsz st)
           (wbox st) (wcur st) (wclosed st).
Definition set_bsz (st : wstate) (b : nat) : wstate :=
  mkwstate (wf st) (wpos st) (wtitle st) (wnat st) (wfmt st) (wset st) (Some b) (wbox st)
           (wcur st) (wclosed st).
Definition set_nat (st : wstate) (n : Z) : wstate :=
  mkwstate (wf st) (wpos st) (wtitle st) (Some n) (wfmt st) (wset st) (wbsz st) (wbox st)
           (wcur st) (wclosed st).
Definition set_closed (st : wstate) : wstate :=
  mkwstate (wf st) (wpos st) (wtitle st) (wnat st) (wfmt st) (wset st) (wbsz st) (wbox st)
           (wcur st) true.

(* the announced count is already reached: writeline refuses the record (D18) *)
Definition count_reached (st : wstate) : bool :=
  match wnat st with
  | Some n => (n <=? Z.of_nat (wcur st))%Z     (* self._current_atom >= self._natoms *)
  | None => false
  end.

(* writeline on an initialised file *)
Definition w_record (st : wstate) (s : wsetup) (r : grec) : res wstate :=
  if count_reached st then Err EIO else             (* nothing is written *)
  let* line := parse_atomlist (s_w s) (s_d s) (s_vel s) r in
  let st1 := fwrite (fwrite st line) [NL] in
  Ok (set_cur st1 (S (wcur st1))).

(* str.endswith('\n'); false on '' *)
Definition ends_nl (t : bytes) : bool :=
  match last_opt t with Some c => Ascii.eqb c NL | None => false end.

(* _setup_write_file, first part: comment line and count line *)
Definition w_header (st : wstate) : res wstate :=
  let title := wtitle st in
  let st1 := fwrite st title in
  let st2 := if ends_nl title then st1 else fwrite st1 [NL] in   (* not comment.endswith("\n") *)
  Ok (match wnat st with
      | None => fwrite st2 (repeat SP NUMBER_FIGURES ++ [NL])
      | Some n => fwrite st2 (fmt_Z n ++ [NL])
      end).

(* _setup_write_file *)
Definition w_setup (st : wstate) (r : grec) : res wstate :=
  let (w, d) := match wfmt st with
                | None => (DEFAULT_POS_FIGURES, DEFAULT_POS_DECIMALS)
                | Some f => f end in
  let* st3 := w_header st in
  let s := mkwsetup (wpos st3) w d (has_vel r) in    (* _init_position = tell() *)
  let* st5 := w_record (set_setup st3 s) s r in
  Ok (set_bsz st5 (wpos st5 - wpos st3)).

Definition w_writeline (st : wstate) (r : grec) : res wstate :=
  match wset st with
  | None => w_setup st r
  | Some s => w_record st s r
  end.

(* close() in write mode = _write_closing_info, split at its file operations:
   OpCount : the count check / seek + back-fill of the count
   OpSeek  : seek_atom(natoms)
   OpBox   : write(dump_lattice_gro(box) + '\n')   - ONE write: no state of the file object
             lies between the box text and its end of line                          *)
Inductive wop := OpRec (r : grec) | OpCount | OpSeek | OpBox.

Definition w_count (st : wstate) : res wstate :=
  match wnat st with
  | None =>
      if wcur st =? 0 then Ok (set_closed st)
      else
        match wset st with
        | None => Err EType     (* unreachable: _current_atom > 0 implies set-up *)
        | Some s =>
            if s_init s <? 1 + NUMBER_FIGURES then Err EValue   (* negative seek *)
            else
              let st1 := fseek st (s_init s - 1 - NUMBER_FIGURES) in
              let st2 := set_nat st1 (Z.of_nat (wcur st)) in
              Ok (fwrite st2 (lpad NUMBER_FIGURES (fmt_Z (Z.of_nat (wcur st))) ++ [NL]))
        end
  | Some n => if (n =? Z.of_nat (wcur st))%Z then Ok st else Err EIO
  end.

Definition w_seek (st : wstate) : res wstate :=
  match wnat st, wset st, wbsz st with
  | Some n, Some s, Some b =>
      let target := (Z.of_nat (s_init s) + n * Z.of_nat b)%Z in
      if (target <? 0)%Z then Err EValue else Ok (fseek st (Z.to_nat target))
  | _, _, _ => Err EValue            (* natoms / _init_position is None *)
  end.

Definition w_box (st : wstate) : res wstate :=
  let* line := dump_lattice_gro (wbox st) in Ok (fwrite st (line ++ [NL])).

Definition w_step (st : wstate) (o : wop) : res wstate :=
  match o with
  | OpRec r => w_writeline st r
  | _ =>
    if wclosed st then Ok st else
    match o with
    | OpCount => w_count st
    | OpSeek => w_seek st
    | _ => w_box st
    end
  end.

Fixpoint w_run (st : wstate) (ops : list wop) : res wstate :=
  match ops with
  | [] => Ok st
  | o :: r => let* st' := w_step st o in w_run st' r
  end.

(* the same run, stopping at the first operation that fails and keeping the state it leaves.  close() checks
   the announced count BEFORE it touches the file (OpCount: `elif self._natoms != self._current_atom: raise
   IOError`), OpSeek raises before seeking, and a refused record writes nothing. *)
(* the state a failing operation leaves.  A refused record, a failing count check and a failing seek do not
   touch the file; the one exception is the FIRST writeline of a file whose announced count is <= 0:
   _setup_write_file has written the title and count lines and fixed the format when its inner writeline
   refuses the record (_atomline_bytesize stays None). *)
Definition w_after_fail (st : wstate) (o : wop) : wstate :=
  match o, wset st with
  | OpRec r, None =>
      let (w, d) := match wfmt st with
                    | None => (DEFAULT_POS_FIGURES, DEFAULT_POS_DECIMALS)
                    | Some f => f end in
      match w_header st with
      | Ok st3 => set_setup st3 (mkwsetup (wpos st3) w d (has_vel r))
      | Err _ => st
      end
  | _, _ => st
  end.

Fixpoint w_run_keep (st : wstate) (ops : list wop) : wstate * option err :=
  match ops with
  | [] => (st, None)
  | o :: r => match w_step st o with
              | Ok st' => w_run_keep st' r
              | Err e => (w_after_fail st o, Some e)
              end
  end.

Definition close_ops : list wop := [OpCount; OpSeek; OpBox].
Definition write_ops (recs : list grec) : list wop := map OpRec recs ++ close_ops.

(* the bytes on disk after the given operations (every operation flushed) *)
Definition file_after (c : wconf) (ops : list wop) : res bytes :=
  let* st0 := w_start c in let* st := w_run st0 ops in Ok (wf st).
(* the bytes left on disk by a run whose close() may fail, and the exception it failed with *)
Definition file_left (c : wconf) (ops : list wop) : res (bytes * option err) :=
  let* st0 := w_start c in
  let (st, e) := w_run_keep st0 ops in Ok (wf st, e).
Definition write_gro (c : wconf) (recs : list grec) : res bytes :=
  file_after c (write_ops recs).

(* ================================================================== reader *)
Record lstate := mklstate {
  l_comment : bytes; l_natoms : Z; l_init : nat; l_fmt : nat * bool; l_bsz : nat;
  l_box : list pdec
}.

Definition SEEK_LIMIT : Z := 2 ^ 62.

(* GroFile(path) in read mode: _load_and_verify *)
Definition load (f : bytes) : res lstate :=
  let (comment, p1) := readline_at f 0 in
  if isnil comment then Err EIO else
  let (cl, p2) := readline_at f p1 in
  match py_int cl with
  | Err _ => Err EIO
  | Ok n =>
    let (first, p3) := readline_at f p2 in
    let* fmt := determine_format first in
    let bsz := p3 - p2 in
    (* _load_box_matrix: seek_atom(natoms), readline *)
    let target := (Z.of_nat p2 + n * Z.of_nat bsz)%Z in
    if (target <? 0)%Z then Err EValue else            (* negative seek position *)
    if (SEEK_LIMIT <=? target)%Z then Err EType else   (* offset overflow: outside the model *)
    if (Z.of_nat (length f) <=? target)%Z then Err EIO else   (* readline() = '' *)
    let (bl, _) := readline_at f (Z.to_nat target) in
    if isnil bl then Err EIO else
    let* box := io_of_value (extract_lattice_gro bl) in
    (* seek_atom(0) *)
    if (n <? 0)%Z then Err EIndex else
    Ok (mklstate comment n p2 fmt bsz box)
  end.

(* readlines(): natoms times readline + parse_atomline, sequentially from _init_position *)
Fixpoint read_atoms (f : bytes) (fmt : nat * bool) (pos : nat) (k : nat) : res (list ratom) :=
  match k with
  | O => Ok []
  | S k' =>
      let (line, pos') := readline_at f pos in
      let* a := parse_atomline fmt line in
      let* r := read_atoms f fmt pos' k' in
      Ok (a :: r)
  end.

Record rresult := mkrresult {
  r_comment : bytes; r_natoms : Z; r_atoms : list ratom; r_box : list pdec
}.

(* g = GroFile(path); atoms = g.readlines(); (g.comment, g.natoms, atoms, g.box_matrix) *)
Definition read_gro (f : bytes) : res rresult :=
  let* st := load f in
  let* atoms := read_atoms f (l_fmt st) (l_init st) (Z.to_nat (l_natoms st)) in
  Ok (mkrresult (l_comment st) (l_natoms st) atoms (l_box st)).
