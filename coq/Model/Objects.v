(* Model of the object layer of gaddlemaps (components/_residue.py, _components.py,
   _components_top.py, System hand-out, Alignment start/end setters) as a small heap.

   Python reference semantics: AtomGro objects are cells of the `gro` store, AtomTop objects
   cells of the `top` store, the `name` attribute of a MoleculeTop a cell of the `mt` store.
   Objects the user holds are handles = lists of locations.  `copy` allocates; views hold
   locations.  Positions stored in cells are immutable values (no operation of the alphabet
   mutates a numpy array in place).  Exceptions are results `Err e` that KEEP the heap reached
   so far: a setter that raises half-way leaves the cells it already wrote (as the code does).

   Geometry is polymorphic over Scalar, numpy operand order. *)
From Coq Require Import List ZArith Bool Arith.
From Coq Require String DecimalString.
From GM Require Import Base.Res Base.Scalar Base.Vec.
Import ListNotations.
Local Open Scope list_scope.

Definition loc := nat.
Notation string := String.string.

(* str(int) of Python *)
Definition string_of_Z (z : Z) : string := DecimalString.NilZero.string_of_int (Z.to_int z).

Fixpoint upd {A} (l : list A) (n : nat) (a : A) : list A :=
  match l, n with
  | [], _ => []
  | _ :: xs, O => a :: xs
  | x :: xs, S n' => x :: upd xs n' a
  end.

Record topcell := mkTop {
  t_name : string; t_resname : string; t_resid : Z; t_index : nat; t_bonds : list nat }.

Section Objects.
Context {T : Type} `{Scalar T}.

Record grocell := mkGro {
  g_resid : Z; g_resname : string; g_name : string; g_atomid : Z;
  g_pos : V3 T; g_vel : option (V3 T) }.

(* what an Alignment object stores at one end: a Molecule (its MoleculeTop name cell, topology atoms, residues) *)
Definition mol := (loc * list loc * list (list loc))%type.

Record heap := mkHeap { hgro : list grocell; htop : list topcell; hmt : list string;
                        hali : list (option mol * option mol)   (* Alignment objects: (_start, _end) *) }.

(* ------------------------------------------------------------------ state + error monad *)
Definition M (A : Type) := heap -> heap * res A.
Definition ret {A} (a : A) : M A := fun h => (h, Ok a).
Definition fail {A} (e : err) : M A := fun h => (h, Err e).
Definition mbind {A B} (m : M A) (f : A -> M B) : M B :=
  fun h => match m h with
           | (h', Ok a) => f a h'
           | (h', Err e) => (h', Err e)
           end.
Notation "'do' x <- m ; k" := (mbind m (fun x => k))
  (at level 200, x pattern, m at level 100, k at level 200, right associativity).

Fixpoint iterM {A} (f : A -> M unit) (l : list A) : M unit :=
  match l with
  | [] => ret tt
  | x :: xs => do _ <- f x; iterM f xs
  end.
Fixpoint mapMM {A B} (f : A -> M B) (l : list A) : M (list B) :=
  match l with
  | [] => ret []
  | x :: xs => do y <- f x; do ys <- mapMM f xs; ret (y :: ys)
  end.

(* primitives; a dangling location is EKey (cannot happen for valid handles) *)
Definition gro_get (l : loc) : M grocell :=
  fun h => (h, match nth_error (hgro h) l with Some c => Ok c | None => Err EKey end).
Definition gro_set (l : loc) (c : grocell) : M unit :=
  fun h => match nth_error (hgro h) l with
           | Some _ => (mkHeap (upd (hgro h) l c) (htop h) (hmt h) (hali h), Ok tt)
           | None => (h, Err EKey)
           end.
Definition gro_mod (l : loc) (f : grocell -> grocell) : M unit :=
  do c <- gro_get l; gro_set l (f c).
Definition gro_alloc_list (cs : list grocell) : M (list loc) :=
  fun h => (mkHeap (hgro h ++ cs) (htop h) (hmt h) (hali h), Ok (seq (length (hgro h)) (length cs))).

Definition top_get (l : loc) : M topcell :=
  fun h => (h, match nth_error (htop h) l with Some c => Ok c | None => Err EKey end).
Definition top_set (l : loc) (c : topcell) : M unit :=
  fun h => match nth_error (htop h) l with
           | Some _ => (mkHeap (hgro h) (upd (htop h) l c) (hmt h) (hali h), Ok tt)
           | None => (h, Err EKey)
           end.
Definition top_mod (l : loc) (f : topcell -> topcell) : M unit :=
  do c <- top_get l; top_set l (f c).
Definition top_alloc_list (cs : list topcell) : M (list loc) :=
  fun h => (mkHeap (hgro h) (htop h ++ cs) (hmt h) (hali h), Ok (seq (length (htop h)) (length cs))).

Definition mt_get (l : loc) : M string :=
  fun h => (h, match nth_error (hmt h) l with Some c => Ok c | None => Err EKey end).
Definition mt_set (l : loc) (c : string) : M unit :=
  fun h => match nth_error (hmt h) l with
           | Some _ => (mkHeap (hgro h) (htop h) (upd (hmt h) l c) (hali h), Ok tt)
           | None => (h, Err EKey)
           end.
Definition mt_alloc (c : string) : M loc :=
  fun h => (mkHeap (hgro h) (htop h) (hmt h ++ [c]) (hali h), Ok (length (hmt h))).

Definition ali_get (l : loc) : M (option mol * option mol) :=
  fun h => (h, match nth_error (hali h) l with Some c => Ok c | None => Err EKey end).
Definition ali_set (l : loc) (c : option mol * option mol) : M unit :=
  fun h => match nth_error (hali h) l with
           | Some _ => (mkHeap (hgro h) (htop h) (hmt h) (upd (hali h) l c), Ok tt)
           | None => (h, Err EKey)
           end.

(* ------------------------------------------------------------------ field setters *)
Definition gset_pos (p : V3 T) (c : grocell) :=
  mkGro (g_resid c) (g_resname c) (g_name c) (g_atomid c) p (g_vel c).
Definition gset_vel (v : option (V3 T)) (c : grocell) :=
  mkGro (g_resid c) (g_resname c) (g_name c) (g_atomid c) (g_pos c) v.
Definition gset_atomid (z : Z) (c : grocell) :=
  mkGro (g_resid c) (g_resname c) (g_name c) z (g_pos c) (g_vel c).
Definition gset_resid (z : Z) (c : grocell) :=
  mkGro z (g_resname c) (g_name c) (g_atomid c) (g_pos c) (g_vel c).
Definition gset_resname (s : string) (c : grocell) :=
  mkGro (g_resid c) s (g_name c) (g_atomid c) (g_pos c) (g_vel c).
Definition gset_name (s : string) (c : grocell) :=
  mkGro (g_resid c) (g_resname c) s (g_atomid c) (g_pos c) (g_vel c).
Definition tset_resid (z : Z) (c : topcell) :=
  mkTop (t_name c) (t_resname c) z (t_index c) (t_bonds c).
Definition tset_resname (s : string) (c : topcell) :=
  mkTop (t_name c) s (t_resid c) (t_index c) (t_bonds c).
Definition tset_name (s : string) (c : topcell) :=
  mkTop s (t_resname c) (t_resid c) (t_index c) (t_bonds c).

(* ------------------------------------------------------------------ geometry (numpy order) *)
(* positions + displacement *)
Definition geo_move (d : V3 T) (ps : list (V3 T)) : list (V3 T) := map (fun p => vadd p d) ps.
(* np.mean(positions, axis=0); an empty array has no centre *)
Definition geo_center (ps : list (V3 T)) : res (V3 T) :=
  match ps with [] => Err EDiv0 | _ => Ok (vmean ps) end.
(* displacement = new_position - geometric_center; move(displacement) *)
Definition geo_move_to (p : V3 T) (ps : list (V3 T)) : res (list (V3 T)) :=
  let* com := geo_center ps in Ok (geo_move (vsub p com) ps).
(* np.dot(positions - com, R^T) + com *)
Definition geo_rotate (R : M3 T) (ps : list (V3 T)) : res (list (V3 T)) :=
  let* com := geo_center ps in
  Ok (map (fun p => vadd (vecm (vsub p com) (mtrans R)) com) ps).

(* ------------------------------------------------------------------ handles *)
Inductive handle :=
| HG (g : loc)                                   (* AtomGro *)
| HR (gs : list loc)                             (* Residue: its list of AtomGro *)
| HA (t g : loc)                                 (* Atom: (AtomTop, AtomGro) pair, a view *)
| HM (mt : loc) (ts : list loc) (rs : list (list loc))   (* Molecule: MoleculeTop (name cell, atoms), residues *)
| HS (insts : list (loc * list loc * list (list grocell)))
| HL (a : loc).                                  (* Alignment object *)
   (* System: per molecule instance in file order, the MoleculeTop of its species and the
      residues as they stand in the coordinate file (re-read at every hand-out);
      Alignment: a cell of the `ali` store holding what its two ends currently refer to *)

(* Atom.__init__: the coordinate atom and the topology atom must agree on resname and name *)
Definition view_check (t g : loc) : M unit :=
  do tc <- top_get t; do gc <- gro_get g;
  if (String.eqb (g_resname gc) (t_resname tc) && String.eqb (g_name gc) (t_name tc))%bool
  then ret tt else fail EIO.

(* AtomGro.residname / Residue.__init__ *)
Definition residname (c : grocell) : string := String.append (string_of_Z (g_resid c)) (g_resname c).
Definition residname_check (cs : list grocell) : M unit :=
  match cs with
  | [] => fail EValue
  | c :: rest =>
      if forallb (fun c' => String.eqb (residname c') (residname c)) rest then ret tt else fail EValue
  end.

(* Residue.copy = Residue(self.atoms): copies of the atoms, then the constructor's test *)
Definition residue_copy (gs : list loc) : M (list loc) :=
  do cs <- mapMM gro_get gs;
  do gs' <- gro_alloc_list cs;
  do _ <- residname_check cs;
  ret gs'.

(* _molecule_top_and_residues_match *)
Definition match_check (ts gs : list loc) : M unit :=
  if negb (Nat.eqb (length ts) (length gs)) then fail EIO
  else iterM (fun tg => view_check (fst tg) (snd tg)) (combine ts gs).

(* Molecule.__init__(molecule_top, residues): match test, then every residue is copied *)
Definition mol_init (mt : loc) (ts : list loc) (rs : list (list loc)) : M handle :=
  do _ <- match_check ts (concat rs);
  do rs' <- mapMM residue_copy rs;
  ret (HM mt ts rs').

(* MoleculeTop.copy *)
Definition mtop_copy (mt : loc) (ts : list loc) : M (loc * list loc) :=
  do nm <- mt_get mt;
  do mt' <- mt_alloc nm;
  do tcs <- mapMM top_get ts;
  do ts' <- top_alloc_list tcs;
  ret (mt', ts').

(* the atoms a setter walks over: a Residue iterates its AtomGro, a Molecule iterates Atom
   views built on the fly (each construction runs view_check) *)
Definition targets (X : handle) : list (option loc * loc) :=
  match X with
  | HR gs => map (fun g => (None, g)) gs
  | HM _ ts rs => combine (map Some ts) (concat rs)
  | _ => []
  end.
Definition visit (tg : option loc * loc) : M unit :=
  match fst tg with Some t => view_check t (snd tg) | None => ret tt end.

Definition get_positions (X : handle) : M (list (V3 T)) :=
  mapMM (fun tg => do c <- gro_get (snd tg); ret (g_pos c)) (targets X).

(* Residue.atoms_positions setter (also reached from Molecule): shape test, then atom by atom *)
Definition set_positions (X : handle) (ps : list (V3 T)) : M unit :=
  if negb (Nat.eqb (length ps) (length (targets X))) then fail EValue
  else iterM (fun tp => do _ <- visit (fst tp); gro_mod (snd (fst tp)) (gset_pos (snd tp)))
             (combine (targets X) ps).
Definition set_velocities (X : handle) (vs : option (list (V3 T))) : M unit :=
  match vs with
  | None => iterM (fun tg => do _ <- visit tg; gro_mod (snd tg) (gset_vel None)) (targets X)
  | Some l =>
      if negb (Nat.eqb (length l) (length (targets X))) then fail EValue
      else iterM (fun tp => do _ <- visit (fst tp); gro_mod (snd (fst tp)) (gset_vel (Some (snd tp))))
                 (combine (targets X) l)
  end.
Definition set_ids (X : handle) (ids : list Z) : M unit :=
  if negb (Nat.eqb (length ids) (length (targets X))) then fail EIndex
  else iterM (fun tp => do _ <- visit (fst tp); gro_mod (snd (fst tp)) (gset_atomid (snd tp)))
             (combine (targets X) ids).

Definition lift {A} (r : res A) : M A := fun h => (h, r).

Definition do_move (X : handle) (d : V3 T) : M unit :=
  do ps <- get_positions X; set_positions X (geo_move d ps).
Definition do_move_to (X : handle) (p : V3 T) : M unit :=
  do ps <- get_positions X; do ps' <- lift (geo_move_to p ps); set_positions X ps'.
Definition do_rotate (X : handle) (R : M3 T) : M unit :=
  do ps <- get_positions X; do ps' <- lift (geo_rotate R ps); set_positions X ps'.

(* Molecule._each_atom_resid *)
Fixpoint each_atom_resid (i : nat) (rs : list (list loc)) : list nat :=
  match rs with
  | [] => []
  | r :: rest => repeat i (length r) ++ each_atom_resid (S i) rest
  end.

(* Molecule.resids setter: atom.top_resid = v; atom.gro_resid = v through the views *)
Definition mol_set_resid_at (tg : option loc * loc) (z : Z) : M unit :=
  do _ <- visit tg;
  do _ <- match fst tg with Some t => top_mod t (tset_resid z) | None => ret tt end;
  gro_mod (snd tg) (gset_resid z).
(* Molecule.resnames setter: atom.resname = v writes the topology atom, then the coordinate atom *)
Definition mol_set_resname_at (tg : option loc * loc) (s : string) : M unit :=
  do _ <- visit tg;
  do _ <- match fst tg with Some t => top_mod t (tset_resname s) | None => ret tt end;
  gro_mod (snd tg) (gset_resname s).

Definition lookup_all {A} (l : list A) (idx : list nat) : res (list A) := mapM (nth_res l) idx.

Inductive op :=
| OCopy | ODeepCopy | OAlign
| OAtoms (k : nat) | OIndex (i : nat) | OIter (i : nat) | OResView (r : nat) | OHandout (i : nat)
| OMove (d : V3 T) | OMoveTo (p : V3 T) | ORotate (R : M3 T)
| OSetPositions (ps : list (V3 T)) | OSetVelocities (vs : option (list (V3 T))) | OSetIds (ids : list Z)
| OSetResidsAll (z : Z) | OSetResids (zs : list Z)
| OSetResnamesAll (s : string) | OSetResnames (ss : list string)
| OSetMolName (s : string)
| OSetPos (p : V3 T) | OSetVel (v : option (V3 T)) | OSetAtomId (z : Z)
| OSetResid (z : Z) | OSetTopResid (z : Z) | OSetResname (s : string) | OSetName (s : string)
(* ali.start = fam[j] (side = true) / ali.end = fam[j] (side = false) / = None; run by `step`, which
   resolves j in the family (see step_ali below) *)
| OAliSet (side : bool) (j : option nat)
(* mol.copy(new_residues) / mol.deep_copy(new_residues) with residues supplied by fam[j]: mode 0 = the
   supplier's own Residue objects (`other.residues`, or `[res]` for a Residue handle), mode 1 = a list of
   Residue copies; for a System handle, the residues of instance i read from the file.  Run by `step`
   (see step_graft below). *)
| OCopyWith (deep : bool) (mode : nat) (j : nat) (i : nat)
(* a setter called with an argument it cannot take (e.g. a list, which has no .shape): raises before
   anything is written; has no clause in `exec`, hence Err EType on every handle *)
| OBadArg.

(* what a handle-producing operation hands back *)
Inductive outkind := NewView | NewCopy | NewDeep.

Definition first5 (s : string) : string := String.substring 0 5 s.

Definition exec (X : handle) (o : op) : M (option (outkind * handle)) :=
  match X, o with
  (* ---- AtomGro *)
  | HG g, OCopy => do c <- gro_get g; do l <- gro_alloc_list [c];
                   match l with [g'] => ret (Some (NewCopy, HG g')) | _ => fail EKey end
  | HG g, OSetPos p => do _ <- gro_mod g (gset_pos p); ret None
  | HG g, OSetVel v => do _ <- gro_mod g (gset_vel v); ret None
  | HG g, OSetAtomId z => do _ <- gro_mod g (gset_atomid z); ret None
  | HG g, OSetResid z => do _ <- gro_mod g (gset_resid z); ret None
  | HG g, OSetResname s => do _ <- gro_mod g (gset_resname s); ret None
  | HG g, OSetName s => do _ <- gro_mod g (gset_name s); ret None
  (* ---- Atom (view) *)
  | HA t g, OCopy => do c <- gro_get g; do l <- gro_alloc_list [c];
                     match l with
                     | [g'] => do _ <- view_check t g'; ret (Some (NewCopy, HA t g'))
                     | _ => fail EKey end
  | HA t g, OSetPos p => do _ <- gro_mod g (gset_pos p); ret None
  | HA t g, OSetVel v => do _ <- gro_mod g (gset_vel v); ret None
  | HA t g, OSetAtomId z => do _ <- gro_mod g (gset_atomid z); ret None
  | HA t g, OSetResid z => do _ <- gro_mod g (gset_resid z); ret None       (* gro_resid *)
  | HA t g, OSetTopResid z => do _ <- top_mod t (tset_resid z); ret None    (* top_resid *)
  | HA t g, OSetResname s => do _ <- top_mod t (tset_resname s); do _ <- gro_mod g (gset_resname s); ret None
  | HA t g, OSetName s => do _ <- top_mod t (tset_name s); do _ <- gro_mod g (gset_name s); ret None
  (* ---- Residue *)
  | HR gs, OCopy => do gs' <- residue_copy gs; ret (Some (NewCopy, HR gs'))
  | HR gs, OAtoms k => do cs <- mapMM gro_get gs; do gs' <- gro_alloc_list cs;
                       do g' <- lift (nth_res gs' k); ret (Some (NewCopy, HG g'))
  | HR gs, OIndex i => do g <- lift (nth_res gs i); ret (Some (NewView, HG g))
  | HR gs, OMove d => do _ <- do_move X d; ret None
  | HR gs, OMoveTo p => do _ <- do_move_to X p; ret None
  | HR gs, ORotate R => do _ <- do_rotate X R; ret None
  | HR gs, OSetPositions ps => do _ <- set_positions X ps; ret None
  | HR gs, OSetVelocities vs => do _ <- set_velocities X vs; ret None
  | HR gs, OSetIds ids => do _ <- set_ids X ids; ret None
  | HR gs, OSetResid z => do _ <- iterM (fun g => gro_mod g (gset_resid z)) gs; ret None
  | HR gs, OSetResname s => do _ <- iterM (fun g => gro_mod g (gset_resname (first5 s))) gs; ret None
  (* ---- Molecule *)
  | HM mt ts rs, OCopy => do Y <- mol_init mt ts rs; ret (Some (NewCopy, Y))
  | HM mt ts rs, OAlign => do Y <- mol_init mt ts rs; ret (Some (NewCopy, Y))
  | HM mt ts rs, ODeepCopy => do mtts <- mtop_copy mt ts;
                              do Y <- mol_init (fst mtts) (snd mtts) rs; ret (Some (NewDeep, Y))
  | HM mt ts rs, OAtoms k =>
      (* [atom.copy() for atom in self] *)
      do _ <- iterM visit (targets X);
      do cs <- mapMM gro_get (concat rs); do gs' <- gro_alloc_list cs;
      do t <- lift (nth_res ts k); do g' <- lift (nth_res gs' k);
      ret (Some (NewCopy, HA t g'))
  | HM mt ts rs, OIndex i =>
      do t <- lift (nth_res ts i); do g <- lift (nth_res (concat rs) i);
      do _ <- view_check t g; ret (Some (NewView, HA t g))
  | HM mt ts rs, OIter i =>
      (* list(mol)[i] *)
      do _ <- iterM visit (targets X);
      do t <- lift (nth_res ts i); do g <- lift (nth_res (concat rs) i);
      ret (Some (NewView, HA t g))
  | HM mt ts rs, OResView r => do gs <- lift (nth_res rs r); ret (Some (NewView, HR gs))
  | HM mt ts rs, OMove d => do _ <- do_move X d; ret None
  | HM mt ts rs, OMoveTo p => do _ <- do_move_to X p; ret None
  | HM mt ts rs, ORotate R => do _ <- do_rotate X R; ret None
  | HM mt ts rs, OSetPositions ps => do _ <- set_positions X ps; ret None
  | HM mt ts rs, OSetVelocities vs => do _ <- set_velocities X vs; ret None
  | HM mt ts rs, OSetIds ids => do _ <- set_ids X ids; ret None
  | HM mt ts rs, OSetResidsAll z =>
      do _ <- iterM (fun tg => mol_set_resid_at tg z) (targets X); ret None
  | HM mt ts rs, OSetResids zs =>
      match zs with
      | [] => fail EIndex
      | _ => if negb (Nat.eqb (length zs) (length rs)) then fail EValue
             else do vals <- lift (lookup_all zs (each_atom_resid 0 rs));
                  do _ <- iterM (fun tz => mol_set_resid_at (fst tz) (snd tz)) (combine (targets X) vals);
                  ret None
      end
  | HM mt ts rs, OSetResnamesAll s =>
      do _ <- iterM (fun tg => mol_set_resname_at tg s) (targets X); ret None
  | HM mt ts rs, OSetResnames ss =>
      match ss with
      | [] => fail EIndex
      | _ => if negb (Nat.eqb (length ss) (length rs)) then fail EValue
             else do vals <- lift (lookup_all ss (each_atom_resid 0 rs));
                  do _ <- iterM (fun tz => mol_set_resname_at (fst tz) (snd tz)) (combine (targets X) vals);
                  ret None
      end
  | HM mt ts rs, OSetMolName s => do _ <- mt_set mt s; ret None
  (* ---- System: sys[i] = different_molecules[k].copy(system_gro[a:b]) *)
  | HS insts, OHandout i =>
      do inst <- lift (nth_res insts i);
      do rs0 <- mapMM (fun cs => do gs <- gro_alloc_list cs; do _ <- residname_check cs; ret gs) (snd inst);
      do Y <- mol_init (fst (fst inst)) (snd (fst inst)) rs0; ret (Some (NewCopy, Y))
  | _, _ => fail EType
  end.

(* ------------------------------------------------------------------ families of handles *)
(* entry = (coordinate group, topology group, handle).  A copy starts a new coordinate group,
   a deep copy also a new topology group, a view stays in the groups of its parent.  The
   groups are ghost labels: nothing in `exec` reads them. *)
Definition family := list (nat * nat * handle).

Definition step_plain (st : heap * family) (ko : nat * op) : (heap * family) * res unit :=
  let '(h, fam) := st in
  match nth_error fam (fst ko) with
  | None => (st, Err EIndex)
  | Some (g, tg, X) =>
      match exec X (snd ko) h with
      | (h', Ok None) => ((h', fam), Ok tt)
      | (h', Ok (Some (kind, Y))) =>
          let n := length fam in
          let e := match kind with
                   | NewView => (g, tg, Y)
                   | NewCopy => (n, tg, Y)
                   | NewDeep => (n, n, Y)
                   end in
          ((h', fam ++ [e]), Ok tt)
      | (h', Err e) => ((h', fam), Err e)
      end
  end.

(* ---- Alignment.start / Alignment.end setters ---- *)
(* Atom.__eq__: resname and name as the coordinate atom has them, index and resid of the topology atom *)
Definition atom_eqb (ga gb : grocell) (ta tb : topcell) : bool :=
  String.eqb (g_resname ga) (g_resname gb) && String.eqb (g_name ga) (g_name gb) &&
  Nat.eqb (t_index ta) (t_index tb) && Z.eqb (t_resid ta) (t_resid tb).
(* for at1, at2 in zip(self, molecule): if at1 != at2: return False   (both iterations build views) *)
Fixpoint eq_loop (la lb : list (loc * loc)) : M bool :=
  match la, lb with
  | (ta, ga) :: ra, (tb, gb) :: rb =>
      do _ <- view_check ta ga; do _ <- view_check tb gb;
      do ca <- gro_get ga; do cb <- gro_get gb; do tca <- top_get ta; do tcb <- top_get tb;
      if atom_eqb ca cb tca tcb then eq_loop ra rb else ret false
  | _, _ => ret true
  end.
(* Molecule.__eq__ (A == B): names, lengths, then atom by atom *)
Definition mol_eq (A B : mol) : M bool :=
  do na <- mt_get (fst (fst A)); do nb <- mt_get (fst (fst B));
  if negb (String.eqb nb na) then ret false
  else if negb (Nat.eqb (length (concat (snd B))) (length (concat (snd A)))) then ret false
  else eq_loop (combine (snd (fst A)) (concat (snd A))) (combine (snd (fst B)) (concat (snd B))).

Definition side_get (side : bool) (c : option mol * option mol) : option mol := if side then fst c else snd c.
Definition side_set (side : bool) (c : option mol * option mol) (v : option mol) : option mol * option mol :=
  if side then (v, snd c) else (fst c, v).

(* ali.start = None *)
Definition ali_clear (a : loc) (side : bool) : M unit :=
  do c <- ali_get a; ali_set a (side_set side c None).
(* ali.start = molecule:  copy when one of the two ends is still None, or when the molecule equals
   the stored one; ValueError otherwise.  What is stored is ALWAYS molecule.copy(). *)
Definition ali_assign (a : loc) (side : bool) (m : mol) : M handle :=
  do c <- ali_get a;
  do ok <- match side_get side c, side_get (negb side) c with
           | Some cur, Some _ => mol_eq m cur
           | _, _ => ret true
           end;
  if ok then
    do Y <- mol_init (fst (fst m)) (snd (fst m)) (snd m);
    do _ <- match Y with
            | HM mt ts rs => ali_set a (side_set side c (Some (mt, ts, rs)))
            | _ => fail EKey
            end;
    ret Y
  else fail EValue.

Definition step_ali (st : heap * family) (k : nat) (side : bool) (oj : option nat) : (heap * family) * res unit :=
  let '(h, fam) := st in
  match nth_error fam k with
  | Some (_, _, HL a) =>
      match oj with
      | None => let '(h', r) := ali_clear a side h in ((h', fam), r)
      | Some j =>
          match nth_error fam j with
          | Some (_, tj, HM mt ts rs) =>
              match ali_assign a side (mt, ts, rs) h with
              | (h', Ok Y) => ((h', fam ++ [(length fam, tj, Y)]), Ok tt)   (* the stored copy: what ali.start now returns *)
              | (h', Err e) => ((h', fam), Err e)
              end
          | Some _ => (st, Err EType)
          | None => (st, Err EIndex)
          end
      end
  | Some _ => (st, Err EType)
  | None => (st, Err EIndex)
  end.

(* ---- Molecule.copy(new_residues) / deep_copy(new_residues) ---- *)
Definition graft_residues (src : handle) (mode i : nat) : M (list (list loc)) :=
  match src with
  | HM _ _ rs => match mode with O => ret rs | _ => mapMM residue_copy rs end
  | HR gs => match mode with O => ret [gs] | _ => mapMM residue_copy [gs] end
  | HS insts =>
      do inst <- lift (nth_res insts i);
      mapMM (fun cs => do gs <- gro_alloc_list cs; do _ <- residname_check cs; ret gs) (snd inst)
  | _ => fail EType
  end.
(* Molecule(self._molecule_top[.copy()], new_residues): the constructor copies every residue it is given *)
Definition graft (deep : bool) (mt : loc) (ts : list loc) (src : handle) (mode i : nat) : M handle :=
  do rs <- graft_residues src mode i;
  if deep then do mtts <- mtop_copy mt ts; mol_init (fst mtts) (snd mtts) rs
  else mol_init mt ts rs.

Definition step_graft (st : heap * family) (k : nat) (deep : bool) (mode j i : nat) : (heap * family) * res unit :=
  let '(h, fam) := st in
  match nth_error fam k with
  | Some (_, tg, HM mt ts _) =>
      match nth_error fam j with
      | Some (_, _, src) =>
          match graft deep mt ts src mode i h with
          | (h', Ok Y) => ((h', fam ++ [(length fam, (if deep then length fam else tg), Y)]), Ok tt)
          | (h', Err e) => ((h', fam), Err e)
          end
      | None => (st, Err EIndex)
      end
  | Some _ => (st, Err EType)
  | None => (st, Err EIndex)
  end.

Definition step (st : heap * family) (ko : nat * op) : (heap * family) * res unit :=
  match snd ko with
  | OAliSet side oj => step_ali st (fst ko) side oj
  | OCopyWith deep mode j i => step_graft st (fst ko) deep mode j i
  | _ => step_plain st ko
  end.

(* a whole run; exceptions are caught by the caller (the state they leave is kept) *)
Fixpoint run (st : heap * family) (ops : list (nat * op)) : heap * family :=
  match ops with
  | [] => st
  | ko :: rest => run (fst (step st ko)) rest
  end.

(* ------------------------------------------------------------------ what the API reads *)
Definition gro_locs (X : handle) : list loc :=
  match X with
  | HG g => [g] | HR gs => gs | HA _ g => [g] | HM _ _ rs => concat rs | HS _ => [] | HL _ => []
  end.
Definition top_locs (X : handle) : list loc :=
  match X with
  | HA t _ => [t] | HM _ ts _ => ts | HS insts => concat (map (fun i => snd (fst i)) insts) | _ => []
  end.
Definition mt_locs (X : handle) : list loc :=
  match X with
  | HM mt _ _ => [mt] | HS insts => map (fun i => fst (fst i)) insts | _ => []
  end.

Definition cells {A} (store : list A) (ls : list loc) : res (list A) := mapM (nth_res store) ls.

(* atoms_positions, atoms_velocities, atoms_ids of a Residue / Molecule (and the single values of an atom) *)
Definition read_positions (h : heap) (X : handle) : res (list (V3 T)) :=
  rmap (map g_pos) (cells (hgro h) (gro_locs X)).
Fixpoint all_some {A} (l : list (option A)) : option (list A) :=
  match l with
  | [] => Some []
  | None :: _ => None
  | Some a :: rest => match all_some rest with Some r => Some (a :: r) | None => None end
  end.
Definition read_velocities (h : heap) (X : handle) : res (option (list (V3 T))) :=
  rmap (fun cs => all_some (map g_vel cs)) (cells (hgro h) (gro_locs X)).
Definition read_ids (h : heap) (X : handle) : res (list Z) :=
  rmap (map g_atomid) (cells (hgro h) (gro_locs X)).
(* Molecule.resids / resnames: [res.resid for res in residues], res.resid = res[0].resid:
   the coordinate atom of the first atom of every residue *)
Definition residues_of (X : handle) : list (list loc) :=
  match X with HM _ _ rs => rs | HR gs => [gs] | HG g => [[g]] | HA _ g => [[g]] | HS _ => [] | HL _ => [] end.
Definition first_cell (h : heap) (r : list loc) : res grocell :=
  match r with [] => Err EIndex | g :: _ => nth_res (hgro h) g end.
Definition read_resids (h : heap) (X : handle) : res (list Z) :=
  rmap (map g_resid) (mapM (first_cell h) (residues_of X)).
Definition read_resnames (h : heap) (X : handle) : res (list string) :=
  rmap (map g_resname) (mapM (first_cell h) (residues_of X)).
(* names and residue labels of the atoms as the coordinate side has them *)
Definition read_gro_labels (h : heap) (X : handle) : res (list (string * string * Z)) :=
  rmap (map (fun c => (g_name c, g_resname c, g_resid c))) (cells (hgro h) (gro_locs X)).
(* topology side: atom names, residue labels and numbers, molecule name *)
Definition read_top (h : heap) (X : handle) : res (list topcell) := cells (htop h) (top_locs X).
Definition read_molname (h : heap) (X : handle) : res (list string) := cells (hmt h) (mt_locs X).

End Objects.

Arguments grocell T : clear implicits.
Arguments heap T : clear implicits.
Arguments handle T : clear implicits.
Arguments op T : clear implicits.
Arguments family T : clear implicits.
Arguments M T : clear implicits.
