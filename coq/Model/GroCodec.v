(* Model of the line-level .gro codec of gaddlemaps/parsers/__init__.py:
   GroFile.validate_string, parse_atomlist, determine_format, parse_atomline,
   _validate_res_atom_numbers, dump_lattice_gro, extract_lattice_gro.
   Definitions only; lemmas in Proofs/GroCodecP.v.

   Floats do not occur: a number to be written is the decimal Python's own formatting
   produces for it ([dec], scaled by the number of decimals of its field), a number read
   is the decimal found in the text ([pdec]).  Error classes: EIO = IOError/OSError,
   EValue = ValueError, EIndex = IndexError, EType = text outside the modelled subset. *)
From Coq Require Import List Ascii NArith ZArith Bool Arith.
From GM Require Import Base.Res Base.StrGro Gen.SrcConsts.
Import ListNotations.


Definition dec3 : Type := dec * dec * dec.

(* an atom record handed to the writer: a 7-tuple, or a 10-tuple when g_vel is Some *)
Record grec := mkgrec {
  g_resnum : Z; g_resname : bytes; g_aname : bytes; g_anum : Z;
  g_pos : dec3;     (* scaled by 10^d     *)
  g_vel : option dec3 (* scaled by 10^(d+1) *)
}.

(* an atom record returned by the reader *)
Record ratom := mkratom {
  a_resnum : Z; a_resname : bytes; a_aname : bytes; a_anum : Z;
  a_vals : list pdec    (* 3 or 6 numbers *)
}.

Definition WRAP : Z := 100000.

Definition validate_string (s : bytes) : bytes :=
  if 5 <? length s then firstn 5 s else s.

Definition fmt3 (w d : nat) (v : dec3) : bytes :=
  let '(x, y, z) := v in fmt_f w d x ++ fmt_f w d y ++ fmt_f w d z.

(* len(atomlist) == 10 *)
Definition has_vel (r : grec) : bool := match g_vel r with Some _ => true | None => false end.

(* GroFile.parse_atomlist(atomlist, format_dict) with format_dict = {position:(w,d), velocities:fv} *)
Definition parse_atomlist (w d : nat) (fv : bool) (r : grec) : res bytes :=
  let velocities := has_vel r in
  if negb (Bool.eqb velocities fv) then Err EIO else
  Ok (lpad 5 (fmt_Z (g_resnum r mod WRAP)) ++
      rpad 5 (validate_string (g_resname r)) ++
      lpad 5 (validate_string (g_aname r)) ++
      lpad 5 (fmt_Z (g_anum r mod WRAP)) ++
      fmt3 w d (g_pos r) ++
      match g_vel r with Some v => fmt3 w (d + 1) v | None => [] end).

(* GroFile.determine_format: (nfigures, velocities) *)
Definition determine_format_body (line : bytes) : res (nat * bool) :=
  let l := drop_final_nl line in
  let size := length l in
  if negb (count_char NL l =? 0) then Err EValue else
  let ndots := count_char "."%char (skipn COORD_START l) in
  let* vel := (if ndots =? 3 then Ok false else if ndots =? 6 then Ok true else Err EIO) in
  let nfig := (size - COORD_START) / ndots in
  if negb (size =? COORD_START + ndots * nfig) then Err EIO else
  Ok (nfig, vel).
Definition determine_format (line : bytes) : res (nat * bool) :=
  match line with
  | [] => Err EIndex                               (* atomline[-1] on '' *)
  | _ => determine_format_body line
  end.

Fixpoint chop_fields (k w : nat) (l : bytes) : list bytes :=
  match k with
  | O => []
  | S k' => let (a, r) := chop w l in a :: chop_fields k' w r
  end.

Definition io_of_value {A} (r : res A) : res A :=
  match r with Err EValue => Err EIO | x => x end.

(* GroFile.parse_atomline(line, format_dict) *)
Definition parse_atomline_body (fmt : nat * bool) (line : bytes) : res ratom :=
  let (w, vel) := fmt in
  let l := drop_final_nl line in
  let expected := 20 + w * 3 * (1 + (if vel then 1 else 0)) in
  if negb (length l =? expected) then Err EIO else
  let (f_res, r1) := chop 5 l in
  let (f_rname, r2) := chop 5 r1 in
  let (f_aname, r3) := chop 5 r2 in
  let (f_anum, r4) := chop 5 r3 in
  let* resnum := io_of_value (py_int f_res) in
  let* anum := io_of_value (py_int f_anum) in
  let* vals := mapM parse_float (chop_fields (if vel then 6 else 3) w r4) in
  Ok (mkratom resnum (strip_py f_rname) (strip_py f_aname) anum vals).
Definition parse_atomline (fmt : nat * bool) (line : bytes) : res ratom :=
  match line with
  | [] => Err EIndex                               (* atomline[-1] on '' *)
  | _ => parse_atomline_body fmt line
  end.

(* ------------------------------------------------------------------ box line *)
(* a box entry: the decimal '{:9.5f}' prints for it, and whether the float is non-zero
   (numpy.any looks at the float, not at its rounded decimal) *)
Record bentry := mkbentry { b_dec : dec; b_nz : bool }.
Definition bzero : bentry := mkbentry (mkdec false 0) false.

Definition BOX_W : nat := 9.
Definition BOX_D : nat := 5.

Fixpoint join_sp (l : list bytes) : bytes :=
  match l with
  | [] => []
  | [x] => x
  | x :: r => x ++ SP :: join_sp r
  end.

(* dump_lattice_gro on the 9 row-major entries of the matrix *)
Definition dump_lattice_gro (box : list bentry) : res bytes :=
  match box with
  | [a0; a1; a2; a3; a4; a5; a6; a7; a8] =>
      let diag := [a0; a4; a8] in
      let off := [a1; a2; a3; a5; a6; a7] in
      let sel := if existsb b_nz off then diag ++ off else diag in
      Ok (join_sp (map (fun e => fmt_f BOX_W BOX_D (b_dec e)) sel))
  | _ => Err EValue
  end.

Definition pzero : pdec := mkpdec false 0 0.

(* extract_lattice_gro: the 9 row-major entries *)
Definition extract_lattice_gro (line : bytes) : res (list pdec) :=
  let* vals := mapM parse_float (firstn 9 (split_ws line)) in
  match vals ++ repeat pzero (9 - length vals) with
  | [p0; p1; p2; p3; p4; p5; p6; p7; p8] => Ok [p0; p3; p4; p5; p1; p6; p7; p8; p2]
  | _ => Err ESystem     (* unreachable: the list has 9 entries *)
  end.
