(* gaddlemaps/_backend.py : _minimize_molecules (the Monte-Carlo loop) and accept_metropolis.

   Two sections.
   * Loop: the bookkeeping of the loop over an ABSTRACT configuration type, an abstract overlap
     measure `chi2 : conf -> T` and an abstract proposal function
     `propose : kind -> proposal draws -> conf -> res conf`.  Everything that is proved about held
     configuration / held measure / best measure / counter therefore holds for every chi2 and every
     proposal generator (in particular for the real Chi2Calculator and move_mol_atom, whatever they do).
   * Proposals: the three proposal kinds of the code on `list (V3 T)`: translation and rotation about
     the centroid are written out; the single-atom move (property C07, Model/Transform.v) stays a
     Section variable.

   Randomness: a stream of tagged draws, consumed in the order the code calls numpy:
     DChoice i   np.random.choice(sim_type)      (i = index of the chosen element)
     DProp p     all draws of one proposal       (translation: normal(0, w, 3); rotation:
                                                  uniform(-1,1,3) and normal(0, pi/4); atom move: its own)
     DRand u     np.random.rand() inside accept_metropolis - drawn ONLY when the proposal is worse.
   A stream that ends, or whose next draw has the wrong tag, gives Err EStop; fuel exhaustion gives
   Err EFuel.  The run returns the trace of the steps it did execute together with its result, so the
   theorems are statements about every step of every (complete or interrupted) run. *)
From Coq Require Import List ZArith.
Import ListNotations.
From GM Require Import Base.Res Base.Scalar Base.Vec Gen.SrcConsts Model.Aux.
Local Open Scope scalar_scope.

Inductive draw (T P : Type) : Type :=
| DChoice (i : nat)
| DProp (p : P)
| DRand (u : T).
Arguments DChoice {T P} i.
Arguments DProp {T P} p.
Arguments DRand {T P} u.
Definition stream (T P : Type) : Type := list (draw T P).

Section Loop.
Context {T : Type} `{Scalar T}.
Variables conf P : Type.
Variable chi2 : conf -> T.
Variable propose : nat -> P -> conf -> res conf.
Variable sim_type : list nat.     (* enabled deformation types *)
Variable n_steps : nat.

(* default value of the keyword argument `acceptance` (read from the live module) *)
Definition acceptance : T := sofQ ACCEPTANCE_NUM ACCEPTANCE_DEN.

(* accept_metropolis(energy_0, energy_1):
     if energy_1 <= energy_0: return True
     factor = energy_0/energy_1
     return np.random.rand() <= acceptance*factor
   Returns (decision, the uniform draw if one was consumed, rest of the stream).
   energy_1 = 0 on the second path (only possible for energy_0 < 0 or nan) is a division by zero. *)
Definition accept_metropolis (e0 e1 : T) (s : stream T P) : res (bool * option T * stream T P) :=
  if e1 <=? e0 then Ok (true, None, s)
  else if e1 =? s0 then Err EDiv0
  else match s with
       | DRand u :: s' => Ok (u <=? acceptance * (e0 / e1), Some u, s')
       | _ => Err EStop
       end.

(* loop-carried state: mol2_positions, chi2, chi2_min, counter *)
Record state := mkState { held : conf; e_held : T; e_min : T; counter : nat }.

(* what one pass through the loop body did *)
Record step_rec := mkStep {
  sr_before : state;
  sr_kind : nat;            (* change = choice(sim_type) *)
  sr_test : conf;           (* test *)
  sr_e1 : T;                (* chi2_new *)
  sr_u : option T;          (* uniform draw consumed by accept_metropolis, if any *)
  sr_acc : bool;            (* accept_metropolis(chi2, chi2_new) *)
  sr_newmin : bool;         (* the `continue` branch: accepted and chi2 < chi2_min *)
  sr_after : state }.

Definition mc_step (st : state) (s : stream T P) : res (step_rec * stream T P) :=
  match s with
  | DChoice i :: DProp p :: s1 =>
      let* kind := nth_res sim_type i in
      let* test := propose kind p (held st) in
      let e1 := chi2 test in
      let* (au, s2) := accept_metropolis (e_held st) e1 s1 in
      let (acc, u) := au in
      let newmin := andb acc (e1 <? e_min st) in
      let st' :=
        if acc then
          if e1 <? e_min st then mkState test e1 e1 0           (* counter = 0; continue *)
          else mkState test e1 (e_min st) (S (counter st))
        else mkState (held st) (e_held st) (e_min st) (S (counter st)) in
      Ok (mkStep st kind test e1 u acc newmin st', s2)
  | _ => Err EStop
  end.

(* while counter < n_steps: ...   ; return mol2_positions *)
Fixpoint mc_loop (fuel : nat) (st : state) (s : stream T P) : list step_rec * res conf :=
  if Nat.leb n_steps (counter st) then ([], Ok (held st))
  else match fuel with
       | O => ([], Err EFuel)
       | S f =>
           match mc_step st s with
           | Err e => ([], Err e)
           | Ok (r, s') => let (tr, out) := mc_loop f (sr_after r) s' in (r :: tr, out)
           end
       end.

Definition init_state (c : conf) : state := let e := chi2 c in mkState c e e 0.

Definition mc_run (fuel : nat) (init : conf) (s : stream T P) : list step_rec * res conf :=
  mc_loop fuel (init_state init) s.

End Loop.

Arguments state T conf : clear implicits.
Arguments step_rec T conf : clear implicits.
Arguments mkState {T conf} _ _ _ _.
Arguments mkStep {T conf} _ _ _ _ _ _ _ _.
Arguments held {T conf} _.
Arguments e_held {T conf} _.
Arguments e_min {T conf} _.
Arguments counter {T conf} _.
Arguments sr_before {T conf} _.
Arguments sr_kind {T conf} _.
Arguments sr_test {T conf} _.
Arguments sr_e1 {T conf} _.
Arguments sr_u {T conf} _.
Arguments sr_acc {T conf} _.
Arguments sr_newmin {T conf} _.
Arguments sr_after {T conf} _.

(* ------------------------------------------------------------------ the proposal kinds *)
Inductive pdraw (T AD : Type) : Type :=
| PTrans (d : V3 T)                    (* desplazamiento = normal(0, displacement_module, 3) *)
| PRot (axis : V3 T) (theta : T)       (* axis = uniform(-1, 1, 3); theta = normal(0, pi/4) *)
| PAtom (a : AD).                      (* whatever move_mol_atom draws *)
Arguments PTrans {T AD} d.
Arguments PRot {T AD} axis theta.
Arguments PAtom {T AD} a.

Section Proposals.
Context {T : Type} `{Scalar T}.
Variable AD : Type.
Variables scos ssin : T -> T.          (* np.cos, np.sin *)
Variable atom_move : AD -> list (V3 T) -> res (list (V3 T)).   (* move_mol_atom(pos, bonds, sigma_scale) *)

(* test = mol2_positions + desplazamiento *)
Definition translate (pos : list (V3 T)) (d : V3 T) : list (V3 T) :=
  map (fun p => vadd p d) pos.

(* _dot(mol2_positions - mol2_com, rot_matrix) + mol2_com *)
Definition rotate_about (pos : list (V3 T)) (com : V3 T) (M : M3 T) : list (V3 T) :=
  map (fun p => vadd (vecm (vsub p com) M) com) pos.

(* _mean(mol2_positions, axis=0): 0/0 for an empty array *)
Definition centroid (pos : list (V3 T)) : res (V3 T) :=
  match pos with [] => Err EDiv0 | _ => Ok (vmean pos) end.

Definition rotate_cs (pos : list (V3 T)) (axis : V3 T) (c s : T) : res (list (V3 T)) :=
  let* com := centroid pos in
  let* M := rotation_matrix_cs axis c s in
  Ok (rotate_about pos com M).

(* the if / elif / elif on `change`; a value outside 0,1,2 leaves `test` unbound in the code *)
Definition propose_geo (kind : nat) (p : pdraw T AD) (pos : list (V3 T)) : res (list (V3 T)) :=
  match kind, p with
  | 0%nat, PTrans d => Ok (translate pos d)
  | 1%nat, PRot axis theta => rotate_cs pos axis (scos theta) (ssin theta)
  | 2%nat, PAtom a => atom_move a pos
  | 0%nat, _ | 1%nat, _ | 2%nat, _ => Err EStop
  | _, _ => Err EValue
  end.

(* _minimize_molecules with the geometric proposals *)
Definition minimize (chi2 : list (V3 T) -> T) (sim_type : list nat) (n_steps fuel : nat)
    (init : list (V3 T)) (s : stream T (pdraw T AD)) :=
  mc_run (list (V3 T)) (pdraw T AD) chi2 propose_geo sim_type n_steps fuel init s.

End Proposals.
