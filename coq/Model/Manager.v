(* gaddlemaps/_manager.py : class Manager - extrapolate_system, complete_correspondence,
   add_end_molecule, calculate_exchange_maps (with Alignment.end setter / init_exchange_map of
   _alignment.py and the `new_mol.resids = refmolecule.resids` step of ExchangeMap.__call__).
   Definitions only; lemmas in Proofs/Manager*.v.

   PART 1 (Section Mgr) is abstract: the per-molecule map is ANY function
       mapmol : M -> I -> res (mapped C)
   (M = an exchange map object, I = what an input molecule carries besides its species and residue
   numbers: coordinates and the random draws its call consumes, C = the coordinate payload of a
   written atom).  extrapolate_system returns the EFFECT TRACE it issues on the coordinate file and
   its own outcome:
       ([], Err ESystem)                                              pre-flight refused: no Open
       (Open f :: SetComment t :: SetBox b :: WriteLine .. ++ [Close], r)
   `with open_coordinate_file(...)`: Close is issued on every exit, also when the loop raised (r = Err e;
   the lines of the molecules before the failing one have been issued).  The writer's reaction to the
   effects (title strip, count back-fill, 5-digit wrap, formats, its own errors) is Model/GroFile.v.

   What the input system is: the list of molecule instances System.__iter__ yields, in file order
   (that it is exactly the molecules of the loaded species is C11), each with its species index
   (position in System.different_molecules = insertion order of Manager.molecule_correspondence),
   and the residue numbers of its residues (Molecule.resids).

   Outside the model: two loaded topologies with the same molecule name (dict key collision in
   Manager.__init__), replacing Alignment.start / exchange_map by hand.

   PART 2 (Section EMInst) instantiates the map with Model/ExchangeMap.v (build / apply), for any Scalar. *)
From Coq Require Import List ZArith Bool Arith.
Import ListNotations.
From GM Require Import Base.Res Base.StrGro Base.Scalar Base.Vec Model.Aux Model.ExchangeMap.

(* ------------------------------------------------------------------ data *)
(* an atom of a mapped molecule (an Atom of the copy of the target): residue name, atom name, payload *)
Record matom (C : Type) := mkMatom { ma_resname : bytes; ma_name : bytes; ma_coords : C }.
Arguments mkMatom {C} _ _ _.
Arguments ma_resname {C} _.
Arguments ma_name {C} _.
Arguments ma_coords {C} _.

(* a mapped molecule: Molecule._residues of the copy of the target, each residue with its atoms *)
Definition mapped (C : Type) : Type := list (list (matom C)).

(* the list handed to GroFile.writeline: [resid, resname, name, atom number, coordinates...] *)
Record line (C : Type) := mkLine {
  l_resid : Z; l_resname : bytes; l_name : bytes; l_anum : Z; l_coords : C }.
Arguments mkLine {C} _ _ _ _ _.
Arguments l_resid {C} _.
Arguments l_resname {C} _.
Arguments l_name {C} _.
Arguments l_anum {C} _.
Arguments l_coords {C} _.

Inductive effect (F B C : Type) : Type :=
| Open (f : F)                 (* open_coordinate_file(fgro_out, 'w') *)
| SetComment (c : bytes)       (* fgro.comment = ...  *)
| SetBox (b : B)               (* fgro.box_matrix = ... *)
| WriteLine (r : line C)       (* fgro.writeline(line) *)
| Close.                       (* __exit__ -> close() *)
Arguments Open {F B C} _.
Arguments SetComment {F B C} _.
Arguments SetBox {F B C} _.
Arguments WriteLine {F B C} _.
Arguments Close {F B C}.

(* one Alignment object: start (always set by Manager.__init__; kept as a flag for generality),
   end, exchange_map *)
Record spstate (E M : Type) := mkSp { sp_start : bool; sp_end : option E; sp_map : option M }.
Arguments mkSp {E M} _ _ _.
Arguments sp_start {E M} _.
Arguments sp_end {E M} _.
Arguments sp_map {E M} _.

(* one molecule of the input system *)
Record minst (I : Type) := mkInst { in_species : nat; in_resids : list Z; in_body : I }.
Arguments mkInst {I} _ _ _.
Arguments in_species {I} _.
Arguments in_resids {I} _.
Arguments in_body {I} _.

Definition is_some {A} (o : option A) : bool := match o with Some _ => true | None => false end.

Fixpoint update {A} (l : list A) (n : nat) (x : A) : list A :=
  match l, n with
  | [], _ => []
  | _ :: t, O => x :: t
  | y :: t, S k => y :: update t k x
  end.

(* `new_mol.resids = refmolecule.resids` (Molecule.resids setter with a list of int):
   new_resids[0] on an empty list: IndexError; other number of residues: ValueError;
   otherwise residue k of the mapped molecule carries new_resids[k] *)
Definition set_resids {C} (m : mapped C) (resids : list Z) : res (list (Z * list (matom C))) :=
  match resids with
  | [] => Err EIndex
  | _ => if length resids =? length m then Ok (combine resids m) else Err EValue
  end.

(* `for atom in new_mol` : residues in order, atoms in order, each with gro_resid *)
Definition flatten_res {C} (rm : list (Z * list (matom C))) : list (Z * matom C) :=
  flat_map (fun p => map (fun a => (fst p, a)) (snd p)) rm.

(* line = atom.gro_line(); line[3] = atom_index; atom_index += 1 *)
Fixpoint number {C} (atoms : list (Z * matom C)) (idx : Z) : list (line C) * Z :=
  match atoms with
  | [] => ([], idx)
  | (rid, a) :: t =>
      let (ls, idx') := number t (idx + 1)%Z in
      (mkLine rid (ma_resname a) (ma_name a) idx (ma_coords a) :: ls, idx')
  end.

Section Mgr.
  Context {E M I C F B A : Type}.
  Variable eeq : E -> E -> bool.                (* Molecule.__eq__ between two end molecules *)
  Variable buildmap : nat -> E -> A -> res M.   (* ExchangeMap(start of species i, end, ...) *)
  Variable mapmol : M -> I -> res (mapped C).   (* exchange_map(mol) before the resids are set *)

  Notation sp := (spstate E M).
  Notation eff := (effect F B C).

  (* complete_correspondence: (ali.end is not None) and (ali.start is not None) *)
  Definition is_complete (st : sp) : bool := is_some (sp_end st) && sp_start st.

  (* the two checks before the output is opened *)
  Definition preflight (sps : list sp) : res unit :=
    match filter is_complete sps with
    | [] => Err ESystem                                   (* not complete_correspondence *)
    | cc => if forallb (fun st => is_some (sp_map st)) cc then Ok tt
            else Err ESystem                              (* some align.exchange_map is None *)
    end.

  (* one turn of `for mol in self.system`:
     None            name not in complete_correspondence: continue
     Some (Err e)    the call of the map (or the resids setter inside it) raised
     Some (Ok l)     the atoms of new_mol with their residue numbers *)
  Definition mol_atoms (sps : list sp) (m : minst I) : option (res (list (Z * matom C))) :=
    match nth_error sps (in_species m) with
    | None => None
    | Some st =>
        if is_complete st then
          Some (match sp_map st with
                | None => Err EType                       (* None(mol); excluded by the pre-flight *)
                | Some mp =>
                    let* mm := mapmol mp (in_body m) in
                    let* rm := set_resids mm (in_resids m) in
                    Ok (flatten_res rm)
                end)
        else None
    end.

  (* the loop with its running counter atom_index; returns the lines written and how it ended *)
  Fixpoint go (sps : list sp) (mols : list (minst I)) (idx : Z) : list (line C) * res unit :=
    match mols with
    | [] => ([], Ok tt)
    | m :: rest =>
        match mol_atoms sps m with
        | None => go sps rest idx
        | Some (Err e) => ([], Err e)
        | Some (Ok atoms) =>
            let (ls, idx') := number atoms idx in
            let (tr, r) := go sps rest idx' in
            (ls ++ tr, r)
        end
    end.

  (* Manager.extrapolate_system(fgro_out); title = system_gro.comment_line (the raw first line of the
     input, newline included), box = system_gro.box_matrix *)
  Definition extrapolate (f : F) (title : bytes) (box : B) (sps : list sp) (mols : list (minst I))
    : list eff * res unit :=
    match preflight sps with
    | Err e => ([], Err e)
    | Ok _ =>
        let (ls, r) := go sps mols 1%Z in
        (Open f :: SetComment title :: SetBox box :: map WriteLine ls ++ [Close], r)
    end.

  (* Manager.add_end_molecule(molecule) for a Molecule whose name is that of species i
     (i out of range = a name the system does not have: KeyError);
     Alignment.end setter: first assignment copies; a later one must be == the current end.
     The attribute route `manager.molecule_correspondence[name].end = molecule` (what the command line does) is the
     same setter: the state, and with it the pre-flight and the trace, depend on the CURRENT attachments only -
     complete_correspondence is recomputed at every use *)
  Definition add_end (sps : list sp) (i : nat) (e : E) : res (list sp) :=
    match nth_error sps i with
    | None => Err EKey
    | Some st =>
        match sp_start st, sp_end st with
        | true, Some old =>
            if eeq e old then Ok (update sps i (mkSp true (Some e) (sp_map st))) else Err EValue
        | s, _ => Ok (update sps i (mkSp s (Some e) (sp_map st)))
        end
    end.

  (* manager.molecule_correspondence[name].end = None : the end molecule is detached, the map object stays *)
  Definition remove_end (sps : list sp) (i : nat) : res (list sp) :=
    match nth_error sps i with
    | None => Err EKey
    | Some st => Ok (update sps i (mkSp (sp_start st) None (sp_map st)))
    end.

  (* Manager.calculate_exchange_maps(...): every complete species, in dict order, gets a new map;
     an exception leaves the earlier species updated *)
  Fixpoint calc_from (i : nat) (sps : list sp) (a : A) : list sp * res unit :=
    match sps with
    | [] => ([], Ok tt)
    | st :: rest =>
        if is_complete st then
          match sp_end st with
          | Some e =>
              match buildmap i e a with
              | Ok m =>
                  let (rest', r) := calc_from (S i) rest a in
                  (mkSp (sp_start st) (sp_end st) (Some m) :: rest', r)
              | Err er => (st :: rest, Err er)
              end
          | None => (st :: rest, Err EValue)              (* unreachable: complete *)
          end
        else
          let (rest', r) := calc_from (S i) rest a in (st :: rest', r)
    end.
  Definition calc (sps : list sp) (a : A) : list sp * res unit := calc_from 0 sps a.

  (* a session on one Manager *)
  Inductive op :=
  | OAddEnd (i : nat) (e : E)            (* add_end_molecule(s), or molecule_correspondence[name].end = molecule *)
  | ORemoveEnd (i : nat)                 (* molecule_correspondence[name].end = None *)
  | OCalc (a : A)
  | OExtrap (f : F) (mols : list (minst I)).   (* the instances with the draws of THIS call *)

  Inductive outcome :=
  | ORes (r : res unit)
  | OTrace (t : list eff) (r : res unit).

  Fixpoint run (title : bytes) (box : B) (sps : list sp) (ops : list op) : list outcome * list sp :=
    match ops with
    | [] => ([], sps)
    | o :: rest =>
        match o with
        | OAddEnd i e =>
            match add_end sps i e with
            | Ok sps' => let (os, fin) := run title box sps' rest in (ORes (Ok tt) :: os, fin)
            | Err er => let (os, fin) := run title box sps rest in (ORes (Err er) :: os, fin)
            end
        | ORemoveEnd i =>
            match remove_end sps i with
            | Ok sps' => let (os, fin) := run title box sps' rest in (ORes (Ok tt) :: os, fin)
            | Err er => let (os, fin) := run title box sps rest in (ORes (Err er) :: os, fin)
            end
        | OCalc a =>
            let (sps', r) := calc sps a in
            let (os, fin) := run title box sps' rest in (ORes r :: os, fin)
        | OExtrap f mols =>
            let (t, r) := extrapolate f title box sps mols in
            let (os, fin) := run title box sps rest in (OTrace t r :: os, fin)
        end
    end.

  (* Manager(system): one Alignment(start = mol) per loaded species *)
  Definition init (nspecies : nat) : list sp := repeat (mkSp true None None) nspecies.
End Mgr.

Arguments op : clear implicits.
Arguments outcome : clear implicits.

(* ------------------------------------------------------------------ the ExchangeMap instance *)
Section EMInst.
  Context {T : Type} `{Scalar T}.

  (* what the target atom keeps through the map: names and velocity (AtomGro.copy()) *)
  Record tatom := mkTatom { ta_resname : bytes; ta_name : bytes; ta_vel : option (V3 T) }.

  (* an end molecule: its residues (atom labels) and the positions of all atoms, flat *)
  Record endmol := mkEnd { e_res : list (list tatom); e_pos : list (V3 T) }.

  (* an ExchangeMap object: the geometric map, the bond graph of its species, the labels of
     _targetmolecule (the end molecule it was built from) *)
  Record emobj := mkEmObj { eo_map : emap T; eo_graph : graph; eo_tgt : list (list tatom) }.

  (* an input molecule: positions, and the values np.random.rand returns during its call *)
  Record ibody := mkBody { b_pos : list (V3 T); b_draws : list (V3 T) }.

  Definition cpay : Type := (V3 T * option (V3 T))%type.

  (* the positions of the copy of the target, residue by residue *)
  Fixpoint regroup (shape : list (list tatom)) (out : list (V3 T)) : res (mapped cpay) :=
    match shape with
    | [] => match out with [] => Ok [] | _ => Err EIndex end
    | r :: rest =>
        if length out <? length r then Err EIndex else
        let* tl := regroup rest (skipn (length r) out) in
        Ok (map (fun ap => mkMatom (ta_resname (fst ap)) (ta_name (fst ap)) (snd ap, ta_vel (fst ap)))
                (combine r (firstn (length r) out)) :: tl)
    end.

  Definition em_mapmol (mo : emobj) (b : ibody) : res (mapped cpay) :=
    let* out := apply (eo_map mo) (eo_graph mo) (b_pos b) (b_draws b) in
    regroup (eo_tgt mo) out.

  (* starts: per species the bond graph and the positions of Alignment.start;
     argument of one calculate_exchange_maps call: the scale factor and, per species, the draws *)
  Definition em_build (starts : list (graph * list (V3 T))) (i : nat) (e : endmol)
             (a : T * list (list (V3 T))) : res emobj :=
    let* gs := nth_res starts i in
    let* dr := nth_res (snd a) i in
    let* m := build (fst gs) (snd gs) (e_pos e) (fst a) dr in
    Ok (mkEmObj m (fst gs) (e_res e)).

  (* Molecule.__eq__ between two molecules of the same name: same atoms (resname, name) in the same
     order (index = position; top_resid: see docs/design_notes/C05.md) *)
  Definition em_eeq (beq : bytes -> bytes -> bool) (a b : endmol) : bool :=
    let lab e := map (fun t => (ta_resname t, ta_name t)) (concat (e_res e)) in
    (length (lab a) =? length (lab b)) &&
    forallb (fun p => beq (fst (fst p)) (fst (snd p)) && beq (snd (fst p)) (snd (snd p)))
            (combine (lab a) (lab b)).
End EMInst.
Arguments tatom T : clear implicits.
Arguments endmol T : clear implicits.
Arguments emobj T : clear implicits.
Arguments ibody T : clear implicits.
Arguments cpay T : clear implicits.
