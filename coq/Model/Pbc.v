(* gaddlemaps/components/_residue.py : Residue.geometric_center, Residue.distance_to.
   Statement-by-statement transcription (row-vector convention, `vect.dot(M)` = vecm).

     def distance_to(self, residue, box_vects=None, inv=False):
         if isinstance(residue, Residue):
             residue = residue.geometric_center
         vect = residue - self.geometric_center
         if box_vects is not None:
             if inv:
                 inv_vects = box_vects
                 box_vects = np.linalg.inv(inv_vects)
             else:
                 inv_vects = np.linalg.inv(box_vects)
             vect = vect.dot(inv_vects)
             vect -= np.round(vect)
             vect = vect.dot(box_vects)
         return np.linalg.norm(vect)

   np.linalg.inv is LAPACK (LU); here the inverse is adjugate/determinant (equal over the
   reals, equal within rounding in binary64); a singular matrix raises LinAlgError in numpy
   and is Err EDiv0 here (determinant = 0).  np.round is round-half-even = sround. *)
From Coq Require Import List ZArith.
Import ListNotations.
From GM Require Import Base.Res Base.Scalar Base.Vec.
Local Open Scope scalar_scope.

Section Pbc.
Context {T : Type} `{Scalar T}.

(* adjugate (transposed cofactor matrix) *)
Definition madj (m : M3 T) : M3 T :=
  let a := vx (r0 m) in let b := vy (r0 m) in let c := vz (r0 m) in
  let d := vx (r1 m) in let e := vy (r1 m) in let f := vz (r1 m) in
  let g := vx (r2 m) in let h := vy (r2 m) in let i := vz (r2 m) in
  mkM (mk3 (e * i - f * h) (c * h - b * i) (b * f - c * e))
      (mk3 (f * g - d * i) (a * i - c * g) (c * d - a * f))
      (mk3 (d * h - e * g) (b * g - a * h) (a * e - b * d)).

(* np.linalg.inv for 3x3 *)
Definition minv (m : M3 T) : res (M3 T) :=
  let dt := mdet m in
  if dt =? s0 then Err EDiv0
  else let aj := madj m in
       Ok (mkM (vdivs (r0 aj) dt) (vdivs (r1 aj) dt) (vdivs (r2 aj) dt)).

(* np.round on a 3-vector *)
Definition vround (v : V3 T) : V3 T := mk3 (sround (vx v)) (sround (vy v)) (sround (vz v)).

(* fractional coordinates of the separation *)
Definition pbc_frac (v : V3 T) (inv_vects : M3 T) : V3 T := vecm v inv_vects.

(* the three statements inside `if box_vects is not None` *)
Definition pbc_wrap (v : V3 T) (box_vects inv_vects : M3 T) : V3 T :=
  let vect := pbc_frac v inv_vects in
  let vect := vsub vect (vround vect) in
  vecm vect box_vects.

(* the pair (inv_vects, box_vects) selected by the `inv` flag *)
Definition pbc_matrices (bv : M3 T) (inv : bool) : res (M3 T * M3 T) :=
  if inv then (let* b := minv bv in Ok (bv, b))
  else (let* i := minv bv in Ok (i, bv)).

Definition pbc_dist (v : V3 T) (box : option (M3 T)) (inv : bool) : res T :=
  match box with
  | None => Ok (vnorm v)
  | Some bv =>
      let* (inv_vects, box_vects) := pbc_matrices bv inv in
      Ok (vnorm (pbc_wrap v box_vects inv_vects))
  end.

(* Residue.geometric_center = np.mean(atoms_positions, axis=0); a Residue cannot be
   built from an empty atom list (ValueError in Residue.__init__) *)
Definition geometric_center (atoms : list (V3 T)) : res (V3 T) :=
  match atoms with
  | [] => Err EValue
  | _ => Ok (vmean atoms)
  end.

(* the second argument: a Residue or a bare point *)
Inductive target := TResidue (atoms : list (V3 T)) | TPoint (p : V3 T).

Definition target_center (o : target) : res (V3 T) :=
  match o with
  | TResidue atoms => geometric_center atoms
  | TPoint p => Ok p
  end.

Definition distance_to (self : list (V3 T)) (other : target)
           (box : option (M3 T)) (inv : bool) : res T :=
  let* residue := target_center other in
  let* c := geometric_center self in
  let vect := vsub residue c in
  pbc_dist vect box inv.

(* margin of the rounding decisions: the smallest distance of a fractional coordinate
   from a half-integer, | |f - round f| - 1/2 |  (0 = exact tie between two images) *)
Definition sabs (x : T) : T := if x <? s0 then - x else x.
Definition half_margin1 (x : T) : T := sabs (sabs (x - sround x) - sofQ 1 2).
Definition smin (x y : T) : T := if x <=? y then x else y.
Definition distance_to_margin (self : list (V3 T)) (other : target)
           (bv : M3 T) (inv : bool) : res T :=
  let* residue := target_center other in
  let* c := geometric_center self in
  let* (inv_vects, box_vects) := pbc_matrices bv inv in
  let f := pbc_frac (vsub residue c) inv_vects in
  Ok (smin (half_margin1 (vx f)) (smin (half_margin1 (vy f)) (half_margin1 (vz f)))).

(* helpers for the statements *)
Definition mdiag (lx ly lz : T) : M3 T :=
  mkM (mk3 lx s0 s0) (mk3 s0 ly s0) (mk3 s0 s0 lz).
Definition zvec (n : Z * Z * Z) : V3 T :=
  let '(a, b, c) := n in mk3 (sofZ a) (sofZ b) (sofZ c).
(* the lattice vector n1*b1 + n2*b2 + n3*b3 (rows of the box are the box vectors) *)
Definition lattice (n : Z * Z * Z) (box : M3 T) : V3 T := vecm (zvec n) box.
Definition target_shift (o : target) (w : V3 T) : target :=
  match o with
  | TResidue atoms => TResidue (map (fun p => vadd p w) atoms)
  | TPoint p => TPoint (vadd p w)
  end.

End Pbc.
Arguments target T : clear implicits.
