(* gaddlemaps/_transform_molecule.py : move_mol_atom, find_atom_random_displ.
   Statement-by-statement transcription, polymorphic over Scalar.

   positions  : list (V3 T)                       (rows of atoms_pos)
   bond table : list (option (list (nat * T)))    (the dict bonds_info: entry i = None when the key i
                                                   is absent, else the list of (neighbour, length))
   wait_queue : list nat  (deque(range(n)); `.remove(x)` deletes the first occurrence, ValueError if absent)
   queue      : list of (ind1, ind2, bond), head = right end of the deque (append / pop are LIFO)

   Ghost outputs (they never influence control flow): the loop also returns the final wait list and
   the list of popped entries in pop order (the "traversal tree"); move_mol_atom forgets them. *)
From Coq Require Import List ZArith.
Import ListNotations.
From GM Require Import Base.Res Base.Scalar Base.Vec.
Local Open Scope scalar_scope.

Fixpoint set_nth {A : Type} (l : list A) (i : nat) (v : A) : list A :=
  match l, i with
  | [], _ => []
  | _ :: xs, O => v :: xs
  | x :: xs, S j => x :: set_nth xs j v
  end.

(* `x in wait_queue` *)
Definition wmem (x : nat) (w : list nat) : bool := existsb (Nat.eqb x) w.
(* the effect of `wait_queue.remove(x)` when x is present (first occurrence) *)
Fixpoint remove1 (x : nat) (w : list nat) : list nat :=
  match w with
  | [] => []
  | y :: ys => if Nat.eqb x y then ys else y :: remove1 x ys
  end.
(* `wait_queue.remove(x)` : ValueError when absent *)
Definition wremove (x : nat) (w : list nat) : res (list nat) :=
  if wmem x w then Ok (remove1 x w) else Err EValue.

Section Transform.
Context {T : Type} `{Scalar T}.

Definition bond_table := list (option (list (nat * T))).
Definition edge := (nat * nat * T)%type.       (* (ind1, ind2, bond) *)
Definition e_parent (e : edge) : nat := fst (fst e).
Definition e_child (e : edge) : nat := snd (fst e).
Definition e_len (e : edge) : T := snd e.

(* bonds_info[i] : KeyError when the key is absent *)
Definition tbl_get (tb : bond_table) (i : nat) : res (list (nat * T)) :=
  match nth_error tb i with
  | Some (Some l) => Ok l
  | _ => Err EKey
  end.

(* for i in bonds_info[atom_index]: queue.append((atom_index, i[0], i[1])); wait_queue.remove(i[0]) *)
Fixpoint push_init (k : nat) (nb : list (nat * T)) (wait : list nat) (st : list edge)
  : res (list nat * list edge) :=
  match nb with
  | [] => Ok (wait, st)
  | (j, b) :: rest =>
      let* wait' := wremove j wait in
      push_init k rest wait' ((k, j, b) :: st)
  end.

(* for bonds in bonds_info[ind2]: if bonds[0] in wait_queue: queue.append(..); wait_queue.remove(bonds[0]) *)
Fixpoint push_wait (par : nat) (nb : list (nat * T)) (wait : list nat) (st : list edge)
  : list nat * list edge :=
  match nb with
  | [] => (wait, st)
  | (j, b) :: rest =>
      if wmem j wait then push_wait par rest (remove1 j wait) ((par, j, b) :: st)
      else push_wait par rest wait st
  end.

(* one repositioning:  dif = pos[ind1]-pos[ind2]; mod = |dif|; unit = dif/mod;
   pos[ind2] + (mod - bond)*unit.   mod = 0 is nan in numpy, Err EDiv0 here. *)
Definition pull (p1 p2 : V3 T) (bond : T) : res (V3 T) :=
  let diferencia := vsub p1 p2 in
  let modulo := vnorm diferencia in
  if modulo =? s0 then Err EDiv0 else
  let unit := vdivs diferencia modulo in
  Ok (vadd p2 (vscale (modulo - bond) unit)).

(* while queue: ...   one unit of fuel per pop *)
Fixpoint move_loop (tb : bond_table) (fuel : nat) (pos : list (V3 T)) (wait : list nat) (st : list edge)
  : res (list (V3 T) * list nat * list edge) :=
  match st with
  | [] => Ok (pos, wait, [])
  | (ind1, ind2, bond) :: st =>
      match fuel with
      | O => Err EFuel
      | S fuel =>
          let* p1 := nth_res pos ind1 in
          let* p2 := nth_res pos ind2 in
          let* p2' := pull p1 p2 bond in
          let pos := set_nth pos ind2 p2' in
          let* nb := tbl_get tb ind2 in
          let (wait, st) := push_wait ind2 nb wait st in
          let* r := move_loop tb fuel pos wait st in
          let '(out, wf, tr) := r in
          Ok (out, wf, (ind1, ind2, bond) :: tr)
      end
  end.

(* move_mol_atom(atoms_pos, bonds_info, atom_index, displ) with ghost outputs *)
Definition move_mol_atom_tr (pos : list (V3 T)) (tb : bond_table) (k : nat) (d : V3 T) (fuel : nat)
  : res (list (V3 T) * list nat * list edge) :=
  let n_atoms := length pos in
  let wait := seq 0 n_atoms in
  let* pk := nth_res pos k in                       (* atoms_pos[atom_index] += displ : IndexError *)
  let pos := set_nth pos k (vadd pk d) in
  let* wait := wremove k wait in
  let* nb := tbl_get tb k in
  let* ws := push_init k nb wait [] in
  move_loop tb fuel pos (fst ws) (snd ws).

Definition move_mol_atom_fuel (pos : list (V3 T)) (tb : bond_table) (k : nat) (d : V3 T) (fuel : nat)
  : res (list (V3 T)) :=
  rmap (fun r => fst (fst r)) (move_mol_atom_tr pos tb k d fuel).

(* every push removes one atom from the wait list, so at most n-1 pops: fuel n suffices
   (Proofs/TransformR.v : move_fuel_suffices) *)
Definition move_mol_atom (pos : list (V3 T)) (tb : bond_table) (k : nat) (d : V3 T) : res (list (V3 T)) :=
  move_mol_atom_fuel pos tb k d (length pos).

(* the traversal tree of a run *)
Definition move_traversal (pos : list (V3 T)) (tb : bond_table) (k : nat) (d : V3 T) : res (list edge) :=
  rmap snd (move_mol_atom_tr pos tb k d (length pos)).

(* ---------------------------------------------------------------- find_atom_random_displ
   recorded draws: u = np.random.rand(3) (branches 1, 2), neg = (np.random.choice([-1,1]) == -1) (branch >= 3),
   g = the value returned by np.random.normal(0, sigma).  np.random.normal raises ValueError for sigma < 0. *)
Definition displ_sigma (tb : bond_table) (k : nat) (sigma_scale : T) : res T :=
  let* nb := tbl_get tb k in
  let* first := nth_res nb 0 in                      (* bonds_info[k][0] : IndexError *)
  Ok (snd first * sigma_scale).

Definition displ_direction (pos : list (V3 T)) (tb : bond_table) (k : nat) (u : V3 T) (neg : bool)
  : res (V3 T) :=
  let* nb := tbl_get tb k in
  match nb with
  | [] => Err EIndex
  | [(j0, _)] =>
      let* p0 := nth_res pos j0 in
      let* pk := nth_res pos k in
      Ok (vcross u (vsub p0 pk))
  | [(j0, _); (j1, _)] =>
      let* p0 := nth_res pos j0 in
      let* p1 := nth_res pos j1 in
      Ok (vcross u (vsub p0 p1))
  | (j0, _) :: (j1, _) :: (j2, _) :: _ =>
      let* p0 := nth_res pos j0 in
      let* p2 := nth_res pos j2 in
      let* p1 := nth_res pos j1 in
      let direction := vcross (vsub p0 p2) (vsub p0 p1) in
      Ok (vscaler direction (if neg then - s1 else s1))
  end.

Definition find_atom_random_displ (pos : list (V3 T)) (tb : bond_table) (k : nat) (sigma_scale : T)
  (u : V3 T) (neg : bool) (g : T) : res (V3 T) :=
  let* sigma := displ_sigma tb k sigma_scale in
  let* direction := displ_direction pos tb k u neg in
  let nrm := vnorm direction in
  (* a zero norm only produces nan (no exception), so the ValueError of normal(0, sigma<0) comes first *)
  if sigma <? s0 then Err EValue else
  if nrm =? s0 then Err EDiv0 else
  let direction := vdivs direction nrm in
  Ok (vscaler direction g).

(* move_mol_atom(atoms_pos, bonds_info, atom_index, sigma_scale=s) with displ=None: the displacement is drawn by
   find_atom_random_displ on the (copied) input positions, then the move proceeds as for a given displacement *)
Definition move_mol_atom_default (pos : list (V3 T)) (tb : bond_table) (k : nat) (sigma_scale : T)
  (u : V3 T) (neg : bool) (g : T) : res (list (V3 T)) :=
  let* displ := find_atom_random_displ pos tb k sigma_scale u neg g in
  move_mol_atom pos tb k displ.

End Transform.
Arguments bond_table T : clear implicits.
Arguments edge T : clear implicits.
