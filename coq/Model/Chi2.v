(* gaddlemaps/_backend.py : class Chi2Calculator  (the overlap measure chi2).
   Statement-by-statement transcription, polymorphic over Scalar.

   Python                                              here
   ------                                              ----
   Chi2Calculator(mol1, mol2, restrictions)            chi2_make fixed mobile0 restr : res chi2_calc
   calc(mol2')                                         chi2_call c mobile : res T
   restrictions (array (n,2) of atom indices)          list (nat * nat)   (indices are naturals: numpy's
                                                       wrap-around of NEGATIVE indices is outside the model)
   mask[restriction1] = False / mol2[restriction2]     Err EIndex when an index is out of range (IndexError)
   distances.min(axis=1) with no mobile atom           Err EValue (ValueError: zero-size reduction)
   cdist(A, B, 'sqeuclidean')[i][j]                    vdist2 A_i B_j = dx*dx + dy*dy + dz*dz
   np.sum((A - B)**2)                                  ssum of the vdist2 of the rows (numpy's pairwise order
                                                       differs from this left fold only by rounding)
   distances.min(axis=1), distances.argmin(axis=1)     row_min : strict `<` update = FIRST index of the minimum
   set(restriction2), set.union(argmins), len(...)     length (distinct ...)
   1.1 ** n                                            spow_Z (11/10) n  (n a Python int, may be negative only
                                                       when the call-time molecule is shorter than the cached length)
   No proofs in this file. *)
From Coq Require Import List ZArith Bool.
Import ListNotations.
From GM Require Import Base.Res Base.Scalar Base.Vec.
Local Open Scope scalar_scope.

(* ---- index helpers (no scalars involved) ---- *)
Definition mem_nat (x : nat) (l : list nat) : bool := existsb (Nat.eqb x) l.

(* the distinct elements of a list of indices: len(set(l)) = length (distinct l) *)
Fixpoint distinct (l : list nat) : list nat :=
  match l with
  | [] => []
  | x :: xs => if mem_nat x xs then distinct xs else x :: distinct xs
  end.

(* l[idx] for an index array: duplicates are kept, order of idx *)
Definition gather {A} (l : list A) (idx : list nat) : res (list A) := mapM (nth_res l) idx.

(* l[mask] for a boolean mask of the same length *)
Fixpoint select {A} (mask : list bool) (l : list A) : list A :=
  match mask, l with
  | b :: ms, x :: xs => if b then x :: select ms xs else select ms xs
  | _, _ => []
  end.

(* mask = np.ones(n, bool); mask[r1] = False *)
Definition not_restr_mask (n : nat) (r1 : list nat) : res (list bool) :=
  if forallb (fun i => Nat.ltb i n) r1
  then Ok (map (fun i => negb (mem_nat i r1)) (seq 0 n))
  else Err EIndex.

Definition map2 {A B C} (f : A -> B -> C) (l1 : list A) (l2 : list B) : list C :=
  map (fun p => f (fst p) (snd p)) (combine l1 l2).

Section Chi2.
Context {T : Type} `{Scalar T}.

Definition eleven_tenths : T := sofQ 11 10.

Fixpoint spow_nat (x : T) (n : nat) : T :=
  match n with O => s1 | S n => spow_nat x n * x end.

(* x ** k for a Python int k *)
Definition spow_Z (x : T) (k : Z) : T :=
  match k with
  | Z0 => s1
  | Zpos p => spow_nat x (Pos.to_nat p)
  | Zneg p => s1 / spow_nat x (Pos.to_nat p)
  end.

(* running (minimum, index of its FIRST occurrence) over the rest of a row *)
Fixpoint argmin_from (m : T) (im : nat) (j : nat) (l : list T) : T * nat :=
  match l with
  | [] => (m, im)
  | x :: xs => if x <? m then argmin_from x j (S j) xs else argmin_from m im (S j) xs
  end.

(* (row.min(), row.argmin()) *)
Definition row_min (l : list T) : res (T * nat) :=
  match l with
  | [] => Err EValue
  | x :: xs => Ok (argmin_from x 0 1 xs)
  end.

(* cdist(A, B, 'sqeuclidean') *)
Definition dist_rows (A B : list (V3 T)) : list (list T) :=
  map (fun a => map (vdist2 a) B) A.

(* (distances.min(axis=1), distances.argmin(axis=1)); a zero-length reduction axis raises *)
Definition row_mins (rows : list (list T)) (ncols : nat) : res (list (T * nat)) :=
  match ncols with
  | O => Err EValue
  | S _ => mapM row_min rows
  end.

Inductive chi2_path := PathNone | PathOnly | PathWith.

Record chi2_calc := mkCalc {
  c_path : chi2_path;            (* _meth_to_call *)
  c_mol1 : list (V3 T);          (* _mol1_positions *)
  c_restr2 : list nat;           (* restriction2 *)
  c_set2 : list nat;             (* set_restriction2 *)
  c_len2 : nat;                  (* len_mol2 (construction-time length) *)
  c_notr : list (V3 T);          (* _mol1_not_restriction *)
  c_mol1_r : list (V3 T);        (* _mol1_restriction = mol1[restriction1], duplicates kept *)
  c_kfar : Z;                    (* ghost: the exponent whose power is cached in c_fact *)
  c_fact : T                     (* n_cg_far_fact (path PathOnly only) *)
}.

(* __init__.  For an empty restraint list Python sets no attribute but _mol1_positions; here the
   other fields get the values the general formulas would give them (mask all True, no gathered
   atom): nothing on path PathNone reads them. *)
Definition chi2_make (fixed mobile0 : list (V3 T)) (restr : list (nat * nat)) : res chi2_calc :=
  let r1 := map fst restr in
  let r2 := map snd restr in
  let set2 := distinct r2 in
  let len2 := length mobile0 in
  let* mask := not_restr_mask (length fixed) r1 in
  let notr := select mask fixed in
  let* m1r := gather fixed r1 in
  match restr with
  | [] => Ok (mkCalc PathNone fixed r2 set2 len2 notr m1r 0%Z s1)
  | _ :: _ =>
    if existsb (fun b => b) mask
    then Ok (mkCalc PathWith fixed r2 set2 len2 notr m1r 0%Z s1)
    else let k := (Z.of_nat len2 - Z.of_nat (length set2))%Z in
         Ok (mkCalc PathOnly fixed r2 set2 len2 notr m1r k (spow_Z eleven_tenths k))
  end.

(* _chi2_molecules_restrains_contrib *)
Definition restr_contrib (c : chi2_calc) (mobile : list (V3 T)) : res T :=
  let* m2r := gather mobile (c_restr2 c) in
  Ok (ssum (map2 vdist2 (c_mol1_r c) m2r)).

(* `if n_cg_far: chi2 *= 1.1**n_cg_far` *)
Definition penal (chi2 : T) (n_far : Z) : T :=
  if Z.eqb n_far 0 then chi2 else chi2 * spow_Z eleven_tenths n_far.

(* the three methods; each also returns the exponent it used (for the correspondence check) *)
Definition chi2_none_k (c : chi2_calc) (mobile : list (V3 T)) : res (T * Z) :=
  let* mins := row_mins (dist_rows (c_mol1 c) mobile) (length mobile) in
  let chi2 := ssum (map fst mins) in
  let n_far := (Z.of_nat (length mobile) - Z.of_nat (length (distinct (map snd mins))))%Z in
  Ok (penal chi2 n_far, n_far).

Definition chi2_only_k (c : chi2_calc) (mobile : list (V3 T)) : res (T * Z) :=
  let* chi2 := restr_contrib c mobile in
  Ok (chi2 * c_fact c, c_kfar c).

Definition chi2_with_k (c : chi2_calc) (mobile : list (V3 T)) : res (T * Z) :=
  let* chi2 := restr_contrib c mobile in
  let* mins := row_mins (dist_rows (c_notr c) mobile) (length mobile) in
  let chi2 := chi2 + ssum (map fst mins) in
  let n_far := (Z.of_nat (c_len2 c) - Z.of_nat (length (distinct (c_set2 c ++ map snd mins))))%Z in
  Ok (penal chi2 n_far, n_far).

Definition chi2_none c mobile := rmap fst (chi2_none_k c mobile).
Definition chi2_only c mobile := rmap fst (chi2_only_k c mobile).
Definition chi2_with c mobile := rmap fst (chi2_with_k c mobile).

(* __call__ *)
Definition chi2_call_k (c : chi2_calc) (mobile : list (V3 T)) : res (T * Z) :=
  match c_path c with
  | PathNone => chi2_none_k c mobile
  | PathOnly => chi2_only_k c mobile
  | PathWith => chi2_with_k c mobile
  end.
Definition chi2_call (c : chi2_calc) (mobile : list (V3 T)) : res T := rmap fst (chi2_call_k c mobile).

(* Chi2Calculator(fixed, mobile0, restr)(mobile) *)
Definition chi2_eval (fixed mobile0 : list (V3 T)) (restr : list (nat * nat)) (mobile : list (V3 T)) : res T :=
  let* c := chi2_make fixed mobile0 restr in chi2_call c mobile.

(* ------------------------------------------------------------------------------------------
   Reference definition: the sentence of property C08 as one definition, written without any
   of the functions above (no mask, no gather, no running minimum, no set arithmetic):

     the sum of squared distances over restrained pairs, plus for each unrestrained atom of the
     fixed molecule the squared distance to its nearest mobile atom, all multiplied by 1.1^k with
     k the number of mobile atoms that are neither restrained nor nearest to any unrestrained
     fixed atom.

   "nearest" = an atom whose squared distance is <= that of every mobile atom; among several
   equally near atoms the one with the smallest label counts (the convention of the code). *)
Definition is_nearest (a : V3 T) (mobile : list (V3 T)) (b : V3 T) : bool :=
  forallb (fun b' => vdist2 a b <=? vdist2 a b') mobile.

Fixpoint first_nearest_from (a : V3 T) (mobile rest : list (V3 T)) (j : nat) : res (T * nat) :=
  match rest with
  | [] => Err EValue
  | b :: bs => if is_nearest a mobile b then Ok (vdist2 a b, j)
               else first_nearest_from a mobile bs (S j)
  end.

(* (squared distance to, label of) the nearest mobile atom *)
Definition nearest (a : V3 T) (mobile : list (V3 T)) : res (T * nat) :=
  first_nearest_from a mobile mobile 0.

Definition chi2_spec (fixed mobile : list (V3 T)) (restr : list (nat * nat)) : res T :=
  let* pairs := mapM (fun ij => let* a := nth_res fixed (fst ij) in
                                let* b := nth_res mobile (snd ij) in
                                Ok (vdist2 a b)) restr in
  let unrestrained := filter (fun i => negb (mem_nat i (map fst restr))) (seq 0 (length fixed)) in
  let* near := mapM (fun i => let* a := nth_res fixed i in nearest a mobile) unrestrained in
  let lonely := filter (fun j => negb (mem_nat j (map snd restr)) && negb (mem_nat j (map snd near)))
                       (seq 0 (length mobile)) in
  Ok ((ssum pairs + ssum (map fst near)) * spow_nat eleven_tenths (length lonely)).

End Chi2.
Arguments chi2_calc T : clear implicits.
