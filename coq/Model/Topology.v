(* Model of gaddlemaps/parsers/_top_parsers.py (ItpParser / read_topology),
   MoleculeTop / AtomTop (components/_components_top.py) and are_connected (components/__init__.py).
   No proofs here. *)
From Coq Require Import List Ascii String ZArith NArith Bool.
From GM Require Import Base.Res Base.StrItp Model.Itp.
Import ListNotations.

(* ---------------------------------------------------------------- read_topology *)
Definition atom_info := (str * str * Z)%type.       (* (name, resname, resid) *)

(* _itp_top_name *)
Definition top_name (f : itpfile) : res str :=
  match get_sec s_moleculetype (f_secs f) with
  | None => Err EKey
  | Some ps =>
      match sec_items ps with
      | p :: _ => match p_fields p with FMol n _ => Ok n | _ => Err EType end
      | [] => Err EIO
      end
  end.

(* atoms_number[number] = index : later duplicates overwrite, so look up the LAST occurrence *)
Fixpoint lookup_last (nr : Z) (l : list (Z * nat)) : option nat :=
  match l with
  | [] => None
  | (k, v) :: r => match lookup_last nr r with
                   | Some v' => Some v'
                   | None => if Z.eqb k nr then Some v else None
                   end
  end.

Definition atom_of (p : pline) : res atomf :=
  match p_fields p with FAtom a => Ok a | _ => Err EType end.
Definition bond_of (p : pline) : res (Z * Z) :=
  match p_fields p with FBond ai aj _ => Ok (ai, aj) | _ => Err EType end.

(* _parse_itp_bonds: fixed key order constraints, bonds, pairs *)
Definition sec_bonds (f : itpfile) (key : str) : res (list (Z * Z)) :=
  match get_sec key (f_secs f) with
  | None => Ok []
  | Some ps => mapM bond_of (sec_items ps)
  end.

Definition top_bonds_raw (f : itpfile) : res (list (Z * Z)) :=
  let* c := sec_bonds f s_constraints in
  let* b := sec_bonds f s_bonds in
  let* p := sec_bonds f s_pairs in
  Ok (c ++ b ++ p).

Definition translate (nums : list (Z * nat)) (b : Z * Z) : res (nat * nat) :=
  match lookup_last (fst b) nums with
  | None => Err EKey
  | Some i => match lookup_last (snd b) nums with
              | None => Err EKey
              | Some j => Ok (i, j)
              end
  end.

(* _itp_top_atoms *)
Definition top_atoms (f : itpfile) : res (list atom_info * list (nat * nat)) :=
  match get_sec s_atoms (f_secs f) with
  | None => Err EKey
  | Some ps =>
      let* afs := mapM atom_of (sec_items ps) in
      let atoms := map (fun a => (a_name a, a_resname a, a_resid a)) afs in
      let nums := combine (map a_nr afs) (seq 0 (List.length afs)) in
      match atoms with
      | [] => Err EIO
      | _ =>
          let* raw := top_bonds_raw f in
          let* bonds := mapM (translate nums) raw in
          Ok (atoms, bonds)
      end
  end.

Definition topology := (str * list atom_info * list (nat * nat))%type.

(* ItpParser.__init__ + all_info *)
Definition parser_of_file (f : itpfile) : res topology :=
  if negb (has_key s_moleculetype (f_secs f)) then Err EIO
  else if negb (has_key s_atoms (f_secs f)) then Err EIO
  else
    let* n := top_name f in
    let* ab := top_atoms f in
    Ok (n, fst ab, snd ab).

Definition read_topology (text : str) : res topology :=
  let* f := itp_read text in parser_of_file f.

(* ---------------------------------------------------------------- MoleculeTop *)
(* bonds of an atom: a Python set of ints, modelled as a strictly increasing list *)
Fixpoint set_add (x : nat) (s : list nat) : list nat :=
  match s with
  | [] => [x]
  | y :: r => if Nat.ltb x y then x :: s else if Nat.eqb x y then s else y :: set_add x r
  end.

Record atomtop := { at_name : str; at_resname : str; at_resid : Z; at_index : nat; at_bonds : list nat }.

Fixpoint upd {A} (l : list A) (n : nat) (f : A -> A) : list A :=
  match l, n with
  | [], _ => []
  | x :: r, O => f x :: r
  | x :: r, S n' => x :: upd r n' f
  end.

Definition add_bond (j : nat) (a : atomtop) : atomtop :=
  {| at_name := at_name a; at_resname := at_resname a; at_resid := at_resid a; at_index := at_index a;
     at_bonds := set_add j (at_bonds a) |}.

(* self.atoms[b0].connect(self.atoms[b1]): IndexError for a position outside the list *)
Definition connect (atoms : list atomtop) (b : nat * nat) : res (list atomtop) :=
  let* a0 := nth_res atoms (fst b) in
  let* a1 := nth_res atoms (snd b) in
  let atoms1 := upd atoms (fst b) (add_bond (at_index a1)) in
  Ok (upd atoms1 (snd b) (add_bond (at_index a0))).

Fixpoint connect_all (atoms : list atomtop) (bs : list (nat * nat)) : res (list atomtop) :=
  match bs with
  | [] => Ok atoms
  | b :: r => let* atoms' := connect atoms b in connect_all atoms' r
  end.

Fixpoint mk_atoms (infos : list atom_info) (i : nat) : list atomtop :=
  match infos with
  | [] => []
  | (n, rn, rid) :: r =>
      {| at_name := n; at_resname := rn; at_resid := rid; at_index := i; at_bonds := [] |} :: mk_atoms r (S i)
  end.

Definition molecule_top (t : topology) : res (str * list atomtop) :=
  let '(name, infos, bonds) := t in
  let* atoms := connect_all (mk_atoms infos 0) bonds in
  Ok (name, atoms).

Definition load_molecule (text : str) : res (str * list atomtop) :=
  let* t := read_topology text in molecule_top t.

(* ---------------------------------------------------------------- are_connected *)
(* adjacency: adj[i] = the bonds of atoms[i] in ANY iteration order (the theorems hold for every order) *)
Definition memn (x : nat) (l : list nat) : bool := existsb (Nat.eqb x) l.

(* _find_connected_atoms: `stack` has its top at the head; `connected` is kept reversed
   (only membership and length are observed) *)
Fixpoint walk (fuel : nat) (adj : list (list nat)) (stack connected : list nat) : res (list nat) :=
  match fuel with
  | O => Err EFuel
  | S f =>
      match stack with
      | [] => Ok connected
      | cur :: st =>
          if memn cur connected then walk f adj st connected
          else
            let connected' := cur :: connected in
            let* bs := nth_res adj cur in
            walk f adj (rev_append (filter (fun j => negb (memn j connected')) bs) st) connected'
      end
  end.

Definition walk_fuel (adj : list (list nat)) : nat := S (S (List.length (List.concat adj))).

Definition are_connected (adj : list (list nat)) : res bool :=
  let* c := walk (walk_fuel adj) adj [0] [] in
  Ok (Nat.eqb (List.length c) (List.length adj)).

Definition adj_of (atoms : list atomtop) : list (list nat) := map at_bonds atoms.
