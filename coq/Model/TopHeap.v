(* A small heap model of Python object identity for MoleculeTop.copy / AtomTop.copy
   (gaddlemaps/components/_components_top.py).  Definitions only; the lemmas are in
   Proofs/TopHeapProofs.v.

   A location is a position in the heap (a list of cells); allocation appends, so a location
   is never reused (there is no garbage collection in the model: unreachable cells stay).
   str / int values are immutable in Python, so they are stored by value inside the cells;
   every MUTABLE object reachable from a MoleculeTop gets a cell of its own:
   the MoleculeTop instance (CMol), its `atoms` list (CList), every AtomTop instance (CAtom)
   and every `bonds` set (CSet).  An attribute that holds a mutable object holds its location.

   Simplifications (none changes which cells are reachable from the result):
   * allocation order: the children are allocated before the parent, whereas CPython allocates
     the instance first (`__new__`) and then rebinds its attributes;
   * `AtomTop(...)` inside `AtomTop.copy` first binds `bonds` to a fresh EMPTY set which is
     dropped at once by `atom.bonds = self.bonds.copy()`; that garbage set is not allocated;
   * `__eq__` evaluates the attribute loads of all conjuncts eagerly (`and` short-circuits in
     Python, but loading an attribute of a well-typed instance cannot fail);
     `all(...)` over the zipped atoms does short-circuit here as in Python. *)
From Coq Require Import List Ascii ZArith NArith Bool.
From GM Require Import Base.Res Base.StrItp Model.Itp Model.Topology.
Import ListNotations.

Definition loc := nat.

(* attribute -> value; `bonds` is a reference to a set object *)
Record atomobj := { o_name : str; o_resname : str; o_resid : Z; o_index : nat; o_bonds : loc }.

Inductive cell :=
| CAtom (a : atomobj)
| CSet (s : list nat)                      (* any list: set semantics is given by set_eqb below *)
| CList (l : list loc)
| CMol (ftop name : str) (atoms : loc).

Definition heap := list cell.

Definition alloc (h : heap) (c : cell) : loc * heap := (List.length h, h ++ [c]).

(* a dangling location is an error, never a default value *)
Definition load (h : heap) (l : loc) : res cell := nth_res h l.

(* overwrite position l; unchanged if l is out of range *)
Fixpoint store (h : heap) (l : loc) (c : cell) : heap :=
  match h, l with
  | [], _ => []
  | _ :: r, O => c :: r
  | x :: r, S l' => x :: store r l' c
  end.

(* arbitrary overwrites, applied in order: subsumes every mutation a client can perform
   through an object (rebinding an attribute, bonds.add, atoms.append, ...) *)
Definition stores (ws : list (loc * cell)) (h : heap) : heap :=
  fold_left (fun h' w => store h' (fst w) (snd w)) ws h.

(* typed loads: TypeError-like Err EType when the cell has the wrong constructor *)
Definition load_atom (h : heap) (l : loc) : res atomobj :=
  let* c := load h l in match c with CAtom a => Ok a | _ => Err EType end.
Definition load_set (h : heap) (l : loc) : res (list nat) :=
  let* c := load h l in match c with CSet s => Ok s | _ => Err EType end.
Definition load_list (h : heap) (l : loc) : res (list loc) :=
  let* c := load h l in match c with CList ls => Ok ls | _ => Err EType end.
Definition load_mol (h : heap) (l : loc) : res (str * str * loc) :=
  let* c := load h l in match c with CMol f n a => Ok (f, n, a) | _ => Err EType end.

(* ---------------------------------------------------------------- construction *)
(* AtomTop.__init__ followed by the connect calls: a set object and the instance *)
Definition build_atom (a : atomtop) (h : heap) : loc * heap :=
  let (s, h1) := alloc h (CSet (at_bonds a)) in
  alloc h1 (CAtom {| o_name := at_name a; o_resname := at_resname a; o_resid := at_resid a;
                     o_index := at_index a; o_bonds := s |}).

Fixpoint build_atoms (atoms : list atomtop) (h : heap) : list loc * heap :=
  match atoms with
  | [] => ([], h)
  | a :: r =>
      let (l, h1) := build_atom a h in
      let (ls, h2) := build_atoms r h1 in
      (l :: ls, h2)
  end.

(* MoleculeTop.__init__: the object graph of the pure value (ftop, name, atoms) *)
Definition build_mol (ftop name : str) (atoms : list atomtop) (h : heap) : loc * heap :=
  let (ls, h1) := build_atoms atoms h in
  let (lst, h2) := alloc h1 (CList ls) in
  alloc h2 (CMol ftop name lst).

(* ---------------------------------------------------------------- copy *)
(* AtomTop.copy: new instance, same immutable attribute values, bonds = self.bonds.copy() *)
Definition atom_copy (h : heap) (l : loc) : res (loc * heap) :=
  let* a := load_atom h l in
  let* s := load_set h (o_bonds a) in
  let (s', h1) := alloc h (CSet s) in
  Ok (alloc h1 (CAtom {| o_name := o_name a; o_resname := o_resname a; o_resid := o_resid a;
                         o_index := o_index a; o_bonds := s' |})).

(* [atom.copy() for atom in self] *)
Fixpoint atoms_copy (h : heap) (ls : list loc) : res (list loc * heap) :=
  match ls with
  | [] => Ok ([], h)
  | l :: r =>
      let* p := atom_copy h l in
      let* q := atoms_copy (snd p) r in
      Ok (fst p :: fst q, snd q)
  end.

(* MoleculeTop.copy *)
Definition mol_copy (h : heap) (m : loc) : res (loc * heap) :=
  let* fna := load_mol h m in
  let* ls := load_list h (snd fna) in
  let* p := atoms_copy h ls in
  let (lst', h2) := alloc (snd p) (CList (fst p)) in
  Ok (alloc h2 (CMol (fst (fst fna)) (snd (fst fna)) lst')).

(* ---------------------------------------------------------------- deep value *)
Definition view_atom (h : heap) (l : loc) : res atomtop :=
  let* a := load_atom h l in
  let* s := load_set h (o_bonds a) in
  Ok {| at_name := o_name a; at_resname := o_resname a; at_resid := o_resid a;
        at_index := o_index a; at_bonds := s |}.

(* (ftop, name, atoms with their bonds sets read through the references) *)
Definition view (h : heap) (m : loc) : res (str * str * list atomtop) :=
  let* fna := load_mol h m in
  let* ls := load_list h (snd fna) in
  let* ats := mapM (view_atom h) ls in
  Ok (fst (fst fna), snd (fst fna), ats).

(* ---------------------------------------------------------------- __eq__ *)
(* set equality as mutual inclusion (the stored lists need not be canonical, since a client
   may write any list into a CSet cell) *)
Definition incl_b (s1 s2 : list nat) : bool := forallb (fun x => memn x s2) s1.
Definition set_eqb (s1 s2 : list nat) : bool := incl_b s1 s2 && incl_b s2 s1.

(* AtomTop.__eq__(self = l1, atom = l2): False when l2 is not an AtomTop;
   index, resname, name, bonds are compared, resid is NOT *)
Definition atom_eq (h : heap) (l1 l2 : loc) : res bool :=
  let* a1 := load_atom h l1 in
  let* c2 := load h l2 in
  match c2 with
  | CAtom a2 =>
      let* s1 := load_set h (o_bonds a1) in
      let* s2 := load_set h (o_bonds a2) in
      Ok (Nat.eqb (o_index a1) (o_index a2) && str_eqb (o_resname a1) (o_resname a2)
          && str_eqb (o_name a1) (o_name a2) && set_eqb s1 s2)
  | _ => Ok false
  end.

(* all(at1 == at2 for at1, at2 in zip(self, element)): stops at the first False *)
Fixpoint atoms_eq (h : heap) (ls1 ls2 : list loc) : res bool :=
  match ls1, ls2 with
  | l1 :: r1, l2 :: r2 =>
      let* b := atom_eq h l1 l2 in
      if b then atoms_eq h r1 r2 else Ok false
  | _, _ => Ok true
  end.

(* MoleculeTop.__eq__(self = m1, element = m2): False when m2 is not a MoleculeTop;
   ftop is not compared *)
Definition mol_eq (h : heap) (m1 m2 : loc) : res bool :=
  let* fna1 := load_mol h m1 in
  let* c2 := load h m2 in
  match c2 with
  | CMol _ n2 a2 =>
      if str_eqb n2 (snd (fst fna1)) then
        let* ls1 := load_list h (snd fna1) in
        let* ls2 := load_list h a2 in
        if Nat.eqb (List.length ls1) (List.length ls2) then atoms_eq h ls1 ls2 else Ok false
      else Ok false
  | _ => Ok false
  end.

(* ---------------------------------------------------------------- reachable cells *)
Definition atom_fp (h : heap) (l : loc) : res (list loc) :=
  let* a := load_atom h l in
  let* _ := load_set h (o_bonds a) in
  Ok [l; o_bonds a].

(* the CMol cell, its CList cell, every CAtom cell and every CSet cell *)
Definition footprint (h : heap) (m : loc) : res (list loc) :=
  let* fna := load_mol h m in
  let* ls := load_list h (snd fna) in
  let* fps := mapM (atom_fp h) ls in
  Ok (m :: snd fna :: List.concat fps).
