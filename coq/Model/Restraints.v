(* Restraint handling of gaddlemaps/_alignment.py (Alignment.align_molecules up to the call of
   minimize_molecules, remove_hydrogens, guess_protein_restrains, guess_residue_restrains,
   _split_list), AtomGro.element (components/_residue.py) and the option routing of
   gaddlemaps/_manager.py (Manager.align_molecules, parse_restrictions, _validate_index,
   _parse_deformations, _parse_ignore_hydrogens, complete_correspondence).

   Pure list / integer / string logic.  Positions are opaque values of an arbitrary type P
   ("the position of that atom at the moment the optimiser is called"): nothing here computes
   with coordinates.  Restraint indices are Python ints, hence Z (negative indices exist).
   No proofs in this file. *)
From Coq Require Import List ZArith String Ascii Bool Arith.
From GM Require Import Base.Res.
Import ListNotations.

(* ------------------------------------------------------------------ AtomGro.element *)
(* re.findall('([A-Za-z]+)', name)[0] : the first maximal run of ASCII letters;
   IOError when the name contains no letter *)
Definition is_alpha (c : ascii) : bool :=
  let n := nat_of_ascii c in
  ((65 <=? n) && (n <=? 90)) || ((97 <=? n) && (n <=? 122)).

Fixpoint take_alpha (s : string) : string :=
  match s with
  | EmptyString => EmptyString
  | String c t => if is_alpha c then String c (take_alpha t) else EmptyString
  end.

Fixpoint element (s : string) : res string :=
  match s with
  | EmptyString => Err EIO
  | String c t => if is_alpha c then Ok (String c (take_alpha t)) else element t
  end.

(* atom.element != 'H' *)
Definition not_hydrogen (name : string) : res bool :=
  let* e := element name in Ok (negb (String.eqb e "H"%string)).

(* ------------------------------------------------------------------ generic helpers *)
Fixpoint list_eqb {A} (eqb : A -> A -> bool) (a b : list A) : bool :=
  match a, b with
  | [], [] => true
  | x :: xs, y :: ys => eqb x y && list_eqb eqb xs ys
  | _, _ => false
  end.

(* dictionary with arbitrary keys as an association list; first match wins (keys are unique
   in a Python dict: the theorems assume NoDup where it matters) *)
Fixpoint lookup_by {K A} (eqb : K -> K -> bool) (k : K) (l : list (K * A)) : option A :=
  match l with
  | [] => None
  | (k', v) :: t => if eqb k k' then Some v else lookup_by eqb k t
  end.

Fixpoint filter_map {A B} (f : A -> option B) (l : list A) : list B :=
  match l with
  | [] => []
  | x :: t => match f x with Some y => y :: filter_map f t | None => filter_map f t end
  end.

(* alist[a:b] for 0 <= a <= b *)
Definition slice {A} (l : list A) (a b : nat) : list A := firstn (b - a) (skipn a l).

(* ------------------------------------------------------------------ _split_list *)
(* [alist[i*L//parts : (i+1)*L//parts] for i in range(parts)]; parts = 0 gives [] in Python
   (empty range, the division is never evaluated), and here. *)
Definition split_list {A} (l : list A) (parts : nat) : list (list A) :=
  match parts with
  | 0 => []
  | S p => let L := List.length l in
           map (fun i => slice l (i * L / S p) ((i + 1) * L / S p)) (seq 0 (S p))
  end.

(* ------------------------------------------------------------------ guess_residue_restrains *)
Definition guess_residue_restrains (n1 n2 o1 o2 : nat) : list (nat * nat) :=
  let n_parts := Nat.min n1 n2 in
  let groups1 := split_list (seq 0 n1) n_parts in
  let groups2 := split_list (seq 0 n2) n_parts in
  flat_map (fun g : list nat * list nat =>
              flat_map (fun i => map (fun j => (i + o1, j + o2)) (snd g)) (fst g))
           (combine groups1 groups2).

(* the loop of guess_protein_restrains over zip(mol1.residues, mol2.residues), on residue lengths *)
Fixpoint protein_pairs (sizes : list (nat * nat)) (o1 o2 : nat) : list (nat * nat) :=
  match sizes with
  | [] => []
  | (n1, n2) :: t => guess_residue_restrains n1 n2 o1 o2 ++ protein_pairs t (o1 + n1) (o2 + n2)
  end.

(* Python `a in b` for str *)
Fixpoint is_substr (a b : string) {struct b} : bool :=
  if prefix a b then true
  else match b with EmptyString => false | String _ t => is_substr a t end.

Definition similar_names (p : string * string) : bool :=
  is_substr (fst p) (snd p) || is_substr (snd p) (fst p).

(* ------------------------------------------------------------------ molecules *)
Section Pos.
Context {P : Type}.

Record atom := mkAtom { a_name : string; a_pos : P }.
Record residue := mkRes { r_name : string; r_atoms : list atom }.
(* m_conn: are_connected(molecule.atoms), an input here (property C15 is about it) *)
Record molecule := mkMol { m_res : list residue; m_conn : bool }.

Definition m_atoms (m : molecule) : list atom := flat_map r_atoms (m_res m).
Definition m_len (m : molecule) : nat := List.length (m_atoms m).
Definition m_resnames (m : molecule) : list string := map r_name (m_res m).
Definition m_sizes (m : molecule) : list nat := map (fun r => List.length (r_atoms r)) (m_res m).

Definition guess_protein_restrains (m1 m2 : molecule) : res (list (nat * nat)) :=
  let rn1 := m_resnames m1 in
  let rn2 := m_resnames m2 in
  if negb (List.length rn1 =? List.length rn2) then Err EIO
  else if negb (list_eqb String.eqb rn1 rn2) && negb (forallb similar_names (combine rn1 rn2))
  then Err EIO
  else Ok (protein_pairs (combine (m_sizes m1) (m_sizes m2)) 0 0).

(* ------------------------------------------------------------------ remove_hydrogens *)
(* the first loop: `index` = enumerate counter, `npos` = len(positions) before the append;
   returns positions and index_1map (old index -> new index) as an association list *)
Fixpoint rh_scan (atoms : list atom) (index npos : nat) : res (list P * list (nat * nat)) :=
  match atoms with
  | [] => Ok ([], [])
  | a :: t =>
      let* keep := not_hydrogen (a_name a) in
      if keep then
        let* r := rh_scan t (S index) (S npos) in
        Ok (a_pos a :: fst r, (index, npos) :: snd r)
      else rh_scan t (S index) npos
  end.

(* `index_1 in index_1map` / `index_1map[index_1]` for a Python int key *)
Definition lookup_index (i : Z) (mp : list (nat * nat)) : option nat :=
  if (i <? 0)%Z then None else lookup_by Nat.eqb (Z.to_nat i) mp.

Definition remove_hydrogens (atoms : list atom) (restr : list (Z * Z))
  : res (list P * list (Z * Z)) :=
  let* r := rh_scan atoms 0 0 in
  Ok (fst r,
      filter_map (fun p : Z * Z =>
                    match lookup_index (fst p) (snd r) with
                    | Some k => Some (Z.of_nat k, snd p)
                    | None => None
                    end) restr).

(* ------------------------------------------------------------------ Alignment.align_molecules *)
Record call := mkCall {
  c_fixed_is_start : bool;        (* molecules[0] is self.start *)
  c_fixed_pos : list P;           (* mol1_positions *)
  c_mobile_pos : list P;          (* mol2_positions *)
  c_restr : list (Z * Z);         (* restrictions as received by minimize_molecules *)
  c_deform : list Z               (* deformation_types *)
}.
Inductive outcome := NoCall | Call (c : call).

Definition zpair (p : nat * nat) : Z * Z := (Z.of_nat (fst p), Z.of_nat (snd p)).
Definition swap_pair (p : Z * Z) : Z * Z := (snd p, fst p).      (* i[::-1] *)

(* `if restrictions is None: ...` *)
Definition effective_restrictions (start end_ : molecule) (restr : option (list (Z * Z)))
  (auto_guess : bool) : res (list (Z * Z)) :=
  match restr with
  | Some r => Ok r
  | None =>
      if (1 <? List.length (m_resnames start)) && auto_guess then
        match guess_protein_restrains start end_ with
        | Ok r => Ok (map zpair r)
        | Err _ => Err EIO
        end
      else Ok []
  end.

Definition default_deformations (start end_ : molecule) (deform : option (list Z)) : list Z :=
  match deform with
  | Some d => d
  | None => if (m_len start =? 1) || (m_len end_ =? 1) then [0%Z] else [0%Z; 1%Z; 2%Z]
  end.

Definition align_args (start end_ : molecule) (restr : option (list (Z * Z)))
  (deform : option (list Z)) (ignore_hydrogens auto_guess : bool) : res outcome :=
  let* restr1 := effective_restrictions start end_ restr auto_guess in
  let deform1 := default_deformations start end_ deform in
  let swap := m_len start <? m_len end_ in
  let fixed := if swap then end_ else start in
  let mobile := if swap then start else end_ in
  let restr2 := if swap then map swap_pair restr1 else restr1 in
  if m_len end_ =? 1 then Ok NoCall
  else if negb (m_conn mobile) then Err EIO
  else
    let* fr := if ignore_hydrogens then remove_hydrogens (m_atoms fixed) restr2
               else Ok (map a_pos (m_atoms fixed), restr2) in
    Ok (Call (mkCall (negb swap) (fst fr) (map a_pos (m_atoms mobile)) (snd fr) deform1)).

End Pos.
Arguments atom : clear implicits.
Arguments residue : clear implicits.
Arguments molecule : clear implicits.
Arguments call : clear implicits.
Arguments outcome : clear implicits.

(* ------------------------------------------------------------------ Manager *)
(* one entry of molecule_correspondence: species name, len(start), len(end) if an end molecule was added *)
Record species := mkSpecies { sp_name : string; sp_nstart : nat; sp_nend : option nat }.

(* complete_correspondence, in dictionary (= insertion) order *)
Definition complete (mc : list species) : list (string * (nat * nat)) :=
  filter_map (fun s => match sp_nend s with
                       | Some ne => Some (sp_name s, (sp_nstart s, ne))
                       | None => None end) mc.

Definition lookup {A} := @lookup_by string A String.eqb.
Definition has_key {A} (k : string) (l : list (string * A)) : bool :=
  match lookup k l with Some _ => true | None => false end.

(* `for name in d: if name not in complete_correspondence: raise KeyError` *)
Definition check_keys {A B} (d : list (string * A)) (comp : list (string * B)) : res unit :=
  if forallb (fun kv => has_key (fst kv) comp) d then Ok tt else Err EKey.

(* an element of a restriction list: something without __len__, or a tuple of ints *)
Inductive rentry := RScalar | RTuple (l : list Z).
(* a value of the restrictions dictionary: None or a list *)
Definition rvalue := option (list rentry).

(* mol[i] raises IndexError unless -n <= i < n (Python indexing accepts negative indices) *)
Definition valid_index (n : nat) (i : Z) : bool :=
  ((- Z.of_nat n <=? i) && (i <? Z.of_nat n))%Z.

Definition validate_entry (ns ne : nat) (e : rentry) : res (Z * Z) :=
  match e with
  | RTuple [a; b] =>
      if valid_index ns a then
        if valid_index ne b then Ok (a, b) else Err EValue
      else Err EValue
  | _ => Err EValue
  end.

Definition validate_index (ns ne : nat) (l : list rentry) : res (list (Z * Z)) :=
  mapM (validate_entry ns ne) l.

Definition parse_restrictions (comp : list (string * (nat * nat)))
  (r : option (list (string * rvalue))) : res (list (string * option (list (Z * Z)))) :=
  match r with
  | None => Ok (map (fun c => (fst c, None)) comp)
  | Some d =>
      let* _ := check_keys d comp in
      mapM (fun c : string * (nat * nat) =>
              match lookup (fst c) d with
              | Some (Some (e :: es)) =>
                  let* v := validate_index (fst (snd c)) (snd (snd c)) (e :: es) in
                  Ok (fst c, Some v)
              | _ => Ok (fst c, None)      (* absent, None or empty: `if not restriction` *)
              end) comp
  end.

(* a value of the deformation_types dictionary *)
Inductive dvalue := DNone | DScalar (z : Z) | DSeq (l : list Z).

Definition parse_deformation (v : dvalue) : res (option (list Z)) :=
  match v with
  | DNone => Ok None
  | DScalar z => if (z =? 0)%Z then Ok None else Err EValue     (* no __len__ *)
  | DSeq [] => Ok None
  | DSeq l => if (1 <=? List.length l) && (List.length l <=? 3) then Ok (Some l) else Err EValue
  end.

Definition parse_deformations {B} (comp : list (string * B))
  (d : option (list (string * dvalue))) : res (list (string * option (list Z))) :=
  match d with
  | None => Ok (map (fun c => (fst c, None)) comp)
  | Some dd =>
      let* _ := check_keys dd comp in
      mapM (fun c : string * B =>
              match lookup (fst c) dd with
              | Some v => let* p := parse_deformation v in Ok (fst c, p)
              | None => Ok (fst c, None)
              end) comp
  end.

(* a value of the ignore_hydrogens dictionary: a bool or anything else *)
Inductive ivalue := IBool (b : bool) | IOther.

Definition parse_ignore_hydrogens {B} (comp : list (string * B))
  (d : option (list (string * ivalue))) : res (list (string * bool)) :=
  match d with
  | None => Ok (map (fun c => (fst c, true)) comp)
  | Some dd =>
      let* _ := check_keys dd comp in
      mapM (fun c : string * B =>
              match lookup (fst c) dd with
              | None => Ok (fst c, true)
              | Some (IBool b) => Ok (fst c, b)
              | Some IOther => Err EValue
              end) comp
  end.

(* arguments of one call  mols_corr[name].align_molecules(restr, defor, ignor) *)
Definition mcall : Type := string * option (list (Z * Z)) * option (list Z) * bool.

(* everything Manager.align_molecules does before the first alignment (parse_restrictions=True) *)
Definition parse_options (mc : list species)
  (r : option (list (string * rvalue))) (d : option (list (string * dvalue)))
  (i : option (list (string * ivalue))) : res (list mcall) :=
  let comp := complete mc in
  let* pr := parse_restrictions comp r in
  let* pd := parse_deformations comp d in
  let* pi := parse_ignore_hydrogens comp i in
  mapM (fun nr : string * option (list (Z * Z)) =>
          match lookup (fst nr) pd, lookup (fst nr) pi, lookup (fst nr) comp with
          | Some dv, Some iv, Some _ => Ok (fst nr, snd nr, dv, iv)
          | _, _, _ => Err EKey
          end) pr.

(* the loop: effect trace (calls started, in order) and result; an alignment that raises
   stops the loop (`result c` is the outcome of the alignment called with c) *)
Fixpoint run_calls (calls : list mcall) (result : mcall -> res unit) : list mcall * res unit :=
  match calls with
  | [] => ([], Ok tt)
  | c :: t =>
      match result c with
      | Ok _ => let r := run_calls t result in (c :: fst r, snd r)
      | Err e => ([c], Err e)
      end
  end.

Definition manager_align (mc : list species)
  (r : option (list (string * rvalue))) (d : option (list (string * dvalue)))
  (i : option (list (string * ivalue))) (result : mcall -> res unit) : list mcall * res unit :=
  match parse_options mc r d i with
  | Ok calls => run_calls calls result
  | Err e => ([], Err e)
  end.

(* ------------------------------------------------------------------ histories *)
(* Several alignments made with ONE restraint list object (rigid pre-alignment then the full one; a
   parsed dictionary reused).  align_molecules never writes into the list it receives (the role swap
   builds a new list), so every call sees the list the caller built and the caller's list is the same
   afterwards.  One entry per call: (deformation types, ignore_hydrogens, auto_guess); the result pairs
   the outcome of the call with the caller's list after it. *)
Definition align_history {P} (start end_ : molecule P) (restr : list (Z * Z))
  (calls : list (option (list Z) * bool * bool)) : list (res (outcome P) * list (Z * Z)) :=
  map (fun o : option (list Z) * bool * bool =>
         (align_args start end_ (Some restr) (fst (fst o)) (snd (fst o)) (snd o), restr)) calls.

(* ------------------------------------------------------------------ Manager, parse_restrictions=False *)
(* the restrictions dictionary is used as given (already parsed: name -> None | list of pairs), in ITS
   key order; deformation types and hydrogen flags are parsed as before (system order) and looked up BY
   NAME inside the loop; a name that is missing there raises KeyError when the loop reaches it (the
   alignments of the names before it have already run) *)
Fixpoint run_named (comp : list (string * (nat * nat))) (pd : list (string * option (list Z)))
  (pi : list (string * bool)) (pr : list (string * option (list (Z * Z))))
  (result : mcall -> res unit) : list mcall * res unit :=
  match pr with
  | [] => ([], Ok tt)
  | (n, rv) :: t =>
      match lookup n pd, lookup n pi, lookup n comp with
      | Some dv, Some iv, Some _ =>
          let c : mcall := (n, rv, dv, iv) in
          match result c with
          | Ok _ => let r := run_named comp pd pi t result in (c :: fst r, snd r)
          | Err e => ([c], Err e)
          end
      | _, _, _ => ([], Err EKey)
      end
  end.

Definition manager_align_noparse (mc : list species)
  (r : option (list (string * option (list (Z * Z))))) (d : option (list (string * dvalue)))
  (i : option (list (string * ivalue))) (result : mcall -> res unit) : list mcall * res unit :=
  match r with
  | None => manager_align mc None d i result      (* `parse_restrictions or restrictions is None` *)
  | Some pr =>
      let comp := complete mc in
      match parse_deformations comp d with
      | Err e => ([], Err e)
      | Ok pd =>
          match parse_ignore_hydrogens comp i with
          | Err e => ([], Err e)
          | Ok pi => run_named comp pd pi pr result
          end
      end
  end.
