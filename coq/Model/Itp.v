(* Model of gaddlemaps/parsers/_itp_parse.py (ItpFile, ItpSection, ItpLine and subclasses),
   statement by statement.  Text is ASCII, already split by Python's universal-newline file
   iterator (lines keep their '\n'; the last one may lack it).  No proofs here. *)
From Coq Require Import List Ascii String ZArith NArith Bool.
From GM Require Import Base.Res Base.StrItp.
Import ListNotations.
Local Open Scope char_scope.

(* ---------------------------------------------------------------- ItpLine.parse_itp_line *)
Definition parse_itp_line (l : str) : res (str * str) :=
  if is_blank l then Ok ([], [])
  else if re_header l then Err EIO
  else if startswith "#" l then Ok ([], l)
  else if startswith ";" l then Ok ([], tl l)
  else if mem ";" (removelast l) then
    match cut_at ";" l with
    | Some (a, b) => Ok (a, b)
    | None => Err EFuel                       (* unreachable: ';' occurs in l *)
    end
  else if last_is ";" l then Ok (removelast l, [])
  else Ok (l, []).

Inductive kind := KAtom | KBond | KMol | KPlain.

Definition s_atoms := la "atoms".
Definition s_bonds := la "bonds".
Definition s_constraints := la "constraints".
Definition s_pairs := la "pairs".
Definition s_moleculetype := la "moleculetype".
Definition s_header := la "header".

(* ItpSection.parse_line: note the substring test  sec_name in 'moleculetype' *)
Definition kind_of (name : str) : kind :=
  if str_eqb name s_atoms then KAtom
  else if str_eqb name s_bonds || str_eqb name s_constraints || str_eqb name s_pairs then KBond
  else if is_substring name s_moleculetype then KMol
  else KPlain.

Record atomf := { a_nr : Z; a_type : str; a_resid : Z; a_resname : str; a_name : str; a_cgnr : Z }.

Inductive fields :=
| FNone
| FAtom (a : atomf)
| FBond (ai aj funct : Z)
| FMol (name : str) (nrexcl : Z).

Definition tok (l : list str) (n : nat) : res str :=
  match nth_error l n with Some t => Ok t | None => Err EIndex end.

(* float(parsed_content[k]) inside try/except IndexError *)
Definition opt_float (l : list str) (n : nat) : res unit :=
  match nth_error l n with
  | Some t => if py_float_ok t then Ok tt else Err EValue
  | None => Ok tt
  end.

(* ItpLineAtom._init_fields *)
Definition atom_fields (ts : list str) : res atomf :=
  let* t0 := tok ts 0 in let* nr := py_int t0 in
  let* ty := tok ts 1 in
  let* t2 := tok ts 2 in let* resid := py_int t2 in
  let* resname := tok ts 3 in
  let* name := tok ts 4 in
  let* t5 := tok ts 5 in let* cgnr := py_int t5 in
  let* _ := opt_float ts 6 in
  let* _ := opt_float ts 7 in
  Ok {| a_nr := nr; a_type := ty; a_resid := resid; a_resname := resname; a_name := name; a_cgnr := cgnr |}.

(* ItpLineBonds._init_fields (the constants never raise: float() inside try/except ValueError) *)
Definition bond_fields (ts : list str) : res fields :=
  match ts with
  | t0 :: t1 :: rest =>
      let* ai := py_int t0 in
      let* aj := py_int t1 in
      match rest with
      | t2 :: _ => let* f := py_int t2 in Ok (FBond ai aj f)
      | [] => Ok (FBond ai aj 1)
      end
  | _ => Err EIO
  end.

(* ItpLineMoleculetype.__init__ (after the repair f957630): parse = self.content.split() *)
Definition mol_fields (ts : list str) : res fields :=
  let* name := tok ts 0 in
  let* t1 := tok ts 1 in
  let* n := py_int t1 in
  if (n <? 1)%Z then Err EValue else Ok (FMol name n).

Record pline := { p_content : str; p_comment : str; p_directive : bool; p_fields : fields }.

Definition content (p : pline) : str := strip (p_content p).
Definition comment (p : pline) : str := strip (p_comment p).

(* ItpSection.parse_line + the constructors *)
Definition parse_line (k : kind) (l : str) : res pline :=
  let* cm := parse_itp_line l in
  let c := fst cm in let m := snd cm in
  let d := startswith "#" l in
  let has := nonempty (strip c) in
  let* f := match k with
            | KPlain => Ok FNone
            | KAtom => if has then let* a := atom_fields (split_ws (strip c)) in Ok (FAtom a) else Ok FNone
            | KBond => if has then bond_fields (split_ws (strip c)) else Ok FNone
            | KMol => if has then mol_fields (split_ws (strip c)) else Ok FNone
            end in
  Ok {| p_content := c; p_comment := m; p_directive := d; p_fields := f |}.

(* ItpLine.line (after the repairs f538f29, f7940a7) *)
Definition line_of (p : pline) : str :=
  if nonempty (comment p) then
    if p_directive p then p_comment p
    else p_content p ++ la "; " ++ p_comment p
  else p_content p ++ p_comment p.

(* ---------------------------------------------------------------- ItpFile *)
(* sections in order of first appearance; per section ALL parsed lines (`_lines`), stored reversed
   while reading.  The list object itself holds the lines with non-empty content. *)
Record itpfile := { f_header : list str; f_secs : list (str * list pline) }.

Record pstate := { st_header : list str (* reversed *); st_secs : list (str * list pline) (* lines reversed *);
                   st_cur : option str }.

Fixpoint has_key (n : str) (secs : list (str * list pline)) : bool :=
  match secs with
  | [] => false
  | (k, _) :: r => str_eqb k n || has_key n r
  end.

Fixpoint push_line (n : str) (p : pline) (secs : list (str * list pline)) : res (list (str * list pline)) :=
  match secs with
  | [] => Err EKey
  | (k, ls) :: r => if str_eqb k n then Ok ((k, p :: ls) :: r)
                    else let* r' := push_line n p r in Ok ((k, ls) :: r')
  end.

Definition step (st : pstate) (l : str) : res pstate :=
  if re_header (strip l) then
    let* g := re_group l in
    let sec := strip g in
    if str_eqb sec s_header || has_key sec (st_secs st)
    then Ok {| st_header := st_header st; st_secs := st_secs st; st_cur := Some sec |}
    else Ok {| st_header := st_header st; st_secs := st_secs st ++ [(sec, [])]; st_cur := Some sec |}
  else
    match st_cur st with
    | None => Ok {| st_header := l :: st_header st; st_secs := st_secs st; st_cur := None |}
    | Some sec =>
        if str_eqb sec s_header      (* self['header'] is the plain list: the raw string is appended *)
        then Ok {| st_header := l :: st_header st; st_secs := st_secs st; st_cur := st_cur st |}
        else
          let* p := parse_line (kind_of sec) l in
          let* secs := push_line sec p (st_secs st) in
          Ok {| st_header := st_header st; st_secs := secs; st_cur := st_cur st |}
    end.

Fixpoint run (st : pstate) (ls : list str) : res pstate :=
  match ls with
  | [] => Ok st
  | l :: r => let* st' := step st l in run st' r
  end.

Definition st0 : pstate := {| st_header := []; st_secs := []; st_cur := None |}.

Definition finalize (st : pstate) : itpfile :=
  {| f_header := rev (st_header st);
     f_secs := map (fun kv => (fst kv, rev (snd kv))) (st_secs st) |}.

Definition itp_parse (ls : list str) : res itpfile := rmap finalize (run st0 ls).
Definition itp_read (text : str) : res itpfile := itp_parse (lines text).

(* ItpFile.write: header lines raw, then '[ name ]\n' + lines + '\n' per section *)
Definition section_text (name : str) (ps : list pline) : str :=
  la "[ " ++ name ++ la " ]" ++ [ch_nl] ++ List.concat (map line_of ps) ++ [ch_nl].

Definition itp_write (f : itpfile) : str :=
  List.concat (f_header f) ++ List.concat (map (fun kv => section_text (fst kv) (snd kv)) (f_secs f)).

(* dictionary access *)
Fixpoint get_sec (n : str) (secs : list (str * list pline)) : option (list pline) :=
  match secs with
  | [] => None
  | (k, ls) :: r => if str_eqb k n then Some ls else get_sec n r
  end.

(* the list value of a section: lines with non-empty content *)
Definition sec_items (ps : list pline) : list pline := filter (fun p => nonempty (content p)) ps.

(* ---------------------------------------------------------------- abstraction used by C16 *)
(* per section name in order of first appearance: the entries (content tokens, stripped comment)
   of the lines that carry anything (blank lines carry nothing and are dropped) *)
Definition entry := (list str * str)%type.
Definition entry_of (p : pline) : entry := (split_ws (content p), comment p).
Definition entry_nonblank (e : entry) : bool :=
  match fst e with [] => nonempty (snd e) | _ :: _ => true end.
Definition abs_sec (ps : list pline) : list entry := filter entry_nonblank (map entry_of ps).
Definition abs (f : itpfile) : list str * list (str * list entry) :=
  (f_header f, map (fun kv => (fst kv, abs_sec (snd kv))) (f_secs f)).
