(* gaddlemaps/_exchage_map.py : ExchangeMap (construction and __call__), with
   AtomTop.closest_atoms (= sorted(bonds)[:2]) and hash(atom) = index.
   Statement-by-statement transcription, polymorphic over the Scalar.

   A molecule is, for this purpose, the list of its atom positions (index = position in
   the molecule = hash(atom)) and its bond graph: for every atom the collection of bonded
   indices (a Python set: order irrelevant, no duplicates).
   Random completion points (references of one or two atoms) are explicit arguments:
   `draws` is the list of the values returned by the successive calls np.random.rand(3). *)
From Coq Require Import List ZArith Arith.
Import ListNotations.
From GM Require Import Base.Res Base.Scalar Base.Vec Model.Aux.
Local Open Scope scalar_scope.

Definition graph := list (list nat).

(* ---- AtomTop.closest_atoms(): sorted(self.bonds)[:2] for a set of >= 2 indices ---- *)
Fixpoint list_min (x : nat) (l : list nat) : nat :=
  match l with
  | [] => x
  | y :: t => list_min (Nat.min x y) t
  end.

Definition lowest2 (l : list nat) : option (nat * nat) :=
  match l with
  | [] => None
  | x :: t =>
      let m1 := list_min x t in
      match filter (fun y => negb (Nat.eqb y m1)) l with
      | [] => None
      | y :: t' => Some (m1, list_min y t')
      end
  end.

(* ---- `for atom in molecule: if len(atom.bonds) >= 2` : the keys written, in order ---- *)
Fixpoint anchors_from (i : nat) (g : graph) : list nat :=
  match g with
  | [] => []
  | l :: g' => if Nat.leb 2 (length l) then i :: anchors_from (S i) g' else anchors_from (S i) g'
  end.
Definition anchors (g : graph) : list nat := anchors_from 0 g.

(* ---- Python dict read: d[k] ---- *)
Fixpoint dict_get {A} (d : list (nat * A)) (k : nat) : res A :=
  match d with
  | [] => Err EKey
  | (k', v) :: d' => if Nat.eqb k' k then Ok v else dict_get d' k
  end.

Section EM.
Context {T : Type} `{Scalar T}.

Definition triple : Type := V3 T * V3 T * V3 T.

(* the three points handed to calcule_base for the anchor `a` (general case):
   [atom.position, molecule[ind1].position, molecule[ind2].position] *)
Definition points_at (g : graph) (ps : list (V3 T)) (a : nat) : res triple :=
  let* l := nth_res g a in
  match lowest2 l with
  | None => Err EIndex
  | Some (n1, n2) =>
      let* p0 := nth_res ps a in
      let* p1 := nth_res ps n1 in
      let* p2 := nth_res ps n2 in
      Ok (p0, p1, p2)
  end.

(* _calculate_refsystems: the (key, points) pairs in the order the dict entries are written.
   n_atoms = 1: [p0, rand1 + p0, rand2 + p0];  n_atoms = 2: [p0, rand1 + p0, p1] (the repaired
   order: first base vector along the bond); otherwise the general version.  The key of the
   special cases is hash(molecule[0]) = 0. *)
Definition refpoints (g : graph) (ps : list (V3 T)) (draws : list (V3 T))
  : res (list (nat * res triple)) :=
  match ps with
  | [p0] =>
      match draws with
      | d1 :: d2 :: _ => Ok [(0%nat, Ok (p0, vadd d1 p0, vadd d2 p0))]
      | _ => Err EStop
      end
  | [p0; p1] =>
      match draws with
      | d1 :: _ => Ok [(0%nat, Ok (p0, vadd d1 p0, p1))]
      | _ => Err EStop
      end
  | _ => Ok (map (fun a => (a, points_at g ps a)) (anchors g))
  end.

(* a dict value: the base of the three points; Err EDiv0 stands for the NaN entries numpy
   produces silently (coincident first and third point) *)
Definition base_of (t : res triple) : res (frame T) :=
  let* t := t in
  match t with (p0, p1, p2) => calcule_base p0 p1 p2 end.

Definition refsystems (g : graph) (ps : list (V3 T)) (draws : list (V3 T))
  : res (list (nat * res (frame T))) :=
  rmap (map (fun kt => (fst kt, base_of (snd kt)))) (refpoints g ps draws).

(* ---- _find_closest_ref: sorted([(euclidean(target, ref[i]), i) for i in keys])[0][1] ---- *)
(* Python tuple order: first components compared with ==, then < on the first difference *)
Definition pair_lt (c b : T * nat) : bool :=
  if fst c =? fst b then Nat.ltb (snd c) (snd b) else fst c <? fst b.

Definition tagged_distances (ref : list (V3 T)) (keys : list nat) (p : V3 T) : res (list (T * nat)) :=
  mapM (fun i => let* r := nth_res ref i in Ok (vdist p r, i)) keys.

Definition min_pair (d : T * nat) (rest : list (T * nat)) : T * nat :=
  fold_left (fun b c => if pair_lt c b then c else b) rest d.

Definition find_closest (ref : list (V3 T)) (keys : list nat) (p : V3 T) : res nat :=
  let* ds := tagged_distances ref keys p in
  match ds with
  | [] => Err EIndex                    (* sorted([])[0] : IndexError *)
  | d :: rest => Ok (snd (min_pair d rest))
  end.

(* ---- _proyect_point / _restore_point ---- *)
Definition fmat (F : frame T) : M3 T := mkM (f1 F) (f2 F) (f3 F).
Definition project (F : frame T) (p : V3 T) (s : T) : V3 T :=
  vscaler (mvec (fmat F) (vsub p (forig F))) s.
Definition restore (F : frame T) (c : V3 T) : V3 T :=
  vadd (forig F) (vecm c (fmat F)).

Record emap := mkEmap {
  em_scale : T;
  em_frames : list (nat * res (frame T));   (* _refsystems after construction *)
  em_equiv : list nat;                      (* _equivalences, by target index *)
  em_coords : list (V3 T)                   (* _target_coordinates, by target index *)
}.

Definition map_atom (ref : list (V3 T)) (fr : list (nat * res (frame T))) (s : T) (p : V3 T)
  : res (nat * V3 T) :=
  let* a := find_closest ref (map fst fr) p in
  let* rF := dict_get fr a in
  let* F := rF in
  Ok (a, project F p s).

(* ExchangeMap(refmolecule, targetmolecule, scale_factor) *)
Definition build (g : graph) (ref tgt : list (V3 T)) (s : T) (draws : list (V3 T)) : res emap :=
  let* fr := refsystems g ref draws in
  let* ec := mapM (map_atom ref fr s) tgt in
  Ok (mkEmap s fr (map fst ec) (map snd ec)).

(* self._refsystems[a] during a call: the entry just written from the argument if there is one,
   else the entry left from the construction (dict assignment overwrites, never deletes) *)
Definition current_frame (m : emap) (upd : list (nat * res (frame T))) (a : nat) : res (frame T) :=
  let* rF := match dict_get upd a with Ok f => Ok f | Err _ => dict_get (em_frames m) a end in
  rF.

Definition restore_atom (m : emap) (upd : list (nat * res (frame T))) (ac : nat * V3 T) : res (V3 T) :=
  let* F := current_frame m upd (fst ac) in
  Ok (restore F (snd ac)).

(* ExchangeMap.__call__(refmolecule).atoms_positions, for an argument of the same species
   (same bond graph g) at positions ref' *)
Definition apply (m : emap) (g : graph) (ref' : list (V3 T)) (draws : list (V3 T)) : res (list (V3 T)) :=
  let* upd := refsystems g ref' draws in
  mapM (restore_atom m upd) (combine (em_equiv m) (em_coords m)).

End EM.
Arguments emap T : clear implicits.
Arguments triple T : clear implicits.
