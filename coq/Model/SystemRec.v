(* gaddlemaps/components/_system.py : class System (molecule recognition) and the parts of
   SystemGro / MoleculeTop / Molecule it uses.  Discrete model, no scalars.

   Abstractions (tied by the correspondence K, see docs/design_notes/C11.md):
   - strings (residue names, atom names, molecule names) are interned as [nat] by the harness
     (equal strings <-> equal numbers);
   - the coordinate file is the list of its residues (resname, atom names) as SystemGro._parse_gro
     cuts them (that cut is C12's subject);
   - MoleculeTop.resname_len_list groups consecutive atoms by the string '{:5}{}'.format(resname, resid);
     here by the pair (resname, resid) (same thing for residue names of <= 5 characters);
   - more_itertools.islice_extended on a finite generator = Python list slicing (library semantics). *)
From Coq Require Import List Arith ZArith Bool.
Import ListNotations.
From GM Require Import Base.Res.

(* ------------------------------------------------------------------ small helpers *)
Fixpoint list_eqb {A} (eqb : A -> A -> bool) (a b : list A) : bool :=
  match a, b with
  | [], [] => true
  | x :: xs, y :: ys => eqb x y && list_eqb eqb xs ys
  | _, _ => false
  end.

Definition pair_eqb (a b : nat * nat) : bool := (fst a =? fst b) && (snd a =? snd b).

Definition onat_eqb (a b : option nat) : bool :=
  match a, b with
  | Some x, Some y => x =? y
  | None, None => true
  | _, _ => false
  end.

(* ------------------------------------------------------------------ the coordinate file *)
Record residue := mkRes { res_name : nat; res_atoms : list nat }.

(* Residue.__eq__ : same length and every atom equal (AtomGro.__eq__ : resname and name) *)
Definition res_eqb (a b : residue) : bool :=
  (res_name a =? res_name b) && list_eqb Nat.eqb (res_atoms a) (res_atoms b).

Definition res_key (r : residue) : nat * nat := (res_name r, length (res_atoms r)).

(* dict (resname, len) -> kind index, as an association list; the first binding wins, a new
   binding is pushed in front: dict assignment overwrites *)
Definition pkmap := list ((nat * nat) * nat).
Fixpoint pk_get (pk : pkmap) (k : nat * nat) : option nat :=
  match pk with
  | [] => None
  | (k', v) :: t => if pair_eqb k k' then Some v else pk_get t k
  end.

(* SystemGro._add_residue_init : state = (different_molecules, _molecules_pk); returns the
   kind index written into _molecules_ordered for this residue *)
Definition add_residue_init (st : list residue * pkmap) (r : residue)
  : res ((list residue * pkmap) * nat) :=
  let '(templates, pk) := st in
  let key := res_key r in
  let '(templates', pk') :=
    if existsb (res_eqb r) templates then (templates, pk)
    else (templates ++ [r], (key, length templates) :: pk) in
  match pk_get pk' key with
  | Some idx => Ok ((templates', pk'), idx)
  | None => Err EKey
  end.

Fixpoint parse_kinds (st : list residue * pkmap) (rs : list residue)
  : res ((list residue * pkmap) * list nat) :=
  match rs with
  | [] => Ok (st, [])
  | r :: t =>
    let* (st1, k) := add_residue_init st r in
    let* (st2, ks) := parse_kinds st1 t in
    Ok (st2, k :: ks)
  end.

(* what System sees of SystemGro: the residues (for slices), molecules_resname_len_index and
   molecules_info_ordered_all (the run-length list expanded again) *)
Record groview := mkView { gv_res : list residue; gv_pk : pkmap; gv_stream : list nat }.

Definition view_of (rs : list residue) : res groview :=
  let* ((_, pk), ks) := parse_kinds ([], []) rs in
  Ok (mkView rs pk ks).

(* ------------------------------------------------------------------ the topology *)
(* atoms : (atom name, resname, resid) *)
Record top := mkTop { top_name : nat; top_atoms : list (nat * nat * nat) }.

(* MoleculeTop.resname_len_list *)
Fixpoint rll_go (atoms : list (nat * nat * nat)) (cur : nat * nat) (cnt : nat) : list (nat * nat) :=
  match atoms with
  | [] => [(fst cur, cnt)]
  | (_, rn, rid) :: t =>
    if pair_eqb (rn, rid) cur then rll_go t cur (S cnt)
    else (fst cur, cnt) :: rll_go t (rn, rid) 1
  end.

Definition resname_len_list (t : top) : res (list (nat * nat)) :=
  match top_atoms t with
  | [] => Err EIndex                          (* old_resname[0] on the empty list *)
  | (_, rn, rid) :: rest => Ok (rll_go rest (rn, rid) 1)
  end.

(* _molecule_top_and_residues_match : same number of atoms, (resname, name) atom by atom *)
Definition res_atom_keys (r : residue) : list (nat * nat) :=
  map (fun a => (res_name r, a)) (res_atoms r).
Definition top_atom_keys (t : top) : list (nat * nat) :=
  map (fun a => match a with (an, rn, _) => (rn, an) end) (top_atoms t).
Definition mol_match (t : top) (rs : list residue) : bool :=
  list_eqb pair_eqb (top_atom_keys t) (flat_map res_atom_keys rs).

(* ------------------------------------------------------------------ System *)
Definition block := (nat * nat * nat)%type.     (* [mol_index, start, amount] *)
Definition inst := (nat * nat * nat)%type.      (* (mol_index, gro_start, gro_end) *)

Record molinfo := mkMol { mi_top : top; mi_nres : nat }.   (* len(molecule.resnames) *)

Record sys := mkSys {
  s_avail : list (option nat);      (* _available_mgro_ordered; None is numpy's -1 *)
  s_mols : list molinfo;            (* different_molecules *)
  s_blocks : list block             (* _molecules_ordered *)
}.

Definition sys_init (v : groview) : sys := mkSys (map Some (gv_stream v)) [] [].

(* (window == index_array).all() with numpy's rules when the slice ran off the end:
   equal lengths: elementwise; a window of length 1 broadcasts; otherwise ValueError *)
Definition window_all (w : list (option nat)) (pat : list nat) : res bool :=
  if length w =? length pat then Ok (list_eqb onat_eqb w (map Some pat))
  else match w with
       | [x] => Ok (forallb (fun q => onat_eqb x (Some q)) pat)
       | _ => Err EValue
       end.

(* _check_index_in_available_mgro : l is the array from position pos on *)
Fixpoint check_index (l : list (option nat)) (pos : nat) (pat : list nat) : res nat :=
  match l with
  | [] => Err EIO
  | x :: t =>
    match pat with
    | [] => Err EIndex
    | p0 :: _ =>
      if onat_eqb x (Some p0) then
        let* m := window_all (firstn (length pat) l) pat in
        if m then Ok pos else check_index t (S pos) pat
      else check_index t (S pos) pat
    end
  end.

(* _find_all_molecules_and_replace.  The while loop walks the array; structural recursion on the
   array from position pos on.  skip > 0 : this position was consumed by a match that started
   `L - skip` positions before (the jump `start_index += L`).  acc = _molecules_ordered reversed. *)
Definition bump (acc : list block) : res (list block) :=
  match acc with
  | (i, s, c) :: t => Ok ((i, s, S c) :: t)
  | [] => Err EIndex
  end.

Fixpoint find_all (l : list (option nat)) (pos skip : nat) (pat : list nat) (mol_index : nat)
         (new_block : bool) (acc : list block) : res (list (option nat) * list block) :=
  match l with
  | [] => Ok ([], acc)
  | x :: t =>
    match skip with
    | S k =>
      let* (t', acc') := find_all t (S pos) k pat mol_index new_block acc in
      Ok (None :: t', acc')
    | O =>
      let L := length pat in
      if (L <=? length l) && list_eqb onat_eqb (firstn L l) (map Some pat) then
        let* acc1 := (if new_block then Ok ((mol_index, pos, 1) :: acc) else bump acc) in
        let* (t', acc') := find_all t (S pos) (L - 1) pat mol_index false acc1 in
        Ok (None :: t', acc')
      else
        let* (t', acc') := find_all t (S pos) 0 pat mol_index true acc in
        Ok (x :: t', acc')
    end
  end.

(* list.sort(key=lambda x: x[1]) : stable *)
Definition bstart (b : block) : nat := snd (fst b).
Fixpoint insert_block (b : block) (l : list block) : list block :=
  match l with
  | [] => [b]
  | y :: t => if bstart b <=? bstart y then b :: y :: t else y :: insert_block b t
  end.
Definition sort_blocks (l : list block) : list block := fold_right insert_block [] l.

Definition lookup_pattern (v : groview) (t : top) : res (list nat) :=
  let* keys := resname_len_list t in
  mapM (fun k => match pk_get (gv_pk v) k with Some i => Ok i | None => Err EIO end) keys.

(* add_molecule_top *)
Definition add_top (v : groview) (st : sys) (t : top) : res sys :=
  let* pat := lookup_pattern v t in
  let* start := check_index (s_avail st) 0 pat in
  let residues := firstn (length pat) (skipn start (gv_res v)) in   (* system_gro[start:start+L] *)
  if mol_match t residues then
    let mol_index := length (s_mols st) in
    (* the scan starts at start_index: the array before it is untouched *)
    let* (tl', acc) := find_all (skipn start (s_avail st)) start 0 pat mol_index true
                                 (rev (s_blocks st)) in
    Ok (mkSys (firstn start (s_avail st) ++ tl')
              (s_mols st ++ [mkMol t (length residues)])
              (sort_blocks (rev acc)))
  else Err EIO.

(* System(fgro, *ftops) : the first failing topology aborts the construction *)
Fixpoint load_all (v : groview) (st : sys) (ts : list top) : res sys :=
  match ts with
  | [] => Ok st
  | t :: rest => let* st' := add_top v st t in load_all v st' rest
  end.

(* a session in which the caller catches the exception of a refused topology and goes on:
   the state is the one before the refused call *)
Fixpoint load_session (v : groview) (st : sys) (ts : list top) : sys * list (option err) :=
  match ts with
  | [] => (st, [])
  | t :: rest =>
    match add_top v st t with
    | Ok st' => let '(s, o) := load_session v st' rest in (s, None :: o)
    | Err e => let '(s, o) := load_session v st rest in (s, Some e :: o)
    end
  end.

(* _molecules_ordered_all_gen *)
Definition expand_block (mols : list molinfo) (b : block) : res (list inst) :=
  let '(i, start, cnt) := b in
  let* mi := nth_res mols i in
  let L := mi_nres mi in
  Ok (map (fun j => (i, start + j * L, start + (S j) * L)) (seq 0 cnt)).

Definition instances (st : sys) : res (list inst) :=
  let* ls := mapM (expand_block (s_mols st)) (s_blocks st) in Ok (concat ls).

(* different_molecules[index].copy(system_gro[gro_start:gro_end]) : Molecule.__init__ checks again *)
Definition mol_of (v : groview) (st : sys) (i : inst) : res inst :=
  let '(k, a, b) := i in
  let* mi := nth_res (s_mols st) k in
  if mol_match (mi_top mi) (firstn (b - a) (skipn a (gv_res v))) then Ok i else Err EIO.

(* list(System) *)
Definition sys_iter (v : groview) (st : sys) : res (list inst) :=
  let* l := instances st in mapM (mol_of v st) l.

(* __len__ *)
Definition sys_len (st : sys) : nat := fold_right (fun b n => snd b + n) 0 (s_blocks st).

(* composition : Counter keyed by molecule name, in first-insertion order *)
Fixpoint counter_add (c : list (nat * nat)) (name amount : nat) : list (nat * nat) :=
  match c with
  | [] => [(name, amount)]
  | (n, a) :: t => if n =? name then (n, a + amount) :: t else (n, a) :: counter_add t name amount
  end.
Fixpoint composition_go (mols : list molinfo) (bs : list block) (c : list (nat * nat))
  : res (list (nat * nat)) :=
  match bs with
  | [] => Ok c
  | (i, _, cnt) :: t =>
    let* mi := nth_res mols i in
    composition_go mols t (counter_add c (top_name (mi_top mi)) cnt)
  end.
Definition composition (st : sys) : res (list (nat * nat)) :=
  composition_go (s_mols st) (s_blocks st) [].

(* ------------------------------------------------------------------ Python slicing *)
Open Scope Z_scope.

(* PySlice_AdjustIndices + the iteration, step <> 0; n = len(l) *)
Definition adj_pos (n : Z) (x : option Z) (dflt : Z) : Z :=
  match x with
  | None => dflt
  | Some i => if i <? 0 then Z.max 0 (i + n) else Z.min i n
  end.
Definition adj_neg (n : Z) (x : option Z) (dflt : Z) : Z :=
  match x with
  | None => dflt
  | Some i => if i <? 0 then Z.max (-1) (i + n) else Z.min i (n - 1)
  end.

Fixpoint slice_walk {A} (fuel : nat) (l : list A) (i stop step : Z) : res (list A) :=
  match fuel with
  | O => Err EFuel
  | S f =>
    if (if 0 <? step then i <? stop else stop <? i) then
      match nth_error l (Z.to_nat i) with
      | Some a => let* r := slice_walk f l (i + step) stop step in Ok (a :: r)
      | None => Err EIndex
      end
    else Ok []
  end.

Definition py_slice {A} (l : list A) (start stop step : option Z) : res (list A) :=
  let n := Z.of_nat (length l) in
  let st := match step with None => 1 | Some s => s end in
  if st =? 0 then Err EValue
  else if 0 <? st then slice_walk (S (length l)) l (adj_pos n start 0) (adj_pos n stop n) st
  else slice_walk (S (length l)) l (adj_neg n start (n - 1)) (adj_neg n stop (-1)) st.

(* System.__getitem__(int) *)
Definition getitem_info (st : sys) (i : Z) : res inst :=
  let* l := instances st in
  if i =? -1 then
    match rev l with x :: _ => Ok x | [] => Err EValue end        (* more_itertools.last *)
  else
    let* s := py_slice l (Some i) (Some (i + 1)) None in          (* islice_extended(gen, i, i+1) *)
    match s with x :: _ => Ok x | [] => Err EIndex end.           (* next() -> StopIteration -> IndexError *)

Definition sys_getitem (v : groview) (st : sys) (i : Z) : res inst :=
  let* x := getitem_info st i in mol_of v st x.

(* System.__getitem__(slice) *)
Definition sys_getslice (v : groview) (st : sys) (a b c : option Z) : res (list inst) :=
  let* l := instances st in
  let* s := py_slice l a b c in
  mapM (mol_of v st) s.
Close Scope Z_scope.
