(* gaddlemaps/_auxilliary.py : rotation_matrix, calcule_base.
   Statement-by-statement transcription (operand order as numpy evaluates it). *)
From Coq Require Import List ZArith.
Import ListNotations.
From GM Require Import Base.Res Base.Scalar Base.Vec.
Local Open Scope scalar_scope.

Section Aux.
Context {T : Type} `{Scalar T}.

(* v / |v|, the numpy idiom `v / np.linalg.norm(v)`; a zero norm gives nan in
   numpy, Err EDiv0 here *)
Definition vnormalize (v : V3 T) : res (V3 T) :=
  let n := vnorm v in
  if n =? s0 then Err EDiv0 else Ok (vdivs v n).

(* rotation_matrix(axis, theta) with c = cos theta, s = sin theta supplied *)
Definition rotation_matrix_cs (axis : V3 T) (c s : T) : res (M3 T) :=
  let* n := vnormalize axis in
  let eye := mid in
  let ddt := mouter n n in
  let skew := mkM (mk3 s0 (vz n) (- vy n))
                  (mk3 (- vz n) s0 (vx n))
                  (mk3 (vy n) (- vx n) s0) in
  Ok (madd (madd ddt (mscale c (msub eye ddt))) (mscale s skew)).

Definition collinear_eps : T := sofQ 1 1000000.
Definition one_half : T := sofQ 1 2.

Record frame := mkFrame { f1 : V3 T; f2 : V3 T; f3 : V3 T; forig : V3 T }.

(* which branch calcule_base took; recorded for the correspondence margins *)
Inductive cb_branch := CbRegular | CbFallbackXY | CbFallbackYZ.

Definition calcule_base_br (pos0 pos1 pos2 : V3 T) : res (frame * cb_branch) :=
  let vec1 := vsub pos2 pos0 in
  let* vec1 := vnormalize vec1 in
  let diff1 := vsub pos1 pos0 in
  let vec3 := vcross vec1 diff1 in
  let norm3 := vnorm vec3 in
  let* (vec3, br) :=
    if norm3 <=? collinear_eps * vnorm diff1 then
      let v10 := vx vec1 in let v11 := vy vec1 in let v12 := vz vec1 in
      if one_half <=? v10 * v10 + v11 * v11 then
        let d := ssqrt (v10 * v10 + v11 * v11) in
        if d =? s0 then Err EDiv0 else Ok (vdivs (mk3 v11 (- v10) s0) d, CbFallbackXY)
      else
        let d := ssqrt (v11 * v11 + v12 * v12) in
        if d =? s0 then Err EDiv0 else Ok (vdivs (mk3 s0 v12 (- v11)) d, CbFallbackYZ)
    else
      if norm3 =? s0 then Err EDiv0 else Ok (vdivs vec3 norm3, CbRegular) in
  let vec2 := vcross vec3 vec1 in
  Ok (mkFrame vec1 vec2 vec3 pos0, br).

Definition calcule_base (pos0 pos1 pos2 : V3 T) : res frame :=
  rmap fst (calcule_base_br pos0 pos1 pos2).

(* margin of the collinearity decision: norm3 / |diff1| (compared with eps) *)
Definition calcule_base_margin (pos0 pos1 pos2 : V3 T) : res T :=
  let* vec1 := vnormalize (vsub pos2 pos0) in
  let diff1 := vsub pos1 pos0 in
  let nd := vnorm diff1 in
  if nd =? s0 then Ok s0 else Ok (vnorm (vcross vec1 diff1) / nd).

End Aux.
Arguments frame T : clear implicits.
