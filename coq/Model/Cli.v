(* Model of gaddlemaps/_cli.py (as repaired: commits 5e430aa, c1cd81f, 2ddd5fd):
     classify_files, sort_molecules (the three loops), main's argument handling, default output path.
   Discrete model; file names and molecule names are strings.  Python sets are lists standing for an
   arbitrary enumeration of the set: `sorted(the_set)` is `sorted_set l`, which depends only on the
   elements of l (Proofs/Cli.v).  The library objects the discovery talks to are Section oracles:
     try_add s f      system.add_molecule_top(MoleculeTop(f)) on system state s: Some s' = accepted (the call
                      MUTATES the system: accepted residues are consumed), None = OSError
     init_system tops System(reference, *tops): Err EIO when a topology is refused
     name_of f        MoleculeTop(f).name, None = MoleculeTop(f) raises OSError (no moleculetype/atoms section,
                      unreadable file)
     pairs_with c t   Molecule.from_files(c, t) succeeds (a fresh System each time: stateless)
   Exceptions other than OSError are outside the oracles' vocabulary (they escape sort_molecules in the code).
   No proofs in this file. *)
From Coq Require Import String Ascii List Bool Arith OrdersEx.
From GM Require Import Base.Res Gen.SrcConsts.
Import ListNotations.
Open Scope string_scope.

Definition file := string.
Definition triple : Type := (file * file * file)%type.   (* (top_CG, coor_AA, top_AA): the order of --mol *)

(* ------------------------------------------------------------------ text helpers *)
Fixpoint has_char (c : ascii) (s : string) : bool :=
  match s with
  | EmptyString => false
  | String a r => Ascii.eqb a c || has_char c r
  end.

(* (s[:i], s[i:]) with i = s.rfind(c) + 1 *)
Fixpoint split_last (c : ascii) (s : string) : string * string :=
  match s with
  | EmptyString => (EmptyString, EmptyString)
  | String a r =>
      if has_char c s then let (h, t) := split_last c r in (String a h, t)
      else (EmptyString, s)
  end.

(* s.split(c)[-1]; for c = "/" also os.path.basename(s) *)
Definition after_last (c : ascii) (s : string) : string := snd (split_last c s).

Fixpoint all_char (c : ascii) (s : string) : bool :=
  match s with
  | EmptyString => true
  | String a r => Ascii.eqb a c && all_char c r
  end.

(* s.rstrip(c) *)
Fixpoint rstrip (c : ascii) (s : string) : string :=
  match s with
  | EmptyString => EmptyString
  | String a r => if all_char c s then EmptyString else String a (rstrip c r)
  end.

Fixpoint ends_with (c : ascii) (s : string) : bool :=
  match s with
  | EmptyString => false
  | String a EmptyString => Ascii.eqb a c
  | String _ r => ends_with c r
  end.

Definition slash : ascii := "/"%char.
Definition dot : ascii := "."%char.

(* posixpath.split *)
Definition os_split (p : string) : string * string :=
  let (h, t) := split_last slash p in
  (if all_char slash h then h else rstrip slash h, t).

(* posixpath.join a b for a second component that does not start with "/" *)
Definition os_join (a b : string) : string :=
  if String.eqb a "" then b
  else if ends_with slash a then a ++ b else a ++ "/" ++ b.

Definition mem (x : string) (l : list string) : bool := existsb (String.eqb x) l.

(* ------------------------------------------------------------------ classify_files *)
Definition extension (f : file) : string := after_last dot (after_last slash f).
Definition is_coord (f : file) : bool := mem (extension f) GRO_EXTENSIONS.
Definition is_top (f : file) : bool := mem (extension f) ITP_EXTENSIONS.

(* (topology_files, coordinate_files): lists standing for the two sets *)
Definition classify_files (files : list file) : list file * list file :=
  (filter is_top files, filter is_coord files).

(* set.remove(x) guarded by `x in set` *)
Definition remove_file (x : file) (l : list file) : list file :=
  filter (fun y => negb (String.eqb x y)) l.

Definition remove_known (known : list triple) (tc : list file * list file) : list file * list file :=
  fold_left (fun (acc : list file * list file) (k : triple) =>
               match k with
               | (a, b, c) => (remove_file c (remove_file a (fst acc)), remove_file b (snd acc))
               end) known tc.

(* sorted(set): strictly increasing list of the distinct elements, Python str order = code point order *)
Fixpoint insert_u (x : string) (l : list string) : list string :=
  match l with
  | [] => [x]
  | y :: r =>
      match String_as_OT.compare x y with
      | Lt => x :: l
      | Eq => l
      | Gt => y :: insert_u x r
      end
  end.
Definition sorted_set (l : list string) : list string := fold_right insert_u [] l.

(* ------------------------------------------------------------------ the dictionaries *)
Inductive ikey := TopCG | TopAA | CoorAA.
Definition ikey_eqb (a b : ikey) : bool :=
  match a, b with TopCG, TopCG | TopAA, TopAA | CoorAA, CoorAA => true | _, _ => false end.

(* inner dict {'top_CG': f, 'top_AA': f, 'coor_AA': f} in insertion order *)
Definition idict := list (ikey * file).
Fixpoint iget (k : ikey) (i : idict) : option file :=
  match i with
  | [] => None
  | (k', v) :: r => if ikey_eqb k k' then Some v else iget k r
  end.
Definition ihas (k : ikey) (i : idict) : bool := match iget k i with Some _ => true | None => false end.
Fixpoint iset (k : ikey) (v : file) (i : idict) : idict :=
  match i with
  | [] => [(k, v)]
  | (k', v') :: r => if ikey_eqb k k' then (k, v) :: r else (k', v') :: iset k v r
  end.

(* added_molecues: molecule name -> inner dict, insertion order *)
Definition added := list (string * idict).
Fixpoint dget (n : string) (d : added) : option idict :=
  match d with
  | [] => None
  | (n', v) :: r => if String.eqb n n' then Some v else dget n r
  end.
Fixpoint dset (n : string) (v : idict) (d : added) : added :=
  match d with
  | [] => [(n, v)]
  | (n', v') :: r => if String.eqb n n' then (n, v) :: r else (n', v') :: dset n v r
  end.

(* ------------------------------------------------------------------ sort_molecules *)
Section Discovery.
  Variable sys : Type.
  Variable init_system : list file -> res sys.
  Variable try_add : sys -> file -> option sys.
  Variable name_of : file -> option string.
  Variable pairs_with : file -> file -> bool.

  (* topology_molecues: candidates that parse, in the given (sorted) order, with their molecule name *)
  Fixpoint parse_tops (tops : list file) : list (file * string) :=
    match tops with
    | [] => []
    | f :: r => match name_of f with
                | Some n => (f, n) :: parse_tops r
                | None => parse_tops r
                end
    end.

  (* first loop: try to add every topology to the system; accepted ones are start topologies *)
  Fixpoint loop1 (s : sys) (tops : list (file * string)) (used : list file) (d : added)
    : sys * list file * added :=
    match tops with
    | [] => (s, used, d)
    | (f, n) :: r =>
        match try_add s f with
        | Some s' => loop1 s' r (f :: used) (dset n [(TopCG, f)] d)
        | None => loop1 s r used d
        end
    end.

  (* second loop: unused topologies whose molecule name is known are end topologies; a repeated one only warns *)
  Fixpoint loop2 (tops : list (file * string)) (used : list file) (d : added) (warnings : nat) : added * nat :=
    match tops with
    | [] => (d, warnings)
    | (f, n) :: r =>
        if negb (mem f used) then
          match dget n d with
          | Some i => if ihas TopAA i then loop2 r used d (S warnings)
                      else loop2 r used (dset n (iset TopAA f i) d) warnings
          | None => loop2 r used d warnings
          end
        else loop2 r used d warnings
    end.

  (* third loop, body for one coordinate file and one dictionary entry *)
  Definition step3_entry (c : file) (e : string * idict) : res (string * idict) :=
    let (n, i) := e in
    if negb (ihas CoorAA i) && ihas TopAA i then
      match iget TopAA i with              (* molecule_info['top_AA'] *)
      | None => Err EKey
      | Some t => if pairs_with c t then Ok (n, iset CoorAA c i) else Ok (n, i)
      end
    else Ok (n, i).

  Fixpoint loop3 (coords : list file) (d : added) : res added :=
    match coords with
    | [] => Ok d
    | c :: r => let* d' := mapM (step3_entry c) d in loop3 r d'
    end.

  (* the three loops on already ordered candidate lists *)
  Definition discover (s0 : sys) (tops coords : list file) : res added :=
    let tm := parse_tops tops in
    match loop1 s0 tm [] [] with
    | (_, used, d1) => loop3 coords (fst (loop2 tm used d1 0))
    end.

  Definition candidates (files : list file) (known : list triple) : list file * list file :=
    let tc := remove_known known (classify_files files) in
    (sorted_set (fst tc), sorted_set (snd tc)).

  Definition sort_molecules (files : list file) (known : list triple) : res added :=
    let tc := candidates files known in
    let* s0 := init_system (map (fun k : triple => fst (fst k)) known) in
    discover s0 (fst tc) (snd tc).

  (* ---------------------------------------------------------------- main *)
  Definition full (i : idict) : bool := Nat.eqb (length i) 3.

  Definition triple_of (i : idict) : res triple :=
    match iget TopCG i, iget CoorAA i, iget TopAA i with
    | Some a, Some b, Some c => Ok (a, b, c)
    | _, _, _ => Err EKey
    end.

  Definition excluded (exclude : option (list string)) (n : string) : bool :=
    match exclude with Some ex => mem n ex | None => false end.

  Fixpoint auto_append (exclude : option (list string)) (d : added) (mols : list triple) : res (list triple) :=
    match d with
    | [] => Ok mols
    | (n, i) :: r =>
        if full i then
          if excluded exclude n then auto_append exclude r mols
          else let* t := triple_of i in auto_append exclude r (mols ++ [t])%list
        else auto_append exclude r mols
    end.

  (* the `molecules` list main passes to auto_map *)
  Definition main_molecules (mol : option (list triple)) (auto : option (list file))
             (exclude : option (list string)) : res (list triple) :=
    let molecules := match mol with Some m => m | None => [] end in
    match auto with
    | None => Ok molecules
    | Some files => let* d := sort_molecules files molecules in auto_append exclude d molecules
    end.
End Discovery.

(* auto_map: where the mapped system is written *)
Definition out_path (outfile : option string) (init_coor : string) : string :=
  match outfile with
  | Some o => o
  | None => let (folder, base) := os_split init_coor in os_join folder ("mapped_" ++ base)
  end.

(* ------------------------------------------------------------------ a reference instance of the oracles
   (executed by the correspondence check and by the Examples): the start system is the stream of residue
   kinds of the reference coordinate file (None = consumed, numpy's -1); a topology is its residue-kind
   pattern (None = a (resname, length) that does not occur in the file), whether its atom names match, and its
   molecule name.  Windows that run off the end of the stream do not match (numpy's broadcasting of a
   length-1 tail is C11's business and cannot occur before a whole instance has been seen). *)
Record topdata := { td_name : option string; td_sig : option (list nat); td_names_ok : bool }.
Definition cstream := list (option nat).

Fixpoint window_matches (pat : list nat) (st : cstream) : bool :=
  match pat, st with
  | [], _ => true
  | p :: pr, Some k :: sr => Nat.eqb p k && window_matches pr sr
  | _, _ => false
  end.
Fixpoint has_window (pat : list nat) (st : cstream) : bool :=
  match st with
  | [] => false
  | _ :: r => window_matches pat st || has_window pat r
  end.
Fixpoint consume (fuel : nat) (pat : list nat) (st : cstream) : cstream :=
  match fuel with
  | O => st
  | S k =>
      match st with
      | [] => []
      | x :: r =>
          if window_matches pat st
          then (repeat None (length pat) ++ consume k pat (skipn (length pat) st))%list
          else x :: consume k pat r
      end
  end.

Fixpoint tlookup {A} (f : file) (tbl : list (file * A)) : option A :=
  match tbl with
  | [] => None
  | (g, a) :: r => if String.eqb f g then Some a else tlookup f r
  end.

Definition ref_try_add (tbl : list (file * topdata)) (s : cstream) (f : file) : option cstream :=
  match tlookup f tbl with
  | None => None                                       (* no such file: FileNotFoundError is an OSError *)
  | Some td =>
      match td_name td, td_sig td with
      | Some _, Some (p :: pr) =>
          if has_window (p :: pr) s && td_names_ok td then Some (consume (length s) (p :: pr) s) else None
      | _, _ => None
      end
  end.
Definition ref_name_of (tbl : list (file * topdata)) (f : file) : option string :=
  match tlookup f tbl with Some td => td_name td | None => None end.
Fixpoint ref_init (tbl : list (file * topdata)) (s : cstream) (tops : list file) : res cstream :=
  match tops with
  | [] => Ok s
  | f :: r => match ref_try_add tbl s f with Some s' => ref_init tbl s' r | None => Err EIO end
  end.
Definition ref_pairs (pairs : list (file * file)) (c t : file) : bool :=
  existsb (fun p => String.eqb c (fst p) && String.eqb t (snd p)) pairs.

Definition ref_sort_molecules (stream : cstream) (tbl : list (file * topdata)) (pairs : list (file * file))
           (files : list file) (known : list triple) : res added :=
  sort_molecules cstream (ref_init tbl stream) (ref_try_add tbl) (ref_name_of tbl) (ref_pairs pairs) files known.
Definition ref_main_molecules (stream : cstream) (tbl : list (file * topdata)) (pairs : list (file * file))
           (mol : option (list triple)) (auto : option (list file)) (exclude : option (list string))
  : res (list triple) :=
  main_molecules cstream (ref_init tbl stream) (ref_try_add tbl) (ref_name_of tbl) (ref_pairs pairs) mol auto exclude.
