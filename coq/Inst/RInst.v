(* The real-number instance: all theorems are stated here. *)
From Coq Require Import Reals ZArith.
From Flocq Require Import Core.Raux Core.Generic_fmt Core.Round_NE.
From GM Require Import Base.Scalar.

Definition Rleb (x y : R) : bool := if Rle_dec x y then true else false.
Definition Rltb (x y : R) : bool := if Rlt_dec x y then true else false.
Definition Reqb' (x y : R) : bool := if Req_EM_T x y then true else false.

#[global] Instance RScalar : Scalar R := {|
  s0 := 0%R; s1 := 1%R;
  sadd := Rplus; ssub := Rminus; smul := Rmult; sdiv := Rdiv;
  sopp := Ropp; ssqrt := sqrt;
  sleb := Rleb; sltb := Rltb; seqb := Reqb';
  sround := fun x => IZR (ZnearestE x);
  sofZ := IZR;
  sofQ := fun n d => (IZR n / IZR d)%R
|}.

Lemma Rleb_true x y : Rleb x y = true <-> (x <= y)%R.
Proof. unfold Rleb; destruct (Rle_dec x y); split; auto; discriminate. Qed.
Lemma Rleb_false x y : Rleb x y = false <-> (y < x)%R.
Proof. unfold Rleb; destruct (Rle_dec x y); split; auto; try discriminate.
  intros; exfalso; apply (Rlt_irrefl x); eapply Rle_lt_trans; eauto.
  intros; apply Rnot_le_lt; auto. Qed.
Lemma Rltb_true x y : Rltb x y = true <-> (x < y)%R.
Proof. unfold Rltb; destruct (Rlt_dec x y); split; auto; discriminate. Qed.
Lemma Rltb_false x y : Rltb x y = false <-> (y <= x)%R.
Proof. unfold Rltb; destruct (Rlt_dec x y); split; auto; try discriminate.
  intros; exfalso; apply (Rlt_irrefl x); eapply Rlt_le_trans; eauto.
  intros; apply Rnot_lt_le; auto. Qed.
Lemma Reqb'_true x y : Reqb' x y = true <-> x = y.
Proof. unfold Reqb'; destruct (Req_EM_T x y); split; auto; discriminate. Qed.
Lemma Reqb'_false x y : Reqb' x y = false <-> x <> y.
Proof. unfold Reqb'; destruct (Req_EM_T x y); split; auto; try discriminate. contradiction. Qed.
