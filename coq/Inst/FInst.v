(* The binary64 instance (Coq primitive floats): used only to execute the
   models against the implementation's observations. *)
From Coq Require Import ZArith Uint63 PrimFloat List.
From GM Require Import Base.Scalar.

Definition f_ofZ (z : Z) : float :=
  match z with
  | Z0 => 0%float
  | Zpos _ => of_uint63 (Uint63.of_Z z)
  | Zneg p => (- of_uint63 (Uint63.of_Z (Zpos p)))%float
  end.

Definition two52 : float := 0x1p+52%float.
(* round half to even for |x| < 2^52; identity beyond (already integral) *)
Definition f_round (x : float) : float :=
  if (abs x <? two52)%float then
    (if (x <? 0)%float then - ((- x + two52) - two52) else (x + two52) - two52)%float
  else x.

#[global] Instance FScalar : Scalar float := {|
  s0 := 0%float; s1 := 1%float;
  sadd := PrimFloat.add; ssub := PrimFloat.sub; smul := PrimFloat.mul; sdiv := PrimFloat.div;
  sopp := PrimFloat.opp; ssqrt := PrimFloat.sqrt;
  sleb := PrimFloat.leb; sltb := PrimFloat.ltb; seqb := PrimFloat.eqb;
  sround := f_round;
  sofZ := f_ofZ;
  sofQ := fun n d => (f_ofZ n / f_ofZ d)%float
|}.

(* comparison helpers for the correspondence checks *)
Definition f_isnan (x : float) : bool := negb (x =? x)%float.
Definition f_close (tol a b : float) : bool :=
  if f_isnan a then f_isnan b else
  (abs (a - b) <=? tol * (1 + abs b))%float.
Definition f_finite (x : float) : bool := (abs x <? infinity)%float.
