(* Byte strings and decimal text for the .gro codec (C13, C14).

   Files and lines are [list ascii] (ASCII bytes).  Only definitions live here (so the
   executable model keeps evaluating when a proof breaks); the characterising lemmas are
   in Proofs/GroStr.v.

   Python operations modelled (verified against CPython 3 by the correspondence K):
     str.strip() / str.split()         whitespace = 9-13, 28-31, 32      [is_space_py]
     int(s) / float(s)                 whitespace = 9-13, 32 (C isspace) [is_space_c]
     int(s)      sign, decimal digits with single underscores between digits
     float(s)    the fixed-point subset  [sign] digits [. digits] | [sign] . digits ;
                 strings Python may accept outside this subset (exponent, inf, nan,
                 underscores) give [Err EType] = "outside the model" (K: indeterminate)
     '{:d}' '{:5d}' '{:9d}'            [fmt_Z], [lpad]
     '{:5s}' '{:>5s}'                  [rpad], [lpad]
     '{:W.Df}' of a float              [fmt_f] applied to the correctly rounded decimal
                                       (sign, mantissa scaled by 10^D) of the float, which
                                       the harness obtains from Python itself (trusted)   *)
From Coq Require Import List Ascii NArith ZArith Bool Arith.
From Coq Require String.
From GM Require Import Base.Res.
Import ListNotations.
Local Open Scope char_scope.

Definition bytes := list ascii.
Definition bs (s : String.string) : bytes := String.list_ascii_of_string s.

Definition NL : ascii := "010".
Definition SP : ascii := " ".
Definition NUL : ascii := "000".

Definition ccode (c : ascii) : N := N_of_ascii c.

(* whitespace of str.strip()/str.split() on ASCII text *)
Definition is_space_py (c : ascii) : bool :=
  let n := ccode c in
  ((9 <=? n) && (n <=? 13) || (28 <=? n) && (n <=? 32))%N.
(* whitespace skipped by int()/float() on an ASCII str (Py_ISSPACE) *)
Definition is_space_c (c : ascii) : bool :=
  let n := ccode c in
  ((9 <=? n) && (n <=? 13) || (n =? 32))%N.

Definition is_digit (c : ascii) : bool :=
  let n := ccode c in ((48 <=? n) && (n <=? 57))%N.
Definition digit_val (c : ascii) : N := (ccode c - 48)%N.   (* used only under is_digit *)
Definition digit_char (d : N) : ascii :=
  match d with
  | 0 => "0" | 1 => "1" | 2 => "2" | 3 => "3" | 4 => "4"
  | 5 => "5" | 6 => "6" | 7 => "7" | 8 => "8" | _ => "9"
  end%N.

Definition isnil {A} (l : list A) : bool := match l with [] => true | _ => false end.

Fixpoint dropwhile {A} (p : A -> bool) (l : list A) : list A :=
  match l with
  | [] => []
  | c :: r => if p c then dropwhile p r else l
  end.
Fixpoint span {A} (p : A -> bool) (l : list A) : list A * list A :=
  match l with
  | [] => ([], [])
  | c :: r => if p c then let (a, b) := span p r in (c :: a, b) else ([], l)
  end.
Definition strip_with (p : ascii -> bool) (l : bytes) : bytes :=
  rev (dropwhile p (rev (dropwhile p l))).
Definition strip_py := strip_with is_space_py.
Definition strip_c := strip_with is_space_c.

(* str.split(): maximal runs of non-whitespace.  [toks l] = (the token that starts at the
   head of l, possibly empty; the tokens after it). *)
Fixpoint toks (l : bytes) : bytes * list bytes :=
  match l with
  | [] => ([], [])
  | c :: r =>
      let (cur, rest) := toks r in
      if is_space_py c then ([], if isnil cur then rest else cur :: rest)
      else (c :: cur, rest)
  end.
Definition split_ws (l : bytes) : list bytes :=
  let (cur, rest) := toks l in if isnil cur then rest else cur :: rest.

Fixpoint count_char (c : ascii) (l : bytes) : nat :=
  match l with
  | [] => 0
  | x :: r => (if Ascii.eqb x c then 1 else 0) + count_char c r
  end.

(* s[:n], s[n:] at once *)
Definition chop (n : nat) (l : bytes) : bytes * bytes := (firstn n l, skipn n l).

Definition last_opt {A} (l : list A) : option A :=
  match rev l with [] => None | c :: _ => Some c end.
(* s[:-1] if s ends in a newline *)
Definition drop_final_nl (l : bytes) : bytes :=
  match rev l with
  | c :: r => if Ascii.eqb c NL then rev r else l
  | [] => l
  end.

Definition lpad (w : nat) (l : bytes) : bytes := repeat SP (w - length l) ++ l.
Definition rpad (w : nat) (l : bytes) : bytes := l ++ repeat SP (w - length l).

(* ------------------------------------------------------------------ decimal digits *)
(* exactly k digits: n mod 10^k, zero padded *)
Fixpoint digs_k (k : nat) (n : N) : bytes :=
  match k with
  | O => []
  | S k' => digs_k k' (n / 10)%N ++ [digit_char (n mod 10)%N]
  end.
(* drop leading zeros, keep the last digit *)
Fixpoint lstrip0 (l : bytes) : bytes :=
  match l with
  | c :: (_ :: _) as r => if Ascii.eqb c "0" then lstrip0 r else l
  | _ => l
  end.
(* the decimal numeral of n without leading zeros.  N.size n (bit length) digits are
   always enough (10^k >= 2^k > n), one more so that 0 gives "0". *)
Definition to_digits (n : N) : bytes := lstrip0 (digs_k (S (N.to_nat (N.size n))) n).

(* value of a digit string (callers check is_digit first) *)
Definition of_digits (l : bytes) : N :=
  fold_left (fun a c => (10 * a + digit_val c)%N) l 0%N.

Definition fmt_Z (z : Z) : bytes :=
  match z with
  | Zneg p => "-" :: to_digits (Npos p)
  | _ => to_digits (Z.to_N z)
  end.

(* int() body: digit (_? digit)* *)
Fixpoint int_body (l : bytes) (acc : N) (prev_digit : bool) : option N :=
  match l with
  | [] => if prev_digit then Some acc else None
  | c :: r =>
      if is_digit c then int_body r (10 * acc + digit_val c)%N true
      else if Ascii.eqb c "_" && prev_digit then int_body r acc false
      else None
  end.
(* optional sign *)
Definition split_sign (s : bytes) : bool * bytes :=
  match s with
  | c :: r => if Ascii.eqb c "-" then (true, r)
              else if Ascii.eqb c "+" then (false, r) else (false, s)
  | [] => (false, s)
  end.
Definition py_int (l : bytes) : res Z :=
  let s := strip_c l in
  let (neg, body) := split_sign s in
  match int_body body 0%N false with
  | Some n => Ok (if neg then (- Z.of_N n)%Z else Z.of_N n)
  | None => Err EValue
  end.

(* ------------------------------------------------------------------ fixed point *)
(* a decimal to be written with a known number D of decimals: value = (-1)^neg * mant / 10^D *)
Record dec := mkdec { dneg : bool; dmant : N }.
(* a decimal as read: number of decimals found in the text *)
Record pdec := mkpdec { pneg : bool; pmant : N; pdecs : nat }.

Definition pow10 (d : nat) : N := (10 ^ N.of_nat d)%N.

Definition fmt_f_body (d : nat) (v : dec) : bytes :=
  (if dneg v then ["-"] else []) ++
  to_digits (dmant v / pow10 d)%N ++
  match d with O => [] | _ => "." :: digs_k d (dmant v mod pow10 d)%N end.
Definition fmt_f (w d : nat) (v : dec) : bytes := lpad w (fmt_f_body d v).

(* characters that can occur in a string accepted by float() *)
Definition float_alphabet (c : ascii) : bool :=
  is_digit c ||
  existsb (Ascii.eqb c)
    ["+"; "-"; "."; "_"; "e"; "E"; "i"; "I"; "n"; "N"; "f"; "F"; "t"; "T"; "y"; "Y"; "a"; "A"].

(* over this alphabet the fixed-point grammar below is all that float() accepts *)
Definition plain_alphabet (c : ascii) : bool :=
  is_digit c || existsb (Ascii.eqb c) ["+"; "-"; "."].

Definition parse_float (l : bytes) : res pdec :=
  let s := strip_c l in
  let fail := if forallb float_alphabet s && negb (forallb plain_alphabet s)
              then Err EType else Err EValue in
  let (neg, body) := split_sign s in
  let (ip, rest) := span is_digit body in
  match rest with
  | [] => if isnil ip then fail else Ok (mkpdec neg (of_digits ip) 0)
  | c :: fp =>
      if Ascii.eqb c "." && forallb is_digit fp && negb (isnil ip && isnil fp)
      then Ok (mkpdec neg (of_digits ip * pow10 (length fp) + of_digits fp)%N (length fp))
      else fail
  end.

(* ------------------------------------------------------------------ file access *)
(* up to and including the first newline *)
Fixpoint take_line (l : bytes) : bytes :=
  match l with
  | [] => []
  | c :: r => if Ascii.eqb c NL then [c] else c :: take_line r
  end.
(* file.seek(pos); file.readline(); file.tell()  (text mode, ASCII, "\n" line ends) *)
Definition readline_at (f : bytes) (pos : nat) : bytes * nat :=
  let line := take_line (skipn pos f) in (line, pos + length line).
(* file.seek(pos); file.write(data): overwrite, extend, zero-fill a gap *)
Definition write_at (pos : nat) (data f : bytes) : bytes :=
  firstn pos f ++ repeat NUL (pos - length f) ++ data ++ skipn (pos + length data) f.

(* text the model covers: 7-bit, no carriage return (universal-newline translation) *)
Definition in_model_char (c : ascii) : bool :=
  let n := ccode c in ((n <? 128) && negb (n =? 13))%N.
