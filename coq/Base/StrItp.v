(* The Python string functions used by gaddlemaps/parsers/_itp_parse.py and _top_parsers.py,
   on ASCII text (str := list ascii).  Definitions only + small characterising lemmas;
   the heavier lemmas are in Proofs/ItpStr.v.

   Trusted correspondence with CPython (checked on every run by K on generated tokens/lines):
   str.strip / str.split() use the ASCII isspace set {9..13, 28..31, 32}; int() accepts
   [C-ws] [+-] digits with single underscores between digits [ws]; float() accepts the grammar
   of float_plain below; CPython's 4300-digit limit of int() is NOT modelled. *)
From Coq Require Import List Ascii String ZArith NArith Bool Lia.
From GM Require Import Base.Res.
Import ListNotations.
Local Open Scope char_scope.

Definition str := list ascii.
Definition la (s : string) : str := list_ascii_of_string s.

Definition ch_nl : ascii := ascii_of_nat 10.

Definition ccode (c : ascii) : N := N_of_ascii c.
Definition in_range (lo hi : N) (c : ascii) : bool := (N.leb lo (ccode c) && N.leb (ccode c) hi)%bool.

(* str.isspace on ASCII: \t \n \v \f \r, FS GS RS US, space *)
Definition is_space (c : ascii) : bool := in_range 9 13 c || in_range 28 32 c.
(* C isspace, used by int() and float() on ASCII text: FS GS RS US are NOT skipped there *)
Definition is_cspace (c : ascii) : bool := in_range 9 13 c || in_range 32 32 c.
Definition is_digit (c : ascii) : bool := in_range 48 57 c.
Definition digit_val (c : ascii) : N := (ccode c - 48)%N.

Fixpoint str_eqb (a b : str) : bool :=
  match a, b with
  | [], [] => true
  | x :: a', y :: b' => Ascii.eqb x y && str_eqb a' b'
  | _, _ => false
  end.

Definition mem (c : ascii) (s : str) : bool := existsb (Ascii.eqb c) s.
Definition nonempty (s : str) : bool := match s with [] => false | _ => true end.

Fixpoint dropwhile (p : ascii -> bool) (s : str) : str :=
  match s with
  | [] => []
  | c :: r => if p c then dropwhile p r else s
  end.
Fixpoint takewhile (p : ascii -> bool) (s : str) : str :=
  match s with
  | [] => []
  | c :: r => if p c then c :: takewhile p r else []
  end.

Definition lstrip (s : str) : str := dropwhile is_space s.
Definition rstrip (s : str) : str := rev (dropwhile is_space (rev s)).
Definition strip (s : str) : str := rstrip (lstrip s).
Definition cstrip (s : str) : str := rev (dropwhile is_cspace (rev (dropwhile is_cspace s))).
Definition is_blank (s : str) : bool := forallb is_space s.      (* not s.strip() *)

Definition startswith (c : ascii) (s : str) : bool :=
  match s with x :: _ => Ascii.eqb x c | [] => false end.

Fixpoint prefixb (a b : str) : bool :=
  match a, b with
  | [], _ => true
  | x :: a', y :: b' => Ascii.eqb x y && prefixb a' b'
  | _ :: _, [] => false
  end.
(* a in b  (substring) *)
Fixpoint is_substring (a b : str) : bool :=
  prefixb a b || match b with [] => false | _ :: r => is_substring a r end.

(* s.split(): maximal runs of non-space characters *)
Definition cons_first (c : ascii) (l : list str) : list str :=
  match l with t :: ts => (c :: t) :: ts | [] => [[c]] end.
Fixpoint split_ws (s : str) : list str :=
  match s with
  | [] => []
  | c :: r =>
      if is_space c then split_ws r
      else match r with
           | [] => [[c]]
           | c' :: _ => if is_space c' then [c] :: split_ws r else cons_first c (split_ws r)
           end
  end.

(* first occurrence of d: (before, after); s.split(d) then (spl[0], d.join(spl[1:])) *)
Fixpoint cut_at (d : ascii) (s : str) : option (str * str) :=
  match s with
  | [] => None
  | c :: r => if Ascii.eqb c d then Some ([], r)
              else match cut_at d r with Some (a, b) => Some (c :: a, b) | None => None end
  end.

(* everything before the LAST occurrence of d *)
Fixpoint upto_last (d : ascii) (s : str) : option str :=
  match s with
  | [] => None
  | c :: r => match upto_last d r with
              | Some a => Some (c :: a)
              | None => if Ascii.eqb c d then Some [] else None
              end
  end.

Definition last_opt (s : str) : option ascii :=
  match rev s with c :: _ => Some c | [] => None end.
Definition last_is (c : ascii) (s : str) : bool :=
  match last_opt s with Some x => Ascii.eqb x c | None => false end.

Definition not_nl (c : ascii) : bool := negb (Ascii.eqb c ch_nl).

(* re.match of '[' any-chars ']' : '[' first, then a ']' before the first newline *)
Definition re_header (s : str) : bool :=
  match s with
  | c :: r => Ascii.eqb c "[" && mem "]" (takewhile not_nl r)
  | [] => false
  end.

(* re.findall with the pattern '[' group(any chars) ']', first match: leftmost '[' that has a ']' on the same line; group up to the last such ']' *)
Fixpoint re_group (s : str) : res str :=
  match s with
  | [] => Err EIndex
  | c :: r => if Ascii.eqb c "["
              then match upto_last "]" (takewhile not_nl r) with
                   | Some g => Ok g
                   | None => re_group r
                   end
              else re_group r
  end.

(* the file iterator: lines keep their newline; the last one may lack it *)
Fixpoint lines (s : str) : list str :=
  match s with
  | [] => []
  | c :: r => if Ascii.eqb c ch_nl then [c] :: lines r
              else match r with
                   | [] => [[c]]
                   | _ => cons_first c (lines r)
                   end
  end.

(* ---------------------------------------------------------------- int() *)
Fixpoint int_body (s : str) (prev_digit : bool) (acc : N) : option N :=
  match s with
  | [] => if prev_digit then Some acc else None
  | c :: r => if is_digit c then int_body r true (10 * acc + digit_val c)%N
              else if Ascii.eqb c "_" then (if prev_digit then int_body r false acc else None)
              else None
  end.

Definition py_int (s : str) : res Z :=
  match cstrip s with
  | [] => Err EValue
  | c :: r =>
      if Ascii.eqb c "-" then match int_body r false 0 with Some n => Ok (- Z.of_N n)%Z | None => Err EValue end
      else if Ascii.eqb c "+" then match int_body r false 0 with Some n => Ok (Z.of_N n) | None => Err EValue end
      else match int_body (c :: r) false 0 with Some n => Ok (Z.of_N n) | None => Err EValue end
  end.

(* ---------------------------------------------------------------- float(): acceptance only *)
Definition lower (c : ascii) : ascii :=
  if in_range 65 90 c then ascii_of_N (ccode c + 32) else c.
Definition ci_eqb (s : str) (lit : string) : bool := str_eqb (map lower s) (la lit).

Definition skip_sign (s : str) : str :=
  match s with c :: r => if Ascii.eqb c "+" || Ascii.eqb c "-" then r else s | [] => [] end.

Definition float_plain (t : str) : bool :=
  let t1 := skip_sign t in
  if ci_eqb t1 "inf" || ci_eqb t1 "infinity" || ci_eqb t1 "nan" then true else
  let ip := takewhile is_digit t1 in
  let r1 := dropwhile is_digit t1 in
  let '(fp, r2) := match r1 with
                   | c :: r => if Ascii.eqb c "." then (takewhile is_digit r, dropwhile is_digit r) else ([], r1)
                   | [] => ([], [])
                   end in
  if negb (nonempty ip) && negb (nonempty fp) then false else
  match r2 with
  | [] => true
  | e :: r3 => if Ascii.eqb e "e" || Ascii.eqb e "E"
               then let r4 := skip_sign r3 in nonempty r4 && forallb is_digit r4
               else false
  end.

(* underscores only between two digits *)
Fixpoint us_ok (s : str) (prev_digit : bool) : bool :=
  match s with
  | [] => true
  | c :: r => if Ascii.eqb c "_"
              then prev_digit && match r with d :: _ => is_digit d | [] => false end && us_ok r false
              else us_ok r (is_digit c)
  end.

Definition py_float_ok (s : str) : bool :=
  let t := cstrip s in
  if mem "_" t then us_ok t false && float_plain (filter (fun c => negb (Ascii.eqb c "_")) t)
  else float_plain t.

(* ---------------------------------------------------------------- small facts *)
Lemma str_eqb_eq a b : str_eqb a b = true <-> a = b.
Proof.
  revert b; induction a as [|x a IH]; destruct b as [|y b]; simpl; split; intros H;
    try reflexivity; try discriminate.
  - apply andb_true_iff in H as [H1 H2]. apply Ascii.eqb_eq in H1. apply IH in H2. congruence.
  - inversion H; subst. rewrite Ascii.eqb_refl. simpl. apply IH. reflexivity.
Qed.

Lemma str_eqb_refl a : str_eqb a a = true.
Proof. apply str_eqb_eq. reflexivity. Qed.

Lemma str_eqb_neq a b : str_eqb a b = false <-> a <> b.
Proof.
  split; intros H.
  - intros E. apply str_eqb_eq in E. congruence.
  - destruct (str_eqb a b) eqn:E; [apply str_eqb_eq in E; contradiction | reflexivity].
Qed.

Lemma mem_In c s : mem c s = true <-> In c s.
Proof.
  unfold mem. rewrite existsb_exists. split.
  - intros [x [H1 H2]]. apply Ascii.eqb_eq in H2. subst. exact H1.
  - intros H. exists c. split; [exact H | apply Ascii.eqb_refl].
Qed.

Lemma mem_false c s : mem c s = false <-> ~ In c s.
Proof.
  split; intros H.
  - intros E. apply mem_In in E. congruence.
  - destruct (mem c s) eqn:E; [apply mem_In in E; contradiction | reflexivity].
Qed.

Lemma cut_at_some d s a b : cut_at d s = Some (a, b) -> s = a ++ d :: b /\ ~ In d a.
Proof.
  revert a b; induction s as [|c r IH]; simpl; intros a b H; [discriminate|].
  destruct (Ascii.eqb c d) eqn:E.
  - apply Ascii.eqb_eq in E. inversion H; subst. simpl. split; [reflexivity | tauto].
  - destruct (cut_at d r) as [[a' b']|] eqn:C; [|discriminate]. inversion H; subst.
    destruct (IH _ _ eq_refl) as [E1 E2]. subst r. split; [reflexivity|].
    intros [F|F]; [subst; rewrite Ascii.eqb_refl in E; discriminate | tauto].
Qed.

Lemma cut_at_none d s : cut_at d s = None <-> ~ In d s.
Proof.
  induction s as [|c r IH]; simpl; [tauto|].
  destruct (Ascii.eqb c d) eqn:E.
  - apply Ascii.eqb_eq in E. subst. split; [discriminate | intros H; exfalso; apply H; left; reflexivity].
  - destruct (cut_at d r) as [[a b]|].
    + split; [discriminate|]. intros H. exfalso. destruct IH as [_ IH].
      assert (In d r -> False) as H1 by (intros F; apply H; right; exact F).
      specialize (IH H1). discriminate.
    + split; [|reflexivity]. intros _ [F|F]; [subst; rewrite Ascii.eqb_refl in E; discriminate|].
      apply IH in F; [exact F | reflexivity].
Qed.

Lemma cut_at_app d a b : ~ In d a -> cut_at d (a ++ d :: b) = Some (a, b).
Proof.
  induction a as [|c a IH]; simpl; intros H.
  - rewrite Ascii.eqb_refl. reflexivity.
  - destruct (Ascii.eqb c d) eqn:E; [apply Ascii.eqb_eq in E; subst; tauto|].
    rewrite IH; [reflexivity | tauto].
Qed.
