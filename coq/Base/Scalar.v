(* One polymorphic scalar interface; instantiated at R (theorems) and at
   PrimFloat binary64 (execution for the correspondence check). *)
From Coq Require Import ZArith.

Class Scalar (T : Type) := {
  s0 : T; s1 : T;
  sadd : T -> T -> T; ssub : T -> T -> T; smul : T -> T -> T; sdiv : T -> T -> T;
  sopp : T -> T; ssqrt : T -> T;
  sleb : T -> T -> bool;     (* <= *)
  sltb : T -> T -> bool;     (* <  *)
  seqb : T -> T -> bool;     (* == (IEEE: nan <> nan) *)
  sround : T -> T;           (* round half to even, as numpy.round *)
  sofZ : Z -> T;
  sofQ : Z -> Z -> T         (* the constant num/den, den > 0 *)
}.

Declare Scope scalar_scope.
Delimit Scope scalar_scope with S.
Infix "+" := sadd : scalar_scope.
Infix "-" := ssub : scalar_scope.
Infix "*" := smul : scalar_scope.
Infix "/" := sdiv : scalar_scope.
Notation "- x" := (sopp x) : scalar_scope.
Infix "<=?" := sleb : scalar_scope.
Infix "<?" := sltb : scalar_scope.
Infix "=?" := seqb : scalar_scope.
