(* Result type for partial functions: nothing in the models is totalised. *)
From Coq Require Import List.
Import ListNotations.

Inductive err : Type :=
| EDiv0 | EIndex | EKey | EValue | EType | EIO | ERecursion | EFuel | ESystem | EStop.

Inductive res (A : Type) : Type :=
| Ok : A -> res A
| Err : err -> res A.
Arguments Ok {A} _.
Arguments Err {A} _.

Definition bind {A B} (r : res A) (f : A -> res B) : res B :=
  match r with Ok a => f a | Err e => Err e end.
Definition rmap {A B} (f : A -> B) (r : res A) : res B :=
  match r with Ok a => Ok (f a) | Err e => Err e end.

Declare Scope res_scope.
Delimit Scope res_scope with res.
Notation "'let*' x ':=' c1 'in' c2" := (bind c1 (fun x => c2))
  (at level 61, x pattern, c1 at next level, right associativity) : res_scope.
Open Scope res_scope.

Definition is_ok {A} (r : res A) : bool := match r with Ok _ => true | Err _ => false end.

Fixpoint mapM {A B} (f : A -> res B) (l : list A) : res (list B) :=
  match l with
  | [] => Ok []
  | x :: xs => let* y := f x in let* ys := mapM f xs in Ok (y :: ys)
  end.

Definition nth_res {A} (l : list A) (n : nat) : res A :=
  match nth_error l n with Some a => Ok a | None => Err EIndex end.

Definition err_eqb (a b : err) : bool :=
  match a, b with
  | EDiv0, EDiv0 | EIndex, EIndex | EKey, EKey | EValue, EValue | EType, EType
  | EIO, EIO | ERecursion, ERecursion | EFuel, EFuel | ESystem, ESystem | EStop, EStop => true
  | _, _ => false
  end.

Lemma bind_ok {A B} (r : res A) (f : A -> res B) b :
  bind r f = Ok b -> exists a, r = Ok a /\ f a = Ok b.
Proof. destruct r; simpl; intros H; [eauto | discriminate]. Qed.

Lemma mapM_length {A B} (f : A -> res B) l l' : mapM f l = Ok l' -> length l' = length l.
Proof.
  revert l'; induction l as [|x xs IH]; simpl; intros l' H.
  - inversion H; reflexivity.
  - destruct (f x); simpl in H; [|discriminate].
    destruct (mapM f xs); simpl in H; [|discriminate].
    inversion H; subst; simpl; f_equal; apply IH; reflexivity.
Qed.

Lemma mapM_nth {A B} (f : A -> res B) l l' n a :
  mapM f l = Ok l' -> nth_error l n = Some a -> exists b, f a = Ok b /\ nth_error l' n = Some b.
Proof.
  revert l' n; induction l as [|x xs IH]; simpl; intros l' n H Hn.
  - destruct n; discriminate.
  - destruct (f x) eqn:Hf; simpl in H; [|discriminate].
    destruct (mapM f xs) eqn:Hm; simpl in H; [|discriminate].
    inversion H; subst. destruct n as [|n]; simpl in *.
    + inversion Hn; subst; eauto.
    + eapply IH; eauto.
Qed.
