(* 3-vectors and 3x3 matrices over a Scalar, written the way numpy evaluates them *)
From Coq Require Import List ZArith.
Import ListNotations.
From GM Require Import Base.Res Base.Scalar.
Local Open Scope scalar_scope.

Section Vec.
Context {T : Type} `{Scalar T}.

Record V3 := mk3 { vx : T; vy : T; vz : T }.

Definition vzero : V3 := mk3 s0 s0 s0.
Definition vadd (a b : V3) : V3 := mk3 (vx a + vx b) (vy a + vy b) (vz a + vz b).
Definition vsub (a b : V3) : V3 := mk3 (vx a - vx b) (vy a - vy b) (vz a - vz b).
Definition vscale (k : T) (a : V3) : V3 := mk3 (k * vx a) (k * vy a) (k * vz a).
Definition vscaler (a : V3) (k : T) : V3 := mk3 (vx a * k) (vy a * k) (vz a * k).
Definition vdivs (a : V3) (k : T) : V3 := mk3 (vx a / k) (vy a / k) (vz a / k).
Definition vneg (a : V3) : V3 := mk3 (- vx a) (- vy a) (- vz a).
Definition vdot (a b : V3) : T := vx a * vx b + vy a * vy b + vz a * vz b.
Definition vnorm2 (a : V3) : T := vdot a a.
Definition vnorm (a : V3) : T := ssqrt (vnorm2 a).
(* numpy.cross for 3-vectors *)
Definition vcross (a b : V3) : V3 :=
  mk3 (vy a * vz b - vz a * vy b) (vz a * vx b - vx a * vz b) (vx a * vy b - vy a * vx b).
Definition vdist2 (a b : V3) : T := vnorm2 (vsub a b).
Definition vdist (a b : V3) : T := vnorm (vsub a b).

(* matrices as three rows *)
Record M3 := mkM { r0 : V3; r1 : V3; r2 : V3 }.
Definition mcol0 (m : M3) := mk3 (vx (r0 m)) (vx (r1 m)) (vx (r2 m)).
Definition mcol1 (m : M3) := mk3 (vy (r0 m)) (vy (r1 m)) (vy (r2 m)).
Definition mcol2 (m : M3) := mk3 (vz (r0 m)) (vz (r1 m)) (vz (r2 m)).
Definition mtrans (m : M3) : M3 := mkM (mcol0 m) (mcol1 m) (mcol2 m).
(* M . v   (np.dot(M, v)) *)
Definition mvec (m : M3) (v : V3) : V3 := mk3 (vdot (r0 m) v) (vdot (r1 m) v) (vdot (r2 m) v).
(* v . M   (np.dot(v, M)) *)
Definition vecm (v : V3) (m : M3) : V3 := mk3 (vdot v (mcol0 m)) (vdot v (mcol1 m)) (vdot v (mcol2 m)).
Definition mmul (a b : M3) : M3 := mkM (vecm (r0 a) b) (vecm (r1 a) b) (vecm (r2 a) b).
Definition mid : M3 := mkM (mk3 s1 s0 s0) (mk3 s0 s1 s0) (mk3 s0 s0 s1).
Definition madd (a b : M3) := mkM (vadd (r0 a) (r0 b)) (vadd (r1 a) (r1 b)) (vadd (r2 a) (r2 b)).
Definition msub (a b : M3) := mkM (vsub (r0 a) (r0 b)) (vsub (r1 a) (r1 b)) (vsub (r2 a) (r2 b)).
Definition mscale (k : T) (a : M3) := mkM (vscale k (r0 a)) (vscale k (r1 a)) (vscale k (r2 a)).
Definition mdet (m : M3) : T := vdot (r0 m) (vcross (r1 m) (r2 m)).
Definition mtrace (m : M3) : T := vx (r0 m) + vy (r1 m) + vz (r2 m).
Definition mouter (a b : V3) : M3 := mkM (vscale (vx a) b) (vscale (vy a) b) (vscale (vz a) b).

(* sums / means of lists the way numpy does for short arrays: left to right *)
Definition vsum (l : list V3) : V3 := fold_left vadd l vzero.
Definition ssum (l : list T) : T := fold_left sadd l s0.
Definition vmean (l : list V3) : V3 := vdivs (vsum l) (sofZ (Z.of_nat (length l))).

End Vec.
Arguments V3 T : clear implicits.
Arguments M3 T : clear implicits.
