"""C02 - exchange map commutes with rigid motion of the reference."""
import numpy as np

import em_common as E

RULE = ("as C01 (references of 3-40 atoms; generic, partially collinear, collinear, grid geometries) plus references of one and "
        "two atoms (random completion points recorded from np.random.rand); the map is applied to Q.ref + t with Q a proper "
        "rotation (random axis/angle; one in eight about a coordinate axis by 90, 120 or 180 degrees) and |t_i| <= 50 nm. "
        "A case is non-trivial when distinct.")

TOL = 1e-8


def unit(v):
    return v / np.linalg.norm(v)


def axis_invariants(x, a, u):
    """distance to the anchor, coordinate along the axis, distance from the axis"""
    d = x - a
    ax = float(np.dot(d, u))
    return np.array([np.linalg.norm(d), ax, np.linalg.norm(d - ax * u)])


def motion_failures(spec, Q, t):
    """the property text for one reference/target pair and one rigid motion; [] = holds"""
    n = spec["n_ref"]
    ref = np.array(spec["ref"], dtype=float)
    Q, t = np.array(Q, dtype=float), np.array(t, dtype=float)
    if E.min_separation(ref) == 0.0:
        return []
    bonds = [tuple(b) for b in spec["bonds"]]
    if n >= 3 and not E.anchors_of(n, bonds):
        return []
    refp = ref @ Q.T + t
    r1 = E.run_impl(spec, ref)
    r2 = E.run_impl(spec, refp)
    for r in (r1, r2):
        if "err" in r:
            return ["raised %s" % r["err"]]
        if not np.isfinite(r["out"]).all():
            return ["non-finite result"]
    o1, o2 = r1["out"], r2["out"]
    bad = []
    if n == 1:
        for k in range(len(o1)):
            d1, d2 = np.linalg.norm(o1[k] - ref[0]), np.linalg.norm(o2[k] - refp[0])
            if abs(d1 - d2) > TOL:
                bad.append("one-atom reference: distance of mapped atom %d to the atom %.12g -> %.12g" % (k, d1, d2))
        return bad[:4]
    if n == 2:
        u1, u2 = unit(ref[1] - ref[0]), unit(refp[1] - refp[0])
        for k in range(len(o1)):
            i1, i2 = axis_invariants(o1[k], ref[0], u1), axis_invariants(o2[k], refp[0], u2)
            if np.abs(i1 - i2).max() > TOL:
                bad.append("two-atom reference: (distance, axial coordinate, distance from axis) of mapped atom %d: %s -> %s" % (
                    k, i1.tolist(), i2.tolist()))
        return bad[:4]
    nb = E.neighbours(n, bonds)
    per = E.per_target_anchor(r1["eq"], len(o1), -1)
    if r1["eq"] != r2["eq"]:
        return ["equivalences differ between the two constructions"]
    for k in range(len(o1)):
        a = per[k]
        if a < 0 or len(nb[a]) < 2:
            bad.append("target atom %d has no valid anchor (%s)" % (k, a))
            continue
        n1, n2 = nb[a][:2]
        w, d1 = unit(ref[n2] - ref[a]), ref[n1] - ref[a]
        margin = np.linalg.norm(np.cross(w, d1)) / np.linalg.norm(d1)
        if margin >= 1e-3:
            err = np.abs(o2[k] - (Q @ o1[k] + t)).max()
            if err > TOL:
                bad.append("mapped atom %d (anchor %d): map(R ref+t) - (R map(ref)+t) = %.3g" % (k, a, err))
        elif margin <= 1e-9:
            i1 = axis_invariants(o1[k], ref[a], w)
            i2 = axis_invariants(o2[k], refp[a], unit(refp[n2] - refp[a]))
            if np.abs(i1 - i2).max() > TOL:
                bad.append("collinear anchor %d: (distance, axial coordinate, distance from axis) of mapped atom %d: %s -> %s" % (
                    a, k, i1.tolist(), i2.tolist()))
        # 1e-9 < margin < 1e-3: neither "generic" nor "exactly collinear"; the property text defines no expectation
    return bad[:4]


def gen_motion(rs):
    return E.random_rotation(rs), rs.uniform(-50, 50, size=3) * (rs.randint(4) > 0)


def _spec2(ref, tgt, s):
    return {"n_ref": len(ref), "graph": "small", "geom": "small_corpus", "bonds": [[0, 1]] if len(ref) == 2 else [],
            "ref": ref, "tgt": tgt, "s": s}


_TG = [[0.1, 0.0, 0.1], [0.0, 0.3, 0.7], [0.5, 0.5, 0.5], [-0.3, 0.1, 0.9]]
_ROTS = [E.rot([1.0, 2.0, 3.0], 0.7), E.rot([0.0, 1.0, 0.0], np.pi / 2), np.eye(3)]
CORPUS = [
    # D2: two-atom reference; the coordinate along the bond was not preserved between calls before the repair
    _spec2([[0.0, 0.0, 0.0], [0.0, 0.0, 1.0]], _TG, 1.0),
    _spec2([[0.0, 0.0, 0.0], [0.3, 0.0, 0.4]], _TG, 0.5),
    _spec2([[1.0, 2.0, 3.0], [1.1, 2.2, 3.3]], _TG, 1.0),
    _spec2([[0.5, 0.5, 0.5]], _TG, 1.0),
    # D1: collinear anchors
    {"n_ref": 3, "graph": "chain", "geom": "collinear_axis", "bonds": [[0, 1], [1, 2]],
     "ref": [[0.0, 0.0, 0.0], [0.0, 0.0, 1.0], [0.0, 0.0, 2.0]], "tgt": _TG, "s": 1.0},
    {"n_ref": 3, "graph": "chain", "geom": "collinear_diag", "bonds": [[0, 1], [1, 2]],
     "ref": [[0.0, 0.0, 0.0], [1.0, 1.0, 1.0], [2.0, 2.0, 2.0]], "tgt": _TG, "s": 0.5},
    {"n_ref": 3, "graph": "chain", "geom": "collinear_int", "bonds": [[0, 1], [1, 2]],
     "ref": [[0.0, 0.0, 0.0], [3.0, 0.0, 4.0], [6.0, 0.0, 8.0]], "tgt": _TG, "s": 1.0},
]


def corpus(ctx):
    S = ctx.cov["S"]
    S["corpus"] = 0
    runs = [(spec, Q, t) for spec in CORPUS for Q in _ROTS for t in ([0.0, 0.0, 0.0], [12.5, -40.0, 3.25])]
    runs += [(spec, _ROTS[0], [12.5, -40.0, 3.25]) for spec in E.shipped_specs(ctx.n(40, 10 ** 6))]
    for spec, Q, t in runs:
        bad = motion_failures(spec, Q, t)
        S["corpus"] += 1
        if bad:
            ctx.violation("rigid motion: " + "; ".join(bad),
                          {"kind": "c02", "spec": spec, "Q": np.array(Q).tolist(), "t": list(t)}, key="motion")


def _item(spec, Q, t, stream):
    refp = np.array(spec["ref"], dtype=float) @ np.array(Q).T + np.array(t)
    return spec, refp, {"kind": "c02", "stream": stream, "Q": np.array(Q).tolist(), "t": np.array(t).tolist()}


def correspondence(ctx):
    rs = ctx.np_rng("K")
    items = [_item(spec, _ROTS[0], [12.5, -40.0, 3.25], "corpus") for spec in CORPUS + E.shipped_specs(ctx.n(40, 10 ** 6))]
    for i in range(ctx.n(270, 4000)):
        spec = E.gen_spec(rs, E.GEOMS_GENERIC[i % len(E.GEOMS_GENERIC)])
        items.append(_item(spec, *gen_motion(rs), "generic"))
    for i in range(ctx.n(150, 2500)):
        spec = E.gen_spec(rs, E.GEOMS_DYADIC[i % len(E.GEOMS_DYADIC)])
        items.append(_item(spec, *gen_motion(rs), "dyadic"))
    for i in range(ctx.n(120, 2000)):
        spec = E.gen_small_spec(rs, 1 + i % 2)
        items.append(_item(spec, *gen_motion(rs), "small"))
    return E.run_K(ctx, items, lambda d: motion_failures(d["spec"], d["Q"], d["t"]))


def oracle(ctx, scale):
    rs = ctx.np_rng("S%d" % scale)
    S = ctx.cov["S"]
    n = ctx.n(400, 6000) * scale
    geoms = ["generic", "generic", "generic", "partial", "collinear_decimal", "collinear_axis", "collinear_diag",
             "collinear_int", "grid", "small1", "small2", "small2"]
    fails = 0
    hist = {}
    for i in range(n):
        gm = geoms[i % len(geoms)]
        spec = E.gen_small_spec(rs, int(gm[-1])) if gm.startswith("small") else E.gen_spec(rs, gm)
        Q, t = gen_motion(rs)
        bad = motion_failures(spec, Q, t)
        hist[gm] = hist.get(gm, 0) + 1
        ctx.count(("S", spec["bonds"], spec["ref"], spec["tgt"], spec["s"], Q.tolist(), t.tolist()))
        if bad:
            fails += 1
            ctx.violation("rigid motion: " + "; ".join(bad),
                          {"kind": "c02", "spec": spec, "Q": Q.tolist(), "t": t.tolist()}, key="motion")
    S["motion_cases_x%d" % scale] = n
    S["input_distribution"] = hist
    S["failures"] = S.get("failures", 0) + fails


def replay(ctx, obj):
    r = obj["replay"]
    if "spec" not in r:
        print("replay names a proof/correspondence, not an input:", r)
        return False
    bad = motion_failures(r["spec"], r["Q"], r["t"])
    print(bad)
    return not bad


def finish(ctx):
    ctx.assumptions = [
        "theorems are exact statements over the real numbers; IEEE rounding is modelled, not verified: the 1e-8 nm tolerance "
        "of the property is checked on the implementation by the S oracle (testing)",
        "full equivariance is proved for anchors in the regular branch of calcule_base (relative collinearity > 1e-6, a condition "
        "proved rotation invariant over R); for the fallback branch and for 1-/2-atom references the three invariants are proved "
        "for every value of the random completion points",
        "the S oracle treats an anchor as generic when its collinearity margin is >= 1e-3 and as exactly collinear when <= 1e-9; "
        "in between the property text defines no expectation and nothing is demanded",
        "np.random.rand returns some vector; the one-atom theorem needs the second draw to be non-zero (p0 + rand2 != p0)",
        "the argument of the call has the bond graph of the construction-time reference (same species)",
    ]
    return ctx.finish(level="proof", rule=RULE,
                      trusted=["numpy/scipy evaluation order (np.dot, np.cross, np.linalg.norm, scipy euclidean) written out by "
                               "hand in coq/Model/ExchangeMap.v and coq/Model/Aux.v",
                               "np.random.rand modelled as an arbitrary recorded vector"])
