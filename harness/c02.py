"""C02 - exchange map commutes with rigid motion of the reference."""
import numpy as np

import em_common as E

RULE = ("as C01 (references of 3-40 atoms; generic, partially collinear, collinear, grid geometries) plus references of one and "
        "two atoms (random completion points recorded from np.random.rand); the map is applied to Q.ref + t with Q a proper "
        "rotation (random axis/angle; one in eight about a coordinate axis by 90, 120 or 180 degrees) and |t_i| <= 50 nm. "
        "Each case is a call SEQUENCE on one map object: first the untouched reference (the construction Molecule object or "
        "a fresh copy), then rigidly moved fresh copies, the construction object again, the construction object moved in "
        "place; every later call is compared with the rigidly moved first result; one moved call in four is a rotation "
        "about one of the reference atoms (that atom keeps its position exactly). "
        "A case is non-trivial when distinct.")

TOL = 1e-8


def unit(v):
    return v / np.linalg.norm(v)


def axis_invariants(x, a, u):
    """distance to the anchor, coordinate along the axis, distance from the axis"""
    d = x - a
    ax = float(np.dot(d, u))
    return np.array([np.linalg.norm(d), ax, np.linalg.norm(d - ax * u)])


def _pair_failures(spec, nb, per, ref, o1, refp, o2, Q, t, label):
    """o1 = map(ref), o2 = map(refp) with refp = Q ref + t: the property text for this pair of calls"""
    n = spec["n_ref"]
    bad = []
    if not (np.isfinite(o1).all() and np.isfinite(o2).all()):
        return ["%s: non-finite result" % label]
    if n == 1:
        for k in range(len(o1)):
            d1, d2 = np.linalg.norm(o1[k] - ref[0]), np.linalg.norm(o2[k] - refp[0])
            if abs(d1 - d2) > TOL:
                bad.append("%s: one-atom reference: distance of mapped atom %d to the atom %.12g -> %.12g" % (label, k, d1, d2))
        return bad
    if n == 2:
        u1, u2 = unit(ref[1] - ref[0]), unit(refp[1] - refp[0])
        for k in range(len(o1)):
            i1, i2 = axis_invariants(o1[k], ref[0], u1), axis_invariants(o2[k], refp[0], u2)
            if np.abs(i1 - i2).max() > TOL:
                bad.append("%s: two-atom reference: (distance, axial coordinate, distance from axis) of mapped atom %d: %s -> %s" % (
                    label, k, i1.tolist(), i2.tolist()))
        return bad
    for k in range(len(o1)):
        a = per[k]
        n1, n2 = nb[a][:2]
        w, d1 = unit(ref[n2] - ref[a]), ref[n1] - ref[a]
        margin = np.linalg.norm(np.cross(w, d1)) / np.linalg.norm(d1)
        if margin > 1.5e-5:
            # not collinear: the plane of the three atoms fixes the frame, full equivariance is demanded - unless the
            # geometry is so ill conditioned that plain rounding of the moved coordinates (|x| eps / (bond * sin phi))
            # could itself reach the tolerance
            lever = np.linalg.norm(o1[k] - ref[a])
            cond = 2 * 2.3e-16 * max(1.0, np.abs(refp).max()) / (min(np.linalg.norm(d1), np.linalg.norm(ref[n2] - ref[a])) * margin)
            if cond * lever > 0.3 * TOL:
                continue
            err = np.abs(o2[k] - (Q @ o1[k] + t)).max()
            if err > TOL:
                bad.append("%s: mapped atom %d (anchor %d, sin of the frame angle %.3g): map(R ref+t) - (R map(ref)+t) = %.3g" % (
                    label, k, a, margin, err))
        elif margin < 6e-8:
            i1 = axis_invariants(o1[k], ref[a], w)
            i2 = axis_invariants(o2[k], refp[a], unit(refp[n2] - refp[a]))
            if np.abs(i1 - i2).max() > TOL:
                bad.append("%s: collinear anchor %d: (distance, axial coordinate, distance from axis) of mapped atom %d: %s -> %s" % (
                    label, a, k, i1.tolist(), i2.tolist()))
        # 6e-8 <= margin <= 1.5e-5: the band around the code's own collinearity threshold (1e-6) where rounding may decide
        # the branch (the K-indeterminate band); nothing is demanded there
    return bad


def plan_steps(spec, plan):
    """plan: list of dict(how, Q, t) - how = "copy" (fresh copy at Q ref + t), "inplace" (the construction object moved in
    place to Q ref + t, then passed), "object" (the construction object as it is; Q, t = its current motion).  Returns the
    steps for E.run_sequence and the motion of every call."""
    ref = np.array(spec["ref"], dtype=float)
    cur = (np.eye(3), np.zeros(3))
    steps, motions = [], []
    for pl in plan:
        pre = []
        for act in pl.get("pre", []):
            # done before the call without calling the map: the construction reference moved rigidly in place, the
            # construction target shifted in place, the equivalences read
            if act["act"] == "ref_inplace":
                Qa, ta = np.array(act["Q"], dtype=float), np.array(act["t"], dtype=float)
                pre.append({"act": "ref_inplace", "pos": (ref @ Qa.T + ta).tolist(), "via": act.get("via", "array")})
                cur = (Qa, ta)
            elif act["act"] == "tgt_inplace":
                pre.append({"act": "tgt_inplace", "pos": (np.array(spec["tgt"], dtype=float) + np.array(act["shift"])).tolist()})
            else:
                pre.append({"act": "read_eq"})
        if pl["how"] == "object":
            st = {"how": "object"}
            motions.append(cur)
        else:
            Q, t = np.array(pl["Q"], dtype=float), np.array(pl["t"], dtype=float)
            pos = ref @ Q.T + t
            if pl.get("pivot") is not None:
                # rotation about a reference atom: that atom keeps its position exactly (t = p - Q p up to rounding)
                pos[pl["pivot"]] = ref[pl["pivot"]]
            st = {"how": pl["how"], "pos": pos.tolist()}
            motions.append((Q, t))
            if pl["how"] == "inplace":
                cur = (Q, t)
        if pre:
            st["pre"] = pre
        steps.append(st)
    return steps, motions


def motion_failures(spec, plan):
    """The property text on a call sequence of ONE map object.  The first call is made on the untouched reference
    (identity motion); every later call, on Q ref + t (fresh copy, or the construction object moved in place, or the
    construction object as it currently is), is compared with the rigidly moved first result."""
    n = spec["n_ref"]
    ref = np.array(spec["ref"], dtype=float)
    if E.min_separation(ref) == 0.0:
        return []
    bonds = [tuple(b) for b in spec["bonds"]]
    if n >= 3 and not E.anchors_of(n, bonds):
        return []
    steps, motions = plan_steps(spec, plan)
    res = E.run_sequence(spec, steps)
    if "err" in res:
        return ["raised %s" % res["err"]]
    nb = E.neighbours(n, bonds)
    per = E.per_target_anchor(res["eq"], len(spec["tgt"]), -1)
    if n >= 3:
        for k in range(len(per)):
            if per[k] < 0 or len(nb[per[k]]) < 2:
                return ["target atom %d has no valid anchor (%s)" % (k, per[k])]
    c0 = res["calls"][0]
    bad = []
    Q0, t0 = motions[0]
    for i in range(1, len(res["calls"])):
        c = res["calls"][i]
        Q = motions[i][0] @ Q0.T                # motion of call i relative to call 0 (identity for call 0 in most plans)
        t = motions[i][1] - Q @ t0
        # both sides are the molecules RETURNED by the map, held by the caller and read at the end of the sequence
        bad += _pair_failures(spec, nb, per, c0["pos"], c0["out_end"], c["pos"], c["out_end"], Q, t,
                              "call %d of the sequence (%s) vs call 0" % (i, c["how"]))
    if not res["tgt_unchanged"]:
        bad.append("the target molecule passed to the constructor was modified by the calls")
    if not res["eq_stable"]:
        bad.append("the public equivalences changed between construction and the end of the sequence")
    bad = res["held_problems"][:2] + bad
    return bad[:4]


IDENT = {"Q": np.eye(3).tolist(), "t": [0.0, 0.0, 0.0]}
C02_PATTERNS = [["copy0", "copy"], ["copy0", "copy"], ["object", "copy", "object"], ["object", "inplace", "object", "copy"],
                ["copy0", "copy", "object", "inplace", "restore"], ["object", "copy", "copy", "object"],
                ["copy0", "deepcopy"], ["object", "separate", "deepcopy"], ["copy0", "separate"], ["object", "separate"],
                # the construction molecules modified in place before the FIRST call (M reference, T target, E: the
                # equivalences read): the first call is then made on a moved reference and is the baseline
                ["inplace", "copy0", "copy"], ["EM:object", "copy", "copy0"], ["T:copy0", "copy"], ["ETM:copy", "object"]]


def gen_plan(rs, pattern=None, spec=None):
    """spec given: one moved call in four is a rotation about one of the reference atoms (that atom does not move)"""
    if pattern is None:
        pattern = C02_PATTERNS[rs.randint(len(C02_PATTERNS))]
    plan = []
    for tok in pattern:
        flags, how = E.split_token(tok)
        pre = []
        if "E" in flags:
            pre.append({"act": "read_eq"})
        if "M" in flags:
            Qa, ta = gen_motion(rs)
            pre.append({"act": "ref_inplace", "Q": Qa.tolist(), "t": ta.tolist(), "via": str(rs.choice(["array", "atoms", "move"]))})
        if "T" in flags:
            pre.append({"act": "tgt_inplace", "shift": rs.normal(size=3).tolist()})
        n_before = len(plan)
        if how == "object":
            plan.append({"how": "object"})
        elif how == "copy0":
            plan.append(dict(IDENT, how="copy"))
        elif how == "restore":
            plan.append(dict(IDENT, how="inplace"))
        else:
            Q, t = gen_motion(rs)
            pl = {"how": how, "Q": Q.tolist(), "t": t.tolist()}
            if spec is not None and rs.randint(4) == 0:
                a = int(rs.randint(spec["n_ref"]))
                p = np.array(spec["ref"][a], dtype=float)
                pl["t"] = (p - Q @ p).tolist()
                pl["pivot"] = a
            plan.append(pl)
        if pre:
            plan[n_before]["pre"] = pre
    return plan


def single_plan(Q, t):
    return [dict(IDENT, how="copy"), {"how": "copy", "Q": np.array(Q).tolist(), "t": np.array(t, dtype=float).tolist()}]


def sequence_plan(Q, t):
    return [{"how": "object"}, {"how": "copy", "Q": np.array(Q).tolist(), "t": np.array(t, dtype=float).tolist()},
            {"how": "object"}, {"how": "inplace", "Q": np.array(Q).tolist(), "t": np.array(t, dtype=float).tolist()},
            {"how": "object"}]


def gen_motion(rs):
    return E.random_rotation(rs), rs.uniform(-50, 50, size=3) * (rs.randint(4) > 0)


def _spec2(ref, tgt, s):
    return {"n_ref": len(ref), "graph": "small", "geom": "small_corpus", "bonds": [[0, 1]] if len(ref) == 2 else [],
            "ref": ref, "tgt": tgt, "s": s}


_TG = [[0.1, 0.0, 0.1], [0.0, 0.3, 0.7], [0.5, 0.5, 0.5], [-0.3, 0.1, 0.9]]
_ROTS = [E.rot([1.0, 2.0, 3.0], 0.7), E.rot([0.0, 1.0, 0.0], np.pi / 2), np.eye(3)]
CORPUS = [
    # D2: two-atom reference; the coordinate along the bond was not preserved between calls before the repair
    _spec2([[0.0, 0.0, 0.0], [0.0, 0.0, 1.0]], _TG, 1.0),
    _spec2([[0.0, 0.0, 0.0], [0.3, 0.0, 0.4]], _TG, 0.5),
    _spec2([[1.0, 2.0, 3.0], [1.1, 2.2, 3.3]], _TG, 1.0),
    _spec2([[0.5, 0.5, 0.5]], _TG, 1.0),
    # D1: collinear anchors
    {"n_ref": 3, "graph": "chain", "geom": "collinear_axis", "bonds": [[0, 1], [1, 2]],
     "ref": [[0.0, 0.0, 0.0], [0.0, 0.0, 1.0], [0.0, 0.0, 2.0]], "tgt": _TG, "s": 1.0},
    {"n_ref": 3, "graph": "chain", "geom": "collinear_diag", "bonds": [[0, 1], [1, 2]],
     "ref": [[0.0, 0.0, 0.0], [1.0, 1.0, 1.0], [2.0, 2.0, 2.0]], "tgt": _TG, "s": 0.5},
    {"n_ref": 3, "graph": "chain", "geom": "collinear_int", "bonds": [[0, 1], [1, 2]],
     "ref": [[0.0, 0.0, 0.0], [3.0, 0.0, 4.0], [6.0, 0.0, 8.0]], "tgt": _TG, "s": 1.0},
]


def _witness_c02_4():
    """seeded change C02-4 (collinearity tested on the cosine): three beads A-B-C, |AB| = 0.30, |BC| = 0.35 nm, generic
    orientation, angle A-B-C = 150, 179, 179.95 (NOT collinear: sin = 8.7e-4), 179.999 and 180 degrees; four target atoms
    around B; five rigid motions in one call sequence"""
    b = np.array([2.0, 3.0, 1.5])
    u = np.array([2.0, -1.0, 2.0]) / 3.0
    w = np.array([1.0, 2.0, 0.0]) / np.sqrt(5.0)
    tgt = [[1.95, 3.10, 1.40], [2.10, 2.90, 1.65], [2.05, 3.15, 1.55], [1.90, 2.95, 1.45]]
    rng = np.random.RandomState(7)
    out = []
    for ang in (150.0, 179.0, 179.95, 179.999, 180.0):
        th = np.radians(ang)
        da = -u if ang == 180.0 else np.cos(th) * u + np.sin(th) * w
        ref = [(b + 0.30 * da).tolist(), b.tolist(), (b + 0.35 * u).tolist()]
        for sc in (1.0, 0.5):
            plan = [dict(IDENT, how="copy")]
            for _ in range(5):
                plan.append({"how": "copy", "Q": E.random_rotation(rng).tolist(), "t": rng.uniform(-20, 20, 3).tolist()})
            out.append(({"n_ref": 3, "graph": "chain", "geom": "nearlinear", "bonds": [[0, 1], [1, 2]], "ref": ref,
                         "tgt": tgt, "s": sc}, plan))
    return out


def _witness_c02_6():
    """seeded change C02-6 (the mapped molecule is written into a buffer reused by every call): the shipped curcumin
    CG -> AA pair; mapped = emap(ref), mapped_moved = emap(R ref + t) three times, and only THEN the held results are
    compared (the driver keeps every returned Molecule alive and judges the positions read at the end)"""
    rng = np.random.RandomState(7)
    out = []
    for spec in E.shipped_specs(40):
        if spec["geom"] != "shipped_CUR":
            continue
        plan = []
        for _ in range(3):
            plan.append(dict(IDENT, how="copy"))
            plan.append({"how": "copy", "Q": E.rot(rng.normal(size=3), rng.uniform(0, 2 * np.pi)).tolist(),
                         "t": rng.uniform(-10, 10, 3).tolist()})
        out.append((spec, plan))
    return out


def _corpus_items(ctx):
    items = [(spec, single_plan(Q, t)) for spec in CORPUS for Q in _ROTS for t in ([0.0, 0.0, 0.0], [12.5, -40.0, 3.25])]
    items += _witness_c02_4() + _witness_c02_6()
    items += [(spec, sequence_plan(_ROTS[0], [12.5, -40.0, 3.25])) for spec in CORPUS]
    items += [(spec, single_plan(_ROTS[0], [12.5, -40.0, 3.25])) for spec in E.shipped_specs(ctx.n(40, 10 ** 6))]
    return items


def corpus(ctx):
    S = ctx.cov["S"]
    S["corpus"] = 0
    for spec, plan in _corpus_items(ctx):
        bad = motion_failures(spec, plan)
        S["corpus"] += 1
        if bad:
            ctx.violation("rigid motion: " + "; ".join(bad), {"kind": "c02", "spec": spec, "plan": plan}, key="motion")


def _item(spec, plan, stream):
    return spec, plan_steps(spec, plan)[0], {"kind": "c02", "stream": stream, "plan": plan}


def correspondence(ctx):
    rs = ctx.np_rng("K")
    items = [_item(spec, plan, "corpus") for spec, plan in _corpus_items(ctx)[len(CORPUS) * len(_ROTS) * 2:]]
    for i in range(ctx.n(150, 2400)):
        spec = E.gen_spec(rs, E.GEOMS_GENERIC[i % len(E.GEOMS_GENERIC)])
        items.append(_item(spec, gen_plan(rs, spec=spec), "generic"))
    for i in range(ctx.n(90, 1500)):
        spec = E.gen_spec(rs, E.GEOMS_DYADIC[i % len(E.GEOMS_DYADIC)])
        items.append(_item(spec, gen_plan(rs, spec=spec), "dyadic"))
    for i in range(ctx.n(70, 1200)):
        spec = E.gen_small_spec(rs, 1 + i % 2)
        items.append(_item(spec, gen_plan(rs, spec=spec), "small"))
    return E.run_K(ctx, items, lambda d: motion_failures(d["spec"], d["plan"]))


def oracle(ctx, scale):
    rs = ctx.np_rng("S%d" % scale)
    S = ctx.cov["S"]
    n = ctx.n(400, 6000) * scale
    geoms = ["generic", "generic", "generic", "partial", "collinear_decimal", "collinear_axis", "collinear_diag",
             "collinear_int", "grid", "small1", "small2", "small2", "nearlinear", "nearlinear", "elastic"]
    fails = 0
    hist, pats = {}, {}
    ncalls = 0
    for i in range(n):
        gm = geoms[i % len(geoms)]
        spec = E.gen_small_spec(rs, int(gm[-1])) if gm.startswith("small") else E.gen_spec(rs, gm)
        plan = gen_plan(rs, spec=spec)
        ncalls += len(plan)
        bad = motion_failures(spec, plan)
        hist[gm] = hist.get(gm, 0) + 1
        pk = ",".join(pl["how"] for pl in plan)
        pats[pk] = pats.get(pk, 0) + 1
        ctx.count(("S", spec["bonds"], spec["ref"], spec["tgt"], spec["s"], plan))
        if bad:
            fails += 1
            ctx.violation("rigid motion: " + "; ".join(bad), {"kind": "c02", "spec": spec, "plan": plan}, key="motion")
    S["motion_sequences_x%d" % scale] = n
    S["calls_x%d" % scale] = ncalls
    S["input_distribution"] = hist
    S["sequence_patterns"] = pats
    S["failures"] = S.get("failures", 0) + fails


def replay(ctx, obj):
    r = obj["replay"]
    if "spec" not in r:
        print("replay names a proof/correspondence, not an input:", r)
        return False
    plan = r["plan"] if "plan" in r else single_plan(r["Q"], r["t"])
    bad = motion_failures(r["spec"], plan)
    print(bad)
    return not bad


def finish(ctx):
    ctx.assumptions = [
        "theorems are exact statements over the real numbers; IEEE rounding is modelled, not verified: the 1e-8 nm tolerance "
        "of the property is checked on the implementation by the S oracle (testing)",
        "full equivariance is proved for anchors in the regular branch of calcule_base (relative collinearity > 1e-6, a condition "
        "proved rotation invariant over R); for the fallback branch and for 1-/2-atom references the three invariants are proved "
        "for every value of the random completion points",
        "the S oracle demands full equivariance for every anchor whose collinearity margin (sine of the frame angle) is above "
        "1.5e-5 and the three axis invariants below 6e-8; in the band [6e-8, 1.5e-5] around the code's own 1e-6 threshold "
        "(where rounding may decide the branch; the K-indeterminate band) nothing is demanded; a demand is also skipped when "
        "plain coordinate rounding, amplified by 1/(bond length * sine), could reach 0.3 of the tolerance",
        "np.random.rand returns some vector; the one-atom theorem needs the second draw to be non-zero (p0 + rand2 != p0)",
        "the argument of the call has the bond graph of the construction-time reference (same species)",
    ]
    return ctx.finish(level="proof", rule=RULE,
                      trusted=["numpy/scipy evaluation order (np.dot, np.cross, np.linalg.norm, scipy euclidean) written out by "
                               "hand in coq/Model/ExchangeMap.v and coq/Model/Aux.v",
                               "np.random.rand modelled as an arbitrary recorded vector"])
