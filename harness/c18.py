"""C18 - copies are isolated, views write through, rigid operations preserve shape.

K: random operation sequences over a growing family of handles (molecules, residues, atoms, a system)
   run on the implementation; after every operation the exception class and every observable of every
   handle are recorded (delta-encoded) and replayed against the heap model of coq/Model/Objects.v.
S: the property text on the same runs and on further runs: snapshots of every handle outside the
   copy-family of the handle operated on must not change; views show what was assigned through them;
   successful move / move_to / rotate keep all pairwise distances and move the centre as stated."""
import json

import numpy as np

import lib
import molgen
from lib import fl, v3, m3, coq_z, coq_list

HEADER = """From Coq Require Import String.
From GM Require Import Corr.CorrBase Model.Objects Corr.CheckC18.
Open Scope string_scope.
Open Scope float_scope.
"""

RULE = ("a case is one operation sequence (quick: 8..40 operations, thorough: up to 200) on a world of 1-2 "
        "molecules (1-3 residues, 1-4 atoms per residue) and, in half of the cases, a system of 1-2 species / 2-3 "
        "instances; operations are drawn per handle kind from {copy, deep_copy, Alignment start/end, atoms, index, "
        "iteration, residue view, system hand-out, move, move_to, rotate, set positions/velocities/ids/resids/"
        "resnames/name, view assignment of position/velocity/atomid/resid/top_resid/resname/name}; "
        "non-trivial = distinct and containing at least one copy-like and one mutating operation")

TOL = 1e-9
MAXFAM = 22

# ------------------------------------------------------------------ world generation (pure data)
RESN = ["RA", "RB", "RC", "SD", "SE", "TF"]


def gen_mol_spec(rs, tag, resn_pool, nres=None, with_vel=False):
    nres = nres or int(rs.choice([1, 1, 2, 2, 3]))
    atoms = []
    first_resid = int(rs.randint(1, 6))
    for r in range(nres):
        for k in range(int(rs.randint(1, 5))):
            atoms.append(("%s%d%d" % (tag, r, k), resn_pool[r], first_resid + r))
    n = len(atoms)
    pos = np.round(rs.uniform(-3, 3, size=(n, 3)), 3)
    bonds = molgen.random_tree(rs, n) if n > 1 else []
    vel = np.round(rs.uniform(-1, 1, size=(n, 3)), 4) if with_vel else None
    return {"name": "M" + tag, "atoms": atoms, "pos": pos.tolist(), "bonds": [list(b) for b in bonds],
            "vel": None if vel is None else vel.tolist()}


def gen_world(rs):
    mols = [gen_mol_spec(rs, "A", RESN[0:3])]
    if rs.randint(0, 3) == 0:
        mols.append(gen_mol_spec(rs, "B", RESN[3:6]))
    system = None
    if rs.randint(0, 2) == 0:
        species = [gen_mol_spec(rs, "P", ["UA", "UB", "UC"], with_vel=bool(rs.randint(0, 2)))]
        if rs.randint(0, 2) == 0:
            species.append(gen_mol_spec(rs, "Q", ["VA", "VB", "VC"], with_vel=species[0]["vel"] is not None))
        inst = [int(rs.randint(0, len(species))) for _ in range(int(rs.randint(2, 4)))]
        for s in range(len(species)):
            if s not in inst:
                inst.append(s)
        # instance positions: the species template shifted; file resids/atom ids run on
        shifts = np.round(rs.uniform(-4, 4, size=(len(inst), 3)), 3).tolist()
        system = {"species": species, "instances": inst, "shifts": shifts}
    return {"mols": mols, "system": system, "nali": int(rs.choice([0, 1, 1, 2]))}


def sorted_bonds(n, bonds):
    nb = [set() for _ in range(n)]
    for a, b in bonds:
        nb[a].add(b)
        nb[b].add(a)
    return [sorted(s) for s in nb]


def residue_groups(atoms):
    """consecutive atoms with the same (resid, resname)"""
    groups = []
    prev = None
    for k, (an, rn, rid) in enumerate(atoms):
        if (rid, rn) != prev:
            groups.append([])
            prev = (rid, rn)
        groups[-1].append(k)
    return groups


def system_records(system):
    """per instance: list of residues, each a list of gro records (resid, resname, name, atomid, pos, vel)"""
    out = []
    atomid = 1
    resid = 1
    for i, s in enumerate(system["instances"]):
        sp = system["species"][s]
        sh = np.array(system["shifts"][i])
        residues = []
        for grp in residue_groups(sp["atoms"]):
            recs = []
            for k in grp:
                an, rn, _ = sp["atoms"][k]
                p = np.round(np.array(sp["pos"][k]) + sh, 3)
                v = None if sp["vel"] is None else list(sp["vel"][k])
                recs.append((resid, rn, an, atomid, [float(x) for x in p], v))
                atomid += 1
            residues.append(recs)
            resid += 1
        out.append(residues)
    return out


# ------------------------------------------------------------------ implementation side
class Hd:
    """mirror of one live handle: kind in G (AtomGro) R (Residue) A (Atom) M (Molecule) S (System)"""

    def __init__(self, kind, obj, root, troot, parent=None, pidx=None, sizes=None, nsp=None):
        self.kind, self.obj, self.root, self.troot = kind, obj, root, troot
        self.parent, self.pidx = parent, pidx   # view bookkeeping for the oracle
        self.sizes = sizes                      # residue sizes (M), [n] (R)
        self.nsp = nsp
        self.species = None                     # which generated molecule type a molecule handle is an instance of

    @property
    def n(self):
        return sum(self.sizes) if self.sizes else 1


def build_impl(world):
    from gaddlemaps.components import System
    fam = []
    for ms in world["mols"]:
        mol = molgen.make_molecule(ms["name"], [tuple(a) for a in ms["atoms"]], np.array(ms["pos"]),
                                   [tuple(b) for b in ms["bonds"]])
        fam.append(Hd("M", mol, len(fam), len(fam), sizes=[len(g) for g in residue_groups(ms["atoms"])]))
        fam[-1].species = ("m", len(fam) - 1)
    if world["system"]:
        sy = world["system"]
        recs = [r for inst in system_records(sy) for res in inst for r in res]
        gro = molgen.write_gro(molgen.fresh_path("gro", "sys"), recs, dec=3)
        itps = [molgen.write_itp(molgen.fresh_path("itp", sp["name"]), sp["name"], [tuple(a) for a in sp["atoms"]],
                                 [tuple(b) for b in sp["bonds"]]) for sp in sy["species"]]
        sysobj = System(gro, *itps)
        assert len(sysobj) == len(sy["instances"]), "generated system not recognised as generated"
        fam.append(Hd("S", sysobj, len(fam), len(fam), nsp=len(sy["instances"])))
    from gaddlemaps import Alignment
    for _ in range(world.get("nali", 0)):
        fam.append(Hd("L", Alignment(), len(fam), len(fam)))
        fam[-1].ends = {"start": None, "end": None}
    return fam


def gro_obs(a):
    v = a.velocity
    return (int(a.resid), str(a.resname), str(a.name), int(a.atomid), tuple(float(x) for x in a.position),
            None if v is None else tuple(float(x) for x in v))


def top_obs(t):
    return (str(t.name), str(t.resname), int(t.resid), int(t.index), tuple(sorted(int(b) for b in t.bonds)))


def observe(h, world, fam=None):
    """(names, tops, gros, getters, alignment ends) as plain python data"""
    o = h.obj
    if h.kind == "G":
        return ((), (), ((gro_obs(o),),), None, None)
    if h.kind == "R":
        return ((), (), (tuple(gro_obs(a) for a in o._atoms_gro),), None, None)
    if h.kind == "A":
        return ((), (top_obs(o.atom_top),), ((gro_obs(o.atom_gro),),), None, None)
    if h.kind == "L":
        ends = []
        for side in ("start", "end"):
            m = getattr(o, side)
            if m is None:
                ends.append(None)
            else:
                idx = [j for j, x in enumerate(fam) if x.obj is m]
                if not idx:
                    raise AssertionError("Alignment.%s returns a molecule that was never handed out" % side)
                ends.append(idx[0])
        return ((), (), (), None, tuple(ends))
    if h.kind == "M":
        gros = tuple(tuple(gro_obs(a) for a in res._atoms_gro) for res in o.residues)
        mt = o.molecule_top
        vel = o.atoms_velocities
        get = (tuple(int(x) for x in o.resids), tuple(str(x) for x in o.resnames),
               tuple(int(x) for x in o.atoms_ids), vel is None, tuple(float(x) for x in o.geometric_center))
        return ((str(mt.name),), tuple(top_obs(t) for t in mt.atoms), gros, get, None)
    if h.kind == "S":
        names, tops = [], []
        for s in world["system"]["instances"]:
            mt = o.different_molecules[s].molecule_top
            names.append(str(mt.name))
            tops += [top_obs(t) for t in mt.atoms]
        return (tuple(names), tuple(tops), (), None, None)
    raise ValueError(h.kind)


EXC = [(OSError, 1), (ValueError, 2), (IndexError, 3), (TypeError, 4), (AttributeError, 4)]


def exc_code(ex):
    for cls, c in EXC:
        if isinstance(ex, cls):
            return c
    return 9


def typed(l, dt, one=False):
    """the caller's argument in the requested python / numpy type (the VALUES are those of l)"""
    if l is None:
        return None
    if dt in (None, "f8"):
        a = np.array(l, dtype=float)
        return a if one else a.reshape(-1, 3)
    if dt in ("i8", "i4", "f4"):
        a = np.array(l, dtype=float).astype({"i8": np.int64, "i4": np.int32, "f4": np.float32}[dt])
        assert (a.astype(float) == np.array(l, dtype=float)).all(), "generated value not representable in " + dt
        return a if one else a.reshape(-1, 3)
    conv = (lambda x: int(x) if float(x).is_integer() else float(x))
    if one:
        vals = [conv(x) for x in l]
        return vals if dt == "list" else tuple(vals)
    rows = [[conv(x) for x in r] for r in l]
    return rows if dt == "list" else tuple(tuple(r) for r in rows)


def instance_residue_range(world, i):
    sy = world["system"]
    counts = [len(residue_groups(sy["species"][s]["atoms"])) for s in sy["instances"]]
    return sum(counts[:i]), sum(counts[:i + 1])


def gro_atoms(h):
    """the AtomGro objects of a handle, without building Atom views"""
    o = h.obj
    if h.kind == "M":
        return [a for r in o.residues for a in r]
    if h.kind == "R":
        return list(o._atoms_gro)
    if h.kind == "A":
        return [o.atom_gro]
    return [o]


def resolve(fam, op, bufs):
    """Caller-side arrays of an operation.  `bufs` are ndarray objects the caller keeps and may hand to several
    setters (buf id -> [array, bytes at creation]); a `src` makes the displacement / target point of move / move_to
    a LIVE array of the body itself.  The values the arrays hold now are written back into the operation (they are
    what the model gets and what the oracle compares with)."""
    live = {}
    k = op["op"]
    if k in ("set_positions", "set_velocities") and op.get("buf") is not None and op.get("l") is not None:
        b = op["buf"]
        if b not in bufs:
            arr = np.array(op["l"], dtype=float).reshape(-1, 3)
            bufs[b] = [arr, arr.tobytes()]
        live["arr"] = bufs[b][0]
        op["l"] = bufs[b][0].tolist()
    if k in ("move", "move_to") and op.get("src"):
        src = op["src"]
        h = fam[op["h"]]
        if src["kind"] == "atom":
            ags = gro_atoms(h)
            live["v"] = ags[src["k"] % len(ags)].position          # the atom's own array
        elif src["kind"] == "center":
            live["v"] = h.obj.geometric_center
        elif src["kind"] == "buf" and src["buf"] in bufs:
            arr = bufs[src["buf"]][0]
            live["v"] = arr[src["row"] % len(arr)]                 # a row view of an array assigned earlier
        if "v" in live:
            op["v"] = [float(x) for x in live["v"]]
    return live


def apply_op(fam, op, live=None, world=None):
    """run one operation on the implementation.  Returns (exception code, new Hd or None)."""
    from gaddlemaps import Alignment
    live = live or {}
    h = fam[op["h"]]
    o = h.obj
    k = op["op"]
    new = None
    nroot = len(fam)
    try:
        if k == "copy":
            new = Hd(h.kind, o.copy(), nroot, h.troot, sizes=h.sizes)
        elif k == "deep_copy":
            new = Hd("M", o.deep_copy(), nroot, nroot, sizes=h.sizes)
        elif k == "copy_with":
            src = fam[op["j"]]
            if src.kind == "M":
                res = src.obj.residues if op["mode"] == 0 else [r.copy() for r in src.obj.residues]
            elif src.kind == "R":
                res = [src.obj] if op["mode"] == 0 else [src.obj.copy()]
            elif src.kind == "S":
                a, b = instance_residue_range(world, op["i"])
                res = src.obj.system_gro[a:b]
            else:
                raise TypeError("no residues to take from this handle")
            x = o.deep_copy(res) if op["deep"] else o.copy(res)
            new = Hd("M", x, nroot, nroot if op["deep"] else h.troot, sizes=[len(r) for r in x.residues])
        elif k == "align":
            al = Alignment(start=o) if op["side"] == "start" else Alignment(end=o)
            new = Hd("M", al.start if op["side"] == "start" else al.end, nroot, h.troot, sizes=h.sizes)
        elif k == "atoms":
            x = o.atoms[op["i"]]
            new = Hd("G" if h.kind == "R" else "A", x, nroot, h.troot)
        elif k == "index":
            x = o[op["i"]]
            new = Hd("G" if h.kind == "R" else "A", x, h.root, h.troot, parent=op["h"], pidx=op["i"])
        elif k == "iter":
            x = list(o)[op["i"]]
            new = Hd("A", x, h.root, h.troot, parent=op["h"], pidx=op["i"])
        elif k == "resview":
            x = o.residues[op["i"]]
            new = Hd("R", x, h.root, h.troot, parent=op["h"], pidx=("res", op["i"]), sizes=[h.sizes[op["i"]]])
        elif k == "handout":
            x = o[op["i"]]
            new = Hd("M", x, nroot, h.troot, sizes=[len(r) for r in x.residues])
        elif k == "iter_next":
            # the next molecule of an iteration over the system that the caller keeps going (every molecule it yielded
            # stays held as a handle); position p of the iteration is the hand-out of instance p
            st = getattr(h, "iterstate", None)
            if op.get("restart") or st is None:
                st = {"it": iter(o), "pos": 0}
            h.iterstate = st
            op["i"] = st["pos"]
            try:
                x = next(st["it"])
            except StopIteration:
                h.iterstate = None
                raise IndexError("iteration over the system is exhausted")
            except Exception:
                h.iterstate = None      # a generator that raised is finished
                raise
            st["pos"] += 1
            new = Hd("M", x, nroot, h.troot, sizes=[len(r) for r in x.residues])
        elif k == "ali_set":
            side = op["side"]
            if op["j"] is None:
                setattr(o, side, None)
                h.ends[side] = None
            else:
                src = fam[op["j"]]
                setattr(o, side, src.obj)
                new = Hd("M", getattr(o, side), nroot, src.troot, sizes=src.sizes)
                h.ends[side] = nroot
        elif k == "move":
            o.move(live["v"] if "v" in live else np.array(op["v"], dtype=float))
        elif k == "move_to":
            o.move_to(live["v"] if "v" in live else np.array(op["v"], dtype=float))
        elif k == "rotate":
            o.rotate(np.array(op["m"], dtype=float))
        elif k == "set_positions":
            o.atoms_positions = live["arr"] if "arr" in live else typed(op["l"], op.get("dt"))
        elif k == "set_velocities":
            o.atoms_velocities = (None if op["l"] is None else live["arr"] if "arr" in live
                                  else typed(op["l"], op.get("dt")))
        elif k == "set_ids":
            o.atoms_ids = list(op["l"])
        elif k == "set_resids_all":
            o.resids = int(op["z"])
        elif k == "set_resids":
            o.resids = list(op["l"])
        elif k == "set_resnames_all":
            o.resnames = str(op["s"])
        elif k == "set_resnames":
            o.resnames = list(op["l"])
        elif k == "set_molname":
            o.name = str(op["s"])
        elif k == "set_pos":
            o.position = typed(op["v"], op.get("dt"), one=True)
        elif k == "set_vel":
            o.velocity = typed(op["v"], op.get("dt"), one=True)
        elif k == "set_atomid":
            o.atomid = int(op["z"])
        elif k == "set_resid":
            if h.kind == "A":
                o.gro_resid = int(op["z"])
            else:
                o.resid = int(op["z"])
        elif k == "set_top_resid":
            o.top_resid = int(op["z"])
        elif k == "set_resname":
            o.resname = str(op["s"])
        elif k == "set_name":
            o.name = str(op["s"])
        else:
            raise RuntimeError("unknown operation " + k)
    except RuntimeError:
        raise
    except Exception as ex:  # noqa: BLE001 - the exception class is the observation
        return exc_code(ex), None
    if new is not None and new.kind == "M":
        if k in ("handout", "iter_next"):
            new.species = ("s", world["system"]["instances"][op["i"]]) if world else None
        elif k == "ali_set":
            new.species = fam[op["j"]].species
        else:
            new.species = h.species
    return 0, new


COPYLIKE = {"copy", "deep_copy", "align", "atoms", "handout", "iter_next", "ali_set", "copy_with"}
MUTATING = {"move", "move_to", "rotate", "set_positions", "set_velocities", "set_ids", "set_resids_all", "set_resids",
            "set_resnames_all", "set_resnames", "set_molname", "set_pos", "set_vel", "set_atomid", "set_resid",
            "set_top_resid", "set_resname", "set_name"}


# ------------------------------------------------------------------ operation generator
def rvec(rs, scale):
    return [float(x) for x in rs.uniform(-scale, scale, size=3)]


def rname(rs, maxlen=4):
    return "".join(rs.choice(list("ABCXYZ12")) for _ in range(int(rs.randint(1, maxlen + 1))))


def rrot(rs):
    from gaddlemaps import rotation_matrix
    ax = rs.normal(size=3)
    if rs.randint(0, 8) == 0:
        ax = np.eye(3)[rs.randint(3)]
    return [[float(x) for x in row] for row in rotation_matrix(ax, float(rs.uniform(-6.3, 6.3)))]


def pick_buf(rs, bufs, n):
    """an array the caller already holds with n rows (shared between handles), or the id of a new one"""
    same = [b for b, (arr, _) in bufs.items() if len(arr) == n]
    if same and rs.randint(0, 3):
        return int(rs.choice(same))
    return max(list(bufs) + [-1]) + 1


def tiny_vec(rs):
    """random direction, length log-uniform in [1e-12, 1e-2] nm"""
    d = rs.normal(size=3)
    return d / np.linalg.norm(d) * 10 ** rs.uniform(-12, -2)


def far_point(rs):
    """a point at a distance between 0 and 500 nm from the origin (log-uniform above 1 nm, sometimes the origin)"""
    if rs.randint(0, 8) == 0:
        return [0.0, 0.0, 0.0]
    d = rs.normal(size=3)
    return [float(x) for x in d / np.linalg.norm(d) * 10 ** rs.uniform(0, np.log10(500.0))]


def world_of(fam):
    return fam[0].world


def arg_type(rs, op, key, kinds, scale):
    """give the argument a python / numpy type other than a float64 ndarray; integer types get integer values,
    float32 values that float32 holds exactly (float32 is used for velocities only: a body ALL of whose positions are
    float32 would have its centre averaged in float32, seven digits, which no 1e-9 tolerance can be asked of)"""
    dt = str(rs.choice(kinds))
    op["dt"] = dt
    one = key == "v"
    shape = 3 if one else (len(op[key]), 3)
    if dt in ("i8", "i4") or (dt in ("list", "tuple") and rs.randint(0, 2)):
        vals = rs.randint(-scale, scale + 1, size=shape).astype(float)
    elif dt == "f4":
        vals = rs.randint(-8 * scale, 8 * scale + 1, size=shape) / 8.0
    else:
        return
    op[key] = vals.tolist()


def int_first_residue(rs, fam, hi):
    """macro: integer-typed coordinates on ALL atoms of the first residue of a multi-residue molecule - through the
    atom views or through the residue - followed by rigid operations on the whole molecule"""
    h = fam[hi]
    ops = []
    nxt = len(fam)
    if rs.randint(0, 2):
        for k in range(h.sizes[0]):
            ops.append({"h": hi, "op": "index" if rs.randint(0, 2) else "iter", "i": k})
            ops.append({"h": nxt, "op": "set_pos", "v": [float(x) for x in rs.randint(-6, 7, size=3)],
                        "dt": str(rs.choice(["i8", "i4", "list", "tuple"]))})
            nxt += 1
    else:
        ops.append({"h": hi, "op": "resview", "i": 0})
        ops.append({"h": nxt, "op": "set_positions", "dt": str(rs.choice(["i8", "i4"])),
                    "l": rs.randint(-6, 7, size=(h.sizes[0], 3)).astype(float).tolist()})
    ops.append({"h": hi, "op": "move", "v": rvec(rs, 5)})
    ops.append({"h": hi, "op": "rotate", "m": rrot(rs)})
    ops.append({"h": hi, "op": "move_to", "v": rvec(rs, 20)})
    return ops


def gen_op(rs, fam, bufs=None):
    """draw one applicable operation for a random live handle"""
    bufs = bufs if bufs is not None else {}
    full = len(fam) >= MAXFAM
    alis = [i for i, x in enumerate(fam) if x.kind == "L"]
    for _ in range(50):
        hi = int(rs.randint(0, len(fam)))
        if alis and not full and rs.randint(0, 14) == 0:
            hi = int(rs.choice(alis))
        h = fam[hi]
        n = h.n
        w = {}
        if h.kind == "L":
            if full:
                continue
            side = str(rs.choice(["start", "end"]))
            mols = [i for i, x in enumerate(fam) if x.kind == "M"]
            r = rs.randint(0, 20)
            if r == 0:
                return {"h": hi, "op": "ali_set", "side": side, "j": None}
            if r == 1:
                return {"h": hi, "op": "ali_set", "side": side, "j": int(rs.randint(0, len(fam)))}   # any kind: TypeError
            cur = h.ends[side]
            same = [i for i in mols if cur is not None and fam[i].troot == fam[cur].troot]
            if same and rs.randint(0, 3):
                return {"h": hi, "op": "ali_set", "side": side, "j": int(rs.choice(same))}    # re-assignment of an equal molecule
            return {"h": hi, "op": "ali_set", "side": side, "j": int(rs.choice(mols))}
        if h.kind == "S":
            if full:
                continue
            if rs.randint(0, 2):
                # iteration: consecutive molecules, all of them kept
                return {"h": hi, "op": "iter_next", "restart": bool(rs.randint(0, 7) == 0)}
            return {"h": hi, "op": "handout", "i": int(rs.randint(0, h.nsp + (rs.randint(0, 12) == 0)))}
        if h.kind in "RM":
            w.update(move=5, move_to=4, rotate=5, set_positions=3, set_velocities=3, set_ids=3)
            if not full:
                w.update(copy=5, atoms=3, index=4)
        if h.kind == "M":
            w.update(set_resids_all=2, set_resids=2, set_resnames_all=0.6, set_resnames=0.8, set_molname=0.8)
            if not full:
                w.update(deep_copy=4, align=2, iter=2, resview=3, copy_with=3)
            if not full and len(h.sizes) > 1 and len(fam) + h.sizes[0] + 1 < MAXFAM and rs.randint(0, 12) == 0:
                return int_first_residue(rs, fam, hi)
        if h.kind == "R":
            w.update(set_resid=1.5, set_resname=0.8)
        if h.kind in "GA":
            w.update(set_pos=5, set_vel=3, set_atomid=3, set_resid=1.5, set_resname=0.6, set_name=0.6)
            if not full:
                w.update(copy=3)
        if h.kind == "A":
            w.update(set_top_resid=1.5)
        names = sorted(w)
        p = np.array([w[x] for x in names], dtype=float)
        k = names[int(rs.choice(len(names), p=p / p.sum()))]
        op = {"h": hi, "op": k}
        bad = rs.randint(0, 25) == 0     # an argument of the wrong length / an index out of range
        if k == "align":
            op["side"] = str(rs.choice(["start", "end"]))
        elif k == "copy_with":
            # residues supplied by another handle: mostly one of the same species
            same = [j for j, x in enumerate(fam) if x.kind == "M" and x.species == h.species]
            anyb = [j for j, x in enumerate(fam) if x.kind in "MR"]
            syss = [j for j, x in enumerate(fam) if x.kind == "S"]
            op.update(deep=bool(rs.randint(0, 2)), mode=int(rs.randint(0, 2)), i=0)
            r = rs.randint(0, 10)
            if r == 0 and syss and h.species and h.species[0] == "s":
                sj = int(rs.choice(syss))
                inst = [i for i, sp in enumerate(world_of(fam)["system"]["instances"]) if sp == h.species[1]]
                op.update(j=sj, i=int(rs.choice(inst)))
            elif r == 1:
                op["j"] = int(rs.choice(anyb))
            else:
                op["j"] = int(rs.choice(same))
        elif k in ("atoms", "index", "iter"):
            op["i"] = int(n if bad else rs.randint(0, n))
        elif k == "resview":
            op["i"] = int(len(h.sizes) if bad else rs.randint(0, len(h.sizes)))
        elif k in ("move", "move_to"):
            op["v"] = rvec(rs, 5 if k == "move" else 20)
            r = rs.randint(0, 10)
            if k == "move_to" and r in (3, 4, 5):
                # a target taken relative to the CURRENT centre: exactly it, or 1e-12 .. 1e-2 nm away
                c = np.array(h.obj.geometric_center, dtype=float)
                if np.isfinite(c).all():
                    op["v"] = [float(x) for x in (c if rs.randint(0, 6) == 0 else c + tiny_vec(rs))]
            elif k == "move_to" and r == 6:
                op["v"] = far_point(rs)                        # place the body up to 500 nm from the origin
            elif k == "move_to" and r == 7 and not full:
                p_ = far_point(rs)                             # move_to(p); move(tiny); move_to(p)
                return [{"h": hi, "op": "move_to", "v": p_}, {"h": hi, "op": "move", "v": tiny_vec(rs).tolist()},
                        {"h": hi, "op": "move_to", "v": p_}]
            if r == 0:
                op["src"] = {"kind": "atom", "k": int(rs.randint(0, n))}      # a live array of the body itself
            elif r == 1:
                op["src"] = {"kind": "center"}
            elif r == 2 and bufs:
                op["src"] = {"kind": "buf", "buf": int(rs.choice(list(bufs))), "row": int(rs.randint(0, 4))}
        elif k == "rotate":
            op["m"] = rrot(rs)
        elif k == "set_positions":
            op["l"] = [rvec(rs, 5) for _ in range(n + (1 if bad else 0))]
            if not bad and rs.randint(0, 5) < 2:
                op["buf"] = pick_buf(rs, bufs, n)        # ONE ndarray object handed to several setters
            elif rs.randint(0, 3) == 0:
                arg_type(rs, op, "l", ["i8", "i4", "list", "tuple"], 6)
        elif k == "set_velocities":
            op["l"] = None if rs.randint(0, 4) == 0 else [rvec(rs, 2) for _ in range(n - (1 if bad and n > 1 else 0))]
            if not bad and op["l"] is not None and rs.randint(0, 4) == 0:
                op["buf"] = pick_buf(rs, bufs, n)
            elif op["l"] is not None and rs.randint(0, 3) == 0:
                arg_type(rs, op, "l", ["i8", "i4", "f4", "list", "tuple"], 3)
        elif k == "set_ids":
            op["l"] = [int(x) for x in rs.randint(1, 100000, size=n + (1 if bad else 0))]
        elif k in ("set_resids_all", "set_resid", "set_top_resid", "set_atomid"):
            op["z"] = int(rs.randint(1, 100000)) if rs.randint(0, 3) else int(rs.randint(1, 13))
        elif k == "set_resids":
            m = len(h.sizes)
            op["l"] = [int(x) for x in rs.randint(1, 1000, size=(0 if bad and rs.randint(0, 2) else m + (1 if bad else 0)))]
        elif k == "set_resnames":
            m = len(h.sizes)
            op["l"] = [rname(rs) for _ in range(0 if bad and rs.randint(0, 2) else m + (1 if bad else 0))]
        elif k in ("set_resnames_all", "set_molname", "set_name"):
            op["s"] = rname(rs)
        elif k == "set_resname":
            op["s"] = rname(rs, 7 if h.kind == "R" else 5)
        elif k == "set_pos":
            op["v"] = rvec(rs, 5)
            if rs.randint(0, 3) == 0:
                arg_type(rs, op, "v", ["i8", "i4", "list", "tuple"], 6)
        elif k == "set_vel":
            op["v"] = None if rs.randint(0, 4) == 0 else rvec(rs, 2)
            if op["v"] is not None and rs.randint(0, 3) == 0:
                arg_type(rs, op, "v", ["i8", "i4", "f4", "list", "tuple"], 3)
        return op
    return {"h": 0, "op": "move", "v": [0.0, 0.0, 0.0]}


# ------------------------------------------------------------------ the oracle (property text)
def snap(h):
    """(coordinates, velocities, numbers), (names and residue labels) as the API reads them"""
    o = h.obj
    if h.kind == "G":
        co = (tuple(map(float, o.position)), None if o.velocity is None else tuple(map(float, o.velocity)),
              int(o.atomid), int(o.resid))
        return co, (str(o.name), str(o.resname))
    if h.kind == "A":
        co = (tuple(map(float, o.position)), None if o.velocity is None else tuple(map(float, o.velocity)),
              int(o.atomid), int(o.gro_resid))
        t = o.atom_top
        return co, (str(o.atom_gro.name), str(o.atom_gro.resname), str(t.name), str(t.resname), int(t.resid))
    if h.kind == "R":
        v = o.atoms_velocities
        co = (o.atoms_positions.tobytes(), [None if a.velocity is None else tuple(map(float, a.velocity)) for a in o],
              None if v is None else v.tobytes(), tuple(o.atoms_ids), int(o.resid), tuple(int(a.resid) for a in o))
        return co, (tuple(str(a.name) for a in o), tuple(str(a.resname) for a in o))
    if h.kind == "M":
        v = o.atoms_velocities
        ags = [a for r in o.residues for a in r]
        co = (o.atoms_positions.tobytes(), [None if a.velocity is None else tuple(map(float, a.velocity)) for a in ags],
              None if v is None else v.tobytes(), tuple(o.atoms_ids), tuple(o.resids), tuple(int(a.resid) for a in ags))
        mt = o.molecule_top
        return co, (str(mt.name), tuple(o.resnames), tuple(str(a.name) for a in ags), tuple(str(a.resname) for a in ags),
                    tuple((str(t.name), str(t.resname), int(t.resid)) for t in mt.atoms))
    return None, None


def centre(P):
    return P.mean(axis=0)


def pdist(P):
    d = P[:, None, :] - P[None, :, :]
    return np.sqrt((d * d).sum(-1))


def positions_of(h):
    if h.kind in "RM":
        return np.array(h.obj.atoms_positions, dtype=float)
    return None


class Oracle:
    """evaluates the property text around every operation of a run"""

    def __init__(self, fam):
        self.bad = []
        self.before = [snap(h) for h in fam]
        self.pos_before = None

    def pre(self, fam, op):
        h = fam[op["h"]]
        self.pos_before = positions_of(h) if op["op"] in ("move", "move_to", "rotate") else None

    def post(self, fam, op, code, step):
        h = fam[op["h"]]
        k = op["op"]
        after = [snap(x) for x in fam]
        # 1. isolation: nothing outside the copy family of the handle operated on changes
        for j, y in enumerate(fam):
            # the geometric centre a residue / molecule reports is the mean of the coordinates it reports
            if y.kind in "RM":
                gc, P = np.array(y.obj.geometric_center, dtype=float), np.array(y.obj.atoms_positions, dtype=float)
                if np.abs(gc - P.mean(axis=0)).max() > TOL:
                    self.bad.append("step %d (%s on handle %d): geometric_center of handle %d is %.3g away from the mean of "
                                    "its atoms_positions" % (step, k, op["h"], j, np.abs(gc - P.mean(axis=0)).max()))
            # ... and what a molecule reports is what its atoms hold (a write through a view shows in the molecule)
            if y.kind == "M":
                ags = gro_atoms(y)
                ap = np.array(y.obj.atoms_positions)
                held = np.array([[float(x) for x in a.position] for a in ags])
                if ap.shape != held.shape or not np.array_equal(ap.astype(float), held):
                    self.bad.append("step %d (%s on handle %d): atoms_positions of molecule %d differs from the positions its "
                                    "atoms hold by %.3g" % (step, k, op["h"], j,
                                                            np.abs(ap.astype(float) - held).max() if ap.shape == held.shape else -1))
                av = y.obj.atoms_velocities
                if av is not None:
                    heldv = np.array([[float(x) for x in a.velocity] for a in ags])
                    if not np.array_equal(np.array(av).astype(float), heldv):
                        self.bad.append("step %d (%s on handle %d): atoms_velocities of molecule %d differs from the velocities "
                                        "its atoms hold" % (step, k, op["h"], j))
        for j, y in enumerate(fam[:len(self.before)]):
            if y.kind in "SL":
                continue
            b_co, b_lab = self.before[j]
            a_co, a_lab = after[j]
            if y.root != h.root and a_co != b_co:
                self.bad.append("step %d (%s on handle %d): coordinates/velocities/numbers of handle %d (another copy "
                                "family) changed" % (step, k, op["h"], j))
            if y.root != h.root and y.troot != h.troot and a_lab != b_lab:
                self.bad.append("step %d (%s on handle %d): names/residue labels of handle %d (separated by a deep "
                                "copy) changed" % (step, k, op["h"], j))
        # 2. views are live: what was assigned through a view is what the parent shows
        if code == 0 and h.parent is not None and isinstance(h.pidx, int):
            p = fam[h.parent].obj
            i = h.pidx
            if k == "set_pos" and tuple(map(float, p.atoms_positions[i])) != tuple(map(float, op["v"])):
                self.bad.append("step %d: position assigned through view %d not visible in its parent" % (step, op["h"]))
            if k == "set_atomid" and int(p.atoms_ids[i]) != int(op["z"]):
                self.bad.append("step %d: atom id assigned through view %d not visible in its parent" % (step, op["h"]))
            if k == "set_vel":
                ags = [a for r in p.residues for a in r] if fam[h.parent].kind == "M" else list(p)
                got = ags[i].velocity
                want = op["v"]
                if (got is None) != (want is None) or (want is not None and tuple(map(float, got)) != tuple(map(float, want))):
                    self.bad.append("step %d: velocity assigned through view %d not visible in its parent" % (step, op["h"]))
                if want is not None and all(a.velocity is not None for a in ags):
                    if tuple(map(float, p.atoms_velocities[i])) != tuple(map(float, want)):
                        self.bad.append("step %d: atoms_velocities of the parent does not show the view's velocity" % step)
            if k == "set_resid" and fam[h.parent].kind == "M":
                ags = [a for r in p.residues for a in r]
                if int(ags[i].resid) != int(op["z"]):
                    self.bad.append("step %d: residue number assigned through view %d not visible in its parent" % (step, op["h"]))
        if code == 0 and h.parent is not None and isinstance(h.pidx, tuple) and k in ("move", "move_to", "rotate", "set_positions"):
            # a residue view of a molecule: the molecule shows the residue's coordinates
            p = fam[h.parent]
            r = h.pidx[1]
            off = sum(p.sizes[:r])
            if not np.array_equal(p.obj.atoms_positions[off:off + p.sizes[r]], h.obj.atoms_positions):
                self.bad.append("step %d: coordinates written through residue view %d not visible in the molecule" % (step, op["h"]))
        # 2b. a molecule handed out by a system (indexing or iteration) is an object of its own and shows what system[i] shows
        if code == 0 and k in ("handout", "iter_next"):
            new = fam[-1]
            if any(x.obj is new.obj for x in fam[:-1]):
                self.bad.append("step %d: the molecule handed out by the system is an object the caller already holds" % step)
            ref = h.obj[op["i"]]
            a, b = snap(new)[0], snap(Hd("M", ref, -1, -1))[0]
            if a != b:
                self.bad.append("step %d: molecule %d obtained from the system by %s differs from system[%d]"
                                % (step, op["i"], "iteration" if k == "iter_next" else "indexing", op["i"]))
        # 3. rigid operations
        if code == 0 and self.pos_before is not None:
            P0, P1 = self.pos_before, positions_of(h)
            if np.abs(pdist(P0) - pdist(P1)).max() > TOL:
                self.bad.append("step %d: %s changed an interatomic distance by %.3g" % (step, k, np.abs(pdist(P0) - pdist(P1)).max()))
            c0, c1 = centre(P0), centre(P1)
            want = {"move": c0 + np.array(op.get("v", [0, 0, 0])), "move_to": np.array(op.get("v", [0, 0, 0])), "rotate": c0}[k]
            # 1e-9 nm, plus what double rounding of coordinates of this size needs (1e-13 relative)
            if np.abs(c1 - want).max() > TOL + 1e-13 * max(np.abs(want).max(), np.abs(c0).max()):
                self.bad.append("step %d: %s put the geometric centre %.3g away from where it belongs" % (step, k, np.abs(c1 - want).max()))
        self.before = after


# ------------------------------------------------------------------ Coq terms
def cstr(s):
    lit = lib.coq_str(s)
    if lit is None:
        raise ValueError("non-ASCII name in a generated case")
    return lit


def nat(n):
    return "%d%%nat" % int(n)


def opt_v3(v):
    return "None" if v is None else "(Some %s)" % v3(v)


def gro_term(c):
    return "(mkGro %s %s %s %s %s %s)" % (coq_z(c[0]), cstr(c[1]), cstr(c[2]), coq_z(c[3]), v3(c[4]), opt_v3(c[5]))


def top_term(t):
    return "(mkTop %s %s %s %s %s)" % (cstr(t[0]), cstr(t[1]), coq_z(t[2]), nat(t[3]), coq_list([nat(b) for b in t[4]]))


def obs_term(o):
    names, tops, gros, get, ali = o
    g = "None" if get is None else "(Some (%s, %s, %s, %s, %s))" % (
        coq_list([coq_z(x) for x in get[0]]), coq_list([cstr(x) for x in get[1]]),
        coq_list([coq_z(x) for x in get[2]]), "true" if get[3] else "false", v3(get[4]))
    a = "None" if ali is None else "(Some (%s, %s))" % tuple("None" if x is None else "(Some %s)" % nat(x) for x in ali)
    return "(mkObs %s %s %s %s %s)" % (coq_list([cstr(x) for x in names]), coq_list([top_term(t) for t in tops]),
                                       coq_list([coq_list([gro_term(c) for c in r]) for r in gros]), g, a)


def op_term(fam_kinds, op):
    k = op["op"]
    if k == "copy":
        return "OCopy"
    if k == "deep_copy":
        return "ODeepCopy"
    if k == "copy_with":
        return "(OCopyWith %s %s %s %s)" % ("true" if op["deep"] else "false", nat(op["mode"]), nat(op["j"]), nat(op["i"]))
    if k in ("set_positions", "set_velocities") and op.get("dt") in ("list", "tuple") and op.get("l") is not None:
        return "OBadArg"     # a list / tuple has no .shape: the whole-body setters raise before writing anything
    if k == "align":
        return "OAlign"
    if k == "atoms":
        return "(OAtoms %s)" % nat(op["i"])
    if k == "index":
        return "(OIndex %s)" % nat(op["i"])
    if k == "iter":
        return "(OIter %s)" % nat(op["i"])
    if k == "resview":
        return "(OResView %s)" % nat(op["i"])
    if k in ("handout", "iter_next"):
        return "(OHandout %s)" % nat(op["i"])
    if k == "ali_set":
        return "(OAliSet %s %s)" % ("true" if op["side"] == "start" else "false",
                                    "None" if op["j"] is None else "(Some %s)" % nat(op["j"]))
    if k == "move":
        return "(OMove %s)" % v3(op["v"])
    if k == "move_to":
        return "(OMoveTo %s)" % v3(op["v"])
    if k == "rotate":
        return "(ORotate %s)" % m3(op["m"])
    if k == "set_positions":
        return "(OSetPositions %s)" % coq_list([v3(p) for p in op["l"]])
    if k == "set_velocities":
        return "(OSetVelocities %s)" % ("None" if op["l"] is None else "(Some %s)" % coq_list([v3(p) for p in op["l"]]))
    if k == "set_ids":
        return "(OSetIds %s)" % coq_list([coq_z(x) for x in op["l"]])
    if k == "set_resids_all":
        return "(OSetResidsAll %s)" % coq_z(op["z"])
    if k == "set_resids":
        return "(OSetResids %s)" % coq_list([coq_z(x) for x in op["l"]])
    if k == "set_resnames_all":
        return "(OSetResnamesAll %s)" % cstr(op["s"])
    if k == "set_resnames":
        return "(OSetResnames %s)" % coq_list([cstr(x) for x in op["l"]])
    if k == "set_molname":
        return "(OSetMolName %s)" % cstr(op["s"])
    if k == "set_pos":
        return "(OSetPos %s)" % v3(op["v"])
    if k == "set_vel":
        return "(OSetVel %s)" % opt_v3(op["v"])
    if k == "set_atomid":
        return "(OSetAtomId %s)" % coq_z(op["z"])
    if k == "set_resid":
        return "(OSetResid %s)" % coq_z(op["z"])
    if k == "set_top_resid":
        return "(OSetTopResid %s)" % coq_z(op["z"])
    if k == "set_resname":
        return "(OSetResname %s)" % cstr(op["s"])
    if k == "set_name":
        return "(OSetName %s)" % cstr(op["s"])
    raise ValueError(k)


def model_init(world):
    """initial heap and family of the model, from the generator's data only"""
    gro, top, mt, fam = [], [], [], []

    def add_top(spec):
        nb = sorted_bonds(len(spec["atoms"]), spec["bonds"])
        mt.append(cstr(spec["name"]))
        locs = []
        for k, (an, rn, rid) in enumerate(spec["atoms"]):
            locs.append(len(top))
            top.append(top_term((an, rn, rid, k, nb[k])))
        return len(mt) - 1, locs

    for ms in world["mols"]:
        m, tl = add_top(ms)
        rs_ = []
        for grp in residue_groups(ms["atoms"]):
            r = []
            for k in grp:
                an, rn, rid = ms["atoms"][k]
                r.append(len(gro))
                gro.append(gro_term((rid, rn, an, k + 1, ms["pos"][k], None)))
            rs_.append(r)
        i = len(fam)
        fam.append("(%s, %s, HM %s %s %s)" % (nat(i), nat(i), nat(m), coq_list([nat(x) for x in tl]),
                                             coq_list([coq_list([nat(x) for x in r]) for r in rs_])))
    if world["system"]:
        sy = world["system"]
        tops = [add_top(sp) for sp in sy["species"]]
        recs = system_records(sy)
        insts = []
        for i, s in enumerate(sy["instances"]):
            m, tl = tops[s]
            insts.append("(%s, %s, %s)" % (nat(m), coq_list([nat(x) for x in tl]),
                                          coq_list([coq_list([gro_term(c) for c in res]) for res in recs[i]])))
        i = len(fam)
        fam.append("(%s, %s, HS %s)" % (nat(i), nat(i), coq_list(insts)))
    nali = world.get("nali", 0)
    for a in range(nali):
        i = len(fam)
        fam.append("(%s, %s, HL %s)" % (nat(i), nat(i), nat(a)))
    heap = "(mkHeap %s %s %s %s)" % (coq_list(gro), coq_list(top), coq_list(mt), coq_list(["(None, None)"] * nali))
    return heap, coq_list(fam)


# ------------------------------------------------------------------ one run
def run_case(world, ops=None, rs=None, nops=0, want_terms=True):
    """runs a sequence (given, or drawn on the fly) on the implementation.
    Returns dict(ops, term (Coq), bad (oracle failures), kinds)."""
    fam = build_impl(world)
    orc = Oracle(fam)
    obs = [observe(h, world, fam) for h in fam]
    obs0 = list(obs)
    steps = []
    done = []
    hist = {}
    bufs = {}
    assumed = []
    total = len(ops) if ops is not None else nops
    fam[0].world = world
    pending = []
    for s in range(total):
        if ops is not None:
            op = ops[s]
        else:
            if not pending:
                g = gen_op(rs, fam, bufs)
                pending = list(g) if isinstance(g, list) else [g]
            op = pending.pop(0)
        if op["h"] >= len(fam) or ("j" in op and op["j"] is not None and op["j"] >= len(fam)):
            continue
        op = dict(op)
        live = resolve(fam, op, bufs)
        done.append(op)
        hist[op["op"]] = hist.get(op["op"], 0) + 1
        if op.get("dt"):
            hist["arg_" + op["dt"]] = hist.get("arg_" + op["dt"], 0) + 1
        if "arr" in live:
            hist["shared_array"] = hist.get("shared_array", 0) + 1
        if "v" in live:
            hist["live_displacement"] = hist.get("live_displacement", 0) + 1
        orc.pre(fam, op)
        code, new = apply_op(fam, op, live, world)
        for b, (arr, at_creation) in bufs.items():
            if arr.tobytes() != at_creation and not any(a[0] == b for a in assumed):
                assumed.append((b, s + 1))
        if code:
            hist["exception_%d" % code] = hist.get("exception_%d" % code, 0) + 1
        if new is not None:
            fam.append(new)
            orc.before.append(snap(new))
        orc.post(fam, op, code, s + 1)
        now = [observe(h, world, fam) for h in fam]
        delta = [(j, now[j]) for j in range(len(now)) if j >= len(obs) or now[j] != obs[j]]
        obs = now
        if want_terms:
            steps.append("(%s, %s, %s, %s)" % (nat(op["h"]), op_term(None, op), nat(code),
                                                 coq_list(["(%s, %s)" % (nat(j), obs_term(o)) for j, o in delta])))
    term = None
    if want_terms:
        heap, famt = model_init(world)
        term = "chk_run %s %s %s %s" % (heap, famt, coq_list([obs_term(o) for o in obs0]), coq_list(steps, ";\n      "))
    # `assumed`: the model treats stored coordinates as immutable values; an array the caller handed to a setter
    # and that an operation then mutates breaks that (reported with the correspondence, not as the property)
    return {"ops": done, "term": term, "bad": orc.bad, "hist": hist, "handles": len(fam),
            "caller_array_changed": ["array %d handed to a setter was mutated in place by step %d" % a for a in assumed]}


def nontrivial(ops):
    ks = {o["op"] for o in ops}
    return bool(ks & COPYLIKE) and bool(ks & MUTATING)


# ------------------------------------------------------------------ directed worlds / sequences (corpus)
def corpus_cases():
    w = {"mols": [{"name": "MA", "atoms": [("A0", "RA", 1), ("A1", "RA", 1), ("B0", "RB", 2), ("B1", "RB", 2), ("B2", "RB", 2)],
                   "pos": [[0, 0, 0], [1, 0, 0], [1, 1, 0], [1, 1, 1], [2, 1, 1]], "bonds": [[0, 1], [1, 2], [2, 3], [3, 4]],
                   "vel": None}], "system": None}
    rot = [[0.0, -1.0, 0.0], [1.0, 0.0, 0.0], [0.0, 0.0, 1.0]]
    yield "copy_then_everything", w, [
        {"h": 0, "op": "copy"}, {"h": 1, "op": "move", "v": [1.0, 2.0, 3.0]}, {"h": 1, "op": "rotate", "m": rot},
        {"h": 1, "op": "move_to", "v": [5.0, 5.0, 5.0]}, {"h": 1, "op": "set_ids", "l": [9, 8, 7, 6, 5]},
        {"h": 1, "op": "set_resids", "l": [11, 12]}, {"h": 1, "op": "set_velocities", "l": [[1, 0, 0]] * 5},
        {"h": 0, "op": "move", "v": [-1.0, 0.0, 0.0]}, {"h": 0, "op": "set_resids_all", "z": 4},
        {"h": 0, "op": "deep_copy"}, {"h": 2, "op": "set_resnames", "l": ["X", "Y"]}, {"h": 2, "op": "set_molname", "s": "ZZ"},
        {"h": 0, "op": "index", "i": 3}, {"h": 3, "op": "set_pos", "v": [9.0, 9.0, 9.0]}, {"h": 3, "op": "set_atomid", "z": 77},
        {"h": 0, "op": "iter", "i": 0}, {"h": 4, "op": "set_vel", "v": [0.5, 0.5, 0.5]},
        {"h": 0, "op": "resview", "i": 1}, {"h": 5, "op": "rotate", "m": rot}, {"h": 0, "op": "rotate", "m": rot},
        {"h": 0, "op": "align", "side": "start"}, {"h": 6, "op": "move_to", "v": [0.0, 0.0, 0.0]},
        {"h": 0, "op": "atoms", "i": 2}, {"h": 7, "op": "set_pos", "v": [3.0, 3.0, 3.0]}]
    # a plain copy shares the topology: renaming through the copy makes the views of the original fail
    yield "shared_topology_rename", w, [
        {"h": 0, "op": "copy"}, {"h": 1, "op": "set_resnames", "l": ["RA", "XB"]}, {"h": 0, "op": "move", "v": [1.0, 0.0, 0.0]},
        {"h": 0, "op": "index", "i": 0}, {"h": 0, "op": "index", "i": 2}, {"h": 0, "op": "copy"}, {"h": 0, "op": "atoms", "i": 0},
        {"h": 1, "op": "move", "v": [1.0, 0.0, 0.0]}, {"h": 1, "op": "copy"}]
    # residue consistency test on str(resid) + resname
    yield "residname_concatenation", w, [
        {"h": 0, "op": "resview", "i": 0}, {"h": 1, "op": "index", "i": 0}, {"h": 2, "op": "set_resid", "z": 12},
        {"h": 2, "op": "set_resname", "s": "AB"}, {"h": 1, "op": "index", "i": 1}, {"h": 3, "op": "set_resname", "s": "2AB"},
        {"h": 1, "op": "copy"}, {"h": 3, "op": "set_resid", "z": 5}, {"h": 1, "op": "copy"}, {"h": 0, "op": "copy"}]
    ws = {"mols": [w["mols"][0]],
          "system": {"species": [{"name": "MP", "atoms": [("P0", "UA", 1), ("P1", "UA", 1), ("P2", "UB", 2)],
                                  "pos": [[0, 0, 0], [0.1, 0, 0], [0.1, 0.2, 0]], "bonds": [[0, 1], [1, 2]],
                                  "vel": [[0.1, 0, 0], [0, 0.1, 0], [0, 0, 0.1]]}],
                     "instances": [0, 0], "shifts": [[0, 0, 0], [1, 1, 1]]}}
    yield "system_handout_twice", ws, [
        {"h": 1, "op": "handout", "i": 0}, {"h": 1, "op": "handout", "i": 0}, {"h": 1, "op": "handout", "i": 1},
        {"h": 2, "op": "move", "v": [1.0, 1.0, 1.0]}, {"h": 2, "op": "set_ids", "l": [5, 6, 7]}, {"h": 3, "op": "rotate", "m": rot},
        {"h": 2, "op": "set_resids", "l": [8, 9]}, {"h": 4, "op": "set_velocities", "l": None},
        {"h": 1, "op": "handout", "i": 0}, {"h": 2, "op": "set_molname", "s": "NN"}, {"h": 1, "op": "handout", "i": 2}]


    # witness of seeded change C18-1: a cached centre goes stale after writes that bypass Molecule.atoms_positions
    yield "centre_after_view_writes", w, [
        {"h": 0, "op": "index", "i": 3}, {"h": 1, "op": "set_pos", "v": [5.0, -2.0, 1.0]},
        {"h": 0, "op": "move_to", "v": [1.0, 2.0, 3.0]}, {"h": 0, "op": "iter", "i": 0},
        {"h": 2, "op": "set_pos", "v": [-4.0, 0.0, 2.0]}, {"h": 0, "op": "rotate", "m": rot},
        {"h": 0, "op": "resview", "i": 0}, {"h": 3, "op": "move", "v": [0.0, 0.0, 2.5]},
        {"h": 0, "op": "move", "v": [1.0, 1.0, 1.0]}, {"h": 3, "op": "set_positions", "l": [[0.0, 0.0, 0.0], [1.0, 0.0, 0.0]]},
        {"h": 0, "op": "move_to", "v": [0.0, 0.0, 0.0]}, {"h": 0, "op": "copy"}, {"h": 4, "op": "index", "i": 1},
        {"h": 5, "op": "set_pos", "v": [9.0, 9.0, 9.0]}, {"h": 4, "op": "move_to", "v": [0.0, 0.0, 0.0]}]
    # witness of seeded change C18-2: re-assignment of Alignment.start / .end when both ends are set
    wb = {"mols": [w["mols"][0],
                   {"name": "MB", "atoms": [("C0", "SD", 1), ("C1", "SD", 1)], "pos": [[0, 0, 0], [0, 0, 1]], "bonds": [[0, 1]],
                    "vel": None}], "system": None, "nali": 1}
    d1, vel5 = [2.0, 0.0, -1.0], [[0.5, 0.0, 0.0]] * 5
    yield "alignment_reassignment", wb, [
        {"h": 2, "op": "ali_set", "side": "start", "j": 0}, {"h": 2, "op": "ali_set", "side": "end", "j": 0},
        {"h": 0, "op": "move", "v": d1}, {"h": 3, "op": "rotate", "m": rot}, {"h": 4, "op": "set_ids", "l": [5, 4, 3, 2, 1]},
        {"h": 0, "op": "copy"}, {"h": 5, "op": "move", "v": d1},
        {"h": 2, "op": "ali_set", "side": "start", "j": 5},                      # both ends set, equal molecule: h6
        {"h": 5, "op": "move", "v": d1}, {"h": 5, "op": "rotate", "m": rot}, {"h": 5, "op": "move_to", "v": [3.0, 3.0, 3.0]},
        {"h": 5, "op": "set_ids", "l": [11, 12, 13, 14, 15]}, {"h": 5, "op": "set_velocities", "l": vel5},
        {"h": 5, "op": "set_resids", "l": [7, 8]},
        {"h": 6, "op": "move", "v": [-1.0, -1.0, -1.0]}, {"h": 6, "op": "set_ids", "l": [21, 22, 23, 24, 25]},
        {"h": 6, "op": "set_velocities", "l": None}, {"h": 6, "op": "rotate", "m": rot},
        {"h": 2, "op": "ali_set", "side": "end", "j": 5},                        # h7
        {"h": 5, "op": "move", "v": d1}, {"h": 7, "op": "move_to", "v": [0.0, 0.0, 0.0]}, {"h": 7, "op": "set_ids", "l": [1, 2, 3, 4, 5]},
        {"h": 2, "op": "ali_set", "side": "start", "j": 1},                      # another molecule: ValueError
        {"h": 2, "op": "ali_set", "side": "start", "j": None}, {"h": 2, "op": "ali_set", "side": "start", "j": 1},   # h8
        {"h": 2, "op": "ali_set", "side": "end", "j": 0},                        # h9 (equal to the stored end)
        {"h": 0, "op": "move", "v": d1}, {"h": 9, "op": "move", "v": d1}, {"h": 2, "op": "ali_set", "side": "end", "j": 1},
        {"h": 2, "op": "ali_set", "side": "start", "j": 2}, {"h": 2, "op": "ali_set", "side": "end", "j": None}]

    # witnesses of seeded change C18-4 (move in place): (A) ONE ndarray handed to the setters of the original and of
    # its copy, then one of them moved; (B) the displacement is the live position array of an atom of the body
    ref = [[0.0, 0.0, 0.0], [1.0, 0.0, 0.0], [1.0, 1.0, 0.0], [1.0, 1.0, 1.0], [2.0, 1.0, 1.0]]
    yield "one_array_for_original_and_copy", w, [
        {"h": 0, "op": "copy"}, {"h": 1, "op": "move", "v": [1.0, 2.0, 3.0]}, {"h": 0, "op": "rotate", "m": rot},
        {"h": 0, "op": "move_to", "v": [5.0, 5.0, 5.0]}, {"h": 1, "op": "rotate", "m": rot},
        {"h": 0, "op": "set_positions", "l": ref, "buf": 0}, {"h": 1, "op": "set_positions", "l": ref, "buf": 0},
        {"h": 1, "op": "move", "v": [0.5, -1.0, 2.0]}, {"h": 0, "op": "move_to", "v": [-3.0, 0.0, 4.0]},
        {"h": 0, "op": "copy"}, {"h": 2, "op": "set_positions", "l": ref, "buf": 0}, {"h": 0, "op": "resview", "i": 1},
        {"h": 2, "op": "move", "v": [1.0, 1.0, 1.0]}, {"h": 3, "op": "move", "v": [0.0, 2.0, 0.0]},
        {"h": 0, "op": "set_velocities", "l": ref, "buf": 1}, {"h": 1, "op": "set_velocities", "l": ref, "buf": 1},
        {"h": 1, "op": "index", "i": 2}, {"h": 4, "op": "set_pos", "v": [7.0, 7.0, 7.0]}, {"h": 1, "op": "move", "v": [1.0, 0.0, 0.0]}]
    yield "displacement_is_a_live_array_of_the_body", w, [
        {"h": 0, "op": "move", "v": [0.0, 0.0, 0.0], "src": {"kind": "atom", "k": 2}},
        {"h": 0, "op": "resview", "i": 1}, {"h": 1, "op": "move", "v": [0.0, 0.0, 0.0], "src": {"kind": "atom", "k": 1}},
        {"h": 0, "op": "move_to", "v": [0.0, 0.0, 0.0], "src": {"kind": "atom", "k": 1}},
        {"h": 0, "op": "move", "v": [0.0, 0.0, 0.0], "src": {"kind": "center"}},
        {"h": 0, "op": "set_positions", "l": ref, "buf": 0},
        {"h": 0, "op": "move", "v": [0.0, 0.0, 0.0], "src": {"kind": "buf", "buf": 0, "row": 1}},
        {"h": 0, "op": "move_to", "v": [0.0, 0.0, 0.0], "src": {"kind": "center"}},
        {"h": 1, "op": "move_to", "v": [0.0, 0.0, 0.0], "src": {"kind": "atom", "k": 0}}]

    # witness of seeded change C18-5: copy(new_residues) / deep_copy(new_residues) must copy the residues they are given
    yield "copy_with_supplied_residues", w, [
        {"h": 0, "op": "deep_copy"}, {"h": 1, "op": "move", "v": [1.0, 2.0, 3.0]}, {"h": 1, "op": "rotate", "m": rot},
        {"h": 0, "op": "copy_with", "deep": False, "mode": 0, "j": 1, "i": 0},                      # h2 = h0.copy(h1.residues)
        {"h": 2, "op": "move", "v": [1.0, 0.0, 0.0]}, {"h": 2, "op": "rotate", "m": rot}, {"h": 2, "op": "move_to", "v": [4.0, 4.0, 4.0]},
        {"h": 2, "op": "set_ids", "l": [9, 8, 7, 6, 5]}, {"h": 2, "op": "set_velocities", "l": [[1.0, 0.0, 0.0]] * 5},
        {"h": 2, "op": "set_resids", "l": [11, 12]}, {"h": 2, "op": "index", "i": 1}, {"h": 3, "op": "set_pos", "v": [8.0, 8.0, 8.0]},
        {"h": 1, "op": "move", "v": [0.0, -2.0, 0.0]}, {"h": 1, "op": "set_ids", "l": [1, 2, 3, 4, 5]},
        {"h": 0, "op": "copy_with", "deep": True, "mode": 0, "j": 1, "i": 0},                       # h4 = h0.deep_copy(h1.residues)
        {"h": 4, "op": "move_to", "v": [0.0, 0.0, 0.0]}, {"h": 4, "op": "set_velocities", "l": None}, {"h": 1, "op": "rotate", "m": rot},
        {"h": 0, "op": "copy_with", "deep": False, "mode": 0, "j": 0, "i": 0},                      # h5 = h0.copy(h0.residues)
        {"h": 5, "op": "move", "v": [3.0, 0.0, 0.0]}, {"h": 0, "op": "move", "v": [0.0, 3.0, 0.0]},
        {"h": 0, "op": "copy_with", "deep": False, "mode": 1, "j": 1, "i": 0}, {"h": 6, "op": "move", "v": [1.0, 1.0, 1.0]},
        {"h": 1, "op": "resview", "i": 0}, {"h": 0, "op": "copy_with", "deep": False, "mode": 0, "j": 7, "i": 0}]   # residues of another shape: IOError
    # witness of seeded change C18-6: integer-typed coordinates on every atom of the FIRST residue, floats elsewhere
    yield "integer_coordinates_on_first_residue", w, [
        {"h": 0, "op": "move", "v": [0.25, 0.5, 0.125]},
        {"h": 0, "op": "index", "i": 0}, {"h": 1, "op": "set_pos", "v": [2.0, 4.0, 5.0], "dt": "i8"},
        {"h": 0, "op": "iter", "i": 1}, {"h": 2, "op": "set_pos", "v": [3.0, 4.0, 5.0], "dt": "i4"},
        {"h": 0, "op": "move", "v": [0.3, -0.7, 1.1]}, {"h": 0, "op": "rotate", "m": rot}, {"h": 0, "op": "move_to", "v": [1.5, 2.5, 3.5]},
        {"h": 0, "op": "resview", "i": 0}, {"h": 3, "op": "set_positions", "l": [[0.0, 0.0, 0.0], [1.0, 0.0, 0.0]], "dt": "i8"},
        {"h": 0, "op": "set_velocities", "l": [[0.5, 0.25, 0.125]] * 5, "dt": "f4"}, {"h": 3, "op": "set_velocities", "l": [[1.0, 2.0, 3.0]] * 2, "dt": "i4"},
        {"h": 0, "op": "rotate", "m": rot}, {"h": 0, "op": "move", "v": [0.1, 0.2, 0.3]},
        {"h": 1, "op": "set_pos", "v": [1.0, 1.0, 1.0], "dt": "list"}, {"h": 2, "op": "set_pos", "v": [2.0, 1.0, 1.0], "dt": "tuple"},
        {"h": 0, "op": "move_to", "v": [0.0, 0.0, 0.0]}, {"h": 0, "op": "set_positions", "l": [[1.0, 2.0, 3.0]] * 5, "dt": "list"},
        {"h": 0, "op": "set_positions", "l": [[1.0, 0.0, 0.0], [2.0, 0.0, 0.0], [2.0, 1.0, 0.0], [2.0, 1.0, 1.0], [3.0, 1.0, 1.0]], "dt": "i8"},
        {"h": 0, "op": "copy"}, {"h": 4, "op": "rotate", "m": rot}]

    # witness of seeded change C18-8: a re-centring onto a point very close to the current centre is still a re-centring
    far = [120.0, 250.0, 80.0]
    yield "recentring_by_a_tiny_amount", w, [
        {"h": 0, "op": "move_to", "v": far}, {"h": 0, "op": "move", "v": [1e-3, -2e-3, 5e-4]}, {"h": 0, "op": "move_to", "v": far},
        {"h": 0, "op": "resview", "i": 0}, {"h": 1, "op": "move_to", "v": far}, {"h": 1, "op": "move", "v": [1e-3, -2e-3, 5e-4]},
        {"h": 1, "op": "move_to", "v": far}, {"h": 0, "op": "move_to", "v": [31.0, 47.5, 12.25]}, {"h": 0, "op": "copy"},
        {"h": 2, "op": "move", "v": [2e-4, 1e-4, -1e-4]}, {"h": 2, "op": "move_to", "v": [31.0, 47.5, 12.25]},
        {"h": 2, "op": "move", "v": [3e-7, 0.0, 0.0]}, {"h": 2, "op": "move_to", "v": [31.0, 47.5, 12.25]},
        {"h": 2, "op": "move_to", "v": [1.0, 2.0, 3.0]}, {"h": 2, "op": "move", "v": [0.0, 2e-8, 0.0]}, {"h": 2, "op": "move_to", "v": [1.0, 2.0, 3.0]},
        {"h": 0, "op": "move_to", "v": [0.0, 0.0, 0.0]}, {"h": 0, "op": "move", "v": [5e-9, 0.0, 0.0]}, {"h": 0, "op": "move_to", "v": [0.0, 0.0, 0.0]}]

    # witness of seeded change C18-10: molecules obtained by ITERATING a system and held at the same time
    ws3 = {"mols": [w["mols"][0]],
           "system": {"species": [ws["system"]["species"][0],
                                  {"name": "MQ", "atoms": [("Q0", "VA", 1), ("Q1", "VA", 1)], "pos": [[0, 0, 0], [0, 0, 0.1]],
                                   "bonds": [[0, 1]], "vel": [[0, 0, 0.1], [0, 0.1, 0]]}],
                      "instances": [0, 0, 0, 1, 1], "shifts": [[0, 0, 0], [1, 1, 1], [2, 0, 1], [3, 3, 3], [0, 3, 1]]}}
    yield "molecules_held_from_iteration", ws3, [
        {"h": 1, "op": "iter_next"}, {"h": 1, "op": "iter_next"}, {"h": 1, "op": "iter_next"}, {"h": 1, "op": "iter_next"},
        {"h": 1, "op": "iter_next"},                                                       # h2..h6: all five held
        {"h": 2, "op": "move", "v": [1.0, 1.0, 1.0]}, {"h": 2, "op": "set_ids", "l": [50, 51, 52]}, {"h": 2, "op": "set_resids", "l": [8, 9]},
        {"h": 3, "op": "index", "i": 1}, {"h": 7, "op": "set_pos", "v": [9.0, 9.0, 9.0]}, {"h": 7, "op": "set_atomid", "z": 77},
        {"h": 4, "op": "rotate", "m": rot}, {"h": 5, "op": "move_to", "v": [0.0, 0.0, 0.0]}, {"h": 6, "op": "set_velocities", "l": None},
        {"h": 1, "op": "iter_next"},                                                       # exhausted: IndexError
        {"h": 1, "op": "iter_next"}, {"h": 1, "op": "iter_next"}, {"h": 8, "op": "move", "v": [0.0, 0.0, 5.0]},
        {"h": 1, "op": "handout", "i": 1}, {"h": 1, "op": "iter_next", "restart": True}, {"h": 9, "op": "move", "v": [1.0, 0.0, 0.0]}]


# ------------------------------------------------------------------ check entry points
MAXREPORT = 6


def report(ctx, tag, world, ops, bad):
    if len(ctx.violations) >= MAXREPORT:     # a broken tree fails hundreds of sequences: a few replays are enough
        ctx.cov["S"]["unreported_failures"] = ctx.cov["S"].get("unreported_failures", 0) + 1
        return
    ctx.violation("%s: %s" % (tag, "; ".join(bad[:4])), {"kind": "sequence", "world": world, "ops": ops}, key="sequence")


def corpus(ctx):
    S = ctx.cov["S"]
    S["corpus"] = 0
    for name, world, ops in corpus_cases():
        r = run_case(world, ops=ops, want_terms=False)
        S["corpus"] += 1
        if r["bad"]:
            report(ctx, "corpus " + name, world, r["ops"], r["bad"])


def minimise(world, ops):
    """shortest prefix / greedy deletion that still fails the oracle"""
    def fails(o):
        try:
            return bool(run_case(world, ops=o, want_terms=False)["bad"])
        except Exception:  # noqa: BLE001
            return False
    cur = list(ops)
    for n in range(1, len(cur) + 1):
        if fails(cur[:n]):
            cur = cur[:n]
            break
    return cur


def correspondence(ctx):
    rs = ctx.np_rng("K")
    ncases = ctx.n(150, 900)
    maxops = ctx.n(40, 200)
    cases, meta = [], []
    hist = {}
    lens = {}
    inplace = []
    for name, world, ops in corpus_cases():
        r = run_case(world, ops=ops)
        cases.append(r["term"])
        meta.append({"kind": "sequence", "world": world, "ops": r["ops"], "name": name})
        if r["caller_array_changed"]:
            inplace.append({"kind": "sequence", "world": world, "ops": r["ops"], "code": 1, "name": name,
                            "what": "model assumption broken: " + r["caller_array_changed"][0]})
    for c in range(ncases):
        world = gen_world(rs)
        nops = int(rs.randint(8, maxops + 1))
        r = run_case(world, rs=rs, nops=nops)
        cases.append(r["term"])
        meta.append({"kind": "sequence", "world": world, "ops": r["ops"]})
        if r["caller_array_changed"]:
            inplace.append({"kind": "sequence", "world": world, "ops": r["ops"], "code": 1,
                            "what": "model assumption broken: " + r["caller_array_changed"][0]})
        for k, v in r["hist"].items():
            hist[k] = hist.get(k, 0) + v
        b = "len<=%d" % (10 * ((len(r["ops"]) + 9) // 10))
        lens[b] = lens.get(b, 0) + 1
        ctx.count(("K", json.dumps(r["ops"], sort_keys=True)), nontrivial(r["ops"]))
        if r["bad"]:
            report(ctx, "generated sequence", world, minimise(world, r["ops"]), r["bad"])
    ctx.sample({"world": meta[0]["world"], "ops": meta[0]["ops"][:6]})
    ctx.sample({"ops": meta[-1]["ops"][:8]})
    K = ctx.cov["K"]
    # small shards keep the memory of one coqc low (a case is up to ~0.5 MB of terms); a shard killed by the
    # machine (memory pressure from concurrent builds) is not a verdict: retry once with fewer processes
    shard = max(1, (len(cases) + 47) // 48)
    codes, log = lib.run_coq_cases(ctx.cid, "K", HEADER, cases, shard=shard)
    if codes is None and ("Killed" in log or "TIMEOUT" in log or "Out of memory" in log):
        K["retried_after"] = log[-300:]
        codes, log = lib.run_coq_cases(ctx.cid, "K", HEADER, cases, shard=shard, jobs=4, timeout=1800)
    K["cases"] = len(cases)
    K["operations"] = sum(len(m["ops"]) for m in meta)
    K["input_distribution"] = {"operations": hist, "sequence_lengths": lens}
    K["log"] = log
    if codes is None:
        K["error"] = log
        return [{"error": "coqc failed on the correspondence cases", "log": log[-1500:]}]
    K["disagree"] = len(codes)
    K["agree"] = len(cases) - len(codes)
    K["caller_arrays_mutated_in_place"] = len(inplace)
    dis = list(inplace)
    for i, c in sorted(codes.items()):
        step = c // 4
        m = meta[i]
        d = {"kind": "sequence", "world": m["world"], "ops": m["ops"][:max(step, 1)], "code": c % 4, "step": step,
             "what": "exception class differs" if c % 4 == 3 else "observables differ"}
        dis.append(d)
    for d in dis[:20]:
        r = run_case(d["world"], ops=d["ops"], want_terms=False)
        if r["bad"]:
            report(ctx, "sequence on which model and implementation differ", d["world"], d["ops"], r["bad"])
    return dis


def oracle(ctx, scale):
    rs = ctx.np_rng("S%d" % scale)
    S = ctx.cov["S"]
    n = ctx.n(150, 1500) * scale
    maxops = ctx.n(40, 200)
    fails = 0
    nops = 0
    for _ in range(n):
        world = gen_world(rs)
        r = run_case(world, rs=rs, nops=int(rs.randint(8, maxops + 1)), want_terms=False)
        nops += len(r["ops"])
        ctx.count(("S", json.dumps(r["ops"], sort_keys=True)), nontrivial(r["ops"]))
        if r["bad"]:
            fails += 1
            report(ctx, "generated sequence", world, minimise(world, r["ops"]), r["bad"])
    S["sequences_x%d" % scale] = n
    S["operations_x%d" % scale] = nops
    S["failures"] = S.get("failures", 0) + fails


def replay(ctx, obj):
    r = obj["replay"]
    if r.get("kind") != "sequence":
        print("replay names a proof/correspondence, not an input:", json.dumps(r)[:300])
        return False
    out = run_case(r["world"], ops=r["ops"], want_terms=False)
    print(out["bad"])
    return not out["bad"]


def finish(ctx):
    ctx.assumptions = [
        "positions/velocities stored in atoms are treated as immutable values: no operation of the property's alphabet "
        "mutates a numpy array in place (an array the caller passes to a setter and later mutates himself is outside the model)",
        "theorems over the real numbers; the 1e-9 tolerances of the rigid-motion clause are tested on the implementation (S)",
        "a plain copy shares the topology atoms by design: names/residue labels/topology residue numbers written through a "
        "copy are NOT isolated (only deep copies are); the property demands isolation of coordinates, velocities, atom ids and "
        "coordinate-side residue numbers, which is what is proved",
        "np.dot(positions, R^T) goes through BLAS: compared with the model within 1e-9 relative, not bit-exactly",
    ]
    return ctx.finish(level="proof", rule=RULE,
                      trusted=["routing of attribute reads/writes (__getattr__/__setattr__, properties) and the order of "
                               "tests and writes inside every operation, transcribed by hand in coq/Model/Objects.v"])
