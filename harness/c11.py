"""C11 - System recognises exactly the molecule instances present, in file order."""
import itertools
import json
import multiprocessing
import os
from collections import Counter

import numpy as np

import lib
import molgen

HEADER = """From Coq Require Import List ZArith NArith.
From GM Require Import Base.Res Model.SystemRec Corr.CheckC11.
Import ListNotations.
"""

HEADER_D = """From Coq Require Import List.
From GM Require Import Base.Res Model.SystemRec Proofs.SystemRecCheck.
Import ListNotations.
"""

RULE = ("domain systems: every sequence of <= 5 (quick) / <= 6 (thorough) molecules over the species A (one residue), "
        "B (two different residues), C (residues P,Q,P), D (two identical consecutive residues) and the unloaded solvent W, "
        "each with every permutation of every sub-list of the four topologies (65 loading orders, absent species are refused "
        "and the session goes on; quick tier at length 5: 12 full permutations + 6 shorter orders drawn per system) plus 3 orders "
        "with near-miss topologies (one atom name changed: refused, state preserved); size-boundary systems with uninterrupted blocks "
        "of 127-130 and 300 instances of a 1-, 2- and 3-residue species; a second exhaustive family with residue names shared inside "
        "and across species with different atom counts; hand-made residue numbers in the topologies; orders offering a topology twice; random longer domain systems over random species with disjoint signatures; wild systems "
        "(shared signatures, same name+size with other atom names, truncated instances, topologies that merge residues) for K only. "
        "A case is one (file, loading order); non-trivial = distinct and at least one topology accepted or refused after a scan.")

# ------------------------------------------------------------------ species and systems
# a species: {"name": str, "residues": [[resname, [atom names]], ...]}
FIXED = [
    {"name": "MA", "residues": [["RA", ["a1", "a2"]]]},
    {"name": "MB", "residues": [["BX", ["b1", "b2"]], ["BY", ["b3"]]]},
    {"name": "MC", "residues": [["CP", ["c1"]], ["CQ", ["c2", "c3"]], ["CP", ["c1"]]]},
    {"name": "MD", "residues": [["DD", ["d1"]], ["DD", ["d1"]]]},
]
SOLVENT = ["W", ["w1"]]
MAX_REPORTS = 10
ERRCODE = [(OSError, 1), (ValueError, 2), (IndexError, 3), (KeyError, 4)]


class Err(int):
    """exception class code (what K compares) that remembers the class name (what S prints)"""
    name = "Exception"


def errcode(e):
    code = 9
    for cls, c in ERRCODE:
        if isinstance(e, cls):
            code = c
            break
    x = Err(code)
    x.name = type(e).__name__
    return x


def ename(c):
    return getattr(c, "name", "error class %d" % int(c))


def top_atoms(sp, merge_resid=False, resids=None):
    """[(atomname, resname, resid)] of the topology of a species; merge_resid: give equal consecutive
    residue names the same resid (the topology then shows them as one residue run); resids: the residue
    number of each residue (default 1, 2, 3, ...)"""
    out = []
    rid = 0
    prev = None
    for j, (rn, names) in enumerate(sp["residues"]):
        if not (merge_resid and prev == rn):
            rid += 1
        prev = rn
        for an in names:
            out.append((an, rn, rid if resids is None else resids[j]))
    return out


def random_resids(rs, sp):
    """residue numbers as hand-made topologies have them: equal numbers on consecutive residues with DIFFERENT names
    (resnr left at 1 for a whole ion pair), gaps, non-monotone; two consecutive residues with the same name always get
    different numbers (otherwise the topology would describe one residue)"""
    out = []
    prev_rn = None
    for rn, _ in sp["residues"]:
        if out and rn != prev_rn and rs.randint(0, 2):
            out.append(out[-1])
        else:
            while True:
                r = int(rs.randint(1, 12))
                if not out or r != out[-1]:
                    break
            out.append(r)
        prev_rn = rn
    return out


def build_system(spec):
    """spec = {"species": [...], "segments": [species index | [resname, [names]] ...], "tops": [top specs]}
    top spec = {"name":..., "atoms": [(an, rn, rid)]}.  Writes the files; returns dict with the paths,
    the residue list [(resid, resname, names)], the atom table and the ground truth."""
    residues = []
    truth = []           # (species index or None, first residue, number of residues)
    for seg in spec["segments"]:
        if isinstance(seg, int):
            rs = spec["species"][seg]["residues"]
            truth.append((seg, len(residues), len(rs)))
            residues += [(rn, list(names)) for rn, names in rs]
        else:
            truth.append((None, len(residues), 1))
            residues.append((seg[0], list(seg[1])))
    recs = []
    res_list = []
    aid = 0
    resid0 = spec.get("resid0", 1)
    for k, (rn, names) in enumerate(residues):
        rid = (resid0 + k) % 100000
        res_list.append((rid, rn, names))
        for an in names:
            aid += 1
            pos = (round(0.001 * aid, 3), round(0.01 * (k % 97), 3), round(0.1 * (aid % 7), 3))
            recs.append((rid, rn, an, aid, pos, None))
    gro = molgen.write_gro(molgen.fresh_path("gro", "c11_%d_" % os.getpid()), recs)
    tops = []
    for t in spec["tops"]:
        n = len(t["atoms"])
        tops.append(molgen.write_itp(molgen.fresh_path("itp", "c11_%d_" % os.getpid()), t["name"], [tuple(a) for a in t["atoms"]],
                                     [(i, i + 1) for i in range(n - 1)]))
    return {"gro": gro, "tops": tops, "residues": res_list, "records": recs, "truth": truth}


def species_top(sp, merge_resid=False, resids=None):
    return {"name": sp["name"], "atoms": top_atoms(sp, merge_resid, resids)}


def near_miss_top(sp, resids=None):
    """the topology of the species with ONE atom name changed (the last atom): same (resname, size) signature, so the
    residue pattern is found in the file, but no run matches atom by atom -> must be refused and change nothing"""
    atoms = [list(a) for a in top_atoms(sp, resids=resids)]
    atoms[-1][0] = (atoms[-1][0] + "x")[:5]
    return {"name": "N" + sp["name"], "atoms": [tuple(a) for a in atoms]}


def near_miss_orders(rs, present, nsp, n=3):
    """loading orders in which near-miss topologies (index nsp + s for species s) are tried before (and between) the
    genuine ones; `present` = species that occur in the file"""
    out = []
    pool = sorted(present) if present else list(range(nsp))
    for j in range(n):
        s0 = pool[int(rs.randint(0, len(pool)))]
        if j == 0:
            o = [nsp + s0, s0]                                   # refused, then the genuine one must get everything
        elif j == 1:
            o = [int(x) for x in rs.permutation(nsp)]
            o.insert(int(rs.randint(0, o.index(s0) + 1)), nsp + s0)   # somewhere before the genuine topology
        else:
            o = [nsp + int(x) for x in rs.permutation(nsp)[:int(rs.randint(1, nsp + 1))]]
            o += [int(x) for x in rs.permutation(nsp)[:int(rs.randint(0, nsp + 1))]]
        out.append(o)
    return out


# ------------------------------------------------------------------ implementation driver
class Interner:
    def __init__(self):
        self.t = {}

    def __call__(self, s):
        if s not in self.t:
            self.t[s] = len(self.t)
        return self.t[s]


def mol_descr(mol):
    """(name, index of the first atom, atom count, residue numbers, coordinate checksum); the Coq text uses the first
    four fields, the checksum makes System[i] / slices / iteration comparable on the coordinates as well"""
    ids = mol.atoms_ids
    pos = np.asarray(mol.atoms_positions, dtype=float)
    return (mol.name, ids[0] - 1, len(mol), tuple(mol.resids),
            tuple(float(x) for x in np.round((pos * np.arange(1, len(pos) + 1)[:, None]).sum(axis=0), 3)))


def catch(f):
    try:
        return True, f()
    except Exception as e:       # noqa: BLE001  (classes are compared, nothing is swallowed)
        return False, errcode(e)


def slices_for(n, rs, full):
    """slice arguments (a, b, c) to observe on a system of n molecules"""
    if full:
        rng = [None] + list(range(-n - 2, n + 3))
        return [(a, b, c) for a in rng for b in rng for c in (None, 1, 2, -1, -2, 3, -3)] + [(None, None, 0)]
    out = [(None, None, None), (None, None, -1)]
    for _ in range(3):
        a, b = [None if rs.randint(0, 5) == 0 else int(rs.randint(-n - 2, n + 3)) for _ in range(2)]
        c = [None, 1, 2, -1, -2, 3, -3, 0][int(rs.randint(0, 8))]
        out.append((a, b, c))
    return out


def observe_session(built, mtops, order, slices, items=True):
    # items=False, slices=[] : only the loads, list(System), len and composition are observed
    """one System, topologies added in `order` (exceptions caught, the session goes on).  EVERY observation of the
    implementation is made under `catch`: an exception becomes part of the observation (its class), never a crash of
    the harness.  Returns (loads, obs dict, molecules list or None, system or None)."""
    from gaddlemaps.components import System
    okc, syst = catch(lambda: System(built["gro"]))
    if not okc:
        err = syst
        obs = {"ctor_err": err, "iter": err, "iter_ok": False, "len_ok": False, "len": err, "comp_ok": False,
               "comp": err, "items": [], "slices": [((a, b, c), False, err) for a, b, c in slices]}
        return [err for _ in order], obs, None, None
    loads = []
    for k in order:
        ok, r = catch(lambda: syst.add_molecule_top(mtops[k]))
        loads.append(0 if ok else r)
    obs = {}
    ok, mols = catch(lambda: list(syst))
    okd, descr = catch(lambda: [mol_descr(m) for m in mols]) if ok else (False, mols)
    obs["iter"] = descr
    obs["iter_ok"] = okd
    obs["len_ok"], obs["len"] = catch(lambda: len(syst))
    obs["comp_ok"], obs["comp"] = catch(lambda: sorted(syst.composition.items()))
    n = obs["len"] if obs["len_ok"] else (len(mols) if ok else 0)
    obs["items"] = []
    if items:
        for i in range(-n - 2, n + 2):
            ok2, m = catch(lambda: mol_descr(syst[i]))
            obs["items"].append((i, ok2, m))
    obs["slices"] = []
    for a, b, c in slices:
        ok2, ms = catch(lambda: [mol_descr(m) for m in syst[a:b:c]])
        obs["slices"].append(((a, b, c), ok2, ms))
    return loads, obs, (mols if okd else None), syst


# ------------------------------------------------------------------ Coq terms
def coq_nats(l):
    return "[" + ";".join(str(int(x)) for x in l) + "]"


def coq_Ns(l):
    return "[" + ";".join("%d%%N" % int(x) for x in l) + "]"


def coq_oz(x):
    return "None" if x is None else "(Some (%d)%%Z)" % x


def coq_file(built, I):
    return "[" + ";".join("(%d%%N,%d,%s)" % (rid, I(("r", rn)), coq_nats(I(("a", a)) for a in names))
                          for rid, rn, names in built["residues"]) + "]"


def coq_top(t, I):
    return "(mkTop %d [%s])" % (I(("m", t["name"])),
                                ";".join("(%d,%d,%d)" % (I(("a", an)), I(("r", rn)), rid) for an, rn, rid in t["atoms"]))


def coq_obs(obs, I):
    tab = {}

    def idx(d):
        if d not in tab:
            tab[d] = len(tab)
        return tab[d]

    def rlist(ok, v):
        return "(OOk %s)" % coq_nats([idx(d) for d in v]) if ok else "(OErr %d)" % v
    it = rlist(obs["iter_ok"], obs["iter"])
    keep = obs.get("k_items")       # long systems: K compares System[i] around the boundaries, S compares every i
    items = "[" + ";".join("((%d)%%Z,%s)" % (i, "OOk %d" % idx(d) if ok else "OErr %d" % d)
                           for i, ok, d in obs["items"] if keep is None or i in keep) + "]"
    sl = "[" + ";".join("((%s,%s,%s),%s)" % (coq_oz(a), coq_oz(b), coq_oz(c), rlist(ok, v))
                        for (a, b, c), ok, v in obs["slices"]) + "]"
    if obs["comp_ok"]:
        comp = "(OOk [" + ";".join("(%d,%d)" % (I(("m", k)), v) for k, v in obs["comp"]) + "])"
    else:
        comp = "(OErr %d)" % obs["comp"]
    ln = "(OOk %d)" % obs["len"] if obs["len_ok"] else "(OErr %d)" % obs["len"]
    tabl = "[" + ";".join("(%d,%d,%d,%s)" % (I(("m", d[0])), d[1], d[2], coq_Ns(d[3]))
                          for d, _ in sorted(tab.items(), key=lambda kv: kv[1])) + "]"
    return "(mkObs %s %s %s %s %s %s)" % (tabl, it, ln, comp, items, sl)


def coq_domain_case(spec, built, I):
    """chk_domain: the generated file satisfies the hypothesis `domain` of C11_exact (decided inside Coq by the
    reflective checker; the ground truth gives the runs, the kinds are read off the model's view)"""
    present = sorted(set(s for s, _, _ in built["truth"] if s is not None))
    reidx = {s: k for k, s in enumerate(present)}
    tops = [spec["tops"][spec["top_species"].index(s)] for s in present]
    hs = []
    for s, _, _ in built["truth"]:
        if s is None:
            hs.append(None)
        elif hs and hs[-1] is not None and hs[-1][0] == reidx[s]:
            hs[-1][1] += 1
        else:
            hs.append([reidx[s], 0])
    htxt = "[" + ";".join("HOther" if h is None else "HInst %d %d" % (h[0], h[1]) for h in hs) + "]"
    ftxt = "[" + ";".join("(%d,%s)" % (I(("r", rn)), coq_nats(I(("a", a)) for a in names))
                          for _, rn, names in built["residues"]) + "]"
    return "chk_domain %s [%s] %s" % (ftxt, ";".join(coq_top(t, I) for t in tops), htxt)


# ------------------------------------------------------------------ S oracle (property text)
def read_gro_raw(path):
    """independent fixed-column reading of the coordinate file: [(resid, resname, name, atomid, (x,y,z))]"""
    lines = open(path).read().split("\n")
    n = int(lines[1])
    out = []
    for ln in lines[2:2 + n]:
        out.append((int(ln[0:5]), ln[5:10].strip(), ln[10:15].strip(), int(ln[15:20]),
                    (float(ln[20:28]), float(ln[28:36]), float(ln[36:44]))))
    return out


def views_clauses(obs, views):
    """len, composition, System[i] against the observed iteration; an exception where the property promises a value is a
    failed clause that names the exception class"""
    bad = []
    descr = obs["iter"]
    n = len(descr)
    if not obs["len_ok"]:
        bad.append("len(System) raised %s" % ename(obs["len"]))
    elif obs["len"] != n:
        bad.append("len = %d, iteration gives %d" % (obs["len"], n))
    if not obs["comp_ok"]:
        bad.append("System.composition raised %s" % ename(obs["comp"]))
    elif dict(obs["comp"]) != dict(Counter(d[0] for d in descr)):
        bad.append("composition %s differs from the iteration" % dict(obs["comp"]))
    if not views:
        return bad
    items = dict((i, (ok, v)) for i, ok, v in obs["items"])
    for i in range(-n, n):
        if i not in items:
            continue
        ok, v = items[i]
        if not ok:
            bad.append("System[%d] raised %s on a system of %d molecules" % (i, ename(v), n))
        elif v != descr[i]:
            bad.append("System[%d] differs from list(System)[%d]" % (i, i))
    for i in (n, n + 1, -n - 1, -n - 2):
        if i in items and items[i][0]:
            bad.append("System[%d] out of range returned a molecule" % i)
    return bad


def check_molecule(sp, mol, a0, a1, raw):
    """one molecule against the instance of species sp at atoms a0..a1 of the file; returns a failed clause or None"""
    ids = list(mol.atoms_ids)
    if mol.name != sp["name"]:
        return "molecule at atoms %d.. is %s, expected %s" % (a0, mol.name, sp["name"])
    if ids != [raw[k][3] for k in range(a0, a1)]:
        return "%s: atoms %s, expected the contiguous run %d..%d" % (sp["name"], ids, a0 + 1, a1)
    tnames = [an for rn, names in sp["residues"] for an in names]
    if [at.name for at in mol] != tnames or tnames != [raw[k][2] for k in range(a0, a1)]:
        return "%s: atom names differ from the topology" % sp["name"]
    if not np.array_equal(np.asarray(mol.atoms_positions), np.array([raw[k][4] for k in range(a0, a1)])):
        return "%s: coordinates differ from the file" % sp["name"]
    return None


def oracle_session(spec, built, order, obs, mols, loads, views=True):
    """the property on one domain system and one loading order; returns the list of failed clauses"""
    bad = []
    if "raw" not in built:
        built["raw"] = read_gro_raw(built["gro"])
    raw = built["raw"]
    res_start = []
    a = 0
    for rid, rn, names in built["residues"]:
        res_start.append(a)
        a += len(names)
    res_start.append(a)
    present = set(s for s, _, _ in built["truth"] if s is not None)
    # which topologies must be accepted: species present in the file, not yet loaded
    loaded = []
    for k, code in zip(order, loads):
        sp = spec["top_species"][k]
        if sp in present and sp not in loaded:
            if code != 0:
                bad.append("topology %s of a species present in the file was refused (%s)" %
                           (spec["species"][sp]["name"], ename(code)))
            loaded.append(sp)
        else:
            if code == 0 and sp is not None and sp in loaded:
                bad.append("topology %s was accepted a second time although every instance was already a molecule "
                           "(molecules no longer disjoint / one per instance)" % spec["tops"][k]["name"])
            elif code == 0:
                bad.append("topology %s with no matching run was accepted" % spec["tops"][k]["name"])
    if "ctor_err" in obs:
        return ["System(gro) raised %s on a well-formed file" % ename(obs["ctor_err"])]
    if bad:
        return bad
    if mols is None:
        return ["list(System) raised %s on an in-domain system" % ename(obs["iter"])]
    expected = [(s, r0, nr) for s, r0, nr in built["truth"] if s is not None and s in loaded]
    if len(mols) != len(expected):
        return ["%d molecules, %d instances of loaded species in the file" % (len(mols), len(expected))]
    for mol, (s, r0, nr) in zip(mols, expected):
        ok, clause = catch(lambda: check_molecule(spec["species"][s], mol, res_start[r0], res_start[r0 + nr], raw))
        if not ok:
            bad.append("reading molecule %s raised %s" % (spec["species"][s]["name"], ename(clause)))
        elif clause:
            bad.append(clause)
    if bad:
        return bad
    # views agree with each other
    return bad + views_clauses(obs, views)


def has_same_key(sp):
    """the predicate of the known finding `same_key_residues`: the species contains two residues with equal
    (resname, atom count) but different atom names"""
    seen = {}
    for rn, names in sp["residues"]:
        k = (rn, len(names))
        if k in seen and seen[k] != tuple(names):
            return True
        seen.setdefault(k, tuple(names))
    return False


def oracle_samekey(spec, built, order, obs, mols, loads):
    """The property on a file that contains species with same-key residues (known finding).  Returns
    (keyed, other): clauses that are the refusal/misrecognition of an AFFECTED species (reported under the key
    same_key_residues), and every other failed clause (reported as an ordinary violation)."""
    keyed, other = [], []
    affected = set(s for s, sp in enumerate(spec["species"]) if has_same_key(sp))
    if "raw" not in built:
        built["raw"] = read_gro_raw(built["gro"])
    raw = built["raw"]
    res_start = [0]
    for rid, rn, names in built["residues"]:
        res_start.append(res_start[-1] + len(names))
    present = set(s for s, _, _ in built["truth"] if s is not None)
    accepted = []
    for k, code in zip(order, loads):
        sp = spec["top_species"][k]
        if sp in present and sp not in accepted:
            if code != 0:
                (keyed if sp in affected else other).append(
                    "topology %s of a species present in the file was refused" % spec["species"][sp]["name"])
            else:
                accepted.append(sp)
        elif code == 0:
            other.append("topology %s with no matching run was accepted" % spec["tops"][k]["name"])
    hit = any(sp in affected for sp in accepted)
    if "ctor_err" in obs:
        other.append("System(gro) raised %s on a well-formed file" % ename(obs["ctor_err"]))
        return keyed, other
    if mols is None:
        (keyed if hit else other).append("list(System) raised %s" % ename(obs["iter"]))
        return keyed, other
    names_ok = set(spec["species"][sp]["name"] for sp in accepted)
    for m in mols:
        if m.name not in names_ok:
            other.append("a molecule %s of a species that was not accepted" % m.name)
    firsts = [d[1] for d in obs["iter"]]
    if firsts != sorted(firsts) or len(set(firsts)) != len(firsts):
        (keyed if hit else other).append("molecules not in file order")
    for sp in accepted:
        spd = spec["species"][sp]
        dest = keyed if sp in affected else other
        got = [m for m in mols if m.name == spd["name"]]
        exp = [(r0, nr) for s, r0, nr in built["truth"] if s == sp]
        if len(got) != len(exp):
            dest.append("%s: %d molecules, %d instances in the file" % (spd["name"], len(got), len(exp)))
            continue
        for mol, (r0, nr) in zip(got, exp):
            ok, clause = catch(lambda: check_molecule(spd, mol, res_start[r0], res_start[r0 + nr], raw))
            if not ok:
                other.append("reading molecule %s raised %s" % (spd["name"], ename(clause)))
            elif clause:
                dest.append(clause)
    # the views agree with each other whatever was recognised
    other += views_clauses(obs, True)
    return keyed, other


def oracle_slices(obs):
    """slices observed = Python slices of the observed iteration"""
    bad = []
    if not obs["iter_ok"]:
        return bad
    for (a, b, c), ok, v in obs["slices"]:
        if c == 0:
            if ok:
                bad.append("System[::0] returned a list")
            continue
        if not ok:
            bad.append("System[%s:%s:%s] raised %s" % (a, b, c, ename(v)))
        elif v != obs["iter"][a:b:c]:
            bad.append("System[%s:%s:%s] differs from list(System)[%s:%s:%s]" % (a, b, c, a, b, c))
    return bad


# ------------------------------------------------------------------ one system = one Coq case
def all_orders(k):
    out = []
    for r in range(k + 1):
        for sub in itertools.permutations(range(k), r):
            out.append(list(sub))
    return out


def run_system(job):
    """job = {"spec":..., "orders": [...], "domain": bool, "full_slices": bool, "seed": int}
    Returns {"case": coq term, "fails": [(order, [clauses])], "sessions": n, "hist": {...}}"""
    lib.setup_impl_path()
    from gaddlemaps.components import MoleculeTop
    spec = job["spec"]
    rs = np.random.RandomState(job["seed"])
    built = build_system(spec)
    out = {"fails": [], "fails_keyed": [], "sessions": 0, "hist": Counter(), "keys": []}
    try:
        mtops = [MoleculeTop(p) for p in built["tops"]]
        I = Interner()
        groups = {}
        n_guess = len(spec["segments"])
        view_orders = job.get("view_orders")
        for oi, order in enumerate(job["orders"]):
            views = view_orders is None or oi in view_orders
            slices = slices_for(n_guess, rs, job.get("full_slices", False)) if views else []
            if job.get("kind") == "block":
                slices = slices[:2] + [(126, 131, None), (-3, None, None), (None, None, 64)] if views else []
            loads, obs, mols, syst = observe_session(built, mtops, order, slices, items=views)
            out["sessions"] += 1
            out["hist"]["accepted"] += sum(1 for c in loads if c == 0)
            for c in loads:
                if c:
                    out["hist"]["refused_class_%d" % c] += 1
            out["keys"].append((tuple(order), tuple(int(c) for c in loads), len(obs["iter"]) if obs["iter_ok"] else -1))
            if job.get("samekey"):
                keyed, other = oracle_samekey(spec, built, order, obs, mols, loads)
                other += oracle_slices(obs)
                if keyed:
                    out["fails_keyed"].append((order, keyed))
                if other:
                    out["fails"].append((order, other))
            elif job["domain"]:
                bad = oracle_session(spec, built, order, obs, mols, loads, views) + oracle_slices(obs)
                if bad:
                    out["fails"].append((order, bad))
            if job.get("in_k", True) and (job.get("k_orders") is None or oi in job["k_orders"]):
                if job.get("kind") == "block" and obs["len_ok"]:
                    n = obs["len"]
                    obs["k_items"] = set(i for c in (-n, -129, 0, 128, n) for i in range(c - 3, c + 3))
                key = coq_obs(obs, I)
                groups.setdefault(key, []).append((order, loads))
            del syst
        if not job.get("in_k", True):
            out["hist"] = dict(out["hist"])
            return out
        gtxt = "[" + ";\n    ".join("([%s],%s)" % (";".join("(%s,%s)" % (coq_nats(o), coq_nats(l)) for o, l in ols), key)
                                    for key, ols in groups.items()) + "]"
        out["case"] = "chk_sys %s\n    [%s]\n    %s" % (coq_file(built, I), ";".join(coq_top(t, I) for t in spec["tops"]), gtxt)
        if job["domain"]:
            out["domain_case"] = coq_domain_case(spec, built, I)
        # the constructor with all topologies at once, in the first full order
        if job.get("ctor"):
            from gaddlemaps.components import System
            order = job["ctor"]
            ok, s = catch(lambda: System(built["gro"], *[built["tops"][k] for k in order]))
            if ok:
                ok2, ms = catch(lambda: [mol_descr(m) for m in s])
                o = "(OOk [%s])" % ";".join("(%d,%d,%d,%s)" % (I(("m", d[0])), d[1], d[2], coq_Ns(d[3])) for d in ms) \
                    if ok2 else "(OErr %d)" % ms
            else:
                o = "(OErr %d)" % s
            out["ctor_case"] = "chk_ctor %s [%s] %s %s" % (coq_file(built, I), ";".join(coq_top(t, I) for t in spec["tops"]),
                                                          coq_nats(order), o)
    finally:
        for p in [built["gro"]] + built["tops"]:
            try:
                os.remove(p)
            except OSError:
                pass
    out["hist"] = dict(out["hist"])
    return out


# ------------------------------------------------------------------ generators
def repeat_orders(rs, present, nsp, n=2):
    """loading orders in which a topology is offered again after it was accepted: the second offer has no run left
    (every instance is already a molecule) and must be refused - molecules stay pairwise disjoint, one per instance"""
    out = []
    pool = sorted(present) if present else list(range(nsp))
    for j in range(n):
        s0 = pool[int(rs.randint(0, len(pool)))]
        if j == 0:
            o = [s0, s0]
        else:
            o = [int(x) for x in rs.permutation(nsp)]
            o.insert(int(rs.randint(o.index(s0) + 1, len(o) + 1)), s0)      # again, somewhere after its first load
        out.append(o)
    return out


# second family for the exhaustive enumeration: residue NAMES shared inside a species and across species with
# different atom counts (terminal residues; the signature is (resname, atom count), so these are distinct signatures)
FIXED_NAMES = [
    {"name": "PEP", "residues": [["ALA", ["n", "ca", "cb"]], ["GLY", ["g1"]], ["ALA", ["ca", "o"]]]},
    {"name": "AMI", "residues": [["ALA", ["x1"]]]},
    {"name": "GG", "residues": [["GLY", ["g1", "g2"]], ["GLY", ["g1", "g2"]]]},
]
FAMILIES = {"main": FIXED, "names": FIXED_NAMES}


def fixed_spec(seq, family="main", resids=None):
    """seq: tuple over 0..nsp (0..nsp-1 = species of the family, nsp = solvent residue); resids: residue numbers used
    in the topology of each species (default 1, 2, 3, ...)"""
    species = FAMILIES[family]
    nsp = len(species)
    rr = resids if resids is not None else [None] * nsp
    return {"species": species, "segments": [s if s < nsp else SOLVENT for s in seq],
            "tops": [species_top(sp, resids=rr[k]) for k, sp in enumerate(species)] +
                    [near_miss_top(sp, resids=rr[k]) for k, sp in enumerate(species)],
            "top_species": list(range(nsp)) + [None] * nsp}


def random_domain_spec(rs, nmol):
    """random species with pairwise disjoint signature sets, random long sequence, some species absent,
    one topology of a species that is not in the file at all but whose signatures are (no matching run)."""
    nsp = int(rs.randint(1, 5))
    species = []
    used = set()
    for s in range(nsp):
        nres = int(rs.randint(1, 5))
        alphabet = []
        for q in range(int(rs.randint(1, 3))):
            while True:
                # residue names are drawn from a small pool shared by all species: the signature is (name, atom count)
                key = (["RA", "RB", "RC", "R%d" % s][int(rs.randint(0, 4))], int(rs.randint(1, 5)))
                if key not in used:
                    used.add(key)
                    break
            alphabet.append([key[0], ["%s%d%s" % ("n", s, chr(97 + q)) + str(j) for j in range(key[1])]])
        residues = [alphabet[int(rs.randint(0, len(alphabet)))] for _ in range(nres)]
        species.append({"name": "S%d" % s, "residues": [[r[0], list(r[1])] for r in residues]})
    others = [["W", ["w1"]], ["ION", ["i1"]], ["W", ["w1"]]]
    absent = [s for s in range(nsp) if rs.randint(0, 4) == 0] if nsp > 1 else []
    segs = []
    for _ in range(nmol):
        u = rs.randint(0, nsp + 1)
        if u == nsp or u in absent:
            segs.append(others[int(rs.randint(0, len(others)))])
        else:
            segs.append(int(u))
    rr = [random_resids(rs, sp) if rs.randint(0, 3) else None for sp in species]
    tops = [species_top(sp, resids=rr[k]) for k, sp in enumerate(species)] + \
           [near_miss_top(sp, resids=rr[k]) for k, sp in enumerate(species)]
    top_species = list(range(nsp)) + [None] * nsp
    # a topology made of residues of the file in an arrangement that occurs nowhere: no matching run
    flat = []
    for seg in segs:
        flat += [(r[0], tuple(r[1])) for r in (species[seg]["residues"] if isinstance(seg, int) else [seg])]
    src = species[int(rs.randint(0, nsp))]["residues"]
    ghost = [list(r) for r in src[::-1]] + [list(src[0])] * int(rs.randint(0, 3))
    if rs.randint(0, 2):
        ghost = [list(r) for r in src] + [list(src[int(rs.randint(0, len(src)))])]
    g = [(r[0], tuple(r[1])) for r in ghost]
    if not any(flat[i:i + len(g)] == g for i in range(len(flat))):
        tops.append(species_top({"name": "GHOST", "residues": ghost}))
        top_species.append(None)
    return {"species": species, "segments": segs, "tops": tops, "top_species": top_species,
            "resid0": int(rs.choice([1, 1, 99990]))}


def random_wild_spec(rs):
    """outside the property's domain (K only): shared signatures, same name and size with different atom names,
    truncated instances, topologies whose residues merge, the same topology twice."""
    names = ["X", "Y", "Z"]
    variants = {}
    for rn in names:
        variants[rn] = []
        for size in (1, 2):
            variants[rn].append([rn, ["%s%d" % (rn.lower(), j) for j in range(size)]])
            variants[rn].append([rn, ["%s%d'" % (rn.lower(), j) for j in range(size)]])   # same key, other atom names
    pool = [v for rn in names for v in variants[rn]]
    nsp = int(rs.randint(1, 4))
    species = []
    for s in range(nsp):
        nres = int(rs.randint(1, 5))
        sub = [pool[int(rs.randint(0, len(pool)))] for _ in range(int(rs.randint(1, 4)))]
        species.append({"name": "S%d" % (s if rs.randint(0, 6) else 0),
                        "residues": [list(sub[int(rs.randint(0, len(sub)))]) for _ in range(nres)]})
    segs = []
    for _ in range(int(rs.randint(1, 9))):
        u = int(rs.randint(0, nsp + 2))
        if u < nsp:
            segs.append(u)
        else:
            segs.append(list(pool[int(rs.randint(0, len(pool)))]))
    tops = [species_top(sp, merge_resid=bool(rs.randint(0, 4) == 0)) for sp in species]
    if rs.randint(0, 3) == 0:
        tops.append(dict(tops[0]))
    return {"species": species, "segments": segs, "tops": tops, "top_species": list(range(len(tops)))}


BLOCK_SPECIES = [
    {"name": "ONE", "residues": [["O1", ["o1", "o2"]]]},
    {"name": "DIM", "residues": [["DA", ["d1", "d2"]], ["DB", ["d3"]]]},
    {"name": "TRI", "residues": [["T1", ["t1"]], ["T1", ["t1"]], ["T2", ["t2", "t3"]]]},
]
BLOCK_ION = {"name": "ION", "residues": [["ION", ["q1"]]]}


def block_spec(which, n, tail=3):
    """size-boundary system: solvent, ION, an uninterrupted block of n instances of a 1-/2-/3-residue species, ION,
    solvent, a second short block of the same species, ION (chunked or block-wise reading of long runs)"""
    species = [BLOCK_SPECIES[which], BLOCK_ION]
    segs = [SOLVENT, SOLVENT, 1] + [0] * n + [1, SOLVENT] + [0] * tail + [1]
    return {"species": species, "segments": segs, "tops": [species_top(sp) for sp in species], "top_species": [0, 1]}


def block_jobs(ctx, rs):
    jobs = []
    sizes = [127, 128, 129, 130, 300] if ctx.quick else [127, 128, 129, 130, 255, 256, 257, 300, 385, 640]
    for which in range(3):
        for n in sizes:
            jobs.append({"spec": block_spec(which, n), "orders": [[0, 1], [1, 0]], "domain": True, "kind": "block",
                         "block": [which, n], "seed": int(rs.randint(0, 2 ** 31)), "view_orders": [0],
                         "k_orders": [0]})
    return jobs


def samekey_spec(variant, segs, sizes=(3, 1)):
    """species 0 has two residues MON with equal size and different atom names: adjacent (variant 0) or separated
    by a residue MID (variant 1); species 1 is an ordinary one-residue species; segment 2 = solvent residue"""
    n, k = sizes
    mon1 = ["MON", ["a%d" % j for j in range(n)]]
    mon2 = ["MON", ["d%d" % j for j in range(n)]]
    mid = ["MID", ["x%d" % j for j in range(k)]]
    pol = {"name": "POL", "residues": [mon1, mon2] if variant == 0 else [mon1, mid, mon2]}
    ordinary = {"name": "MA", "residues": [["RA", ["a1", "a2"]]]}
    species = [pol, ordinary]
    return {"species": species, "segments": [s if s < 2 else SOLVENT for s in segs],
            "tops": [species_top(pol), species_top(ordinary)], "top_species": [0, 1]}


def samekey_jobs(rs, n):
    jobs = []
    for _ in range(n):
        variant = int(rs.randint(0, 2))
        mode = int(rs.randint(0, 3))        # 0: only POL; 1: POL + solvent; 2: POL + ordinary species (+ solvent)
        alphabet = [[0], [0, 2], [0, 1, 2]][mode]
        segs = [alphabet[int(rs.randint(0, len(alphabet)))] for _ in range(int(rs.randint(1, 6)))]
        if 0 not in segs:
            segs[int(rs.randint(0, len(segs)))] = 0
        spec = samekey_spec(variant, segs, (int(rs.randint(1, 4)), int(rs.randint(1, 3))))
        orders = [[0], [0, 1], [1, 0]] if 1 in segs else [[0]]
        jobs.append({"spec": spec, "orders": orders, "domain": False, "samekey": True, "kind": "samekey",
                     "seed": int(rs.randint(0, 2 ** 31))})
    return jobs


# ------------------------------------------------------------------ corpus (committed witnesses)
CORPUS = [
    # self-overlapping pattern P,Q,P twice in a row, then adjacent pairs of identical residues
    {"seq": (2, 2, 3, 3, 3), "orders": [[2, 3], [3, 2]]},
    # every species once, solvent in between, all 24 full orders
    {"seq": (0, 4, 1, 2, 4, 3), "orders": [list(p) for p in itertools.permutations(range(4))]},
    # a species absent from the file is refused and the rest is still recognised
    {"seq": (1, 1, 4), "orders": [[0, 1], [1, 0], [2, 3, 1]]},
    # near-miss topologies (index 4 + s: one atom name of species s changed) are refused and change nothing:
    # the genuine topology loaded afterwards still gets every molecule
    {"seq": (0, 1, 0, 2), "orders": [[4, 0], [5, 1, 0], [6, 2, 1], [4, 5, 6, 7, 0, 1, 2, 3], [4], [7, 6]]},
    # hand-made residue numbers in the topologies: resnr left at 1 for consecutive residues with different names (B: BX,BY;
    # C: CP,CQ,CP), gaps and a decreasing pair (D)
    {"seq": (1, 0, 1, 2, 3), "orders": [[1, 2, 3, 0], [3, 2, 1]], "resids": [[7], [1, 1], [1, 1, 1], [9, 2]]},
    # a topology offered again after it was accepted has no run left: refused, molecules stay one per instance
    {"seq": (0, 1, 0), "orders": [[0, 0, 1], [1, 0, 1, 0]]},
    # first residue shares its NAME with a later residue of another size (terminal residue), several instances; a second
    # species uses the same name with a third size
    {"seq": (0, 1, 0, 0, 3, 2), "family": "names", "orders": [[0], [0, 1, 2], [2, 1, 0], [1, 0]]},
]


# the recorded known finding (known_findings.txt, key same_key_residues): POL = MON(a,b,c) + MON(d,e,f), two molecules
CORPUS_SAMEKEY = [
    {"variant": 0, "segs": [0, 0]},            # refused: OSError 'The molecule can not be initialized'
    {"variant": 1, "segs": [0, 0]},            # separated by MID: the first molecule is silently not recognised
    {"variant": 0, "segs": [1, 0, 2, 0, 1]},   # an ordinary species is present and must still be recognised
]


# solvent, ION, 130 x (DA DB), ION, ... : the layout on which a chunked block reader went wrong from molecule 129 on
CORPUS_BLOCKS = [(1, 130), (2, 129)]


def report(ctx, job, r, counters):
    """violations of one run_system result; clauses caused by the known finding go under its key"""
    for order, bad in r["fails_keyed"]:
        counters["known"] = counters.get("known", 0) + 1
        ctx.violation("C11 (same (resname, size), other atom names inside a species): " + "; ".join(bad[:4]),
                      job_replay(job, order), key="same_key_residues")
    for order, bad in r["fails"]:
        counters["fails"] = counters.get("fails", 0) + 1
        if counters["fails"] <= MAX_REPORTS:     # one replay file per failing input is enough; the count is in the evidence
            ctx.violation("C11: " + "; ".join(bad[:4]), job_replay(job, order), key="recognition")


def _pool():
    molgen.tmpdir()      # created in the parent, so that the forked workers share it and it is removed at exit
    return multiprocessing.get_context("fork").Pool(min(16, os.cpu_count() or 4))


def corpus(ctx):
    S = ctx.cov["S"]
    S["corpus"] = 0
    for c in CORPUS:
        fam, rr = c.get("family", "main"), c.get("resids")
        r = run_system({"spec": fixed_spec(c["seq"], fam, rr), "orders": c["orders"], "domain": True, "seed": 1})
        S["corpus"] += r["sessions"]
        for order, bad in r["fails"]:
            ctx.violation("C11 on a committed witness: " + "; ".join(bad[:4]),
                          {"kind": "fixed", "seq": list(c["seq"]), "family": fam, "resids": rr, "orders": [order],
                           "domain": True}, key="recognition")
    # long uninterrupted blocks: iteration must agree with indexing and with the file on EVERY molecule
    for which, n in CORPUS_BLOCKS:
        job = {"spec": block_spec(which, n), "orders": [[0, 1]], "domain": True, "kind": "block", "block": [which, n], "seed": 1}
        r = run_system(job)
        S["corpus"] += r["sessions"]
        for order, bad in r["fails"]:
            ctx.violation("C11 on a committed witness (block of %d consecutive %s): " % (n, BLOCK_SPECIES[which]["name"]) +
                          "; ".join(bad[:4]), job_replay(job, order), key="recognition")
    cnt = {}
    for c in CORPUS_SAMEKEY:
        job = {"spec": samekey_spec(c["variant"], c["segs"]), "orders": [[0], [0, 1], [1, 0]], "domain": False,
               "samekey": True, "kind": "samekey", "seed": 1}
        r = run_system(job)
        S["corpus"] += r["sessions"]
        report(ctx, job, r, cnt)
    S["corpus_known_finding_hits"] = cnt.get("known", 0)


def make_jobs(ctx):
    rs = ctx.np_rng("K")
    jobs = []
    maxlen = ctx.n(5, 6)
    orders = all_orders(4)
    full_perm = [list(p) for p in itertools.permutations(range(4))]
    for n in range(1, maxlen + 1):
        for seq in itertools.product(range(5), repeat=n):
            # System[i] for every i and slices: on 3 full permutations and 3 other orders per system
            vo = [int(x) for x in rs.randint(41, 65, size=2)] + [int(rs.randint(0, 41))]
            ords = orders
            in_k = True
            if ctx.quick and n == maxlen:
                # quick tier, longest sequences: 12 of the 24 full permutations and 6 of the 41 shorter orders, drawn
                # per system (every order is covered over the 3125 systems; sequences of <= 4 molecules and the
                # thorough tier run all 65 orders on every sequence); System[i]/slices on one order of each kind
                keep = sorted(set(int(x) for x in rs.choice(41, size=6, replace=False)))
                full = sorted(set(int(x) for x in 41 + rs.choice(24, size=12, replace=False)))
                ords = [orders[k] for k in keep + full]
                vo = [int(rs.randint(6, 18)), int(rs.randint(0, 6))]
                in_k = bool(rs.randint(0, 2))     # S on every sequence, K (text for coqc) on a random half
            ords = ords + near_miss_orders(rs, set(x for x in seq if x < 4), 4, 3)
            vo = vo + [len(ords) - 3]
            ords = ords + repeat_orders(rs, set(x for x in seq if x < 4), 4, 2)
            # residue numbers of the topologies: 1,2,3.. for one system in three, hand-made numbering otherwise
            rr = None if rs.randint(0, 3) == 0 else [random_resids(rs, sp) for sp in FIXED]
            jobs.append({"spec": fixed_spec(seq, "main", rr), "orders": ords, "domain": True, "kind": "fixed", "seq": list(seq),
                         "family": "main", "resids": rr,
                         "seed": int(rs.randint(0, 2 ** 31)), "full_slices": False, "view_orders": vo, "in_k": in_k})
    # second exhaustive family: residue names shared inside and across species with different atom counts
    orders3 = all_orders(3)
    for n in range(1, ctx.n(4, 5) + 1):
        for seq in itertools.product(range(4), repeat=n):
            present = set(x for x in seq if x < 3)
            ords = orders3 + near_miss_orders(rs, present, 3, 2) + repeat_orders(rs, present, 3, 2)
            rr = None if rs.randint(0, 2) == 0 else [random_resids(rs, sp) for sp in FIXED_NAMES]
            jobs.append({"spec": fixed_spec(seq, "names", rr), "orders": ords, "domain": True, "kind": "fixed", "seq": list(seq),
                         "family": "names", "resids": rr, "seed": int(rs.randint(0, 2 ** 31)), "full_slices": False,
                         "view_orders": [int(rs.randint(10, 16)), len(orders3)]})
    # exhaustive slices on a few systems
    for _ in range(ctx.n(6, 40)):
        seq = [int(x) for x in rs.randint(0, 5, size=int(rs.randint(1, 5)))]
        jobs.append({"spec": fixed_spec(seq), "orders": [full_perm[int(rs.randint(0, 24))]], "domain": True, "kind": "fixed",
                     "seq": seq, "seed": int(rs.randint(0, 2 ** 31)), "full_slices": True})
    for _ in range(ctx.n(150, 1500)):
        spec = random_domain_spec(rs, int(rs.randint(6, 60)))
        k = len(spec["tops"])
        ords = [list(rs.permutation(k)) for _ in range(3)] + [list(rs.permutation(k))[:int(rs.randint(0, k + 1))]]
        ords = [[int(x) for x in o] for o in ords]
        ords[1] = ords[1] + [ords[1][int(rs.randint(0, k))]]          # one topology offered a second time
        jobs.append({"spec": spec, "orders": ords, "domain": True, "kind": "random", "seed": int(rs.randint(0, 2 ** 31)),
                     "ctor": ords[0], "view_orders": [0, 3]})
    for _ in range(ctx.n(600, 6000)):
        spec = random_wild_spec(rs)
        k = len(spec["tops"])
        ords = [[int(x) for x in rs.permutation(k)] for _ in range(2)] + [[int(x) for x in rs.randint(0, k, size=int(rs.randint(1, 5)))]]
        jobs.append({"spec": spec, "orders": ords, "domain": False, "kind": "wild", "seed": int(rs.randint(0, 2 ** 31)),
                     "ctor": ords[0]})
    # the known finding same_key_residues: out of the domain streams; K compares them like any wild case,
    # S reports the refusal/misrecognition under the key and anything else as an ordinary violation
    jobs += samekey_jobs(rs, ctx.n(40, 400))
    # size-boundary systems (blocks of 127..130 and 300+ consecutive instances), spread over the first half of the list
    # so that their long Coq texts land in different shards
    bj = block_jobs(ctx, rs)
    step = max(1, (len(jobs) // 2) // len(bj))
    for k, j in enumerate(bj):
        jobs.insert(k * step + 5, j)
    return jobs


def job_replay(job, order=None):
    r = {"kind": job["kind"], "seed": job["seed"], "domain": job["domain"]}
    if job.get("samekey"):
        r["samekey"] = True
    if job["kind"] == "fixed":
        r["seq"] = job["seq"]
        r["family"] = job.get("family", "main")
        r["resids"] = job.get("resids")
    elif job["kind"] == "block":
        r["block"] = job["block"]
    else:
        r["spec"] = job["spec"]
    r["orders"] = [order] if order is not None else job["orders"]
    return r


def correspondence(ctx):
    import time
    t0 = time.time()
    jobs = make_jobs(ctx)
    with _pool() as pool:
        results = pool.map(run_system, jobs, chunksize=8)
    ctx.cov["K"]["wall_impl_s"] = round(time.time() - t0, 1)
    cases, meta = [], []
    hist = Counter()
    sessions = 0
    cnt = {}
    for job, r in zip(jobs, results):
        if "case" in r:
            cases.append(r["case"])
            meta.append(job_replay(job))
        if "ctor_case" in r:
            cases.append(r["ctor_case"])
            meta.append(dict(job_replay(job, job["ctor"]), ctor=True))
        hist[job["kind"]] += 1
        hist["sessions_" + job["kind"]] += r["sessions"]
        for k, v in r["hist"].items():
            hist[k] += v
        if "case" in r:
            sessions += r["sessions"]
        for key in r["keys"]:
            ctx.count((job.get("seq"), job["seed"], key), nontrivial=len(key[0]) > 0)
        report(ctx, job, r, cnt)
    nfail = cnt.get("fails", 0)
    ctx.cov["S"]["known_finding_sessions"] = cnt.get("known", 0)
    for m in (meta[7], meta[len(meta) // 2], meta[-1]):
        smp = {k: v for k, v in m.items() if k not in ("spec", "orders")}
        smp["orders"] = m["orders"][:3]
        smp["n_orders"] = len(m["orders"])
        if "spec" in m:
            smp["segments"] = m["spec"]["segments"][:12]
            smp["species"] = [sp["name"] + ":" + "/".join(r[0] for r in sp["residues"]) for sp in m["spec"]["species"]]
        ctx.sample(smp)
    codes, log = lib.run_coq_cases(ctx.cid, "K", HEADER, cases, shard=ctx.n(60, 120), timeout=1500)
    if codes is None:
        # a coqc process died (seen once on an overloaded machine): one retry with fewer parallel processes
        # before this is reported as a broken correspondence
        codes, log2 = lib.run_coq_cases(ctx.cid, "K", HEADER, cases, shard=ctx.n(60, 120), timeout=2400, jobs=6)
        log = "retried after: " + log[-300:] + " | " + log2
    K = ctx.cov["K"]
    K["cases"] = len(cases)
    K["sessions"] = sessions
    K["input_distribution"] = dict(hist)
    K["log"] = log
    ctx.cov["S"]["sessions_on_generated_files"] = sum(r["sessions"] for job, r in zip(jobs, results)
                                                     if job["domain"] or job.get("samekey"))
    ctx.cov["S"]["failures"] = nfail
    if codes is None:
        K["error"] = log
        return [{"error": "coqc failed on the correspondence cases", "log": log[-1500:]}]
    K["disagree"] = sum(1 for c in codes.values() if c != 0)
    K["agree"] = len(cases) - len(codes)
    dis = [dict(meta[i], code=c) for i, c in sorted(codes.items())]
    # every generated domain file satisfies the hypothesis of C11_exact (reflective checker evaluated in Coq)
    dcases = [(job, r["domain_case"]) for job, r in zip(jobs, results) if "domain_case" in r]
    K["domain_log"] = None
    dcodes, dlog = lib.run_coq_cases(ctx.cid, "KD", HEADER_D, [c for _, c in dcases], shard=ctx.n(300, 1500), timeout=1500)
    K["domain_hypothesis_cases"] = len(dcases)
    K["domain_log"] = dlog
    if dcodes is None:
        K["error"] = dlog
        return dis + [{"error": "coqc failed on the domain-hypothesis cases", "log": dlog[-1500:]}]
    K["domain_hypothesis_not_met"] = len(dcodes)
    dis += [dict(job_replay(dcases[i][0]), code=c, what="generated file does not satisfy `domain`")
            for i, c in sorted(dcodes.items())]
    for d in dis[:20]:
        if d.get("domain"):
            bad = replay_obj(d)
            if bad:
                ctx.violation("C11: " + "; ".join(bad[:4]), d, key="recognition")
    return dis


def spec_of(r):
    if r["kind"] == "fixed":
        return fixed_spec(r["seq"], r.get("family", "main"), r.get("resids"))
    if r["kind"] == "block":
        return block_spec(*r["block"])
    return r["spec"]


def replay_obj(r):
    if r.get("samekey"):
        res = run_system({"spec": r["spec"], "orders": r["orders"], "domain": False, "samekey": True,
                          "seed": r.get("seed", 0)})
        return [c for _, bad in res["fails_keyed"] + res["fails"] for c in bad]
    res = run_system({"spec": spec_of(r), "orders": r["orders"], "domain": True, "seed": r.get("seed", 0)})
    return [c for _, bad in res["fails"] for c in bad]


def oracle(ctx, scale):
    """S beyond the K cases: longer random domain systems, all clauses of the property text"""
    rs = ctx.np_rng("S%d" % scale)
    S = ctx.cov["S"]
    jobs = []
    for _ in range(ctx.n(120, 1200) * scale):
        spec = random_domain_spec(rs, int(rs.randint(20, 200)))
        k = len(spec["tops"])
        ords = [[int(x) for x in rs.permutation(k)] for _ in range(2)]
        jobs.append({"spec": spec, "orders": ords, "domain": True, "kind": "random", "seed": int(rs.randint(0, 2 ** 31))})
    jobs += samekey_jobs(rs, ctx.n(20, 200) * scale)
    if scale > 1:
        for n in range(1, 7):
            for seq in itertools.product(range(5), repeat=n):
                if rs.randint(0, 4) == 0 or n < 5:
                    jobs.append({"spec": fixed_spec(seq), "orders": all_orders(4), "domain": True, "kind": "fixed",
                                 "seq": list(seq), "seed": 0})
    with _pool() as pool:
        results = pool.map(run_system, jobs, chunksize=4)
    cnt = {}
    for job, r in zip(jobs, results):
        for key in r["keys"]:
            ctx.count(("S", job["seed"], key))
        report(ctx, job, r, cnt)
    fails = cnt.get("fails", 0)
    S["sessions_x%d" % scale] = sum(r["sessions"] for r in results)
    S["failures"] = S.get("failures", 0) + fails


def replay(ctx, obj):
    r = obj["replay"]
    if "kind" not in r or r.get("kind") not in ("fixed", "random", "wild", "samekey", "block"):
        print("replay names a proof/correspondence, not an input:", json.dumps(r)[:400])
        return False
    bad = replay_obj(r)
    print(bad)
    return not bad


def finish(ctx):
    ctx.assumptions = [
        "strings are interned as numbers by the harness (equal strings <-> equal numbers); residue names have <= 5 characters",
        "the coordinate file is modelled as the list of residues SystemGro cuts (that cut is property C12); atoms are numbered 1..N",
        "more_itertools.islice_extended on a finite generator is Python list slicing (checked against list slicing on every observed slice)",
        "domain hypothesis: equal (resname, size) key implies equal residue. A species with two residues of equal name and atom "
        "count but other atom names is refused or partly unrecognised: KNOWN finding same_key_residues (known_findings.txt), "
        "reproduced by the model, reported by S under that key only for that refusal/misrecognition",
    ]
    return ctx.finish(level="proof", rule=RULE,
                      trusted=["numpy comparison/broadcast rules of `window == pattern` written out by hand (window_all)",
                               "Python list.sort stability and slice index adjustment written out by hand"])
