"""C17 - rotation matrices are proper rotations; local frames are orthonormal."""
import math

import numpy as np

import lib
from lib import fl, v3, m3

HEADER = """From GM Require Import Corr.CorrBase Corr.CheckC17.
Open Scope float_scope.
"""

RULE = ("rotation cases: axis direction uniform / coordinate axes / small-integer directions, |axis| log-uniform in [1e-6,1e6] "
        "and (one third) boundary lengths (exactly and almost 1 at 1e-3..1e-14, powers of 2 and 10, range ends), theta in [-20,20] and special angles; "
        "rotation call histories on ONE float64 axis array object changed in place between calls; "
        "frame cases: generic triples at scale 1e-3..1e3, nearly collinear triples (sin of the angle 2e-5..1e-1, separations "
        "1e-2..1 of the scale) at every scale, exactly collinear triples (axes, diagonals, random integer "
        "directions; dyadic and decimal scales), coincident middle point, coincident end points (error branch). "
        "A case is non-trivial when distinct; frame cases additionally record the branch taken.")


# ------------------------------------------------------------------ generators
SPECIAL_NORMS = [1.0, 1 + 1e-3, 1 - 1e-3, 1 + 5e-5, 1 - 5e-5, 1 + 1e-6, 1 - 1e-6, 1 + 1e-8, 1 - 1e-8,
                 1 + 1e-10, 1 - 1e-10, 1 + 1e-12, 1 + 1e-14, 2.0, 0.5, 10.0, 0.1, 1e-6, 1e6, 1e-3, 1e3]


def gen_rot(rs):
    d = rs.normal(size=3)
    d /= np.linalg.norm(d)
    kind = rs.randint(0, 6)
    if kind == 0:
        d = np.eye(3)[rs.randint(3)] * rs.choice([-1.0, 1.0])
    elif kind == 1:
        d = rs.randint(-3, 4, size=3).astype(float)
        if not d.any():
            d[0] = 1.0
        d /= np.linalg.norm(d)
    norm = 10 ** rs.uniform(-6, 6)
    if rs.randint(0, 3) == 0:
        # boundary values of the axis length: exactly / almost unit, powers of two and ten, range ends
        norm = float(rs.choice(SPECIAL_NORMS))
        if rs.randint(0, 2) == 0:
            norm = 1.0 + (norm - 1.0) * rs.uniform(0.1, 1.0) if abs(norm - 1.0) < 0.01 else norm
    theta = rs.uniform(-20, 20)
    if rs.randint(0, 10) == 0:
        theta = rs.choice([0.0, math.pi, -math.pi, math.pi / 2, 2 * math.pi])
    return d * norm, float(theta)


def gen_triple(rs):
    """returns (kind, p0, p1, p2)"""
    kind = rs.choice(["generic", "generic", "near_collinear", "near_collinear", "collinear_axis", "collinear_diag",
                      "collinear_int", "collinear_int_decimal", "coincident_mid", "coincident_ends"])
    scale = 10 ** rs.uniform(-3, 3)
    if kind == "generic":
        pts = rs.uniform(-1, 1, size=(3, 3)) * scale
        return kind, pts[0], pts[1], pts[2]
    if kind == "near_collinear":
        # almost but not collinear: sin(angle at p0) log-uniform in [2e-5, 1e-1] - well above the 1e-6 threshold of
        # the code (K's indeterminate band is [6e-8, 1.5e-5]) and well-conditioned (rounding ~1e-16/sin) - at every
        # scale and separation, so that a threshold that depends on |p2-p0| shows up
        p0 = rs.uniform(-1, 1, size=3) * scale
        d = rs.normal(size=3)
        d /= np.linalg.norm(d)
        n = np.cross(d, rs.normal(size=3))
        n /= np.linalg.norm(n)
        sinphi = 10 ** rs.uniform(np.log10(2e-5), -1)
        sep2 = scale * 10 ** rs.uniform(-2, 0)
        sep1 = scale * 10 ** rs.uniform(-2, 0) * rs.choice([-1.0, 1.0])
        p2 = p0 + sep2 * d
        p1 = p0 + sep1 * (np.sqrt(1 - sinphi ** 2) * d + sinphi * n)
        return kind, p0, p1, p2
    if kind == "coincident_ends":
        pts = rs.uniform(-1, 1, size=(2, 3)) * scale
        return kind, pts[0], pts[1], pts[0].copy()
    if kind == "coincident_mid":
        pts = rs.uniform(-1, 1, size=(2, 3)) * scale
        return kind, pts[0], pts[0].copy(), pts[1]
    if kind == "collinear_axis":
        d = np.eye(3)[rs.randint(3)] * rs.choice([-1.0, 1.0])
    elif kind == "collinear_diag":
        d = rs.choice([-1.0, 0.0, 1.0], size=3)
        while not d.any():
            d = rs.choice([-1.0, 0.0, 1.0], size=3)
    else:
        d = rs.randint(-9, 10, size=3).astype(float)
        while not d.any():
            d = rs.randint(-9, 10, size=3).astype(float)
    base = rs.randint(-20, 21, size=3).astype(float)
    k1, k2 = rs.randint(-6, 7), rs.randint(1, 7) * rs.choice([-1, 1])
    s = 2.0 ** rs.randint(-8, 9) if kind != "collinear_int_decimal" else scale
    p0, p1, p2 = base * s, (base + k1 * d) * s, (base + k2 * d) * s
    return kind, p0, p1, p2


# ------------------------------------------------------------------ implementation drivers
def impl_rot(axis, theta):
    from gaddlemaps import rotation_matrix
    with np.errstate(all="ignore"):
        return rotation_matrix(np.array(axis, dtype=float), theta)


def impl_base(p0, p1, p2):
    """calls calcule_base in the three ways a caller may pass the points - a list of three arrays, a tuple, ONE (3,3)
    float64 array - twice each, and reports whether any input object was modified or any call differs"""
    from gaddlemaps import calcule_base
    a, b, c = np.array(p0, dtype=float), np.array(p1, dtype=float), np.array(p2, dtype=float)
    sa, sb, sc = a.copy(), b.copy(), c.copy()
    with np.errstate(all="ignore"):
        (v1, v2, v3_), o = calcule_base([a, b, c])
        res = [np.array(v1).copy(), np.array(v2).copy(), np.array(v3_).copy(), np.array(o).copy()]
        unchanged = (a == sa).all() and (b == sb).all() and (c == sc).all()
        block = np.array([sa, sb, sc], dtype=np.float64)
        snap = block.copy()
        for arg in ((a, b, c), block, block, [a, b, c]):
            (w1, w2, w3), wo = calcule_base(arg)
            same = all(np.array_equal(np.array(x), y, equal_nan=True) for x, y in zip((w1, w2, w3, wo), res))
            unchanged = unchanged and same and bool((block == snap).all()) and \
                (a == sa).all() and (b == sb).all() and (c == sc).all()
    return res[0], res[1], res[2], res[3], bool(unchanged)


# ------------------------------------------------------------------ S oracles (property text)
TOL = 1e-9


def oracle_rot(axis, theta):
    """list of failed clauses (empty = holds)"""
    bad = []
    R = impl_rot(axis, theta)
    if not np.isfinite(R).all():
        return ["non-finite matrix"]
    n = np.array(axis) / np.linalg.norm(axis)
    if np.abs(R @ R.T - np.eye(3)).max() > TOL:
        bad.append("not orthogonal")
    if abs(np.linalg.det(R) - 1) > TOL:
        bad.append("det != 1")
    if np.abs(R @ n - n).max() > TOL or np.abs(n @ R - n).max() > TOL:
        bad.append("axis not fixed")
    if abs(np.trace(R) - (1 + 2 * math.cos(theta))) > TOL:
        bad.append("trace != 1+2cos")
    if np.abs(impl_rot(axis, -theta) - R.T).max() > TOL:
        bad.append("R(-t) != R(t)^T")
    b = 0.37 * theta + 1.234
    if np.abs(R @ impl_rot(axis, b) - impl_rot(axis, theta + b)).max() > TOL:
        bad.append("R(a)R(b) != R(a+b)")
    if np.abs(impl_rot(np.array(axis) * 3.7, theta) - R).max() > TOL:
        bad.append("depends on axis length")
    return bad


def rot_history(rs, n_calls):
    """steps of a call history on ONE float64 axis array object: each step sets the array in place
    (`axis[:] = new`) and calls rotation_matrix(axis, theta)"""
    steps = []
    for _ in range(n_calls):
        a, th = gen_rot(rs)
        mode = rs.choice(["set", "negate", "scale", "same"])
        steps.append({"mode": str(mode), "axis": [float(x) for x in a], "theta": float(th), "factor": float(10 ** rs.uniform(-2, 2))})
    return steps


def run_rot_history(steps):
    """returns list of (axis values passed, theta, matrix, axis unchanged by the call)"""
    from gaddlemaps import rotation_matrix
    axis = np.array(steps[0]["axis"], dtype=np.float64)
    out = []
    for k, st in enumerate(steps):
        if k > 0:
            if st["mode"] == "set":
                axis[:] = st["axis"]
            elif st["mode"] == "negate":
                axis *= -1.0
            elif st["mode"] == "scale":
                axis *= st["factor"]
        before = axis.copy()
        with np.errstate(all="ignore"):
            R = rotation_matrix(axis, st["theta"])
        out.append((before, st["theta"], np.array(R), bool((axis == before).all())))
    return out


def oracle_rot_history(steps):
    bad = []
    for k, (a, th, R, unchanged) in enumerate(run_rot_history(steps)):
        if not unchanged:
            bad.append("call %d: the caller's axis array was modified" % k)
        n = a / np.linalg.norm(a)
        if not np.isfinite(R).all():
            bad.append("call %d: non-finite matrix" % k)
            continue
        if np.abs(R @ R.T - np.eye(3)).max() > TOL or abs(np.linalg.det(R) - 1) > TOL:
            bad.append("call %d: not a proper rotation" % k)
        if np.abs(R @ n - n).max() > TOL:
            bad.append("call %d: the axis passed to THIS call is not fixed (|R n - n| = %.3g)" % (k, np.abs(R @ n - n).max()))
        if abs(np.trace(R) - (1 + 2 * math.cos(th))) > TOL:
            bad.append("call %d: trace != 1+2cos" % k)
        if np.abs(R - impl_rot(a.copy(), th)).max() > TOL:
            bad.append("call %d: differs from a call with a fresh copy of the same axis" % k)
    return bad


def oracle_base(kind, p0, p1, p2):
    if kind == "coincident_ends":
        return []   # outside the property's domain (first and third point must be distinct)
    bad = []
    v1, v2, v3_, o, unchanged = impl_base(p0, p1, p2)
    M = np.array([v1, v2, v3_])
    if not np.isfinite(M).all():
        return ["non-finite frame"]
    if np.abs(M @ M.T - np.eye(3)).max() > TOL:
        bad.append("not orthonormal (max dev %.3g)" % np.abs(M @ M.T - np.eye(3)).max())
    if np.abs(np.cross(v1, v2) - v3_).max() > TOL:
        bad.append("not right-handed")
    d2 = np.array(p2) - np.array(p0)
    if np.abs(v1 - d2 / np.linalg.norm(d2)).max() > TOL:
        bad.append("first vector not along p2-p0")
    d1 = np.array(p1) - np.array(p0)
    nd1 = np.linalg.norm(d1)
    if nd1 > 0 and abs(np.dot(v3_, d1)) > TOL * max(nd1, np.linalg.norm(d2)) * (1e3 if kind == "collinear_int_decimal" else 1):
        bad.append("third vector not normal to the plane (%.3g)" % (abs(np.dot(v3_, d1)) / nd1))
    if kind in ("generic", "near_collinear") and nd1 > 0:
        # for a non-collinear triple the normal is determined up to sign: compare with an independent computation
        nrm = np.cross(d2 / np.linalg.norm(d2), d1 / nd1)
        sn = np.linalg.norm(nrm)
        if sn > 1.9e-5 and np.linalg.norm(np.cross(v3_, nrm / sn)) > 1e-7:
            bad.append("third vector is not the normal of the plane of the points (sin of the angle between them %.3g, "
                       "sin of the angle at p0 %.3g, |p2-p0| %.3g)" % (np.linalg.norm(np.cross(v3_, nrm / sn)), sn, np.linalg.norm(d2)))
    if abs(np.dot(v3_, d2)) > TOL * np.linalg.norm(d2):
        bad.append("third vector not normal to p2-p0")
    if not (np.array(o) == np.array(p0)).all():
        bad.append("origin is not the first point")
    if not unchanged:
        bad.append("inputs modified, or the result depends on how/how often the same points are passed (list, tuple, one (3,3) array; repeated)")
    return bad


# ------------------------------------------------------------------ check entry points
def corpus(ctx):
    S = ctx.cov["S"]
    S["corpus"] = 0
    for kind, p0, p1, p2 in CORPUS_TRIPLES:
        bad = oracle_base(kind, p0, p1, p2)
        S["corpus"] += 1
        if bad:
            ctx.violation("local frame: " + "; ".join(bad), {"kind": "calcule_base", "points": [list(p0), list(p1), list(p2)]},
                          key="frame")


CORPUS_TRIPLES = [
    ("collinear_diag", (0, 0, 0), (1, 1, 1), (2, 2, 2)),     # D1: norm^2 1.5 before the repair
    ("collinear_axis", (0, 0, 0), (0, 0, 1), (0, 0, 2)),     # D1: NaN before the repair
    ("collinear_int", (0, 0, 0), (3, 0, 4), (6, 0, 8)),      # D1: |v3| = 5/3 before the repair
    ("collinear_int_decimal", (0.1, 0.2, 0.3), (0.4, 0.8, 1.2), (0.7, 1.4, 2.1)),   # cross product = rounding noise
    ("coincident_mid", (0, 0, 0), (0, 0, 0), (1, 2, 3)),
]


def correspondence(ctx):
    rs = ctx.np_rng("K")
    n_rot = ctx.n(400, 6000)
    n_base = ctx.n(800, 12000)
    cases, meta = [], []
    hist = {}
    for _ in range(n_rot):
        axis, theta = gen_rot(rs)
        R = impl_rot(axis, theta)
        obs = "(Some %s)" % m3(R) if np.isfinite(R).all() else "None"
        cases.append("chk_rot %s %s %s %s" % (v3(axis), fl(np.cos(theta)), fl(np.sin(theta)), obs))
        meta.append({"kind": "rotation_matrix", "axis": list(map(float, axis)), "theta": theta})
        hist["rotation"] = hist.get("rotation", 0) + 1
        ctx.count(("rot", tuple(axis), theta))
    # call histories on one axis array object (in-place direction changes between calls)
    for _ in range(ctx.n(60, 600)):
        steps = rot_history(rs, int(rs.randint(2, 5)))
        bad = oracle_rot_history(steps)
        if bad:
            ctx.violation("rotation_matrix history: " + "; ".join(bad[:4]), {"kind": "rotation_history", "steps": steps}, key="rotation")
        for a, th, R, _u in run_rot_history(steps):
            obs = "(Some %s)" % m3(R) if np.isfinite(R).all() else "None"
            cases.append("chk_rot %s %s %s %s" % (v3(a), fl(np.cos(th)), fl(np.sin(th)), obs))
            meta.append({"kind": "rotation_matrix", "axis": list(map(float, a)), "theta": th, "in_history": steps})
            hist["rotation_in_history"] = hist.get("rotation_in_history", 0) + 1
            ctx.count(("roth", tuple(a), th))
    # zero axis: error branch
    R = impl_rot((0.0, 0.0, 0.0), 1.0)
    cases.append("chk_rot %s %s %s %s" % (v3((0, 0, 0)), fl(np.cos(1.0)), fl(np.sin(1.0)),
                                          "None" if not np.isfinite(R).all() else "(Some %s)" % m3(R)))
    meta.append({"kind": "rotation_matrix", "axis": [0, 0, 0], "theta": 1.0})
    triples = list(CORPUS_TRIPLES) + [gen_triple(rs) for _ in range(n_base)]
    for kind, p0, p1, p2 in triples:
        v1, v2, v3_, o, _ = impl_base(p0, p1, p2)
        if all(np.isfinite(x).all() for x in (v1, v2, v3_, o)):
            obs = "(Some (%s, %s, %s, %s))" % (v3(v1), v3(v2), v3(v3_), v3(o))
        else:
            obs = "None"
        cases.append("chk_base %s %s %s %s" % (v3(p0), v3(p1), v3(p2), obs))
        meta.append({"kind": "calcule_base", "gen": kind, "points": [list(map(float, p)) for p in (p0, p1, p2)]})
        hist[kind] = hist.get(kind, 0) + 1
        ctx.count(("base", tuple(p0), tuple(p1), tuple(p2)))
        # S on the same cases
        bad = oracle_base(kind, p0, p1, p2)
        if bad:
            ctx.violation("local frame: " + "; ".join(bad), meta[-1], key="frame")
    ctx.sample(meta[0])
    ctx.sample({k: v for k, v in meta[n_rot + 2].items() if k != "in_history"})
    ctx.sample(meta[-1])
    codes, log = lib.run_coq_cases(ctx.cid, "K", HEADER, cases)
    K = ctx.cov["K"]
    K["cases"] = len(cases)
    K["input_distribution"] = hist
    K["log"] = log
    if codes is None:
        K["error"] = log
        return [{"error": "coqc failed on the correspondence cases", "log": log[-1500:]}]
    K["disagree"] = sum(1 for c in codes.values() if c in (1, 3))
    K["indeterminate"] = sum(1 for c in codes.values() if c == 2)
    K["agree"] = len(cases) - len(codes)
    dis = [dict(meta[i], code=c) for i, c in sorted(codes.items()) if c in (1, 3)]
    # 4.5: run the oracle on each disagreeing input
    for d in dis[:50]:
        if d["kind"] == "calcule_base":
            bad = oracle_base(d["gen"], *d["points"])
        elif d.get("in_history"):
            bad = oracle_rot_history(d["in_history"])
        else:
            bad = oracle_rot(d["axis"], d["theta"])
        if bad:
            ctx.violation(d["kind"] + ": " + "; ".join(bad), d, key=d["kind"])
    return dis


def oracle(ctx, scale):
    rs = ctx.np_rng("S%d" % scale)
    S = ctx.cov["S"]
    n = ctx.n(300, 5000) * scale
    fails = 0
    for _ in range(n):
        axis, theta = gen_rot(rs)
        bad = oracle_rot(axis, theta)
        ctx.count(("srot", tuple(axis), theta))
        if bad:
            fails += 1
            ctx.violation("rotation_matrix: " + "; ".join(bad), {"kind": "rotation_matrix", "axis": list(axis), "theta": theta},
                          key="rotation")
    for _ in range(n // 3):
        steps = rot_history(rs, int(rs.randint(2, 6)))
        bad = oracle_rot_history(steps)
        if bad:
            fails += 1
            ctx.violation("rotation_matrix history: " + "; ".join(bad[:4]), {"kind": "rotation_history", "steps": steps}, key="rotation")
    if scale > 1:
        for _ in range(n):
            kind, p0, p1, p2 = gen_triple(rs)
            bad = oracle_base(kind, p0, p1, p2)
            if bad:
                fails += 1
                ctx.violation("local frame: " + "; ".join(bad),
                              {"kind": "calcule_base", "gen": kind, "points": [list(p0), list(p1), list(p2)]}, key="frame")
    S["rotation_identities_x%d" % scale] = n
    S["failures"] = S.get("failures", 0) + fails


def replay(ctx, obj):
    r = obj["replay"]
    if r.get("kind") == "calcule_base":
        bad = oracle_base(r.get("gen", "generic"), *r["points"])
    elif r.get("kind") == "rotation_history":
        bad = oracle_rot_history(r["steps"])
    elif r.get("kind") == "rotation_matrix":
        bad = oracle_rot_history(r["in_history"]) if r.get("in_history") else oracle_rot(r["axis"], r["theta"])
    else:
        print("replay names a proof/correspondence, not an input:", r)
        return False
    print(bad)
    return not bad


def finish(ctx):
    ctx.assumptions = [
        "theorems are exact statements over the real numbers; IEEE rounding is modelled, not verified: the 1e-9 tolerances of the "
        "property are checked on the implementation by the S oracle (testing)",
        "cos/sin are numpy's in the float model (passed in as data) and Coq's Reals cos/sin in the theorems",
        "collinearity threshold 1e-6 (relative) is part of the repaired code; near-threshold triples are counted indeterminate in K",
    ]
    return ctx.finish(level="proof", rule=RULE,
                      trusted=["numpy evaluation order of cross/outer/norm written out by hand in coq/Model/Aux.v"])
