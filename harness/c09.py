"""C09 - Monte-Carlo search: consistent energies, Metropolis rule, exact stop.

The implementation (`gaddlemaps._backend._minimize_molecules`, Python engine) is run in-process with
recording wrappers on the module-level names it resolves at call time (`Chi2Calculator`,
`accept_metropolis`, `move_mol_atom`, `rotation_matrix`) and on the `np.random` functions it calls
(`choice`, `normal`, `uniform`, `rand`).  Nothing in /repo is touched.

K (i)  bookkeeping, bit-exact: the Coq loop (Model/MC.v, float instance) replays the recorded measures and
       draws and must reproduce kind, held measure, counter, best measure and decision of every step, the
       number of steps and which array is returned.
K (ii) geometry: every recorded translation / centroid rotation against `propose_geo` (tolerance 2^-30).
K (iii) accept_metropolis called directly on enumerated corner values (ties, zeros, nan, thresholds).
S      the property text evaluated on the same recorded trace, with an independent naive overlap measure.
"""
import contextlib
import io
import itertools
import math
import sys

import numpy as np

import lib
from lib import fl, v3

HEADER = """From GM Require Import Corr.CorrBase Corr.CheckC09 Model.MC.
Open Scope float_scope.
"""

RULE = ("runs: fixed molecule 2-8 atoms, mobile molecule 2-8 atoms on a random tree (bond table from the initial "
        "geometry), restraint lists empty/partial/duplicated/complete, every non-empty subset of the deformation types "
        "(also permuted and with repeats), budgets 1..2000, numpy seed per run; 'real' runs use the real Chi2Calculator and "
        "numpy draws, 'scripted' runs replace the measure by small dyadic values (ties, zeros, staircases that reset the "
        "counter at budget-1) and the uniform draw by threshold/neighbouring values. A run is non-trivial when it has at "
        "least one accepted and one rejected step or a counter reset; direct accept cases are non-trivial when distinct.")

ACCEPTANCE = 0.01      # the property text's constant (the model reads the live default through Gen/SrcConsts.v)
TOL = 1e-9


# ---------------------------------------------------------------------------------------------- recorder
class Script:
    """scripted measure and uniform draws (deterministic function of the case)"""

    def __init__(self, spec, n_steps):
        self.rs = np.random.RandomState(spec["seed"])
        self.kind = spec["kind"]
        self.n_steps = n_steps
        self.period = spec.get("period", max(1, n_steps))
        self.top = spec.get("top", 12)
        self.umode = spec.get("umode", "mix")

    def energy(self, k):
        rs = self.rs
        if self.kind == "levels":
            return np.float64(0.25 * rs.randint(0, 9))
        if self.kind == "zero":
            return np.float64(0.0 if rs.randint(0, 3) else 0.5)
        if self.kind == "stair":
            # a new strict minimum every `period` evaluations, noise of ties / worse values in between
            base = max(0, self.top - k // self.period)
            return np.float64(0.25 * (base + (0 if k % self.period == 0 else rs.randint(0, 3))))
        raise ValueError(self.kind)

    def u(self, e0, e1, drawn):
        rs = self.rs
        with np.errstate(all="ignore"):
            thr = ACCEPTANCE * (np.float64(e0) / np.float64(e1))
        m = rs.randint(0, 6) if self.umode == "mix" else 5
        if not np.isfinite(thr):
            return float(drawn)
        if m == 0:
            return float(thr) if thr < 1 else float(drawn)
        if m == 1:
            return float(np.nextafter(thr, 2.0)) if thr < 1 else float(drawn)
        if m == 2:
            return float(max(0.0, np.nextafter(thr, -1.0)))
        if m == 3:
            return 0.0
        if m == 4:
            return float(thr * rs.uniform(0, 2)) if thr < 0.5 else float(drawn)
        return float(drawn)


class RunAway(Exception):
    """raised by the recorder to stop a search that runs far beyond its budget"""


class Recorder:
    """context manager that swaps the names the loop resolves at call time for recording wrappers"""

    BNAMES = ("Chi2Calculator", "accept_metropolis", "move_mol_atom", "rotation_matrix")
    RNAMES = ("choice", "normal", "uniform", "rand")

    def __init__(self, script=None, max_steps=None):
        self.script = script
        self.max_steps = max_steps
        self.steps = []
        self.cur = None
        self.in_atom = 0
        self.in_accept = None
        self.ncalc = 0
        self.init = None
        self.init_obj = None
        self.e_init = None
        self.protocol = []      # deviations from the expected call protocol
        self.keep = []          # keep every array alive so that id()s stay unique

    def step(self):
        if self.cur is None:
            self.protocol.append("call outside a step")
            self.cur = {"kind": None, "gens": [], "draws": {}}
            self.steps.append(self.cur)
        return self.cur

    def __enter__(self):
        import gaddlemaps._backend as B
        rec = self
        self.B = B
        import gaddlemaps._transform_molecule as TM
        self.TM = TM
        self.saved_displ = getattr(TM, "find_atom_random_displ", None)
        o_displ = self.saved_displ
        self.saved_b = {n: getattr(B, n) for n in self.BNAMES}
        self.saved_r = {n: getattr(np.random, n) for n in self.RNAMES}
        o_calc, o_acc, o_move, o_rot = (self.saved_b[n] for n in self.BNAMES)
        o_choice, o_normal, o_uniform, o_rand = (self.saved_r[n] for n in self.RNAMES)

        class Calc:
            def __init__(s, mol1, mol2, restriction=None):
                s.real = o_calc(mol1, mol2, restriction)

            def __call__(s, arr):
                v = s.real(arr)
                if rec.script is not None:
                    # the scripted measure of a configuration with undefined coordinates is undefined too
                    v = rec.script.energy(rec.ncalc) if np.isfinite(arr).all() else np.float64("nan")
                rec.ncalc += 1
                rec.keep.append(arr)
                if rec.init is None:
                    rec.init_obj, rec.init, rec.e_init = arr, np.array(arr, dtype=float, copy=True), v
                else:
                    c = rec.step()
                    if "test" in c:
                        rec.protocol.append("step %d: more than one measure evaluation" % len(rec.steps))
                    c["test_obj"], c["test"], c["e1"] = arr, np.array(arr, dtype=float, copy=True), v
                return v

        def w_accept(e0, e1, *a, **kw):
            c = rec.step()
            f = sys._getframe(1)
            loc = f.f_locals if f.f_code.co_name == "_minimize_molecules" else {}
            c["e0"], c["e1_arg"] = e0, e1
            c["counter"] = loc.get("counter")
            c["chi2_min"] = loc.get("chi2_min")
            held = loc.get("mol2_positions")
            if isinstance(held, np.ndarray):
                c["held_obj"], c["held"] = held, held.copy()
                rec.keep.append(held)
            if a or kw:
                c["accept_extra_args"] = True
            rec.in_accept = c
            try:
                dec = o_acc(e0, e1, *a, **kw)
            finally:
                rec.in_accept = None
            c["acc"] = bool(dec)
            rec.cur = None
            return dec

        def w_move(pos, bonds, *a, **kw):
            c = rec.step()
            rec.in_atom += 1
            try:
                out = o_move(pos, bonds, *a, **kw)
            finally:
                rec.in_atom -= 1
            c["gens"].append("atom")
            c["atom_in"] = np.array(pos, dtype=float, copy=True)
            c["atom_out"] = np.array(out, dtype=float, copy=True)
            c["atom_kw"] = dict(kw)
            rec.keep.append(pos)
            return out

        def w_displ(atoms_pos, bonds_info, atom_index, *a, **kw):
            # move_mol_atom resolves this module-level name when called: the atom drawn and its displacement
            d = o_displ(atoms_pos, bonds_info, atom_index, *a, **kw)
            if rec.in_atom and rec.cur is not None and "atom_k" not in rec.cur:
                rec.cur["atom_k"] = int(atom_index)
                rec.cur["atom_d"] = np.array(d, dtype=float).reshape(-1)
            return d

        def w_rot(axis, theta):
            m = o_rot(axis, theta)
            if not rec.in_atom and rec.cur is not None:
                rec.cur["rot_args"] = (np.array(axis, dtype=float), float(theta), np.array(m, dtype=float))
            return m

        def w_choice(a, *args, **kw):
            v = o_choice(a, *args, **kw)
            if rec.in_atom:
                return v
            if rec.max_steps is not None and len(rec.steps) >= rec.max_steps:
                raise RunAway()
            if rec.cur is not None:
                rec.protocol.append("step %d: a new type was drawn before the previous proposal was judged" % len(rec.steps))
            rec.cur = {"kind": int(v), "choice_arg": [int(x) for x in np.atleast_1d(a)], "gens": [], "draws": {}}
            if args or kw:
                rec.cur["choice_extra_args"] = True
            rec.steps.append(rec.cur)
            return v

        def w_normal(loc=0.0, scale=1.0, size=None):
            v = o_normal(loc, scale, size)
            if not rec.in_atom:
                c = rec.step()
                if size is None:
                    c["gens"].append("normal1")
                    c["draws"]["theta"] = (float(loc), float(scale), float(v))
                else:
                    c["gens"].append("normal%d" % int(np.prod(size)))
                    c["draws"]["d"] = (float(loc), float(scale), np.array(v, dtype=float).reshape(-1))
            return v

        def w_uniform(low=0.0, high=1.0, size=None):
            v = o_uniform(low, high, size)
            if not rec.in_atom:
                c = rec.step()
                c["gens"].append("uniform%d" % (1 if size is None else int(np.prod(size))))
                c["draws"]["axis"] = (float(low), float(high), np.array(v, dtype=float).reshape(-1))
            return v

        def w_rand(*shape):
            v = o_rand(*shape)
            if rec.in_atom or rec.in_accept is None:
                return v
            c = rec.in_accept
            if rec.script is not None and not shape:
                v = rec.script.u(c["e0"], c["e1_arg"], v)
            c.setdefault("us", []).append(float(v) if not shape else None)
            return v

        B.Chi2Calculator, B.accept_metropolis, B.move_mol_atom, B.rotation_matrix = Calc, w_accept, w_move, w_rot
        if o_displ is not None:
            TM.find_atom_random_displ = w_displ
        np.random.choice, np.random.normal, np.random.uniform, np.random.rand = w_choice, w_normal, w_uniform, w_rand
        return self

    def __exit__(self, *exc):
        for n, v in self.saved_b.items():
            setattr(self.B, n, v)
        for n, v in self.saved_r.items():
            setattr(np.random, n, v)
        if self.saved_displ is not None:
            self.TM.find_atom_random_displ = self.saved_displ
        return False


def bonds_info(pos, bonds):
    """the structure Molecule.bonds_distance hands to the backend: {i: [(j, length), ...]}"""
    info = {i: [] for i in range(len(pos))}
    for a, b in bonds:
        d = float(np.linalg.norm(pos[a] - pos[b]))
        info[a].append((b, d))
        info[b].append((a, d))
    return info


def run_case(case):
    """run the implementation on the case under the recorder; returns the trace (dict)"""
    import gaddlemaps._backend as B
    mol1 = np.array(case["mol1"], dtype=float)
    mol2 = np.array(case["mol2"], dtype=float)
    info = bonds_info(mol2, case["bonds"])
    restr = [tuple(r) for r in case["restr"]]
    sim = tuple(case["sim_type"])
    script = Script(case["script"], case["n_steps"]) if case.get("script") else None
    mol1_before, mol2_before = mol1.copy(), mol2.copy()
    state = np.random.get_state()
    np.random.seed(case["seed"])
    rec = Recorder(script, max_steps=30 * max(case["n_steps"], 0) + 3000)
    out = io.StringIO()
    err = None
    result = None
    aborted = False
    try:
        with rec, contextlib.redirect_stdout(out), np.errstate(all="ignore"):
            import warnings
            with warnings.catch_warnings():
                warnings.simplefilter("ignore")
                result = B.minimize_molecules(mol1, mol2, mol2.mean(axis=0), case["sigma_scale"], case["n_steps"],
                                              restr, info, case["width"], sim)
    except RunAway:
        aborted = True
    except Exception as ex:  # the property's runs never raise on valid input
        err = "%s: %s" % (type(ex).__name__, ex)
    finally:
        np.random.set_state(state)
    return {"rec": rec, "steps": rec.steps, "init": rec.init, "init_obj": rec.init_obj, "e_init": rec.e_init,
            "result": result, "error": err, "aborted": aborted, "protocol": rec.protocol, "info": info,
            "inputs_unchanged": bool((mol1 == mol1_before).all() and (mol2 == mol2_before).all()),
            "mol2_arg": mol2, "stdout": out.getvalue()}


# ---------------------------------------------------------------------------------------------- generators
SUBSETS = [s for r in (1, 2, 3) for s in itertools.combinations((0, 1, 2), r)]


def gen_case(rs, mode=None, budget=None):
    from molgen import random_tree
    n1 = int(rs.randint(2, 9))
    n2 = int(rs.randint(2, 9))
    mol1 = rs.uniform(-0.6, 0.6, size=(n1, 3))
    mol2 = rs.uniform(-0.6, 0.6, size=(n2, 3)) + rs.normal(0, 0.3, size=3)
    bonds = [list(b) for b in random_tree(rs, n2)]
    rk = rs.randint(0, 5)
    if rk == 0 or rk == 1:
        restr = []
    elif rk == 2:       # partial
        restr = [[int(rs.randint(n1)), int(rs.randint(n2))] for _ in range(int(rs.randint(1, n1 + 1)))]
    elif rk == 3:       # every fixed atom restrained
        restr = [[i, int(rs.randint(n2))] for i in rs.permutation(n1)]
    else:               # duplicated fixed atoms
        i = int(rs.randint(n1))
        restr = [[i, int(rs.randint(n2))], [i, int(rs.randint(n2))]] + \
                [[int(rs.randint(n1)), int(rs.randint(n2))] for _ in range(int(rs.randint(0, 3)))]
    sub = list(SUBSETS[rs.randint(len(SUBSETS))])
    sk = rs.randint(0, 4)
    if sk == 0:
        sub = [int(x) for x in rs.permutation(sub)]
    elif sk == 1:
        sub = sub + [sub[int(rs.randint(len(sub)))]]
    if budget is None:
        budget = int(rs.choice([1, 1, 2, 3, 4, 5, 7, 10, 15, 25, 40, 60, 100, 160, 300, 600]))
    if mode is None:
        mode = "scripted" if rs.randint(0, 5) < 2 else "real"
    case = {"kind": "run", "mode": mode, "seed": int(rs.randint(0, 2 ** 31 - 1)), "mol1": mol1.tolist(), "mol2": mol2.tolist(),
            "bonds": bonds, "restr": restr, "sim_type": [int(x) for x in sub], "n_steps": int(budget),
            "sigma_scale": float(rs.choice([0.5, 0.2, 1.0])), "width": float(rs.uniform(0.05, 0.6))}
    if mode == "scripted":
        sk = ["levels", "stair", "stair", "zero"][rs.randint(0, 4)]
        per = max(1, budget + int(rs.randint(-1, 2)))     # resets arriving at counter = budget-2, budget-1 or never
        case["script"] = {"seed": int(rs.randint(0, 2 ** 31 - 1)), "kind": sk, "period": per,
                          "top": int(rs.randint(2, 7)) if budget > 50 else int(rs.randint(3, 14)),
                          "umode": "mix"}
    return case


def gen_degenerate(rs, budget=None):
    """start configurations on which the single-atom move divides 0/0 (type 2 always enabled):
    'line'       a branched molecule (one bead with >= 3 neighbours) laid on a straight line: the cross product of the
                 neighbour differences is exactly the zero vector;
    'coincident' a leaf sitting on its only neighbour, or the two neighbours of a bead at the same point.
    The unchanged search rejects such trials (nan measure) and goes on from the finite held configuration."""
    case = gen_case(rs, mode="real" if rs.randint(0, 4) else "scripted", budget=budget)
    n2 = int(rs.randint(4, 9))
    kind = ["line", "line", "coincident"][rs.randint(0, 3)]
    # a tree whose bead 1 has the neighbours 0, 2, 3 (in this order in the bond table)
    bonds = [[0, 1], [1, 2], [1, 3]] + [[int(rs.randint(0, k)), k] for k in range(4, n2)]
    if kind == "line":
        dirs = [(1.0, 0.0, 0.0), (0.0, 1.0, 0.0), (0.0, 0.0, 1.0), (0.5, 0.5, 0.0), (0.25, -0.5, 0.5)]
        d = np.array(dirs[rs.randint(len(dirs))])
        t = rs.permutation(n2).astype(float) if rs.randint(2) else np.arange(n2, dtype=float)
        origin = rs.randint(-4, 5, size=3) * 0.125
        mol2 = origin + np.outer(t * 0.5, d)
    else:
        mol2 = rs.uniform(-0.6, 0.6, size=(n2, 3))
        if rs.randint(2):
            mol2[0] = mol2[1]            # leaf 0 on its only neighbour
        else:
            mol2[2] = mol2[0]            # the first two neighbours of bead 1 at the same point
            mol2[3] = mol2[0] if rs.randint(2) else mol2[3]
    sub = sorted(set([2] + [int(x) for x in SUBSETS[rs.randint(len(SUBSETS))]]))
    if rs.randint(3) == 0:
        sub = [2]
    n1 = len(case["mol1"])
    case["restr"] = [r for r in case["restr"] if r[1] < n2] if rs.randint(2) else \
        [[int(rs.randint(n1)), int(rs.randint(n2))] for _ in range(int(rs.randint(0, 3)))]
    # at least one fixed atom stays unrestrained, so that every mobile atom enters the measure (with every fixed atom
    # restrained the measure only reads the restrained mobile atoms and an undefined unrestrained atom is invisible
    # to it: see docs/design_notes/C09.md, "finding outside the generated domain")
    while case["restr"] and len(set(r[0] for r in case["restr"])) >= n1:
        case["restr"] = case["restr"][:-1]
    case.update({"mol2": mol2.tolist(), "bonds": bonds, "sim_type": sub, "degenerate": kind})
    if case["n_steps"] > 100:
        case["n_steps"] = int(rs.choice([5, 20, 40, 100]))
    if case.get("script"):
        case["script"]["period"] = max(1, case["n_steps"] + int(rs.randint(-1, 2)))
    return case


def gen_restr(rs, n1, n2):
    rk = rs.randint(0, 5)
    if rk <= 1:
        return []
    if rk == 2:
        return [[int(rs.randint(n1)), int(rs.randint(n2))] for _ in range(int(rs.randint(1, n1 + 1)))]
    if rk == 3:
        return [[int(i), int(rs.randint(n2))] for i in rs.permutation(n1)]
    i = int(rs.randint(n1))
    return [[i, int(rs.randint(n2))], [i, int(rs.randint(n2))]] + \
        [[int(rs.randint(n1)), int(rs.randint(n2))] for _ in range(int(rs.randint(0, 3)))]


def cyclic_bonds(rs):
    """bond graphs with rings: ring + tails, two rings fused on an edge (+ tail), random connected cyclic graphs;
    atoms relabelled at random, bonds in random order and orientation (the table order decides the traversal)"""
    from molgen import random_graph
    kind = ["ring_tail", "ring_tail", "fused", "random"][rs.randint(0, 4)]
    if kind == "ring_tail":
        r = int(rs.randint(3, 7))
        edges = [(i, (i + 1) % r) for i in range(r)]
        n = r
        for t in range(int(rs.randint(1, 5))):
            edges.append((int(rs.randint(0, r)) if t == 0 or rs.randint(2) else int(rs.randint(0, n)), n))
            n += 1
    elif kind == "fused":
        a, b = int(rs.randint(3, 6)), int(rs.randint(3, 6))
        edges = [(i, (i + 1) % a) for i in range(a)]
        n = a
        prev = 1
        for _ in range(b - 2):
            edges.append((prev, n))
            prev = n
            n += 1
        edges.append((prev, 0))
        for _ in range(int(rs.randint(0, 3))):
            edges.append((int(rs.randint(0, n)), n))
            n += 1
    else:
        n = int(rs.randint(4, 11))
        edges = list(random_graph(rs, n, int(rs.randint(1, 4))))
    perm = rs.permutation(n)
    edges = [(int(perm[a]), int(perm[b])) for a, b in edges]
    edges = [list(e) if rs.randint(2) else [e[1], e[0]] for e in edges]
    edges = [edges[i] for i in rs.permutation(len(edges))]
    return kind, n, edges


def gen_cyclic(rs, budget=None):
    """mobile molecule whose bond graph has rings, single-atom moves enabled"""
    case = gen_case(rs, budget=budget)
    kind, n2, bonds = cyclic_bonds(rs)
    mol2 = rs.uniform(-0.6, 0.6, size=(n2, 3)) + rs.normal(0, 0.3, size=3)
    sub = sorted(set([2] + [int(x) for x in SUBSETS[rs.randint(len(SUBSETS))]]))
    if rs.randint(2) == 0:
        sub = [2]
    case.update({"mol2": mol2.tolist(), "bonds": bonds, "sim_type": sub, "graph": kind,
                 "restr": gen_restr(rs, len(case["mol1"]), n2)})
    if case["n_steps"] > 160:
        case["n_steps"] = int(rs.choice([10, 40, 100, 160]))
    if case.get("script"):
        case["script"]["period"] = max(1, case["n_steps"] + int(rs.randint(-1, 2)))
    return case


def ring_tail_cases():
    """corpus: the witness of seeded/C09-9 - ring 0-1-2-3 with tail 1-4-5, only single-atom moves"""
    rs = np.random.RandomState(99)
    mol1 = rs.uniform(-0.6, 0.6, size=(6, 3)).tolist()
    mol2 = [[0.0, 0.0, 0.0], [0.5, 0.1, 0.0], [0.6, 0.6, 0.1], [0.05, 0.55, -0.1], [1.0, -0.2, 0.2], [1.45, 0.0, 0.1]]
    return [{"kind": "run", "mode": "real", "seed": seed, "mol1": mol1, "mol2": mol2,
             "bonds": [[0, 1], [1, 2], [2, 3], [3, 0], [1, 4], [4, 5]], "restr": [], "sim_type": [2], "n_steps": 30,
             "sigma_scale": 0.5, "width": 0.3, "graph": "ring_tail"} for seed in range(5)]


def demo_cases():
    """the witness of seeded/C09-8 (= seeded/C06-3): 5-bead branched molecule typed on the x axis"""
    mol1 = [[0.0, 0.3, 0.1], [0.5, -0.3, 0.0], [1.0, 0.3, -0.1], [1.5, -0.3, 0.0], [2.0, 0.3, 0.1], [2.5, -0.3, 0.0],
            [1.0, 0.9, 0.3], [1.0, 1.5, 0.2]]
    mol2 = [[0.0, 0.0, 0.0], [0.7, 0.0, 0.0], [1.4, 0.0, 0.0], [2.1, 0.0, 0.0], [2.8, 0.0, 0.0]]
    out = []
    for restr in ([], [[0, 0]]):
        for sim in ([0, 1, 2], [2]):
            for seed in range(10):
                out.append({"kind": "run", "mode": "real", "seed": seed, "mol1": mol1, "mol2": mol2,
                            "bonds": [[0, 1], [1, 2], [1, 3], [3, 4]], "restr": restr, "sim_type": sim, "n_steps": 40,
                            "sigma_scale": 0.5, "width": 0.5, "degenerate": "demo"})
    return out


def gen_accept(rs):
    """(e0, e1, u) for accept_metropolis called directly: ties, zeros, thresholds, non-finite"""
    k = rs.randint(0, 10)
    lv = [0.0, 0.25, 0.5, 1.0, 1.5, 2.0, 1e-300, 1e300, 3.0, 100.0]
    if k <= 2:
        e0, e1 = float(10 ** rs.uniform(-6, 4)), float(10 ** rs.uniform(-6, 4))
    elif k <= 5:
        e0, e1 = float(lv[rs.randint(len(lv))]), float(lv[rs.randint(len(lv))])
    elif k == 6:
        e0 = float(10 ** rs.uniform(-3, 3))
        e1 = float(np.nextafter(e0, [0.0, np.inf][rs.randint(2)])) if rs.randint(3) else e0
    elif k == 7:
        sp = [float("nan"), float("inf"), -1.0, 0.0, -0.0, 1.0, float("nan"), float(10 ** rs.uniform(-3, 3))]
        e0, e1 = sp[rs.randint(len(sp))], sp[rs.randint(len(sp))]
    else:
        e1 = float(10 ** rs.uniform(-3, 3))
        e0 = e1 * float(rs.uniform(0, 1))
    with np.errstate(all="ignore"):
        thr = ACCEPTANCE * (np.float64(e0) / np.float64(e1))
    m = rs.randint(0, 5)
    if m == 0 and np.isfinite(thr):
        u = float(thr)
    elif m == 1 and np.isfinite(thr):
        u = float(np.nextafter(thr, np.inf))
    elif m == 2 and np.isfinite(thr):
        u = float(np.nextafter(thr, -np.inf))
    elif m == 3:
        u = 0.0
    else:
        u = float(rs.uniform(0, 1)) * (0.02 if rs.randint(2) else 1.0)
    if not (0.0 <= u < 1.0):
        u = 0.0
    return e0, e1, u


def impl_accept(e0, e1, u):
    """accept_metropolis(e0, e1) with np.random.rand() forced to u. Returns ('ok', decision, rand called) or ('err', class)"""
    import gaddlemaps._backend as B
    called = []
    saved = np.random.rand

    def fake(*shape):
        called.append(shape)
        return u
    np.random.rand = fake
    try:
        with np.errstate(all="ignore"):
            d = B.accept_metropolis(e0, e1)
        return ("ok", bool(d), bool(called))
    except ZeroDivisionError:
        return ("err", "ZeroDivisionError", bool(called))
    finally:
        np.random.rand = saved


# ---------------------------------------------------------------------------------------------- S oracle
def naive_chi2(fixed, mobile, restr, decided=None):
    """C08's sentence, written as loops: restrained pairs + nearest mobile atom of every unrestrained fixed atom,
    times 1.1^k, k = number of mobile atoms neither restrained nor nearest to an unrestrained fixed atom.
    decided (a list) receives False when some nearest atom is not unique to 1e-9 (coincident mobile atoms): which of
    them counts as 'nearest' then depends on the last bit and the value is only defined up to a factor 1.1."""
    total = 0.0
    restrained_fixed = set(i for i, _ in restr)
    used = set(j for _, j in restr)
    for i, j in restr:
        total += sum((fixed[i][c] - mobile[j][c]) ** 2 for c in range(3))
    for i in range(len(fixed)):
        if i in restrained_fixed:
            continue
        best, bj, second = None, None, None
        for j in range(len(mobile)):
            d = sum((fixed[i][c] - mobile[j][c]) ** 2 for c in range(3))
            if best is None or d < best:
                best, bj, second = d, j, best
            elif second is None or d < second:
                second = d
        if decided is not None and second is not None and not (second - best > 1e-9 * max(second, 1e-300)):
            decided.append(False)
        total += best
        used.add(bj)
    return total * 1.1 ** (len(mobile) - len(used))


def traversal_edges(table, k):
    """bonds by which the propagation from atom k first reaches every other atom: neighbours of k in table order, then
    last in first out; an atom belongs to the first bond that reaches it"""
    seen, stack, edges = {k}, [], []
    for j, b in table.get(k, []):
        if j not in seen:
            seen.add(j)
            stack.append((k, j, b))
    while stack:
        p, c, b = stack.pop()
        edges.append((p, c, b))
        for j, b2 in table.get(c, []):
            if j not in seen:
                seen.add(j)
                stack.append((c, j, b2))
    return edges


def bridge_edges(table):
    """bonds whose removal disconnects the bond graph (they belong to every traversal tree)"""
    out = []
    for a, lst in table.items():
        for b, length in lst:
            if a < b:
                comp, todo = {a}, [a]
                while todo:
                    i = todo.pop()
                    for j, _ in table.get(i, []):
                        if j not in comp and {i, j} != {a, b}:
                            comp.add(j)
                            todo.append(j)
                if b not in comp:
                    out.append((a, b, length))
    return out


def pairdist(a):
    return np.sqrt(((a[:, None, :] - a[None, :, :]) ** 2).sum(-1))


def same_bits(a, b):
    a, b = np.asarray(a, dtype=float), np.asarray(b, dtype=float)
    return a.shape == b.shape and a.tobytes() == b.tobytes()


def oracle_accept(e0, e1, u):
    """the acceptance sentence on one direct call.  Domain: measures >= 0 (incl. +inf), and nan.
    A nan measure is not "equal or lower" and cannot win the draw: whenever either measure is nan the proposal is
    rejected, after one uniform draw (what the rule `u <= 0.01*E0/E1` gives for a non-number); checked with numpy
    scalars, the type the search passes (a Python-float nan/0.0 raises instead)."""
    def dom(x):
        return math.isnan(x) or x >= 0
    if not (dom(e0) and dom(e1)):
        return []
    bad = []
    if math.isnan(e0) or math.isnan(e1):
        r = impl_accept(np.float64(e0), np.float64(e1), u)
        if r[0] != "ok":
            bad.append("accept_metropolis(%r, %r) raised %s" % (e0, e1, r[1]))
        else:
            if r[1]:
                bad.append("a measure that is not a number was accepted: accept_metropolis(%r, %r) = True" % (e0, e1))
            if not r[2]:
                bad.append("accept_metropolis(%r, %r): proposal not equal or lower, yet decided without the uniform draw" % (e0, e1))
        return bad
    for conv in (float, np.float64):
        r = impl_accept(conv(e0), conv(e1), u)
        if r[0] != "ok":
            bad.append("accept_metropolis(%r, %r) raised %s" % (e0, e1, r[1]))
            continue
        if e1 <= e0:
            if not r[1]:
                bad.append("equal or lower measure rejected: accept_metropolis(%r, %r) = False" % (e0, e1))
        else:
            thr = ACCEPTANCE * e0 / e1
            if abs(u - thr) > 1e-12 * max(thr, 1e-300) and r[1] != (u <= thr):
                bad.append("worse proposal: accept_metropolis(%r, %r) with u=%r returned %r, 0.01*E0/E1=%r" % (e0, e1, u, r[1], thr))
            if not r[2]:
                bad.append("worse proposal decided without the uniform draw: accept_metropolis(%r, %r)" % (e0, e1))
    return bad


def oracle_trace(case, tr):
    """the property text on a recorded run; list of failed clauses (empty = holds)"""
    bad = []
    if tr["error"]:
        return ["the search raised " + tr["error"]]
    if tr["protocol"]:
        bad.append("evaluation protocol: " + "; ".join(tr["protocol"][:3]))
    mol1 = np.array(case["mol1"], dtype=float)
    restr = [tuple(r) for r in case["restr"]]
    real = case["mode"] == "real"
    n_steps = case["n_steps"]
    enabled = set(case["sim_type"])
    if tr["init"] is None:
        return bad + ["the initial configuration was never evaluated"]
    if not same_bits(tr["init"], case["mol2"]):
        bad.append("the first evaluated configuration is not the initial one")

    def measure_ok(arr, val, what):
        if real:
            dec = []
            ref = naive_chi2(mol1.tolist(), np.asarray(arr).tolist(), restr, dec)
            if not dec and not (abs(val - ref) <= TOL * max(abs(ref), 1e-12)):
                bad.append("%s: measure %r is not the overlap measure %r of that configuration" % (what, float(val), ref))
    held, e_held = tr["init"], tr["e_init"]
    measure_ok(held, e_held, "initial configuration")
    e_min = e_held
    count = 0
    table = tr["info"]
    bridges = bridge_edges(table)
    for k, st in enumerate(tr["steps"], 1):
        if len(bad) > 6:
            break
        if count >= n_steps:
            bad.append("step %d executed although %d consecutive steps had elapsed without a new lowest measure" % (k, count))
            break
        if "test" not in st or "acc" not in st or "e0" not in st:
            bad.append("step %d: proposal not evaluated / not judged" % k)
            break
        if not np.isfinite(held).all():
            bad.append("step %d: the configuration held is not finite" % k)
            break
        test, e1 = st["test"], st["e1"]
        # judged against the measure of the configuration currently held
        if not (st["e0"] == e_held):
            bad.append("step %d: judged against %r but the held configuration has measure %r" % (k, float(st["e0"]), float(e_held)))
        if not (st["e1_arg"] == e1 or (np.isnan(st["e1_arg"]) and np.isnan(e1))):
            bad.append("step %d: judged with %r but the proposal has measure %r" % (k, float(st["e1_arg"]), float(e1)))
        # a trial with undefined coordinates (0/0 in the single-atom move on a degenerate geometry: collinear or
        # coincident neighbours) has no measure; it can only be rejected (below)
        undefined = not np.isfinite(test).all()
        if not undefined:
            measure_ok(test, e1, "step %d proposal" % k)
        if "held" in st and not same_bits(st["held"], held):
            bad.append("step %d: the configuration held is not the last accepted one" % k)
        # kind
        kind = st["kind"]
        if kind not in enabled:
            bad.append("step %d: deformation type %r is not enabled %r" % (k, kind, sorted(enabled)))
        gens = st["gens"]
        scale = max(1.0, float(np.abs(held).max()))
        if gens == ["normal3"]:
            prop_kind = 0
            d = st["draws"]["d"][2]
            if test.shape != held.shape or np.abs(test - (held + d)).max() > TOL * scale:
                bad.append("step %d: proposal is not the held configuration translated by the drawn vector" % k)
        elif gens == ["uniform3", "normal1"]:
            prop_kind = 1
            if test.shape != held.shape:
                bad.append("step %d: rotation changed the number of atoms" % k)
            else:
                if np.abs(pairdist(test) - pairdist(held)).max() > TOL * scale:
                    bad.append("step %d: rotation does not preserve the pairwise distances" % k)
                if np.abs(test.mean(axis=0) - held.mean(axis=0)).max() > TOL * scale:
                    bad.append("step %d: rotation does not keep the centroid" % k)
                if len(held) >= 4:
                    a, b = held - held.mean(axis=0), test - test.mean(axis=0)
                    if np.linalg.matrix_rank(a, tol=1e-6) == 3 and np.linalg.det(a.T @ b) < 0:
                        bad.append("step %d: improper rotation (reflection)" % k)
        elif gens == ["atom"]:
            prop_kind = 2
            if not same_bits(st["atom_in"], held):
                bad.append("step %d: the single-atom move was not applied to the held configuration" % k)
            if not same_bits(st["atom_out"], test):
                bad.append("step %d: the evaluated proposal is not the result of the single-atom move" % k)
            # bond-preserving: every bond of the traversal tree rooted at the moved atom, in particular every bridge
            # (on a tree: every bond), has its tabulated length
            keep = {(min(a, b), max(a, b)): length for a, b, length in bridges}
            if st.get("atom_k") is not None:
                for a, b, length in traversal_edges(table, st["atom_k"]):
                    keep[(min(a, b), max(a, b))] = length
            for (a, b), length in sorted(keep.items()):
                if not undefined and abs(np.linalg.norm(test[a] - test[b]) - length) > TOL * max(length, 1.0):
                    bad.append("step %d: single-atom move of atom %s left bond %d-%d at %.9g instead of %.9g" % (
                        k, st.get("atom_k"), a, b, float(np.linalg.norm(test[a] - test[b])), length))
                    break
            if not undefined and (np.abs(test - held).max(axis=1) > 0).sum() < 1:
                bad.append("step %d: single-atom move moved nothing" % k)
        else:
            prop_kind = None
            bad.append("step %d: proposal is not a translation, a rotation or a single-atom move (draws %r)" % (k, gens))
        if prop_kind is not None and prop_kind != kind:
            bad.append("step %d: type %r drawn but proposal of type %r made" % (k, kind, prop_kind))
        if undefined and prop_kind in (0, 1):
            bad.append("step %d: non-finite translation/rotation of a finite configuration" % k)
        # acceptance rule
        acc = st["acc"]
        us = st.get("us", [])
        if (undefined or not np.isfinite(e1)) and acc:
            bad.append("step %d: a proposal with undefined coordinates / measure (%r) was accepted" % (k, float(e1)))
        if e1 <= e_held:
            if not acc:
                bad.append("step %d: equal or lower measure rejected (%r <= %r)" % (k, float(e1), float(e_held)))
        else:
            if len(us) != 1 or us[0] is None:
                bad.append("step %d: a worse proposal must be decided by exactly one uniform draw (%d drawn)" % (k, len(us)))
            else:
                with np.errstate(all="ignore"):
                    thr = ACCEPTANCE * float(e_held) / float(e1)
                if abs(us[0] - thr) > 1e-12 * max(thr, 1e-300) and acc != (us[0] <= thr):
                    bad.append("step %d: worse proposal (%r > %r) with u=%r: accepted=%r but 0.01*E_held/E_new=%r"
                               % (k, float(e1), float(e_held), us[0], acc, thr))
        # bookkeeping the text prescribes
        if acc:
            held, e_held = test, e1
            if e_held < e_min:
                e_min, count = e_held, 0
            else:
                count += 1
        else:
            count += 1
    else:
        if tr["aborted"]:
            return bad      # cut by the harness (30*budget+3000 steps) while still within its budget: nothing to add
        if count != n_steps and not bad:
            bad.append("stopped after %d steps with %d consecutive steps without a new lowest measure, budget %d"
                       % (len(tr["steps"]), count, n_steps))
        res = tr["result"]
        if res is None or not same_bits(res, held):
            bad.append("the returned configuration is not the last accepted one")
        if res is not None and not np.isfinite(np.asarray(res, dtype=float)).all():
            bad.append("the returned configuration is not finite")
        if not tr["inputs_unchanged"]:
            bad.append("the caller's arrays were modified")
    return bad


# ---------------------------------------------------------------------------------------------- K terms
def ret_ordinal(tr):
    res = tr["result"]
    if res is None:
        return -1
    for k in range(len(tr["steps"]), 0, -1):
        if tr["steps"][k - 1].get("test_obj") is res:
            return k
    if res is tr["init_obj"]:
        return 0
    for k in range(len(tr["steps"]), 0, -1):
        t = tr["steps"][k - 1].get("test")
        if t is not None and same_bits(t, res):
            return k
    return 0 if same_bits(res, tr["init"]) else -1


GEN_TAG = {("normal3",): 0, ("uniform3", "normal1"): 1, ("atom",): 2}


def draw_args_ok(case, st):
    """the generators are called with the documented parameters (part of K, python side)"""
    g = tuple(st["gens"])
    if g == ("normal3",):
        loc, scale, _ = st["draws"]["d"]
        return loc == 0.0 and scale == case["width"]
    if g == ("uniform3", "normal1"):
        lo, hi, _ = st["draws"]["axis"]
        loc, scale, _ = st["draws"]["theta"]
        return lo == -1.0 and hi == 1.0 and loc == 0.0 and scale == np.pi / 4.
    if g == ("atom",):
        return st.get("atom_kw", {}).get("sigma_scale", None) == case["sigma_scale"]
    return False


def run_term(case, tr):
    """Coq term `chk_run ...` for a recorded run, or None when the run cannot be expressed (reported by S)"""
    sim = case["sim_type"]
    items = []
    for st in tr["steps"]:
        if st.get("kind") is None or "e1" not in st or "acc" not in st:
            return None
        if st["kind"] not in sim:
            return None
        i = sim.index(st["kind"])
        tag = GEN_TAG.get(tuple(st["gens"]), 9)
        us = st.get("us", [])
        if len(us) > 1 or (us and us[0] is None):
            return None
        u = "(Some %s)" % fl(us[0]) if us else "None"
        cnt = st.get("counter")
        cnt = int(cnt) if isinstance(cnt, (int, np.integer)) else -1
        emin = st.get("chi2_min")
        emin = float(emin) if isinstance(emin, (float, np.floating)) else float("nan")
        items.append("OS %d %d %s %s %d %s %s %s %s" % (i, tag, fl(st["e1"]), u, st["kind"], fl(st["e0"]),
                                                       "(%d)" % cnt, fl(emin), "true" if st["acc"] else "false"))
    return "chk_run [%s]%%nat %s %s [%s] %s" % ("; ".join(str(x) for x in sim), lib.coq_z(case["n_steps"]), fl(tr["e_init"]),
                                               ";\n     ".join(items), lib.coq_z(ret_ordinal(tr)))


def vlist(a):
    return "[" + "; ".join(v3(p) for p in a) + "]"


def geo_terms(tr, held_of):
    """(term, meta) for the translations / rotations of a run; held_of[k] = configuration held before step k+1"""
    out = []
    for k, st in enumerate(tr["steps"]):
        g = tuple(st["gens"])
        held = held_of[k]
        if "test" not in st:
            continue
        if g == ("normal3",):
            out.append(("chk_trans %s %s %s" % (vlist(held), v3(st["draws"]["d"][2]), vlist(st["test"])), k))
        elif g == ("uniform3", "normal1"):
            axis, theta = st["draws"]["axis"][2], st["draws"]["theta"][2]
            obs = "(Some %s)" % vlist(st["test"]) if np.isfinite(st["test"]).all() else "None"
            out.append(("chk_rotc %s %s %s %s %s %s" % (vlist(held), v3(axis), fl(theta), fl(np.cos(theta)), fl(np.sin(theta)), obs), k))
    return out


def table_term(info):
    return "[" + "; ".join("Some [" + "; ".join("(%d%%nat, %s)" % (j, fl(b)) for j, b in info[i]) + "]"
                           for i in range(len(info))) + "]"


def atom_terms(tr):
    """chk_atom terms for the single-atom moves whose atom and (finite) displacement were observed"""
    out, tb = [], None
    for k, st in enumerate(tr["steps"]):
        if tuple(st["gens"]) != ("atom",) or "atom_k" not in st or "test" not in st:
            continue
        held, d = st["atom_in"], st["atom_d"]
        if not (np.isfinite(held).all() and np.isfinite(d).all() and d.shape == (3,)):
            continue
        tb = tb or table_term(tr["info"])
        obs = "(Ok %s)" % vlist(st["test"]) if np.isfinite(st["test"]).all() else "(Err EDiv0)"
        out.append(("chk_atom %s %s %d%%nat %s %s" % (vlist(held), tb, st["atom_k"], v3(d), obs), k))
    return out


def helds(tr):
    """configuration held before each step, from the recorded decisions"""
    h, out = tr["init"], []
    for st in tr["steps"]:
        out.append(h)
        if st.get("acc") and "test" in st:
            h = st["test"]
    return out


def nontrivial(tr):
    accs = [s.get("acc") for s in tr["steps"]]
    resets = sum(1 for s in tr["steps"] if s.get("counter") == 0) > 1
    return (True in accs and False in accs) or resets


# ---------------------------------------------------------------------------------------------- entry points
MAX_REPORTS = 12


def report(ctx, what, replay, key):
    """ctx.violation, but at most MAX_REPORTS replay files per run (the first ones are the most useful)"""
    if len(ctx.violations) < MAX_REPORTS:
        ctx.violation(what, replay, key=key)
    else:
        ctx.cov["S"]["further_failures_not_written"] = ctx.cov["S"].get("further_failures_not_written", 0) + 1


CORPUS_ACCEPT = [
    (0.0, 0.0, 0.5),      # D10: 0/0 -> NaN (np.float64) / ZeroDivisionError (float) before the repair
    (1.0, 1.0, 0.999),    # equal measure
    (2.0, 0.0, 0.999),    # new measure zero
    (0.0, 1.0, 0.0),      # held measure zero, worse proposal: probability 0
    (1.0, 2.0, 0.005),    # u = threshold exactly
    (3.7, float("nan"), 0.0),             # seeded C09-8 / C06-3: a nan measure is never accepted, one draw
    (float("nan"), 3.7, 0.0),
    (float("nan"), float("nan"), 0.0),
    (3.7, float("inf"), 0.0),             # probability 0.01*3.7/inf = 0: u = 0 is accepted, anything else not
    (3.7, float("inf"), 0.25),
    (float("inf"), float("inf"), 0.25),   # equal
    (float("inf"), 3.7, 0.25),            # lower
]


def corpus_cases():
    """runs whose scripted measure sits at zero (the D10 situation inside the loop)"""
    rs = np.random.RandomState(910)
    out = []
    for b in (1, 3, 10):
        c = gen_case(rs, mode="scripted", budget=b)
        c["script"]["kind"] = "zero"
        out.append(c)
    return out + demo_cases() + ring_tail_cases()


def corpus(ctx):
    S = ctx.cov["S"]
    S["corpus"] = 0
    for e0, e1, u in CORPUS_ACCEPT:
        bad = oracle_accept(e0, e1, u)
        S["corpus"] += 1
        if bad:
            report(ctx, "acceptance rule: " + "; ".join(bad[:3]), {"kind": "accept", "e0": e0, "e1": e1, "u": u}, "accept")
    for case in corpus_cases():
        bad = oracle_trace(case, run_case(case))
        S["corpus"] += 1
        if bad:
            report(ctx, "Monte-Carlo search: " + "; ".join(bad[:3]), case, "run")


def budgets_extra(ctx):
    """the end of the budget range is always present"""
    return [2000] if ctx.quick else [1000, 1500, 1999, 2000, 2000]


def correspondence(ctx):
    rs = ctx.np_rng("K")
    n_runs = ctx.n(260, 4000)
    n_acc = ctx.n(1500, 20000)
    max_geo = ctx.n(1500, 30000)
    cases, meta = [], []
    hist = {"mode": {}, "sim_type": {}, "budget": {}, "restraints": {}, "steps_total": 0, "accepted": 0, "rejected": 0,
            "resets": 0, "worse_accepted": 0, "ties_accepted": 0, "geometry_cases": 0, "counter_observed": 0}
    K = ctx.cov["K"]
    S = ctx.cov["S"]
    S["runs"] = 0
    pydis = []
    gcases = []
    acases = []
    max_atom = ctx.n(2000, 30000)
    runs = [gen_case(rs) for _ in range(n_runs)] + [gen_case(rs, budget=b) for b in budgets_extra(ctx)] + \
        [gen_degenerate(rs) for _ in range(ctx.n(60, 800))] + [gen_cyclic(rs) for _ in range(ctx.n(90, 1200))] + corpus_cases()
    for case in runs:
        tr = run_case(case)
        # S on the same run
        bad = oracle_trace(case, tr)
        S["runs"] += 1
        if bad:
            report(ctx, "Monte-Carlo search: " + "; ".join(bad[:3]), case, "run")
        ctx.count(("run", case["seed"], case["n_steps"], tuple(case["sim_type"])), nontrivial(tr))
        hist["mode"][case["mode"]] = hist["mode"].get(case["mode"], 0) + 1
        sk = ",".join(map(str, case["sim_type"]))
        hist["sim_type"][sk] = hist["sim_type"].get(sk, 0) + 1
        bk = "<=5" if case["n_steps"] <= 5 else "<=50" if case["n_steps"] <= 50 else "<=500" if case["n_steps"] <= 500 else "<=2000"
        hist["budget"][bk] = hist["budget"].get(bk, 0) + 1
        n1 = len(case["mol1"])
        rk = "none" if not case["restr"] else "complete" if len(set(r[0] for r in case["restr"])) == n1 else "partial"
        hist["restraints"][rk] = hist["restraints"].get(rk, 0) + 1
        hist["steps_total"] += len(tr["steps"])
        for st in tr["steps"]:
            if st.get("acc"):
                hist["accepted"] += 1
                if "us" in st:
                    hist["worse_accepted"] += 1
                elif st.get("e1") == st.get("e0"):
                    hist["ties_accepted"] += 1
            else:
                hist["rejected"] += 1
            if st.get("counter") is not None:
                hist["counter_observed"] += 1
        hist["resets"] += sum(1 for s in tr["steps"][1:] if s.get("counter") == 0)
        dk = case.get("degenerate") or case.get("graph") or "generic"
        hist.setdefault("start_geometry", {})
        hist["start_geometry"][dk] = hist["start_geometry"].get(dk, 0) + 1
        hist["undefined_trials"] = hist.get("undefined_trials", 0) + sum(
            1 for s in tr["steps"] if "e1" in s and not np.isfinite(s["e1"]))
        if tr["error"]:
            continue
        if tr["aborted"]:
            hist["truncated_runs"] = hist.get("truncated_runs", 0) + 1
            continue
        term = run_term(case, tr)
        if term is None:
            pydis.append(dict(case, code="trace not expressible (see S)"))
            continue
        cases.append(term)
        meta.append(case)
        for st in tr["steps"]:
            if not draw_args_ok(case, st):
                pydis.append(dict(case, code="proposal generator called with other parameters: %r %r" % (st["gens"], {
                    k: v[:2] for k, v in st["draws"].items()})))
                break
        if len(gcases) < max_geo:
            for term_g, k in geo_terms(tr, helds(tr))[: max(4, max_geo // len(runs) + 1)]:
                gcases.append((term_g, dict(case, geometry_step=k + 1)))
        at = atom_terms(tr)
        hist["atom_moves_observed"] = hist.get("atom_moves_observed", 0) + len(at)
        if len(acases) < max_atom:
            for term_a, k in at[: (16 if case.get("graph") else 5)]:
                acases.append((term_a, dict(case, geometry_step=k + 1)))
    ctx.sample({k: runs[0][k] for k in ("mode", "seed", "sim_type", "n_steps", "restr", "bonds")})
    ctx.sample({k: runs[-1].get(k) for k in ("mode", "seed", "sim_type", "n_steps", "restr", "script", "degenerate")})
    for term_g, m in gcases + acases:
        cases.append(term_g)
        meta.append(m)
    hist["geometry_cases"] = len(gcases)
    hist["atom_move_cases"] = len(acases)
    # direct calls of accept_metropolis
    accs = list(CORPUS_ACCEPT) + [gen_accept(rs) for _ in range(n_acc)]
    for e0, e1, u in accs:
        r = impl_accept(e0, e1, u)
        obs = "(Some (%s, %s))" % ("true" if r[1] else "false", "true" if r[2] else "false") if r[0] == "ok" else "None"
        cases.append("chk_accept %s %s %s %s" % (fl(e0), fl(e1), fl(u), obs))
        meta.append({"kind": "accept", "e0": e0, "e1": e1, "u": u})
        ctx.count(("acc", e0, e1, u))
        bad = oracle_accept(e0, e1, u)
        if bad:
            report(ctx, "acceptance rule: " + "; ".join(bad[:3]), meta[-1], "accept")
    ctx.sample(meta[-1])
    size = sum(len(c) for c in cases)
    rc, out = lib.coq_make(["Corr/CheckC09.vo"])     # the checker's own cone (Gen/SrcConsts.v may have changed)
    if rc != 0:
        K["error"] = out[-1500:]
        return [{"error": "Corr/CheckC09.v does not build", "log": out[-1500:]}]
    shard = max(1, int(len(cases) / max(16.0, size / 400e3)))
    codes, log = lib.run_coq_cases(ctx.cid, "K", HEADER, cases, shard=shard)
    K["cases"] = len(cases)
    K["runs"] = len(runs)
    K["accept_calls"] = len(accs)
    K["input_distribution"] = hist
    K["log"] = log
    K["bytes"] = size
    if codes is None:
        K["error"] = log
        return [{"error": "coqc failed on the correspondence cases", "log": log[-1500:]}]
    K["disagree"] = sum(1 for c in codes.values() if c in (1, 3)) + len(pydis)
    K["indeterminate"] = sum(1 for c in codes.values() if c == 2)
    K["agree"] = len(cases) - len(codes)
    dis = [dict(meta[i], code=c) for i, c in sorted(codes.items()) if c in (1, 3)] + pydis
    for d in dis[:30]:     # DESIGN 4.5: the oracle decides which side is wrong
        if d.get("kind") == "accept":
            bad = oracle_accept(d["e0"], d["e1"], d["u"])
        else:
            case = {k: v for k, v in d.items() if k not in ("code", "geometry_step")}
            bad = oracle_trace(case, run_case(case))
        if bad:
            report(ctx, "%s: %s" % (d.get("kind"), "; ".join(bad[:3])), d, d.get("kind"))
    return dis


def oracle(ctx, scale):
    rs = ctx.np_rng("S%d" % scale)
    S = ctx.cov["S"]
    n = ctx.n(60, 1500) * scale
    fails = 0
    for i in range(n):
        case = gen_degenerate(rs) if i % 4 == 3 else gen_cyclic(rs) if i % 4 == 1 else gen_case(rs)
        tr = run_case(case)
        bad = oracle_trace(case, tr)
        ctx.count(("srun", case["seed"], case["n_steps"], tuple(case["sim_type"])), nontrivial(tr))
        if bad:
            fails += 1
            report(ctx, "Monte-Carlo search: " + "; ".join(bad[:3]), case, "run")
    m = ctx.n(500, 10000) * scale
    for _ in range(m):
        e0, e1, u = gen_accept(rs)
        bad = oracle_accept(e0, e1, u)
        if bad:
            fails += 1
            report(ctx, "acceptance rule: " + "; ".join(bad[:3]), {"kind": "accept", "e0": e0, "e1": e1, "u": u}, "accept")
    S["oracle_runs_x%d" % scale] = n
    S["oracle_accept_x%d" % scale] = m
    S["failures"] = S.get("failures", 0) + fails


def replay(ctx, obj):
    r = obj["replay"]
    if r.get("kind") == "accept":
        bad = oracle_accept(r["e0"], r["e1"], r["u"])
    elif r.get("kind") == "run":
        case = {k: v for k, v in r.items() if k not in ("code", "geometry_step")}
        bad = oracle_trace(case, run_case(case))
    else:
        print("replay names a proof/correspondence, not an input:", str(r)[:500])
        return False
    print(bad)
    return not bad


def finish(ctx):
    ctx.assumptions = [
        "the bookkeeping theorems hold for every overlap measure and every proposal function (Section variables), for every "
        "stream and every fuel; they are invariants of complete and interrupted runs - termination is not claimed (an "
        "adversarial stream that keeps producing new minima never stops)",
        "'with probability 0.01*E_held/E_new' is read as the decision rule u <= 0.01*E_held/E_new on the recorded uniform draw; "
        "nothing is claimed about numpy's generators beyond the type and range of what they return",
        "the single-atom move is an abstract function in the model (property C07 is about it); that each such proposal keeps the "
        "tabulated bond lengths is checked by the S oracle on the recorded runs (testing)",
        "theorems about the rule and the rotation are over the reals; the float instance of the same text is compared bit for bit "
        "(decisions) and to 2^-30 (coordinates) with the implementation on every run",
        "cos/sin are numpy's in the float model (passed in as data) and Coq's Reals cos/sin in the theorems",
        "the local variables counter / chi2_min are read from the frame of _minimize_molecules inside the wrapper of "
        "accept_metropolis; if a refactor renames them they are reported as not observed and only decisions, measures, step "
        "count and returned array are compared",
    ]
    return ctx.finish(level="proof", rule=RULE,
                      trusted=["transcription of _minimize_molecules / accept_metropolis in coq/Model/MC.v",
                               "recording wrappers of harness/c09.py (names resolved by the loop at call time)"])
