"""C15 - topology reader yields exactly the file's atoms and bond graph; connectivity; copies."""
import json

import lib
import itp_common as ic

HEADER = """From Coq Require Import String Ascii.
From Coq Require Import List ZArith NArith.
From GM Require Import Base.Res Corr.CheckC16 Corr.CheckC15.
Import ListNotations.
Open Scope string_scope.
"""

RULE = ("generated topologies: 1..300 atoms quick / to 3000 thorough; shapes chain, reversed chain, star, random tree, "
        "tree+extra edges (cycles), forest, isolated first atom, duplicated/both-orientation bonds, self bonds; strictly "
        "increasing atom numbers with random gaps; bonds spread over constraints/bonds/pairs, sections split into repeated "
        "occurrences and permuted (bonds before atoms included), unrelated sections, comment/blank/preprocessor lines, "
        "varied spacing, integer spellings (+5, 007, 1_000), trailing comments, CRLF files, missing final newline; "
        "walk lengths tied to sys.getrecursionlimit() every run (chains / cut chains / rings / caterpillars of limit-12..limit+2 "
        "atoms, the same from 40/150/400 extra stack frames, and relative to lowered limits 180 and 320); "
        "copy histories every run: load, mutate through the public API (connect, resnames/resids setters, atom and molecule "
        "names), keep / delete / overwrite the file, copy: the copy must equal the CURRENT object and stay independent; "
        "call histories every run: one scratch path reused for 3-6 successive different topologies (incl. pairs of equal "
        "byte length: two atom names / two bond partners / two comment words swapped), each written and loaded back to back; "
        "size-boundary stream every run (499/500/501/502, ~800, ~1200 atoms: connected; one isolated atom at the end / start / "
        "middle; k trailing isolated atoms; two large components; chain or cyclic graph + trailing isolated atom), expected "
        "connectivity by union-find; malformed stream (missing sections, empty atoms, unknown atom number, short lines, bad integers) compared by error "
        "class; shipped topologies. A case is non-trivial when its text is distinct.")


# ------------------------------------------------------------------ S oracle (property text)
def oracle_topology(path, truth):
    """truth = (name, [(atomname, resname, resid)], [(i, j) 0-based in order constraints, bonds, pairs]).
    Returns the list of failed clauses."""
    from gaddlemaps.parsers import read_topology
    from gaddlemaps.components import MoleculeTop, are_connected
    bad = []
    name, atoms, bonds = truth
    try:
        got = read_topology(path)
    except Exception as ex:   # noqa: BLE001
        return ["read_topology raised %s: %s" % (type(ex).__name__, str(ex)[:80])]
    if got[0] != name:
        bad.append("molecule name %r != %r" % (got[0], name))
    if [tuple(a) for a in got[1]] != [tuple(a) for a in atoms]:
        bad.append("atoms differ from the file's atoms (order, name, residue name or residue number)")
    if [tuple(b) for b in got[2]] != [tuple(b) for b in bonds]:
        bad.append("bond pairs are not the listed pairs translated to 0-based positions in section order")
    try:
        mol = MoleculeTop(path)
    except Exception as ex:   # noqa: BLE001
        return bad + ["MoleculeTop raised %s" % type(ex).__name__]
    n = len(atoms)
    want = [set() for _ in range(n)]
    for a, b in bonds:
        want[a].add(b)
        want[b].add(a)
    if len(mol) != n:
        bad.append("number of atoms %d != %d" % (len(mol), n))
    else:
        for k, at in enumerate(mol):
            if (at.name, at.resname, at.resid, at.index) != (atoms[k][0], atoms[k][1], atoms[k][2], k):
                bad.append("atom %d attributes differ" % k)
                break
            if set(at.bonds) != want[k]:
                bad.append("bond graph differs at atom %d: %s != %s" % (k, sorted(at.bonds), sorted(want[k])))
                break
        for k, at in enumerate(mol):
            for j in at.bonds:
                if k not in mol[j].bonds:
                    bad.append("bond graph not symmetric at (%d,%d)" % (k, j))
                    break
    try:
        conn = are_connected(mol.atoms)
        if bool(conn) != (ic.components(n, bonds) == 1):
            bad.append("are_connected=%s but the graph has %d component(s)" % (conn, ic.components(n, bonds)))
    except RecursionError:
        bad.append("are_connected raised RecursionError")
    except Exception as ex:   # noqa: BLE001
        bad.append("are_connected raised %s" % type(ex).__name__)
    bad += oracle_copy(mol)
    return bad


def oracle_copy(mol):
    """copy is equal and independent"""
    bad = []
    snap = [(a.name, a.resname, a.resid, a.index, sorted(a.bonds)) for a in mol]
    cp = mol.copy()
    if not (cp == mol) or (cp != mol) or not (mol == cp):
        bad.append("copy is not equal to the original")
    if cp is mol or cp.atoms is mol.atoms:
        bad.append("copy shares the molecule/atom list object")
    for a, b in zip(mol, cp):
        if a is b or a.bonds is b.bonds:
            bad.append("copy shares an atom or a bonds set")
            break
    if [(a.name, a.resname, a.resid, a.index, sorted(a.bonds)) for a in cp] != snap or cp.name != mol.name:
        bad.append("copy carries different values")
    # mutate the copy: the original must not change
    for k, a in enumerate(cp):
        a.bonds.add(len(snap) + 7)
        a.bonds.discard(k + 1)
        a.name = a.name + "x"
        a.resname = "ZZ"
        a.resid = a.resid + 5
    cp.name = cp.name + "_c"
    cp.atoms.append(cp.atoms[0])
    if [(a.name, a.resname, a.resid, a.index, sorted(a.bonds)) for a in mol] != snap or len(mol) != len(snap):
        bad.append("mutating the copy changed the original")
    # mutate the original: a second, fresh copy must not change
    cp2 = mol.copy()
    for a in mol:
        a.bonds.add(len(snap) + 9)
        a.name = a.name + "y"
    if [(a.name, a.resname, a.resid, a.index, sorted(a.bonds)) for a in cp2] != snap:
        bad.append("mutating the original changed the copy")
    for a, s in zip(mol, snap):      # restore
        a.bonds.discard(len(snap) + 9)
        a.name = s[0]
    return bad


# ------------------------------------------------------------------ copy of a MUTATED object
def snapshot(mol):
    return (mol.name, [(a.name, a.resname, a.resid, a.index, sorted(a.bonds)) for a in mol])


def gen_ops(rs, n):
    """mutations through the public API between load and copy"""
    ops = []
    for _ in range(int(rs.randint(1, 5))):
        k = int(rs.randint(0, 5))
        if k == 0 and n >= 2:
            i, j = [int(x) for x in rs.choice(n, size=2, replace=False)]
            ops.append(["connect", i, j])
        elif k == 1:
            ops.append(["resnames", [ic.gen_name(rs, 4, "") for _ in range(n)]])
        elif k == 2:
            ops.append(["resids", [int(x) for x in rs.randint(1, 900, size=n)]])
        elif k == 3:
            ops.append(["rename", int(rs.randint(0, n)), ic.gen_name(rs, 4, "'*")])
        else:
            ops.append(["molname", ic.gen_name(rs, 6, "_")])
    if n >= 2 and rs.randint(0, 2):       # join what may be two fragments
        ops.append(["connect", 0, n - 1])
    return ops


def apply_ops(mol, ops):
    for op in ops:
        try:
            if op[0] == "connect":
                mol[op[1]].connect(mol[op[2]])
            elif op[0] == "resnames":
                mol.resnames = list(op[1][:len(mol.resnames)])
            elif op[0] == "resids":
                mol.resids = list(op[1][:len(mol.resids)])
            elif op[0] == "rename":
                mol[op[1]].name = op[2]
            elif op[0] == "molname":
                mol.name = op[1]
        except (ValueError, IndexError):
            pass          # a setter refusing its argument is not what is examined here


OTHER_TEXT = "[ moleculetype ]\nOTHER 1\n[ atoms ]\n1 X 1 OTH Q1 1\n2 X 1 OTH Q2 2\n[ bonds ]\n1 2\n"


def mutated_copy(text, ops, file_action):
    """load -> mutate through the public API -> (keep | delete | overwrite the file) -> copy.
    Returns (failed clauses, current snapshot, observation of the copy for K)."""
    from gaddlemaps.components import MoleculeTop, are_connected
    import os
    path = ic.write_text(text)
    try:
        mol = MoleculeTop(path)
    except Exception as ex:   # noqa: BLE001 - a well-formed generated file must load
        return ["MoleculeTop raised %s: %s" % (type(ex).__name__, str(ex)[:60])], ("", []), ("err", ic.err_class(ex))
    apply_ops(mol, ops)
    if file_action == "delete":
        os.remove(path)
    elif file_action == "overwrite":
        ic.write_text(OTHER_TEXT, path=path)
    cur = snapshot(mol)
    n = len(mol)
    bad = []
    try:
        cp = mol.copy()
    except Exception as ex:   # noqa: BLE001
        return ["copy raised %s" % type(ex).__name__], cur, ("err", ic.err_class(ex))
    eq = bool(cp == mol)
    obs = ("ok", (cp.name, snapshot(cp)[1], eq))
    if not eq or not (mol == cp) or (cp != mol):
        bad.append("copy is not equal to the (mutated) original")
    if snapshot(cp) != cur:
        bad.append("copy carries %s, the original is %s" % (str(snapshot(cp))[:150], str(cur)[:150]))
    if hasattr(mol, "resnames") and (cp.resnames != mol.resnames or cp.resids != mol.resids):
        bad.append("resnames/resids of the copy differ")
    want = ic.components(n, [(k, j) for k, a in enumerate(cur[1]) for j in a[4]]) == 1
    got_o, got_c = ic.guarded(lambda: bool(are_connected(mol.atoms))), ic.guarded(lambda: bool(are_connected(cp.atoms)))
    if got_o != ("ok", want) or got_c != ("ok", want):
        bad.append("are_connected original=%s copy=%s, graph connected=%s" % (got_o, got_c, want))
    if cp is mol or cp.atoms is mol.atoms or any(a is b or a.bonds is b.bonds for a, b in zip(mol, cp)):
        bad.append("copy shares objects with the original")
    for k, a in enumerate(cp):
        a.bonds.add(n + 3)
        a.name = a.name + "z"
    cp.name = cp.name + "_c"
    if snapshot(mol) != cur:
        bad.append("mutating the copy changed the original")
    return bad, cur, obs


def check_mutated_copy(ctx, text, ops, file_action, label=""):
    bad, cur, obs = mutated_copy(text, ops, file_action)
    if bad:
        ctx.violation("copy after %s, file %s%s: %s" % ([o[0] for o in ops], file_action, label, "; ".join(bad[:3])),
                      {"kind": "mutated_copy", "text": text, "ops": ops, "file": file_action}, key="mutated_copy")
    return bad, cur, obs


def copy_case_term(cur, obs):
    atoms = lambda ats: ic.clist("(%s, %s, %s, %s, %s)" % (ic.cs(n), ic.cs(r), ic.cz(i), ic.cz(k), ic.clist(ic.cz(b) for b in bs))
                                 for n, r, i, k, bs in ats)
    return "chk_copy %s %s %s" % (ic.cs(cur[0]), atoms(cur[1]),
                                 ic.cres(obs, lambda v: "(%s, %s, %s)" % (ic.cs(v[0]), atoms(v[1]), ic.cb(v[2]))))


DEMO_FRAG = ("; two fragments that the user joins by hand afterwards\n#include \"forcefield.itp\"\n\n[ moleculetype ]\n"
             "; name nrexcl\nFRAG   1\n\n[ atoms ]\n; nr type resnr residue atom cgnr charge\n  2   C1   1   AAA   C1   2   0.0\n"
             "  4   C1   1   AAA   C2   4   0.0\n  7   C1   2   BBB   C3   7   0.0\n  9   C1   2   BBB   C4   9   0.0\n\n"
             "[ bonds ]\n  2   4   1\n#ifdef FLEXIBLE\n#endif\n\n[ constraints ]\n  7   9   1\n")
DEMO_COPY = [([["resnames", ["XXX", "YYY"]]], "keep"), ([["connect", 1, 2]], "keep"), ([], "delete"),
             ([["resids", [5, 9]], ["rename", 0, "CX"], ["molname", "JOINED"]], "overwrite")]


# ------------------------------------------------------------------ long walks: sizes tied to the recursion limit
def long_path_graph(rs, n, kind):
    """graphs whose depth-first walk from atom 0 follows a path of about n atoms"""
    if kind == "chain":
        return [(k, k + 1) for k in range(n - 1)]
    if kind == "chain_cut":
        return [(k, k + 1) for k in range(n - 1) if k != n - 3]
    if kind == "ring":
        return [(k, k + 1) for k in range(n - 1)] + [(n - 1, 0)]
    spine = max(1, n - 6)           # caterpillar: a spine with a few leaves
    return [(k, k + 1) for k in range(spine - 1)] + [(int(rs.randint(0, spine)), k) for k in range(spine, n)]


def conn_in_context(atoms, depth=0, reclimit=None):
    """are_connected called from `depth` additional stack frames and/or under a lowered interpreter recursion limit
    (both are legal circumstances of a call: the answer must not depend on them)"""
    import sys
    from gaddlemaps.components import are_connected

    def call(d):
        if d > 0:
            return call(d - 1)
        return bool(are_connected(atoms))
    old = sys.getrecursionlimit()
    try:
        if reclimit:
            sys.setrecursionlimit(reclimit)
        return ic.guarded(lambda: call(depth))
    finally:
        sys.setrecursionlimit(old)


def oracle_conn_context(text, truth, depth, reclimit):
    from gaddlemaps.components import MoleculeTop
    try:
        mol = MoleculeTop(ic.write_text(text))
    except Exception as ex:   # noqa: BLE001
        return ["MoleculeTop raised %s" % type(ex).__name__], None, None
    want = ic.components(len(truth[1]), truth[2]) == 1
    got = conn_in_context(mol.atoms, depth, reclimit)
    bad = []
    if got != ("ok", want):
        bad.append("are_connected (%d atoms, %d extra frames, recursion limit %s) gave %s, graph connected = %s"
                   % (len(truth[1]), depth, reclimit or "default", got, want))
    return bad, mol, got


def recursion_limit_cases(rs, quick=True):
    """(label, n, bonds, depth, reclimit): walk lengths just below / at / above the interpreter's recursion limit, the
    same from deeper stacks, and the same relative to a lowered limit (small, so they can also go to the model)"""
    import sys
    L = sys.getrecursionlimit()
    out = []
    for k in range(1, 13 if quick else 40):
        out.append(("chain_limit-%d" % k, L - k, "chain", 0, None))
    for n in (L, L + 1, L + 2):
        out.append(("chain_limit+%d" % (n - L), n, "chain", 0, None))
    for n, kind in ((L - 1, "chain_cut"), (L - 1, "caterpillar"), (L - 2, "caterpillar"), (L - 1, "ring"), (L - 3, "ring"),
                    (L + 1, "chain_cut")):
        out.append(("%s_limit%+d" % (kind, n - L), n, kind, 0, None))
    for d in (40, 150, 400):
        for k in (6, 3, 1, 0):
            out.append(("chain_depth%d_limit-%d" % (d, d + k), L - d - k, "chain", d, None))
    for L2 in (180, 320):
        for k in range(-1, 15):
            out.append(("chain_lowlimit%d-%d" % (L2, k), L2 - k, "chain", 0, L2))
        out.append(("caterpillar_lowlimit%d" % L2, L2 - 3, "caterpillar", 0, L2))
        out.append(("chain_cut_lowlimit%d" % L2, L2 - 2, "chain_cut", 0, L2))
    return [(lab, n, long_path_graph(rs, n, kind), d, rl) for lab, n, kind, d, rl in out if n >= 1]


def check_recursion_limit(ctx, rs, cases=None, meta=None):
    """S on every case; with cases/meta the lowered-limit ones (small) also become K cases. Returns failures."""
    fails = 0
    for label, n, bonds, depth, reclimit in recursion_limit_cases(rs, ctx.quick):
        if cases is not None and n > 400:
            continue            # the K pass takes the small ones; the S pass takes all
        t = ic.gen_topology(rs, n, label, deco=False, bonds=bonds, spread=True)
        text = ic.render_topology(rs, t, deco=False)
        truth = ic.expected_topology(t)
        bad, mol, got = oracle_conn_context(text, truth, depth, reclimit)
        ctx.count(("reclimit", label, n))
        if bad:
            fails += 1
            ctx.violation("topology %s: %s" % (label, "; ".join(bad)),
                          {"kind": "conn_context", "text": text, "depth": depth, "reclimit": reclimit,
                           "truth": [truth[0], [list(a) for a in truth[1]], [list(b) for b in truth[2]]]}, key="recursion_limit")
        if cases is not None and mol is not None and n <= 400:
            adj = [list(a.bonds) for a in mol]
            cases.append("chk_conn %s %s" % (ic.clist(ic.clist(ic.cz(x) for x in b) for b in adj), ic.cres(got, ic.cb)))
            meta.append({"kind": "adjacency", "gen": "reclimit:" + label, "adj": adj})
    return fails


def make_case(rs, n, shape, deco=True, selfbond=False):
    t = ic.gen_topology(rs, n, shape, deco=deco, selfbond=selfbond)
    text = ic.render_topology(rs, t, deco=deco, final_newline=bool(rs.randint(0, 5)) if deco else True)
    return t, text


def replay_dict(text, truth, extra=None):
    d = {"kind": "topology", "text": text, "truth": [truth[0], [list(a) for a in truth[1]], [list(b) for b in truth[2]]]}
    if extra:
        d.update(extra)
    return d


def check_generated(ctx, text, truth, crlf=False, key="topology", label=""):
    path = ic.write_text(text, crlf=crlf)
    bad = oracle_topology(path, truth)
    if bad:
        ctx.violation("topology %s: %s" % (label, "; ".join(bad[:4])), replay_dict(text, truth, {"crlf": crlf}), key=key)
    return path, bad


def check_history(ctx, rs, nseq, on_step=None, label="same-path history"):
    """call HISTORIES: one scratch path reused for successive different topologies (pairs of equal byte length
    included), each written and loaded back to back without sleeping: every load must give the CURRENT content.
    Returns the number of failing steps."""
    fails = 0
    for _ in range(nseq):
        path = ic.molgen.fresh_path("itp", "scratch")
        seq = ic.variant_sequence(rs)
        texts = []
        for step, (kind, text, truth) in enumerate(seq):
            ic.write_text(text, path=path)
            texts.append(text)
            bad = oracle_topology(path, truth)
            ctx.count(("hist", text, step), step > 0)
            if on_step:
                on_step(path, text, truth, kind)
            if bad:
                fails += 1
                ctx.violation("%s, step %d (%s) on one path: %s" % (label, step, kind, "; ".join(bad[:3])),
                              {"kind": "history", "texts": texts, "truth": [truth[0], [list(a) for a in truth[1]],
                                                                             [list(b) for b in truth[2]]]}, key="history")
                break
    return fails


def replay_history(texts, truth):
    """writes texts[:-1] and loads each, then texts[-1]: the last load must be `truth`; retried on a fresh path
    (a second boundary between two writes may hide a stale-cache effect)"""
    from gaddlemaps.parsers import read_topology
    bad = []
    for _ in range(5):
        path = ic.molgen.fresh_path("itp", "scratch")
        for text in texts[:-1]:
            ic.write_text(text, path=path)
            try:
                read_topology(path)
            except Exception:   # noqa: BLE001
                pass
        ic.write_text(texts[-1], path=path)
        bad = oracle_topology(path, truth)
        if bad:
            return bad
    return bad


# ------------------------------------------------------------------ corpus
def corpus(ctx):
    S = ctx.cov["S"]
    S["corpus"] = 0
    rs = ctx.np_rng("corpus")
    # D8 witness: chains of thousands of atoms (RecursionError before the repair), connected and cut in the middle
    for n, cut in ((3000, None), (3000, 1500), (1100, None)):
        t = ic.gen_topology(rs, n, "chain", deco=False)
        if cut is not None:
            t["secs"]["bonds"] = [b for b in t["secs"]["bonds"] if b[0] != cut]
        text = ic.render_topology(rs, t, deco=False)
        check_generated(ctx, text, ic.expected_topology(t), key="long_chain", label="chain of %d atoms" % n)
        S["corpus"] += 1
    # walk lengths just below the recursion limit (a recursive fast path below the limit forgets the caller's frames)
    import sys
    L = sys.getrecursionlimit()
    for n, kind, depth in ((L - 3, "chain", 0), (L - 2, "chain", 0), (L - 1, "chain", 0), (L, "chain", 0), (L - 1, "chain_cut", 0),
                           (L - 60, "chain", 58)):
        t = ic.gen_topology(rs, n, kind, deco=False, bonds=long_path_graph(rs, n, kind), spread=True)
        text, truth = ic.render_topology(rs, t, deco=False), ic.expected_topology(t)
        bad = oracle_conn_context(text, truth, depth, None)[0]
        S["corpus"] += 1
        if bad:
            ctx.violation("corpus %s of %d atoms: %s" % (kind, n, "; ".join(bad)),
                          {"kind": "conn_context", "text": text, "depth": depth, "reclimit": None,
                           "truth": [truth[0], [list(a) for a in truth[1]], [list(b) for b in truth[2]]]}, key="recursion_limit")
    # copy of an object CHANGED after loading / whose file is gone (a copy that re-parses the file reflects the file)
    for ops, action in DEMO_COPY:
        check_mutated_copy(ctx, DEMO_FRAG, ops, action, label=" (corpus)")
        S["corpus"] += 1
    # call-history witness (a loader that memoises per path and revalidates by a whole-second time stamp returns the
    # PREVIOUS molecule): ten successive topologies through one scratch file name
    for _ in range(3):
        if check_history(ctx, rs, 1, label="corpus history"):
            break
        S["corpus"] += 1
    # size-boundary witnesses (an are_connected that switches algorithm above 500 atoms and sizes the graph from the
    # bonds forgets trailing unbonded atoms): tree on 1197 atoms + 3 trailing unbonded, cyclic graph on 800 atoms + 1
    # trailing unbonded, control with the unbonded atom in the middle, trailing unbonded just above the threshold
    wit = [("tree1197+3", 1200, ic.tree_on(rs, range(1197))),
           ("cyclic800+1", 801, ic.tree_on(rs, range(800)) + [(int(rs.randint(0, 800)), int(rs.randint(0, 800))) for _ in range(50)]),
           ("tree1199_mid", 1200, ic.tree_on(rs, [x for x in range(1200) if x != 600])),
           ("chain500+1", 501, [(k, k + 1) for k in range(499)])]
    for label, n, bonds in wit:
        t = ic.gen_topology(rs, n, label, deco=False, bonds=[b for b in bonds if b[0] != b[1]], spread=True)
        text = ic.render_topology(rs, t, deco=False)
        check_generated(ctx, text, ic.expected_topology(t), key="size_boundary", label="%s (%d atoms)" % (label, n))
        S["corpus"] += 1
    # renumbered atoms, bonds over three sections written before the atoms section, comments glued to fields
    text = ("; header\n[ pairs ]\n40 7 1\n[ bonds ]\n7 12 1;c\n#ifdef X\n[ moleculetype ]\n; name nrexcl\nM-1 3 ; c\n"
            "[ atoms ]\n  7 C 1 RES C1 7 0.0 12.0\n 12 C 1 RES C2 12 ; q\n\n 40 H 2 RES H1 40\n[ constraints ]\n12 40\n#endif\n[ bonds ]\n40 40 1\n")
    truth = ("M-1", [("C1", "RES", 1), ("C2", "RES", 1), ("H1", "RES", 2)], [(1, 2), (0, 1), (2, 2), (2, 0)])
    check_generated(ctx, text, truth, key="corpus", label="hand-written")
    S["corpus"] += 1
    # D13 witnesses: a comment glued to the fields of the moleculetype line
    for mol in ("MOL 1;c", "MOL 1;", "MOL 2 ;c"):
        text = "[ moleculetype ]\n%s\n[ atoms ]\n1 X 1 R A 1\n" % mol
        check_generated(ctx, text, ("MOL", [("A", "R", 1)], []), key="corpus", label="moleculetype line %r" % mol)
        S["corpus"] += 1


# ------------------------------------------------------------------ K
MALFORMED = [
    ("no_moleculetype", "[ atoms ]\n1 X 1 R A 1\n"),
    ("no_atoms", "[ moleculetype ]\nM 1\n[ bonds ]\n1 2\n"),
    ("empty_atoms", "[ moleculetype ]\nM 1\n[ atoms ]\n; nothing\n\n"),
    ("empty_moleculetype", "[ moleculetype ]\n; no name\n[ atoms ]\n1 X 1 R A 1\n"),
    ("unknown_number", "[ moleculetype ]\nM 1\n[ atoms ]\n1 X 1 R A 1\n2 X 1 R B 2\n[ bonds ]\n1 3\n"),
    ("unknown_number_pairs", "[ moleculetype ]\nM 1\n[ atoms ]\n1 X 1 R A 1\n2 X 1 R B 2\n[ bonds ]\n1 2\n[ pairs ]\n0 1\n"),
    ("short_atom", "[ moleculetype ]\nM 1\n[ atoms ]\n1 X 1 R A\n"),
    ("bad_int_atom", "[ moleculetype ]\nM 1\n[ atoms ]\n1.0 X 1 R A 1\n"),
    ("bad_resid", "[ moleculetype ]\nM 1\n[ atoms ]\n1 X one R A 1\n"),
    ("bad_charge", "[ moleculetype ]\nM 1\n[ atoms ]\n1 X 1 R A 1 q\n"),
    ("bad_mass", "[ moleculetype ]\nM 1\n[ atoms ]\n1 X 1 R A 1 0.5 1e\n"),
    ("one_field_bond", "[ moleculetype ]\nM 1\n[ atoms ]\n1 X 1 R A 1\n[ bonds ]\n1\n"),
    ("bad_funct", "[ moleculetype ]\nM 1\n[ atoms ]\n1 X 1 R A 1\n[ bonds ]\n1 1 x\n"),
    ("nrexcl_zero", "[ moleculetype ]\nM 0\n[ atoms ]\n1 X 1 R A 1\n"),
    ("nrexcl_missing", "[ moleculetype ]\nM\n[ atoms ]\n1 X 1 R A 1\n"),
    ("nrexcl_glued_comment", "[ moleculetype ]\nM 1;c\n[ atoms ]\n1 X 1 R A 1\n"),
    ("name_glued_comment", "[ moleculetype ]\na;b 3\n[ atoms ]\n1 X 1 R A 1\n"),
    ("duplicate_numbers", "[ moleculetype ]\nM 1\n[ atoms ]\n1 X 1 R A 1\n1 X 1 R B 1\n2 X 1 R C 2\n[ bonds ]\n1 2\n"),
    ("section_named_header", "[ moleculetype ]\nM 1\n[ atoms ]\n1 X 1 R A 1\n[ header ]\n1 1\n[ bonds ]\n1 1\n"),
    ("substring_section", "[ type ]\nM 1\n[ moleculetype ]\nN 2\n[ atoms ]\n1 X 1 R A 1\n"),
    ("substring_section_bad", "[ m ]\nM\n[ moleculetype ]\nN 2\n[ atoms ]\n1 X 1 R A 1\n"),
    ("bracket_in_text", "[ moleculetype ]\nM 1\n[ atoms ] ] ; x\n1 X 1 R A 1\n"),
    ("empty_file", ""),
    ("only_header", "; nothing here\n\n"),
    ("negative_numbers", "[ moleculetype ]\nM 1\n[ atoms ]\n-3 X -1 R A 1\n+0 X 1 R B 2\n[ bonds ]\n-3 0\n"),
    ("control_whitespace", "[ moleculetype ]\nM\x1c1\n[ atoms ]\n1\x0bX\x0c1\x1dR\x1eA\x1f1\n"),
]


def correspondence(ctx):
    rs = ctx.np_rng("K")
    K = ctx.cov["K"]
    cases, meta, hist = [], [], {}

    def add_file(text, path, kind, truth=None):
        ot = ic.obs_topology(path)
        om = ic.obs_molecule(path)
        seen = ic.read_text(path)
        cases.append("chk_topmol %s %s %s" % (ic.cs(seen), ic.cres(ot, ic.obs_top_term), ic.cres(om, ic.obs_mol_term)))
        meta.append({"kind": "topology", "gen": kind, "text": seen,
                     "truth": None if truth is None else [truth[0], [list(a) for a in truth[1]], [list(b) for b in truth[2]]]})
        hist[kind] = hist.get(kind, 0) + 1
        ctx.count(("top", seen))
        if om[0] == "ok":
            adj = om[1][3]
            cases.append("chk_conn %s %s" % (ic.clist(ic.clist(ic.cz(x) for x in b) for b in adj),
                                            ic.cres(("ok", om[1][2]), ic.cb)))
            meta.append({"kind": "adjacency", "gen": kind, "adj": adj})
        return om

    sizes = ([int(rs.randint(1, 26)) for _ in range(ctx.n(70, 400))] + [int(rs.randint(26, 121)) for _ in range(ctx.n(24, 120))] +
             [int(rs.randint(121, 301)) for _ in range(ctx.n(6, 40))] + ([int(rs.randint(301, 3001)) for _ in range(10)] + [3000]
                                                                         if not ctx.quick else []))
    for n in sizes:
        shape = ic.pick(rs, ic.SHAPES)
        t, text = make_case(rs, n, shape, deco=True, selfbond=rs.randint(0, 10) == 0)
        truth = ic.expected_topology(t)
        crlf = rs.randint(0, 10) == 0
        path, _ = check_generated(ctx, text, truth, crlf=crlf, label="%s n=%d" % (shape, n))
        add_file(text, path, shape, truth)
    ctx.sample({"generated_topology_text": meta[0]["text"][:600]})
    for tag, text in MALFORMED:
        path = ic.write_text(text)
        add_file(text, path, "malformed:" + tag)
    for p in ic.shipped_topologies(include_large=not ctx.quick):
        add_file(None, p, "shipped")
    # walk lengths around the recursion limit (S on all; the lowered-limit ones are small enough for the model)
    check_recursion_limit(ctx, rs, cases=cases, meta=meta)
    hist["recursion_limit"] = len(recursion_limit_cases(rs, ctx.quick))
    # copy of mutated objects against the heap model (built from the CURRENT value of the object)
    for _ in range(ctx.n(40, 400)):
        n = int(rs.randint(1, 13))
        t, text = make_case(rs, n, ic.pick(rs, ic.SHAPES), deco=bool(rs.randint(0, 2)))
        ops = gen_ops(rs, n)
        action = ic.pick(rs, ["keep", "keep", "delete", "overwrite"])
        _, cur, obs = check_mutated_copy(ctx, text, ops, action)
        cases.append(copy_case_term(cur, obs))
        meta.append({"kind": "mutated_copy", "text": text, "ops": ops, "file": action})
        hist["mutated_copy"] = hist.get("mutated_copy", 0) + 1
        ctx.count(("mcopy", text, json.dumps(ops), action))
    # same-path call histories: the observation of every step goes to the model together with the text of that step
    check_history(ctx, rs, ctx.n(6, 40), on_step=lambda path, text, truth, kind: add_file(text, path, "history:" + kind, truth))
    # size boundaries (499..502, ~800, ~1200 atoms; isolated atoms / second component at the end, start, middle):
    # real AtomTop lists loaded from files; the adjacency in the implementation's iteration order goes to the model
    from gaddlemaps.components import MoleculeTop, are_connected
    bnd = ic.boundary_graphs(rs)
    for k, (label, n, bonds) in enumerate(bnd):
        t = ic.gen_topology(rs, n, label, deco=False, bonds=bonds, spread=True)
        text = ic.render_topology(rs, t, deco=False)
        path = ic.write_text(text)
        big_in_k = label.startswith(("isolated_last", "connected", "cyclic_then")) and n > 1000
        if k in (7, 13):          # two of them (500 / 501 atoms) through the whole text model as well
            add_file(text, path, "boundary:" + label.rsplit("_", 1)[0], ic.expected_topology(t))
        elif n <= 560 or big_in_k or not ctx.quick:   # the model's walk on unary nat is cubic: few big ones in quick
            try:
                mol = MoleculeTop(path)
            except Exception:   # noqa: BLE001 - reported by the oracle below
                mol = None
            if mol is not None:
                adj = [list(a.bonds) for a in mol]
                oc = ic.guarded(lambda: bool(are_connected(mol.atoms)))
                cases.append("chk_conn %s %s" % (ic.clist(ic.clist(ic.cz(x) for x in b) for b in adj), ic.cres(oc, ic.cb)))
                meta.append({"kind": "adjacency", "gen": "boundary:" + label, "adj": adj})
        hist["boundary"] = hist.get("boundary", 0) + 1
        ctx.count(("boundary", label, len(bonds)))
        bad = oracle_topology(path, ic.expected_topology(t))
        if bad:
            ctx.violation("topology %s (%d atoms): %s" % (label, n, "; ".join(bad[:4])),
                          replay_dict(text, ic.expected_topology(t)), key="size_boundary")
    # are_connected on explicit adjacency lists (directed, unordered, out of range, empty)
    for _ in range(ctx.n(150, 1500)):
        n = int(rs.randint(0, 9))
        kind = int(rs.randint(0, 4))
        adj = []
        for i in range(n):
            deg = int(rs.randint(0, 4))
            hi = n + (1 if kind == 0 else 0)
            adj.append([int(x) for x in rs.randint(0, max(1, hi), size=deg)])
        if kind == 1:      # symmetric closure
            sym = [set(b) for b in adj]
            for i, b in enumerate(adj):
                for j in b:
                    if j < n:
                        sym[j].add(i)
            adj = [list(rs.permutation(sorted(s))) for s in sym]
            adj = [[int(x) for x in b] for b in adj]
        oc = ic.obs_connected(adj)
        cases.append("chk_conn %s %s" % (ic.clist(ic.clist(ic.cz(x) for x in b) for b in adj), ic.cres(oc, ic.cb)))
        meta.append({"kind": "adjacency", "gen": "explicit", "adj": adj})
        hist["adjacency"] = hist.get("adjacency", 0) + 1
        ctx.count(("adj", json.dumps(adj)))
    codes, log = ic.run_cases_sized(ctx.cid, "K", HEADER, cases)
    K["cases"] = len(cases)
    K["input_distribution"] = hist
    K["log"] = log
    K["atoms_max"] = max(sizes)
    if codes is None:
        K["error"] = log
        return [{"error": "coqc failed on the correspondence cases", "log": log[-1500:]}]
    K["disagree"] = sum(1 for c in codes.values() if c != 0)
    K["agree"] = len(cases) - len(codes)
    dis = [dict(meta[i], code=c) for i, c in sorted(codes.items()) if c != 0]
    for d in dis[:30]:           # DESIGN 4.5: the oracle decides whether the code or the model is wrong
        if d["kind"] == "topology" and d.get("truth"):
            tr = d["truth"]
            truth = (tr[0], [tuple(a) for a in tr[1]], [tuple(b) for b in tr[2]])
            check_generated(ctx, d["text"], truth, label="K-disagreement")
        elif d["kind"] == "mutated_copy":
            check_mutated_copy(ctx, d["text"], d["ops"], d["file"], label=" (K-disagreement)")
        elif d["kind"] == "adjacency":
            bad = oracle_adjacency(d["adj"])
            if bad:
                ctx.violation("are_connected: " + bad, {"kind": "adjacency", "adj": d["adj"]}, key="connected")
    return [{k: (v[:800] if isinstance(v, str) else v) for k, v in d.items()} for d in dis]


def oracle_adjacency(adj):
    """are_connected on a symmetric in-range adjacency must equal union-find connectivity"""
    n = len(adj)
    if n == 0 or any(j >= n or j < 0 for b in adj for j in b):
        return ""
    if any(i not in adj[j] for i, b in enumerate(adj) for j in b):
        return ""      # not a bond graph (directed): outside the property
    oc = ic.obs_connected(adj)
    want = ic.components(n, [(i, j) for i, b in enumerate(adj) for j in b]) == 1
    if oc != ("ok", want):
        return "got %s, graph connected = %s" % (oc, want)
    return ""


# ------------------------------------------------------------------ S
def oracle(ctx, scale):
    rs = ctx.np_rng("S%d" % scale)
    S = ctx.cov["S"]
    n_files = ctx.n(60, 400) * scale
    fails = 0
    hist = {}
    for _ in range(n_files):
        n = int(rs.randint(1, 61)) if rs.randint(0, 5) else int(rs.randint(61, ctx.n(400, 1500)))
        shape = ic.pick(rs, ic.SHAPES)
        t, text = make_case(rs, n, shape, deco=True, selfbond=rs.randint(0, 10) == 0)
        _, bad = check_generated(ctx, text, ic.expected_topology(t), crlf=rs.randint(0, 10) == 0, label="%s n=%d" % (shape, n))
        hist[shape] = hist.get(shape, 0) + 1
        ctx.count(("S", text))
        fails += bool(bad)
    # copy after mutation through the public API / after the file is gone
    nm = ctx.n(60, 600) * scale
    for _ in range(nm):
        n = int(rs.randint(1, 40))
        t, text = make_case(rs, n, ic.pick(rs, ic.SHAPES), deco=bool(rs.randint(0, 2)))
        bad, _, _ = check_mutated_copy(ctx, text, gen_ops(rs, n), ic.pick(rs, ["keep", "keep", "delete", "overwrite"]))
        fails += bool(bad)
    S["mutated_copies_x%d" % scale] = nm
    # same-path call histories
    nh = ctx.n(25, 200) * scale
    fails += check_history(ctx, rs, nh)
    S["same_path_histories_x%d" % scale] = nh
    # walk lengths around the recursion limit, from deeper stacks, under lowered limits
    for _ in range(scale):
        fails += check_recursion_limit(ctx, rs)
    S["recursion_limit_cases_x%d" % scale] = len(recursion_limit_cases(rs, ctx.quick)) * scale
    # size boundaries: see ic.boundary_graphs
    nb = 0
    for _ in range(scale):
        for label, n, bonds in ic.boundary_graphs(rs):
            t = ic.gen_topology(rs, n, label, deco=False, bonds=bonds, spread=True)
            text = ic.render_topology(rs, t, deco=False)
            _, bad = check_generated(ctx, text, ic.expected_topology(t), key="size_boundary", label="%s (%d atoms)" % (label, n))
            kind = label.rsplit("_", 1)[0]
            hist["boundary:" + kind] = hist.get("boundary:" + kind, 0) + 1
            ctx.count(("Sb", label, text))
            fails += bool(bad)
            nb += 1
    S["size_boundary_files_x%d" % scale] = nb
    # shipped molecules: connected by construction of the package data; copy semantics
    from gaddlemaps.components import MoleculeTop
    for p in ic.shipped_topologies(include_large=not ctx.quick):
        try:
            bad = oracle_copy(MoleculeTop(p))
        except Exception as ex:   # noqa: BLE001
            bad = ["MoleculeTop raised %s" % type(ex).__name__]
        if bad:
            fails += 1
            ctx.violation("copy of shipped topology: " + "; ".join(bad), {"kind": "shipped_copy", "path": p}, key="copy")
    S["generated_files_x%d" % scale] = n_files
    S["shapes"] = hist
    S["failures"] = S.get("failures", 0) + fails


def replay(ctx, obj):
    r = obj["replay"]
    if r.get("kind") == "topology" and r.get("truth"):
        tr = r["truth"]
        path = ic.write_text(r["text"], crlf=bool(r.get("crlf")))
        bad = oracle_topology(path, (tr[0], [tuple(a) for a in tr[1]], [tuple(b) for b in tr[2]]))
    elif r.get("kind") == "conn_context":
        tr = r["truth"]
        bad = oracle_conn_context(r["text"], (tr[0], [tuple(a) for a in tr[1]], [tuple(b) for b in tr[2]]),
                                  r.get("depth", 0), r.get("reclimit"))[0]
    elif r.get("kind") == "mutated_copy":
        bad = mutated_copy(r["text"], r["ops"], r["file"])[0]
    elif r.get("kind") == "history":
        tr = r["truth"]
        bad = replay_history(r["texts"], (tr[0], [tuple(a) for a in tr[1]], [tuple(b) for b in tr[2]]))
    elif r.get("kind") == "adjacency":
        b = oracle_adjacency(r["adj"])
        bad = [b] if b else []
    elif r.get("kind") == "shipped_copy":
        from gaddlemaps.components import MoleculeTop
        bad = oracle_copy(MoleculeTop(r["path"]))
    else:
        print("replay names a proof/correspondence, not an input:", str(r)[:500])
        return False
    print(bad)
    return not bad


def finish(ctx):
    ctx.assumptions = [
        "ASCII text; Python's universal-newline file iterator and utf-8 decoding are runtime behaviour (the model starts from "
        "the decoded text); str.strip/split/int/float semantics of CPython are modelled in Base/StrItp.v and compared on every "
        "generated token by K (C16), not proved; int()'s 4300-digit limit is not modelled",
        "Python set iteration order is arbitrary: C15_connected is proved for every adjacency order, K feeds the "
        "implementation's actual order into the model",
        "object identity of copies is proved in a small heap model (Model/TopHeap.v) and tested on the implementation by S",
    ]
    return ctx.finish(level="proof", rule=RULE,
                      trusted=["hand transcription of _itp_parse.py/_top_parsers.py/_components_top.py/are_connected into "
                               "coq/Model/Itp.v, Topology.v (tied by K)",
                               "the two regular expressions of _itp_parse.py written out as string functions (re_header, re_group)"])
