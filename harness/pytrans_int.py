"""Fail-closed translator for the small integer/list kernels of gaddlemaps/_alignment.py
(_split_list, guess_residue_restrains) to Gallina over nat (second tie, DESIGN.md section 10).

Subset.  Types: N (non-negative int), L (list of N), LL (list of lists), LP (list of pairs), SIZED (an object
used only through len()).  Expressions: names, int literals, + * //, len(), min(), range()/list(range()),
l[a:b], tuples, list comprehensions with one or two generators, zip(), calls of already translated functions.
Statements: assignment (also annotated), `for (a, b) in zip(X, Y): acc += <list>` (accumulation that does not
read acc), return.
`//`: Python raises ZeroDivisionError on a zero divisor, Nat.div returns 0.  The translator accepts a division
only when its divisor is the name that bounds an enclosing `range(divisor)` generator (the comprehension is then
empty when the divisor is 0 and the division is never evaluated); anything else is Unsupported.
"""
import ast
import textwrap


class Unsupported(Exception):
    pass


N, L, LL, LP, SIZED, P2 = "N", "L", "LL", "LP", "SIZED", "P2"
COQ_TY = {N: "nat", L: "list nat", LL: "list (list nat)", LP: "list (nat * nat)"}
ELEM = {L: N, LL: L, LP: P2}


class Tr:
    def __init__(self, known):
        self.known = known       # python function name -> (coq name, arg types, result type)
        self.range_bounds = []   # names bounding enclosing range() generators

    def expr(self, n, env):
        if isinstance(n, ast.Name):
            if n.id not in env:
                raise Unsupported("unknown name %s" % n.id)
            return env[n.id]
        if isinstance(n, ast.Constant) and isinstance(n.value, int) and not isinstance(n.value, bool) and n.value >= 0:
            return "%d" % n.value, N
        if isinstance(n, ast.List) and not n.elts:
            return "[]", None     # type fixed by the annotation / use
        if isinstance(n, ast.Tuple) and len(n.elts) == 2:
            a, ta = self.expr(n.elts[0], env)
            b, tb = self.expr(n.elts[1], env)
            if ta != N or tb != N:
                raise Unsupported("tuple of non-integers")
            return "(%s, %s)" % (a, b), P2
        if isinstance(n, ast.BinOp):
            a, ta = self.expr(n.left, env)
            b, tb = self.expr(n.right, env)
            if ta != N or tb != N:
                raise Unsupported("arithmetic on non-integers")
            if isinstance(n.op, ast.Add):
                return "(%s + %s)" % (a, b), N
            if isinstance(n.op, ast.Mult):
                return "(%s * %s)" % (a, b), N
            if isinstance(n.op, ast.FloorDiv):
                if not (isinstance(n.right, ast.Name) and n.right.id in self.range_bounds):
                    raise Unsupported("floor division whose divisor does not bound an enclosing range()")
                return "(%s / %s)" % (a, b), N
            raise Unsupported("operator %s" % type(n.op).__name__)
        if isinstance(n, ast.Subscript) and isinstance(n.slice, ast.Slice) and n.slice.step is None \
                and n.slice.lower is not None and n.slice.upper is not None:
            l, tl = self.expr(n.value, env)
            if tl not in (L,):
                raise Unsupported("slice of %s" % tl)
            a, ta = self.expr(n.slice.lower, env)
            b, tb = self.expr(n.slice.upper, env)
            if ta != N or tb != N:
                raise Unsupported("slice bounds")
            return "(slice_gen %s %s %s)" % (l, a, b), tl
        if isinstance(n, ast.Call) and isinstance(n.func, ast.Name):
            f = n.func.id
            if f == "len" and len(n.args) == 1 and isinstance(n.args[0], ast.Name):
                nm = n.args[0].id
                if nm in env and env[nm][1] == SIZED:
                    return "len_%s" % nm, N
                t, ty = self.expr(n.args[0], env)
                if ty in (L, LL, LP):
                    return "(List.length %s)" % t, N
                raise Unsupported("len of %s" % ty)
            if f == "min" and len(n.args) == 2:
                a, ta = self.expr(n.args[0], env)
                b, tb = self.expr(n.args[1], env)
                if ta != N or tb != N:
                    raise Unsupported("min of non-integers")
                return "(Nat.min %s %s)" % (a, b), N
            if f == "range" and len(n.args) == 1:
                a, ta = self.expr(n.args[0], env)
                if ta != N:
                    raise Unsupported("range bound")
                return "(seq 0 %s)" % a, L
            if f == "list" and len(n.args) == 1:
                t, ty = self.expr(n.args[0], env)
                if ty != L:
                    raise Unsupported("list() of %s" % ty)
                return t, L
            if f in self.known and len(n.args) == len(self.known[f][1]):
                cn, atys, rty = self.known[f]
                ts = []
                for a, want in zip(n.args, atys):
                    t, ty = self.expr(a, env)
                    if ty != want:
                        raise Unsupported("argument type of %s" % f)
                    ts.append(t)
                return "(%s %s)" % (cn, " ".join(ts)), rty
            raise Unsupported("call %s" % f)
        if isinstance(n, ast.ListComp):
            gens = n.generators
            if not 1 <= len(gens) <= 2 or any(g.ifs or g.is_async for g in gens):
                raise Unsupported("comprehension form")
            env2 = dict(env)
            parts = []
            pushed = 0
            for g in gens:
                if not isinstance(g.target, ast.Name):
                    raise Unsupported("comprehension target")
                it, tit = self.expr(g.iter, env2)
                if tit not in ELEM or ELEM[tit] != N:
                    raise Unsupported("comprehension over %s" % tit)
                if isinstance(g.iter, ast.Call) and isinstance(g.iter.func, ast.Name) and g.iter.func.id == "range" \
                        and isinstance(g.iter.args[0], ast.Name):
                    self.range_bounds.append(g.iter.args[0].id)
                    pushed += 1
                env2[g.target.id] = (g.target.id, N)
                parts.append((g.target.id, it))
            e, te = self.expr(n.elt, env2)
            for _ in range(pushed):
                self.range_bounds.pop()
            rty = {N: L, L: LL, P2: LP}.get(te)
            if rty is None:
                raise Unsupported("comprehension element type %s" % te)
            if len(parts) == 1:
                return "(map (fun %s => %s) %s)" % (parts[0][0], e, parts[0][1]), rty
            return "(flat_map (fun %s => map (fun %s => %s) %s) %s)" % (parts[0][0], parts[1][0], e, parts[1][1], parts[0][1]), rty
        raise Unsupported("expression %s" % type(n).__name__)

    def block(self, stmts, env):
        if not stmts:
            raise Unsupported("function without return")
        s, rest = stmts[0], stmts[1:]
        if isinstance(s, ast.Expr) and isinstance(s.value, ast.Constant) and isinstance(s.value.value, str):
            return self.block(rest, env)
        if isinstance(s, ast.Return):
            if rest:
                raise Unsupported("statements after return")
            t, ty = self.expr(s.value, env)
            return t, ty
        if isinstance(s, (ast.Assign, ast.AnnAssign)):
            tgt = s.targets[0] if isinstance(s, ast.Assign) else s.target
            if isinstance(s, ast.Assign) and len(s.targets) != 1 or not isinstance(tgt, ast.Name):
                raise Unsupported("assignment form")
            t, ty = self.expr(s.value, env)
            if ty is None:    # empty list literal: the type comes from the following accumulation
                ty = "EMPTY"
            env2 = dict(env)
            env2[tgt.id] = (tgt.id, ty)
            if ty == "EMPTY":
                return self.block(rest, env2)
            body, rty = self.block(rest, env2)
            return "let %s := %s in\n%s" % (tgt.id, t, body), rty
        if isinstance(s, ast.For):
            # for (a, b) in zip(X, Y): acc += <list expression not reading acc>
            ok = (isinstance(s.target, ast.Tuple) and len(s.target.elts) == 2
                  and all(isinstance(e, ast.Name) for e in s.target.elts)
                  and isinstance(s.iter, ast.Call) and isinstance(s.iter.func, ast.Name) and s.iter.func.id == "zip"
                  and len(s.iter.args) == 2 and not s.orelse and len(s.body) == 1
                  and isinstance(s.body[0], ast.AugAssign) and isinstance(s.body[0].op, ast.Add)
                  and isinstance(s.body[0].target, ast.Name))
            if not ok:
                raise Unsupported("for loop outside the accumulation pattern")
            acc = s.body[0].target.id
            if acc not in env or env[acc][1] not in ("EMPTY", LP):
                raise Unsupported("accumulator %s" % acc)
            if any(isinstance(x, ast.Name) and x.id == acc for x in ast.walk(s.body[0].value)):
                raise Unsupported("accumulation reads the accumulator")
            x, tx = self.expr(s.iter.args[0], env)
            y, ty = self.expr(s.iter.args[1], env)
            if tx != LL or ty != LL:
                raise Unsupported("zip of %s and %s" % (tx, ty))
            a, b = s.target.elts[0].id, s.target.elts[1].id
            env_in = dict(env)
            env_in[a] = ("(fst g__)", L)
            env_in[b] = ("(snd g__)", L)
            e, te = self.expr(s.body[0].value, env_in)
            if te != LP:
                raise Unsupported("accumulated value type %s" % te)
            loop = "(flat_map (fun g__ : list nat * list nat => %s) (combine %s %s))" % (e, x, y)
            env2 = dict(env)
            if env[acc][1] == "EMPTY":
                val = loop
            else:
                val = "(%s ++ %s)" % (env[acc][0], loop)
            env2[acc] = (acc, LP)
            body, rty = self.block(rest, env2)
            return "let %s := %s in\n%s" % (acc, val, body), rty
        raise Unsupported("statement %s" % type(s).__name__)


def translate(source, pyname, coqname, params, known):
    tree = ast.parse(textwrap.dedent(source))
    node = next((n for n in ast.walk(tree) if isinstance(n, ast.FunctionDef) and n.name == pyname), None)
    if node is None:
        raise Unsupported("function %s not found" % pyname)
    if [a.arg for a in node.args.args] != [p for p, _ in params]:
        raise Unsupported("%s: parameters changed" % pyname)
    env, binders = {}, []
    for p, ty in params:
        env[p] = (p, ty)
        binders.append("(len_%s : nat)" % p if ty == SIZED else "(%s : %s)" % (p, COQ_TY[ty]))
    tr = Tr(known)
    body, rty = tr.block(node.body, env)
    defaults = [d.value for d in node.args.defaults if isinstance(d, ast.Constant)]
    txt = "Definition %s %s : %s :=\n%s.\n" % (coqname, " ".join(binders), COQ_TY[rty], textwrap.indent(body, "  "))
    return txt, rty, defaults


HEADER = """(* GENERATED at every run from the source text of /repo by harness/pytrans_int.py.  Do not edit. *)
From Coq Require Import Arith List.
Import ListNotations.

(* alist[a:b] for 0 <= a <= b *)
Definition slice_gen (l : list nat) (a b : nat) : list nat := firstn (b - a) (skipn a l).

"""


def generate(repo):
    import os
    src = open(os.path.join(repo, "gaddlemaps", "_alignment.py")).read()
    out = [HEADER]
    known = {}
    t, rty, _ = translate(src, "_split_list", "split_list_gen", [("alist", L), ("wanted_parts", N)], known)
    out.append(t)
    known["_split_list"] = ("split_list_gen", [L, N], rty)
    t, rty, defaults = translate(src, "guess_residue_restrains", "guess_residue_restrains_gen",
                                 [("res1", SIZED), ("res2", SIZED), ("offset1", N), ("offset2", N)], known)
    out.append(t)
    out.append("Definition guess_residue_restrains_gen_defaults : list nat := [%s].\n" % "; ".join(str(d) for d in defaults))
    return "\n".join(out)


if __name__ == "__main__":
    import sys
    print(generate(sys.argv[1] if len(sys.argv) > 1 else "/repo"))
